"""C11 — gradients pass straight through quantization and match the float linear backward.

For unfrozen QLinear / QConv2d (all weight qtypes, activations None/qint8/qfloat8, input ranks 2-4,
random and exact-arithmetic upstream gradients): the gradients reaching the float weight, bias and
input are compared with those of the float module evaluated with the dequantized quantized weight
on the (de)quantized input (torch autograd is its own reference; bit equality on exact-arithmetic
sets, rounding-level tolerance otherwise).  Frozen weights and scales receive no gradient; an
optimizer step is reflected by the next forward."""
import torch
from common import *


def make(rng, kind, dt):
    if kind == "linear":
        inf, outf = rng.choice([4, 7, 160]), rng.choice([1, 5])
        m = torch.nn.Linear(inf, outf, bias=rng.random() < 0.7)
        xs = rng.choice([[3], [2, 3], [2, 2, 3]]) + [inf]
    else:
        groups = rng.choice([1, 2])
        m = torch.nn.Conv2d(4, 4, rng.choice([1, 3]), stride=rng.choice([1, 2]), padding=rng.choice([0, 1]), groups=groups, bias=rng.random() < 0.7)
        xs = [2, 4, 6, 5]
    return m.to(dt), xs


def dyadic(shape, g, dt, scale=4):
    return (torch.randint(-8, 9, shape, generator=g).float() / scale).to(dt)


def close(a, b, dt, exact):
    if a is None or b is None:
        return a is None and b is None
    if a.shape != b.shape:
        return False
    if exact:
        return bits_of(a.float()) == bits_of(b.float())
    u = {torch.float32: 2.0 ** -20, torch.float16: 2.0 ** -8, torch.bfloat16: 2.0 ** -5}[dt]
    return bool(((a.double() - b.double()).abs() <= u * (a.double().abs() + b.double().abs()) + u * float(b.double().abs().max()) + 1e-30).all())


def run(ctx):
    import optimum.quanto as q
    from optimum.quanto import QBytesTensor, QTensor, freeze, quantize
    lean_obligations(ctx)
    rng = ctx.rng
    g = torch.Generator().manual_seed(ctx.seed + 5)
    ctx.extra["rule"] = ("seeded QLinear / QConv2d twins, weights in all six qtypes, activations None/qint8/qfloat8 e4m3/e5m2, input ranks 2-4, float32 (exact-arithmetic dyadic operands: bit-exact) and float16/bfloat16/float32 random operands; "
                         "frozen and unfrozen; sequences of SGD steps interleaved with forwards. distinct = (kind, qtypes, dtype, shapes, exact?); non-trivial = all")
    n = 200 if not ctx.thorough else 2000
    for _ in range(n):
        kind = rng.choice(["linear", "conv"])
        exact = rng.random() < 0.4
        dt = torch.float32 if exact else rng.choice([torch.float32, torch.float16, torch.bfloat16])
        torch.manual_seed(rng.getrandbits(30))
        fm, xs = make(rng, kind, dt)
        if kind == "linear" and not exact and rng.random() < 0.12:
            # many rows (a gradient accumulated by blocks must still cover every row)
            xs = [rng.choice([1029, 1500, 2050, 3073])] + xs[-1:] if rng.random() < 0.5 else [rng.choice([3, 5]), rng.choice([411, 613])] + xs[-1:]
        wq = rng.choice(["qint2", "qint4", "qint8", "qfloat8", "qfloat8_e4m3fn", "qfloat8_e5m2"])
        aq = rng.choice([None, None, "qint8", "qfloat8_e4m3fn", "qfloat8_e5m2"])
        if exact:
            with torch.no_grad():
                fm.weight.copy_(dyadic(fm.weight.shape, g, dt, 8))
                if fm.bias is not None:
                    fm.bias.copy_(dyadic(fm.bias.shape, g, dt, 2))
        model = torch.nn.Sequential(fm)
        quantize(model, weights=q.qtypes[wq], activations=None if aq is None else q.qtypes[aq])
        qm = model[0]
        x = (dyadic(xs, g, dt) if exact else torch.randn(xs, generator=g).to(dt)).requires_grad_(True)
        if aq is not None:
            a = q.qtypes[aq]
            with torch.no_grad():
                qm.input_scale.fill_(2.0 ** -4 if exact else float(x.abs().max()) / float(torch.finfo(a.dtype).max if a.is_floating_point else 127))
                qm.output_scale.fill_(2.0 ** -2 if exact else 0.05)
        cfg = {"kind": kind, "weights": wq, "activations": aq, "dtype": str(dt), "x_shape": xs, "exact": exact}
        try:
            out = qm(x)
            od = out.dequantize() if isinstance(out, QTensor) else out
            gO = dyadic(list(od.shape), g, dt, 2) if exact else torch.randn(od.shape, generator=g).to(dt)
            od.backward(gO)
        except Exception as e:  # noqa
            ctx.spec_failures.append((f"C11:backward-raises:{kind}:{exc_name(e)}", dict(cfg, message=str(e)[:200])))
            continue
        gi, gw, gb = x.grad, qm.weight.grad, (qm.bias.grad if qm.bias is not None else None)
        # ---- reference: float module on the dequantized weight and (de)quantized input
        with torch.no_grad():
            wdeq = qm.qweight.dequantize().detach().clone()
            if aq is not None:
                xq = q.quantize_activation(x.detach(), q.qtypes[aq], qm.input_scale).dequantize()
            else:
                xq = x.detach().clone()
        xr = xq.clone().requires_grad_(True)
        wr = wdeq.requires_grad_(True)
        br = qm.bias.detach().clone().requires_grad_(True) if qm.bias is not None else None
        if kind == "linear":
            refo = torch.nn.functional.linear(xr, wr, br)
        else:
            refo = qm._conv_forward(xr, wr, br)
        refo.backward(gO)
        ctx.evaluations += 1
        ctx.count(f"{kind}:w={wq}:a={aq}:{'exact' if exact else 'random'}:{str(dt).split('.')[-1]}")
        ctx.nontriv(tuple(str(v) for v in cfg.values()))
        for name, a_, b_ in (("input", gi, xr.grad), ("weight", gw, wr.grad), ("bias", gb, br.grad if br is not None else None)):
            if not close(a_, b_, dt, exact):
                md = None if (a_ is None or b_ is None or a_.shape != b_.shape) else float((a_.double() - b_.double()).abs().max())
                ctx.spec_failures.append((f"C11:gradient-differs:{name}:{kind}", dict(cfg, max_diff=md, got_none=a_ is None, ref_none=b_ is None)))
        for sname in ("input_scale", "output_scale"):
            if getattr(qm, sname).grad is not None or getattr(qm, sname).requires_grad:
                ctx.spec_failures.append(("C11:scale-receives-gradient", dict(cfg, scale=sname)))
        # ---- weight not trainable (requires_grad False): bias and input still get their gradients
        if qm.bias is not None and rng.random() < 0.5:
            qm.weight.requires_grad_(False)
            qm.bias.grad = None
            x4 = x.detach().clone().requires_grad_(True)
            try:
                o4 = qm(x4)
                o4 = o4.dequantize() if isinstance(o4, QTensor) else o4
                o4.backward(gO)
                if not close(qm.bias.grad, br.grad, dt, exact) or not close(x4.grad, xr.grad, dt, exact):
                    ctx.spec_failures.append((f"C11:gradient-differs:weight-not-trainable:{kind}", dict(cfg, bias_none=qm.bias.grad is None, input_none=x4.grad is None)))
            except Exception as e:  # noqa
                ctx.spec_failures.append((f"C11:backward-raises:{kind}:{exc_name(e)}", dict(cfg, message=str(e)[:200])))
            qm.weight.requires_grad_(True)
            ctx.evaluations += 1
        # ---- freshness: an optimizer step is seen by the next forward
        with torch.no_grad():
            qm.weight -= 0.25 * (qm.weight.grad if qm.weight.grad is not None else torch.zeros_like(qm.weight))
            new_q = q.quantize_weight(qm.weight, qm.weight_qtype, 0, qm.weight_group_size)
            out2 = qm(x.detach())
            od2 = out2.dequantize() if isinstance(out2, QTensor) else out2
            xin = x.detach()
            if aq is not None:
                xin = q.quantize_activation(xin, q.qtypes[aq], qm.input_scale)
            ref2 = torch.nn.functional.linear(xin, new_q, qm.bias) if kind == "linear" else qm._conv_forward(xin, new_q, qm.bias)
            if aq is not None:
                ref2 = q.quantize_activation(ref2.dequantize() if isinstance(ref2, QTensor) else ref2, q.qtypes[aq], qm.output_scale).dequantize()
            if bits_of(od2) != bits_of(ref2):
                ctx.spec_failures.append(("C11:optimizer-step-not-reflected", dict(cfg)))
            # other update styles: through .data (no version bump), then again a graph-less forward
            qm(x.detach())
            qm.weight.data.mul_(0.5).add_(0.125)
            new_q = q.quantize_weight(qm.weight, qm.weight_qtype, 0, qm.weight_group_size)
            out3 = qm(x.detach())
            od3 = out3.dequantize() if isinstance(out3, QTensor) else out3
            ref3 = torch.nn.functional.linear(xin, new_q, qm.bias) if kind == "linear" else qm._conv_forward(xin, new_q, qm.bias)
            if aq is not None:
                ref3 = q.quantize_activation(ref3.dequantize() if isinstance(ref3, QTensor) else ref3, q.qtypes[aq], qm.output_scale).dequantize()
            if bits_of(od3) != bits_of(ref3):
                ctx.spec_failures.append(("C11:weight-update-through-data-not-reflected", dict(cfg)))
        # ---- frozen: no gradient for the weight
        if rng.random() < 0.5:
            freeze(model)
            x2 = x.detach().clone().requires_grad_(True)
            try:
                o = qm(x2)
                o = o.dequantize() if isinstance(o, QTensor) else o
                o.backward(torch.ones_like(o))
                if qm.weight.grad is not None or qm.weight.requires_grad:
                    ctx.spec_failures.append(("C11:frozen-weight-receives-gradient", dict(cfg, requires_grad=qm.weight.requires_grad, has_grad=qm.weight.grad is not None)))
                if x2.grad is None:
                    ctx.spec_failures.append(("C11:no-input-gradient-through-frozen-module", dict(cfg)))
                # bias and input gradients of the frozen module still equal those of the float module
                with torch.no_grad():
                    wd = qm.weight.dequantize().detach()
                    xq2 = q.quantize_activation(x.detach(), q.qtypes[aq], qm.input_scale).dequantize() if aq is not None else x.detach().clone()
                xr2 = xq2.clone().requires_grad_(True)
                br2 = qm.bias.detach().clone().requires_grad_(True) if qm.bias is not None else None
                ro = torch.nn.functional.linear(xr2, wd, br2) if kind == "linear" else qm._conv_forward(xr2, wd, br2)
                ro.backward(torch.ones_like(ro))
                if qm.bias is not None:
                    qm.bias.grad = None
                    x3 = x.detach().clone().requires_grad_(True)
                    o3 = qm(x3)
                    o3 = o3.dequantize() if isinstance(o3, QTensor) else o3
                    o3.backward(torch.ones_like(o3))
                    if not close(qm.bias.grad, br2.grad, dt, exact):
                        ctx.spec_failures.append((f"C11:gradient-differs:bias:{kind}:frozen", dict(cfg, got_none=qm.bias.grad is None)))
                    if not close(x3.grad, xr2.grad, dt, exact):
                        ctx.spec_failures.append((f"C11:gradient-differs:input:{kind}:frozen", dict(cfg)))
            except Exception as e:  # noqa
                ctx.spec_failures.append((f"C11:frozen-backward-raises:{exc_name(e)}", dict(cfg, message=str(e)[:200])))
            ctx.evaluations += 1
    ctx.sample({"note": "cases are (module kind, qtypes, dtype, input shape, exact-arithmetic?) tuples", "example": list(ctx.hist.items())[:3]})
    # the repaired defect must stay repaired, also for weights restored from a state_dict
    m = torch.nn.Sequential(torch.nn.Linear(4, 3))
    quantize(m, weights=q.qint8)
    freeze(m)
    m2 = torch.nn.Sequential(torch.nn.Linear(4, 3))
    quantize(m2, weights=q.qint8)
    m2.load_state_dict(m.state_dict())
    for mm_, tag in ((m, "frozen"), (m2, "loaded")):
        xx = torch.randn(2, 4, requires_grad=True)
        mm_(xx).sum().backward()
        ctx.evaluations += 1
        if mm_[0].weight.requires_grad or mm_[0].weight.grad is not None:
            ctx.spec_failures.append(("C11:frozen-weight-receives-gradient", {"directed": tag}))
    return finish(ctx, ["torch's autograd engine is trusted; the float backward of linear / conv2d is torch's own", "bit equality is demanded on exact-arithmetic operand sets, rounding-level agreement otherwise"])

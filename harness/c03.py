"""C03 — scale selection is non-saturating, full-range and local to its axis/group.

Correspondence: AbsmaxOptimizer (via quantize_weight), absmax_scale (calibration) and MaxOptimizer
scales from the real code vs the Lean model (`absmax`, `aff`), bit-exact.  Spec oracle: `spec03`
(8-bit) / `spec02` step bound (2/4-bit) in exact rationals; locality by metamorphic equality on
the implementation (perturb / rescale / permute the other slices)."""
import torch
from common import *
from affine_common import *
import c01

QMAX = {"qint8": 127, "e4m3": 448, "e5m2": 57344}


def q8(name):
    import optimum.quanto as q
    return q.qtypes[c01.QT[name]]


def slice_view(t, axis, k):
    return t[k] if axis == 0 else t[..., k]


def impl_weight8(F, Q, axis, x):
    import optimum.quanto as q
    try:
        qb = q.quantize_weight(x, q8(Q), axis)
        return qb
    except Exception as e:  # noqa
        return "err " + exc_name(e)


def metamorphic_8bit(ctx, F, Q, axis, x):
    """slice k untouched, others perturbed / rescaled / permuted → same codes and scale for slice k"""
    rng = ctx.rng
    qa = impl_weight8(F, Q, axis, x)
    if isinstance(qa, str) or qa.axis is None:
        return
    n = x.shape[0] if axis == 0 else x.shape[-1]
    if n < 2:
        return
    k = rng.randrange(n)
    kind = rng.choice(["perturb", "rescale", "permute"])
    y = x.clone()
    idx = [i for i in range(n) if i != k]
    if kind == "perturb":
        for i in idx:
            slice_view(y, axis, i).mul_(rng.choice([0.0, 0.5, 3.0, -7.0, 1000.0])).add_(rng.choice([0.0, 1.0, -100.0]))
        mapk = k
    elif kind == "rescale":
        f = 10.0 ** rng.uniform(-4, 4)
        for i in idx:
            slice_view(y, axis, i).mul_(f)
        mapk = k
    else:
        perm = list(range(n))
        rng.shuffle(perm)
        y = x[perm] if axis == 0 else x[..., perm]
        mapk = perm.index(k)
    y = torch.where(torch.isfinite(y), y, torch.zeros_like(y))
    qb = impl_weight8(F, Q, axis, y)
    ctx.evaluations += 1
    ctx.count(f"metamorphic8:{kind}")
    ctx.nontriv(("meta8", F, Q, axis, tuple(x.shape), kind, k, hashlib.md5(str(bits_of(x, F)).encode()).hexdigest()))
    if isinstance(qb, str) or qb.axis != qa.axis:
        ctx.spec_failures.append(("C03:locality-8bit", {"kind": kind, "F": F, "Q": Q, "axis": axis, "shape": list(x.shape), "note": "second quantization failed or changed axis"}))
        return
    ca = bits_of(slice_view(qa._data, axis, k), None) if Q != "qint8" else slice_view(qa._data, axis, k).reshape(-1).tolist()
    cb = bits_of(slice_view(qb._data, axis, mapk), None) if Q != "qint8" else slice_view(qb._data, axis, mapk).reshape(-1).tolist()
    sa = bits_of(slice_view(qa._scale, axis, k), F)
    sb = bits_of(slice_view(qb._scale, axis, mapk), F)
    if ca != cb or sa != sb:
        ctx.spec_failures.append(("C03:locality-8bit", {"kind": kind, "F": F, "Q": Q, "axis": axis, "shape": list(x.shape), "slice": k,
                                                      "x_bits": bits_of(x, F)[:64], "codes_before": ca[:16], "codes_after": cb[:16], "scale_before": sa, "scale_after": sb}))


def metamorphic_4bit(ctx, F, bits, x, gs):
    """axis 0 rows: row k untouched, other rows perturbed → row k's codes/scales/zero-points unchanged"""
    import optimum.quanto as q
    rng = ctx.rng
    qt = q.qint2 if bits == 2 else q.qint4
    n = x.shape[0]
    if n < 2:
        return
    k = rng.randrange(n)
    y = x.clone()
    for i in range(n):
        if i != k:
            y[i].mul_(rng.choice([0.0, 0.25, 5.0, -3.0])).add_(rng.choice([0.0, 2.0, -50.0]))
    try:
        qa = q.quantize_weight(x, qt, 0, gs)
        qb = q.quantize_weight(y, qt, 0, gs)
    except Exception as e:  # noqa
        return
    ctx.evaluations += 1
    ctx.count("metamorphic4:perturb")
    ctx.nontriv(("meta4", F, bits, tuple(x.shape), gs, k, hashlib.md5(str(bits_of(x, F)).encode()).hexdigest()))
    per = x.numel() // n
    ng = per // gs if gs else 1
    ua, ub = qa._data.unpack(), qb._data.unpack()
    if gs:
        rows = slice(k * ng, (k + 1) * ng)
        same = torch.equal(ua[rows], ub[rows]) and bits_of(qa._scale[rows], F) == bits_of(qb._scale[rows], F) and torch.equal(qa._zeropoint[rows], qb._zeropoint[rows])
    else:
        same = torch.equal(ua[k], ub[k]) and bits_of(qa._scale[k], F) == bits_of(qb._scale[k], F) and torch.equal(qa._zeropoint[k], qb._zeropoint[k])
    if not same:
        ctx.spec_failures.append(("C03:locality-4bit", {"F": F, "bits": bits, "shape": list(x.shape), "group_size": gs, "row": k, "x_bits": bits_of(x, F)[:64]}))


def run(ctx):
    from optimum.quanto import absmax_scale
    lean_obligations(ctx)
    rng = ctx.rng
    ctx.extra["rule"] = ("seeded random tensors of rank 1-4, non-square, slices drawn from 8 row classes with ranges spread over 6 decades; AbsmaxOptimizer via quantize_weight (3 qtypes, axis 0/-1), "
                         "absmax_scale (3 qtypes, axis None/0/-1), MaxOptimizer (bits 2/4, groups); metamorphic triples (perturb/rescale/permute other slices). "
                         "distinct = (site,F,Q,axis,shape,data hash); non-trivial = non-square or non-'mixed' row class or metamorphic case")
    n = 400 if not ctx.thorough else 20000
    lines, expect, meta = [], [], []
    spec_lines, spec_meta = [], []
    for i in range(n):
        F = rng.choice(["f32", "f16", "bf16"])
        Q = rng.choice(list(QMAX))
        x, axis, gs, names = rand_weight(rng, F)
        xb = list_s(bits_of(x, F))
        h = hashlib.md5(xb.encode()).hexdigest()
        site = rng.choice(["weight8", "weight8", "absmax_scale", "maxopt"])
        if site == "weight8":
            qb = impl_weight8(F, Q, axis, x)
            ctx.evaluations += 1
            if isinstance(qb, str):
                ctx.count(f"weight8:{qb}")
                continue
            eff_axis = "none" if qb.axis is None else str(qb.axis)
            # the optimizer is called with the effective axis; its divisor is 2^(bits-1)-1 = 127 for every 8-bit qtype
            lines.append(f"absmax {F} 127 {eff_axis} {shape_s(x.shape)} {xb}")
            expect.append(f"{shape_s(qb._scale.shape)} {list_s(bits_of(qb._scale, F))}")
            meta.append(("AbsmaxOptimizer", F, Q, axis, x))
            # codes: the symmetric quantizer applied with that scale (model composition)
            lines.append(f"sym {F} {Q} {eff_axis} {shape_s(x.shape)} {xb} {shape_s(qb._scale.shape)} {list_s(bits_of(qb._scale, F))}")
            d = qb.dequantize()
            expect.append(("ok", eff_axis, shape_s(qb._data.shape), list_s(c01.codes_of(qb._data, Q)), shape_s(d.shape), list_s(bits_of(d, F))))
            meta.append(("weight8-codes", F, Q, axis, x))
            spec_lines.append(f"spec03 {F} {QMAX[Q]} {eff_axis} {shape_s(x.shape)} {xb} {shape_s(qb._scale.shape)} {list_s(bits_of(qb._scale, F))}")
            spec_meta.append(("AbsmaxOptimizer", F, Q, axis, x, names))
            ctx.count(f"weight8:{F}:{Q}:axis{eff_axis}")
            if qb._scale.dtype != x.dtype:
                ctx.spec_failures.append(("C03:scale-dtype", {"site": "AbsmaxOptimizer", "F": F, "got": str(qb._scale.dtype)}))
            want_n = 1 if qb.axis is None else x.shape[qb.axis]
            if qb._scale.numel() != want_n:
                ctx.spec_failures.append(("C03:scale-count:AbsmaxOptimizer", {"F": F, "shape": list(x.shape), "axis": qb.axis, "scale_shape": list(qb._scale.shape), "expected_values": want_n}))
            if rng.random() < 0.5:
                metamorphic_8bit(ctx, F, Q, axis, x)
        elif site == "absmax_scale":
            ax = rng.choice([None, 0, -1]) if x.ndim > 1 else None
            s = absmax_scale(x, q8(Q), ax)
            ctx.evaluations += 1
            axs = "none" if ax is None else str(ax)
            lines.append(f"absmax {F} {QMAX[Q]} {axs} {shape_s(x.shape)} {xb}")
            expect.append(f"{shape_s(s.shape)} {list_s(bits_of(s, F))}")
            meta.append(("absmax_scale", F, Q, ax, x))
            spec_lines.append(f"spec03 {F} {QMAX[Q]} {axs} {shape_s(x.shape)} {xb} {shape_s(s.shape)} {list_s(bits_of(s, F))}")
            spec_meta.append(("absmax_scale", F, Q, ax, x, names))
            ctx.count(f"absmax_scale:{F}:{Q}:axis{axs}")
            if s.dtype != x.dtype:
                ctx.spec_failures.append(("C03:scale-dtype", {"site": "absmax_scale", "F": F, "got": str(s.dtype)}))
            want_n = 1 if (ax is None or x.ndim < 2) else x.shape[ax]
            if s.numel() != want_n:
                ctx.spec_failures.append(("C03:scale-count:absmax_scale", {"F": F, "shape": list(x.shape), "axis": ax, "scale_shape": list(s.shape), "expected_values": want_n}))
        else:
            bits = rng.choice([2, 4])
            out, qb, d = impl_affine(F, bits, axis, gs, x)
            ctx.evaluations += 1
            lines.append(aff_line(F, bits, axis, gs, x))
            expect.append(mask_zero_scale(out, axis))
            meta.append(("maxopt", F, bits, axis, x))
            if out.startswith("ok") and qb is not None:
                # exactly one scale / zero-point per kept-axis index, or per group
                # (a rank-1 tensor has no other dimension to reduce: torch reduces over everything and the result is per-tensor)
                want_n = (x.numel() // gs) if gs else (x.shape[axis] if x.ndim > 1 else 1)
                if qb._scale.numel() != want_n or qb._zeropoint.numel() != want_n or qb._scale.dtype != x.dtype:
                    ctx.spec_failures.append(("C03:scale-count:MaxOptimizer", {"F": F, "bits": bits, "shape": list(x.shape), "axis": axis, "group_size": gs,
                                                                              "scale_shape": list(qb._scale.shape), "zeropoint_shape": list(qb._zeropoint.shape), "expected_values": want_n}))
            if out.startswith("ok") and qb is not None and qb._scale.numel() == ((x.numel() // gs) if gs else (x.shape[axis] if x.ndim > 1 else 1)):
                # no element of the tensor the range was computed from saturates by more than rounding: x/scale + zeropoint stays in
                # [0, 2^bits - 1] up to one unit (judged in float64 on the grouped view the optimizer saw)
                from optimum.quanto.tensor.qbits.group import group as _group
                xg = _group(x, axis, gs) if gs else x
                sc64, zp64 = qb._scale.double(), qb._zeropoint.double()
                ok_scale = torch.isfinite(sc64) & (sc64 > 0)
                if bool(ok_scale.all()) and bool(torch.isfinite(x.double()).all()):
                    pos = xg.double() / sc64 + zp64
                    # "more than rounding": one unit, plus the absolute (subnormal) rounding of the scale itself, which is a relative
                    # error of spacing/scale on every position
                    fi_ = torch.finfo(x.dtype)
                    slack = 1.0 + (2 ** bits) * (float(fi_.tiny) * float(fi_.eps)) / sc64
                    if bool(((pos < -slack) | (pos > (2 ** bits - 1) + slack)).any()):
                        ctx.spec_failures.append(("C03:saturates:MaxOptimizer", {"F": F, "bits": bits, "shape": list(x.shape), "axis": axis, "group_size": gs, "classes": names,
                                                                                 "worst_position": float(pos.min() if float((-pos).max()) > float(pos.max() - 2 ** bits) else pos.max()),
                                                                                 "x_bits": bits_of(x, F)[:64]}))
            if out.startswith("ok"):
                spec_lines.append(spec02_line(F, bits, axis, gs, x, out))
                spec_meta.append(("MaxOptimizer", F, bits, axis, x, names))
                ctx.count(f"maxopt:{F}:int{bits}:axis{axis}:{'grouped' if gs else 'ungrouped'}")
                if axis == 0 and x.ndim >= 2 and rng.random() < 0.6:
                    metamorphic_4bit(ctx, F, bits, x, gs)
        if x.ndim < 2 or x.shape[0] != x.shape[-1] or any(c != "mixed" for c in names):
            ctx.nontriv((site, F, Q, axis, tuple(x.shape), h))
    got = run_driver(lines)
    ctx.corr_cases += len(lines)
    for l, e, g, m in zip(lines, expect, got, meta):
        if m[0] == "weight8-codes":
            gt = g.split()
            g2 = tuple(gt[:6]) if gt and gt[0] == "ok" else tuple(gt)
            ok = (g2 == e)
        elif m[0] == "maxopt":
            ok = (mask_zero_scale(g, m[3]) == e)
        else:
            ok = (g == e)
        if not ok and len(ctx.corr_disagreements) < 20:
            ctx.corr_disagreements.append({"case": l[:1500], "impl": str(e)[:1500], "model": g[:1500], "tag": m[0]})
    ctx.sample({"line": lines[0][:300], "impl": str(expect[0])[:300]})
    sout = run_driver(spec_lines)
    for l, o, m in zip(spec_lines, sout, spec_meta):
        if o == "ok":
            continue
        site, F, Q, axis, x, names = m
        verdict = o.split()[1]
        if site == "MaxOptimizer":
            if verdict not in ("step-too-large", "scale-not-finite", "range-overflow", "saturates"):
                continue   # error bound / dequantization: C02's business
            sig = f"C03:{verdict}:MaxOptimizer"
        else:
            sig = f"C03:{verdict}:{site}:{'float8' if Q != 'qint8' else 'int8'}"
        ctx.spec_failures.append((sig, {"site": site, "F": F, "qtype_or_bits": Q, "axis": axis, "shape": list(x.shape), "classes": names, "verdict": o, "replay": l[:3000]}))
    # S4: listed findings
    for sig, f in known_signatures("C03").items():
        o = run_replay_witness(f)
        if o:
            if sig not in ctx.known_reproduced:
                ctx.known_reproduced.append(sig)
        else:
            ctx.notes.append(f"known finding {sig} no longer reproduces on its witness")
    return finish(ctx, ["CUDA kernels not executable here"])


def run_replay_witness(f):
    """witness = dict(F, Q, axis, shape, x_bits): AbsmaxOptimizer scale for a float8 weight"""
    w = f["witness"]
    if "aff" in w:
        import c02
        sigs, out, model = c02.replay_aff_line(w["aff"])
        return "C02:range-overflow" in sigs
    x = tensor_of_bits(w["x_bits"], w["F"], w["shape"])
    qb = impl_weight8(w["F"], w["Q"], w["axis"], x)
    if isinstance(qb, str):
        return False
    eff_axis = "none" if qb.axis is None else str(qb.axis)
    l = f"spec03 {w['F']} {QMAX[w['Q']]} {eff_axis} {shape_s(x.shape)} {list_s(bits_of(x, w['F']))} {shape_s(qb._scale.shape)} {list_s(bits_of(qb._scale, w['F']))}"
    o = run_driver([l])[0]
    return o != "ok" and f["signature"].split(":")[1] == o.split()[1]

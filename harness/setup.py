"""./vcheck setup — build everything from files on disk (offline)."""
import time
from common import *


def main():
    t0 = time.time()
    ok, log = lake_build([])
    print(log[-3000:])
    if not ok:
        print("setup: lake build failed")
        return 1
    print(f"setup: lake build ok in {time.time()-t0:.0f}s; driver at {DRIVER}: {os.path.exists(DRIVER)}")
    bad = grep_forbidden()
    if bad:
        print("forbidden constructs:", bad)
        return 1
    return 0

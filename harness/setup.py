"""./vcheck setup — build everything from files on disk (offline)."""
import time
from common import *


def main():
    t0 = time.time()
    ok, log = lake_build([])
    print(log[-3000:])
    if not ok:
        print("setup: lake build failed")
        return 1
    print(f"setup: lake build ok in {time.time()-t0:.0f}s; driver at {DRIVER}: {os.path.exists(DRIVER)}")
    import extract
    if extract.main():
        ok, log = lake_build([])
        if not ok:
            print(log[-3000:]); print("setup: lake build failed after regenerating Generated.lean"); return 1
    try:
        import c04
        lib, dt = c04.ensure_cpp_ext()
        print(f"setup: C++ unpack extension ready ({dt:.0f}s)")
    except Exception as e:  # noqa
        print("setup: WARNING cannot build the C++ unpack extension:", str(e)[-500:])
    bad = grep_forbidden()
    if bad:
        print("forbidden constructs:", bad)
        return 1
    return 0

"""C15 — AWQ layouts are bijective, match the reference, and denote the same weights.

Runs the unmodified AWQ modules on CPU tensors (the interpreter is re-executed with -O: the
modules only block CPU through `assert device.type == "cuda"`).  Correspondence with the Lean
model (`awq …`, `awqbits …`), per shape complete recovery of the position permutation from
index-encoding inputs; bit identity with external/awq/pack_intweight.py."""
import torch
from common import *

sys.path.insert(0, os.path.join(REPO, "external", "awq"))


def sline(t):
    return f"{shape_s(t.shape)} {list_s(t.contiguous().reshape(-1).to(torch.int64).tolist())}"


def index_passes(N, K):
    """4-bit inputs whose digits encode the flat position: pass d holds (pos >> 4d) & 15"""
    pos = torch.arange(N * K, dtype=torch.int64).reshape(N, K)
    nd = 1
    while 16 ** nd < N * K:
        nd += 1
    return [((pos >> (4 * d)) & 15).to(torch.uint8) for d in range(nd)]


def recover_perm(outs):
    """combine the digit passes of an unpacked/packed result into the position it came from"""
    acc = torch.zeros_like(outs[0], dtype=torch.int64)
    for d, o in enumerate(outs):
        acc |= (o.to(torch.int64) & 15) << (4 * d)
    return acc


def selection_cases(ctx, lines, expect, meta):
    """`QBitsTensor.create` / `optimize` on a stand-in for a CUDA device: the payload is a CPU tensor of a
    subclass whose `.device` reports cuda:0 and `torch.cuda.get_device_capability` is replaced; everything
    else (the decision, AWQBitsTensor.__init__, pack_v2) is the unmodified code."""
    import optimum.quanto as q
    from optimum.quanto.tensor.qbits import QBitsTensor
    from optimum.quanto.tensor.qbits.packed import PackedTensor

    class FakeCuda(torch.Tensor):
        device = property(lambda self: torch.device("cuda:0"))

    cap = [(8, 0)]
    saved = torch.cuda.get_device_capability
    torch.cuda.get_device_capability = lambda d=None: cap[0]
    dts = {"f16": torch.float16, "f32": torch.float32, "bf16": torch.bfloat16}
    g = torch.Generator().manual_seed(ctx.seed + 11)
    try:
        grid = []
        for qn in ("qint4", "qint2"):
            for F in ("f16", "f32", "bf16"):
                for axis in (0, -1):
                    for gs in (128, 64, 32):
                        for size in ([4, 128], [6, 128], [8, 256], [2, 256], [3, 384], [12, 128], [4, 32, 2, 2], [256], [1, 128]):
                            for dev in ("cuda", "cpu"):
                                for c in ((7, 5), (8, 0), (8, 6), (9, 0)) if dev == "cuda" else ((0, 0),):
                                    grid.append((qn, F, axis, gs, size, dev, c))
        if not ctx.thorough:
            # every configuration one condition away from selection, plus a seeded sample of the rest
            near = [x for x in grid if sum([x[0] == "qint4", x[1] == "f16", x[2] == 0, x[3] == 128, len(x[4]) == 2, x[5] == "cuda", x[6][0] >= 8]) >= 6]
            rest = [x for x in grid if x not in near]
            grid = near + ctx.rng.sample(rest, 150)
        for (qn, F, axis, gs, size, dev, c) in grid:
            numel = 1
            for d in size:
                numel *= d
            if numel % gs:
                continue
            qt = q.qtypes[qn]
            rows = numel // gs
            codes = torch.randint(0, 2 ** qt.bits, (rows, gs) if axis == 0 else (gs, rows), generator=g, dtype=torch.uint8)
            scale = (torch.rand((rows, 1) if axis == 0 else (1, rows), generator=g) + 0.5).to(dts[F])
            zp = torch.randint(0, 2 ** qt.bits, tuple(scale.shape), generator=g).to(torch.int8)
            stride = list(torch.empty(size).stride())
            cap[0] = c
            for form in ("raw", "packed"):
                if form == "raw":
                    data = codes.as_subclass(FakeCuda) if dev == "cuda" else codes
                else:
                    p0 = PackedTensor.pack(codes, qt.bits)
                    data = PackedTensor(p0._data.as_subclass(FakeCuda), qt.bits, p0.size(), p0.stride()) if dev == "cuda" else p0
                try:
                    r = QBitsTensor.create(qt, axis, gs, torch.Size(size), stride, data, scale, zp)
                    out = type(r).__name__
                except Exception as e:  # noqa
                    r, out = None, "raises"
                    ctx.count("create:raises:" + exc_name(e))
                lines.append(f"create15 {qn} {F} {axis} {gs} {shape_s(size)} {dev} {c[0]}")
                expect.append(out)
                meta.append("create")
                ctx.evaluations += 1
                ctx.count(f"create:{out}")
                ctx.nontriv(("create", qn, F, axis, gs, tuple(size), dev, c, form))
                if out == "raises":
                    ctx.spec_failures.append(("C15:create-raises:" + ("awq-selected-rows-not-multiple-of-4" if (len(size) == 2 and size[0] % 4) else "other"),
                                              {"qtype": qn, "dtype": F, "axis": axis, "group_size": gs, "size": size, "device": dev, "capability": list(c), "data": form}))
                    continue
                if out == "AWQBitsTensor":
                    # what was built denotes the same codes: unpack on the CPU copy of the payload
                    from optimum.quanto.tensor.qbits.awq.packed import unpack_v2
                    back = unpack_v2(r._data._data.as_subclass(torch.Tensor))
                    if not torch.equal(back.reshape(rows, gs), codes):
                        ctx.spec_failures.append(("C15:created-awq-holds-other-codes", {"size": size}))
                if form == "packed":
                    try:
                        o = r.optimize()
                        oc = type(o).__name__
                        # (a standard result holds the stand-in payload unpacked — an artefact of the stand-in — so only
                        # optimised results are optimised again)
                        if oc == "AWQBitsTensor":
                            oo = o.optimize()
                            if oo is not o or (out == "AWQBitsTensor" and o is not r):
                                ctx.spec_failures.append(("C15:optimize-not-idempotent", {"size": size, "first": oc, "second": type(oo).__name__}))
                    except Exception as e:  # noqa
                        oc = "raises"
                    lines.append(f"optimize15 {out} {qn} {F} {axis} {gs} {shape_s(size)} {dev} {c[0]}")
                    expect.append(oc)
                    meta.append("optimize")
                    ctx.evaluations += 1
    finally:
        torch.cuda.get_device_capability = saved
    lines.append("createconds15")
    expect.append("understood true")
    meta.append("create-conds")


def run(ctx):
    if sys.flags.optimize < 1:
        print("HARNESS-ERROR property=C15 must run under python -O (vcheck re-executes itself)")
        return 2
    import extract
    extract.main()
    lean_obligations(ctx)
    import optimum.quanto as q
    from optimum.quanto.tensor.qbits import QBitsTensor
    from optimum.quanto.tensor.qbits.awq.packed import pack, pack_v2, unpack, unpack_v2
    from optimum.quanto.tensor.qbits.awq.qbits import AWQBitsTensor
    from pack_intweight import pack_intweight
    rng = ctx.rng
    ctx.extra["rule"] = ("v2: every (N,K) with N a multiple of 4 up to 32 [thorough 128], K a multiple of 64 up to 512 [2048]; v1: N in 1..8, K a multiple of 8 up to 128, both reorder values; "
                         "per shape the position permutation is recovered completely from index-encoding digit passes and compared with the model, plus random 4-bit matrices; v2 vs external/awq/pack_intweight.py bit identity; "
                         "AWQBitsTensor construction / dequantize / qbits_tensor on random float16 group-128 int4 weights; QBitsTensor.create / optimize over qtype x dtype x axis x group size x 9 sizes x device x capability on a stand-in CUDA device. distinct = (op, shape, data hash); non-trivial = all (every case exercises a permutation)")
    maxN, maxK = (32, 512) if not ctx.thorough else (128, 2048)
    lines, expect, meta = [], [], []
    g = torch.Generator().manual_seed(ctx.seed + 7)

    def add(op, t, res, tag):
        lines.append(f"awq {op} {sline(t)}")
        expect.append(sline(res))
        meta.append(tag)
        ctx.evaluations += 1
        ctx.nontriv((op, tuple(t.shape), hashlib.md5(bytes(t.reshape(-1).to(torch.int64).abs().clamp(max=255).tolist())).hexdigest()))

    # ---- v2
    shapes2 = [(N, K) for N in range(4, maxN + 1, 4) for K in range(64, maxK + 1, 64)]
    if not ctx.thorough:
        shapes2 = [s for s in shapes2 if (s[0] in (4, 8, 12, 20, 32)) or (s[1] in (64, 128))]
    for (N, K) in shapes2:
        passes = index_passes(N, K)
        packed = []
        for u in passes:
            p = pack_v2(u)
            r = pack_intweight(u.to(torch.int32), 4, 64)
            if not torch.equal(p, r):
                ctx.spec_failures.append(("C15:v2-differs-from-reference", {"N": N, "K": K}))
            back = unpack_v2(p)
            if not torch.equal(back, u):
                ctx.spec_failures.append(("C15:v2-not-invertible", {"N": N, "K": K}))
            packed.append(p)
            add("pack2", u, p, "v2-index")
            add("ref", u, r, "ref-index")
            add("unpack2", p, back, "v2-unpack-index")
        ctx.count("v2-shapes")
        # random matrix
        u = torch.randint(0, 16, (N, K), generator=g, dtype=torch.uint8)
        p = pack_v2(u)
        if not torch.equal(p, pack_intweight(u.to(torch.int32), 4, 64)):
            ctx.spec_failures.append(("C15:v2-differs-from-reference", {"N": N, "K": K, "data": "random"}))
        if not torch.equal(unpack_v2(p), u):
            ctx.spec_failures.append(("C15:v2-not-invertible", {"N": N, "K": K, "data": "random"}))
        add("pack2", u, p, "v2-random")
        # the codes may come in any integer dtype (the v1 unpack returns int8): same words, same round trip
        for cdt in (torch.int8, torch.int16, torch.int32, torch.int64):
            pc = pack_v2(u.to(cdt))
            if not torch.equal(pc, p) or not torch.equal(unpack_v2(pc).to(torch.uint8), u):
                ctx.spec_failures.append(("C15:v2-depends-on-the-dtype-of-the-codes", {"N": N, "K": K, "dtype": str(cdt)}))
            ctx.evaluations += 1
        # arbitrary int16 payload (unpack on every word value incl. negative ones)
        w = torch.randint(-32768, 32768, (N // 4, K), generator=g, dtype=torch.int32).to(torch.int16)
        add("unpack2", w, unpack_v2(w), "v2-unpack-arbitrary")
    # ---- v1
    for N in (1, 2, 3, 5, 8):
        for K in range(8, 129 if not ctx.thorough else 513, 8):
            for reorder in (False, True):
                sfx = "r" if reorder else ""
                for u in index_passes(N, K) + [torch.randint(0, 16, (N, K), generator=g, dtype=torch.uint8)]:
                    p = pack(u, reorder)
                    back = unpack(p, reorder)
                    if not torch.equal(back.to(torch.uint8), u):
                        ctx.spec_failures.append(("C15:v1-not-invertible", {"N": N, "K": K, "reorder": reorder}))
                    add("pack1" + sfx, u, p, "v1")
                    if N == 3:
                        for cdt in (torch.int8, torch.int16, torch.int32, torch.int64):
                            pc = pack(u.to(cdt), reorder)
                            if not torch.equal(pc, p) or not torch.equal(unpack(pc, reorder).to(torch.uint8), u):
                                ctx.spec_failures.append(("C15:v1-depends-on-the-dtype-of-the-codes", {"N": N, "K": K, "reorder": reorder, "dtype": str(cdt)}))
                            ctx.evaluations += 1
                    add("unpack1" + sfx, p, back, "v1-unpack")
                w = torch.randint(-2 ** 31, 2 ** 31, (N, K // 8), generator=g, dtype=torch.int64).to(torch.int32)
                add("unpack1" + sfx, w, unpack(w, reorder), "v1-unpack-arbitrary")
                ctx.count("v1-shapes")
    # ---- AWQBitsTensor
    nb = 12 if not ctx.thorough else 80
    for i in range(nb):
        N = rng.choice([4, 8, 12, 16])
        K = rng.choice([128, 256, 384])
        mag = 10.0 ** rng.uniform(-3, 2)
        w = (torch.randn(N, K, generator=g) * mag).half()
        if i % 4 == 1:
            w[0] = 0          # all-zero groups
        if i % 4 == 2:
            w[1] = w[1].abs() + mag   # one-sided row
        if i % 2 == 1:
            # rows of tiny magnitude: their float16 scales are subnormal (<= 6e-5), down to a few ulps
            w[-1] = (torch.randn(K, generator=g) * 10.0 ** rng.uniform(-6.5, -4)).half()
            w[-2] = (torch.randn(K, generator=g) * 3e-5).half()
        qb = q.quantize_weight(w, q.qint4, 0, 128)
        codes = qb._data.unpack()
        a = AWQBitsTensor(qb.qtype, qb.axis, qb._group_size, qb.size(), qb.stride(), codes, qb._scale, qb._zeropoint)
        d = a.dequantize()
        ds = qb.dequantize()
        tag = "awqbits"
        try:
            b = a.qbits_tensor()
            bd = b._data.unpack()
            back = f"{shape_s(bd.shape)} {list_s(bd.reshape(-1).tolist())} {list_s(bits_of(b._scale, 'f16'))} " + \
                   (list_s(b._zeropoint.reshape(-1).to(torch.int64).tolist()) if not b._zeropoint.dtype.is_floating_point else "float-zeropoint")
            ok_back = (not b._zeropoint.dtype.is_floating_point and bd.shape == codes.shape and torch.equal(bd, codes)
                       and bits_of(b._scale, "f16") == bits_of(qb._scale, "f16"))
            if ok_back:
                # zero-points of zero-scale groups are undefined (NaN -> int conversion): compare the others
                nz = (qb._scale.reshape(-1) != 0)
                ok_back = torch.equal(b._zeropoint.reshape(-1)[nz], qb._zeropoint.reshape(-1)[nz])
            if ok_back:
                ok_back = bits_of(b.dequantize(), "f16") == bits_of(ds, "f16")
            if not ok_back:
                ctx.spec_failures.append(("C15:back-conversion-does-not-restore", {"N": N, "K": K, "back_data_shape": list(bd.shape), "zeropoint_dtype": str(b._zeropoint.dtype)}))
            # the restored tensor is a standard tensor in every respect: integer zero-points of the original dtype, and optimising it
            # again gives an AWQ tensor that denotes the same weights
            if b._zeropoint.dtype != qb._zeropoint.dtype or b._scale.dtype != qb._scale.dtype:
                ctx.spec_failures.append(("C15:back-conversion-does-not-restore", {"N": N, "K": K, "zeropoint_dtype": str(b._zeropoint.dtype), "expected": str(qb._zeropoint.dtype)}))
            try:
                a3 = AWQBitsTensor(b.qtype, b.axis, b._group_size, b.size(), b.stride(), b._data.unpack(), b._scale, b._zeropoint)
                if bits_of(a3.dequantize(), "f16") != bits_of(d, "f16"):
                    ctx.spec_failures.append(("C15:reoptimised-tensor-denotes-other-weights", {"N": N, "K": K, "max_diff": float((a3.dequantize().float() - d.float()).abs().max())}))
            except Exception as e3:  # noqa
                ctx.spec_failures.append(("C15:reoptimisation-raises", {"N": N, "K": K, "raises": exc_name(e3)}))
            # converting back is a read: the AWQ tensor denotes the same weights afterwards and converts back to the same tensor again
            d2 = a.dequantize()
            b2 = a.qbits_tensor()
            if bits_of(d2, "f16") != bits_of(d, "f16") or not torch.equal(b2._data.unpack(), bd) or bits_of(b2._scale, "f16") != bits_of(b._scale, "f16") \
                    or not torch.equal(b2._zeropoint.reshape(-1)[qb._scale.reshape(-1) != 0], b._zeropoint.reshape(-1)[qb._scale.reshape(-1) != 0]):
                ctx.spec_failures.append(("C15:back-conversion-modifies-the-awq-tensor", {"N": N, "K": K, "max_dequantize_change": float((d2.float() - d.float()).abs().max())}))
        except Exception as e:  # noqa
            back = "raises:" + exc_name(e)
            ctx.spec_failures.append(("C15:back-conversion-does-not-restore", {"N": N, "K": K, "raises": exc_name(e), "message": str(e)[:200]}))
        # same denotation up to float16 rounding: |awq - std| <= u(|s c| + |s z| + |result|)(1+u) + 2 eta
        u16 = 2.0 ** -11 * (1 + 2.0 ** -10)
        sc = qb._scale.double().expand(-1, 128)
        zp = qb._zeropoint.double().expand(-1, 128)
        bound = u16 * ((sc * codes.double()).abs() + (sc * zp).abs() + ds.double().reshape(-1, 128).abs()) * 1.001 + 2.0 ** -23
        diff = (d.double().reshape(-1, 128) - ds.double().reshape(-1, 128)).abs()
        if not bool((diff <= bound).all()) or not torch.isfinite(d.float()).all():
            ctx.spec_failures.append(("C15:awq-denotes-different-weights", {"N": N, "K": K, "max_excess": float((diff - bound).max())}))
        line = f"awqbits {N} {K} 128 {list_s(codes.reshape(-1).tolist())} {list_s(bits_of(qb._scale, 'f16'))} {list_s(qb._zeropoint.reshape(-1).to(torch.int64).tolist())}"
        e = (f"{sline(a._data._data)} {shape_s(a._scale.shape)} {list_s(bits_of(a._scale, 'f16'))} {list_s(bits_of(a._zeropoint, 'f16'))} "
             f"{shape_s(d.shape)} {list_s(bits_of(d, 'f16'))} {back}")
        lines.append(line)
        expect.append(e)
        meta.append(tag)
        ctx.evaluations += 1
        ctx.count("awqbits")
        ctx.nontriv(("awqbits", N, K, i))
    selection_cases(ctx, lines, expect, meta)
    got = run_driver(lines)
    ctx.corr_cases += len(lines)
    for l, e, gg, m in zip(lines, expect, got, meta):
        if m == "awqbits":
            # mask zero-points of zero-scale groups (undefined NaN->int conversion) on both sides
            def mask(o):
                t = o.split()
                if len(t) < 12:
                    return o
                sb = t[10].split(",")
                z = t[11].split(",")
                if len(z) == len(sb):
                    t[11] = ",".join("0" if s == "0" else v for s, v in zip(sb, z))
                return " ".join(t)
            e, gg = mask(e), mask(gg)
        if e != gg and len(ctx.corr_disagreements) < 20:
            ctx.corr_disagreements.append({"case": l[:800], "impl": e[:800], "model": gg[:800], "tag": m})
    ctx.sample({"line": lines[0][:300], "impl": expect[0][:300]})
    ctx.sample({"line": lines[-1][:300], "impl": expect[-1][:300]})
    return finish(ctx, ["the modules are run with asserts disabled (python -O) on CPU tensors; CUDA gemm kernels cannot run here; the selection of AWQBitsTensor is exercised on a stand-in device (a CPU tensor subclass reporting cuda:0, patched get_device_capability): the real move to / from a GPU (_to_copy) is tied by source text only"])

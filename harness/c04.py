"""C04 — sub-byte packing is lossless, dense, identical across unpack kernels.

Correspondence: PackedTensor.pack / unpack and the three unpack ops (quanto_py, the really
compiled quanto_ext C++ kernel, the routed quanto::unpack with extensions enabled/disabled)
vs the Lean model (`pack`, `unpack py|cpp|routed-*`, `punpack`).  Spec oracle: `spec04`."""
import warnings

import torch
from common import *

CACHE = os.path.join(VERIF, ".cache", "ext")


def ensure_cpp_ext():
    """build unpack.cpp from the working tree with the repo's own loader, outside /repo"""
    import optimum.quanto  # noqa
    from optimum.quanto.library.ext import cpp as cppmod
    ext = cppmod.ext
    h = hashlib.sha1()
    for src in ext.sources:
        h.update(open(src, "rb").read())
    h.update(torch.__version__.encode())
    ext.build_directory = os.path.join(CACHE, h.hexdigest()[:16])
    os.makedirs(ext.build_directory, exist_ok=True)
    t0 = time.time()
    lib = ext.lib  # triggers torch.utils.cpp_extension.load
    return lib, time.time() - t0


def rand_uint(rng, shape, bits):
    n = 1
    for d in shape:
        n *= d
    g = torch.Generator().manual_seed(rng.getrandbits(40))
    return torch.randint(0, 2 ** bits, shape, generator=g, dtype=torch.uint8) if n else torch.zeros(shape, dtype=torch.uint8)


def tline(t):
    return f"{shape_s(t.shape)} {list_s(t.contiguous().reshape(-1).tolist())}"


def all_routes(packed, bits):
    from optimum.quanto.library import disable_extensions
    outs = {}
    outs["py"] = torch.ops.quanto_py.unpack(packed, bits)
    outs["cpp"] = torch.ops.quanto_ext.unpack(packed, bits)
    with warnings.catch_warnings(record=True) as w:
        warnings.simplefilter("always")
        outs["routed-ext"] = torch.ops.quanto.unpack(packed, bits)
        fellback = any("Falling back" in str(x.message) for x in w)
    with disable_extensions():
        outs["routed-off"] = torch.ops.quanto.unpack(packed, bits)
    return outs, fellback


def gen_cases(ctx):
    rng = ctx.rng
    maxR = 64 if not ctx.thorough else 512
    cases = []
    trails = [[], [1], [3], [8], [2, 3], [1, 5], [2, 1, 3], [3, 2, 2]]
    for bits in (2, 4):
        for R in range(1, maxR + 1):
            # every R with two seeded trailing shapes (ranks rotate through 0..3), one of them strided
            for k in range(2 if R > 16 else 4):
                trail = trails[(R + k * 3 + bits) % len(trails)] if k else [33]
                shape = [R] + trail
                layout = "contig"
                t = rand_uint(rng, shape, bits)
                if k == 1 and len(shape) >= 2:
                    layout = "transposed"
                    perm = list(range(len(shape)))[::-1]
                    t = rand_uint(rng, [shape[i] for i in perm], bits).permute(*perm)
                elif k == 2:
                    layout = "sliced"
                    big = rand_uint(rng, [2 * d for d in shape], bits)
                    t = big[tuple(slice(0, 2 * d, 2) for d in shape)]
                cases.append((bits, t, layout))
    return cases


def byte_sweeps(ctx):
    """payloads holding every byte value 0..255 in every row (unpack kernels on arbitrary bytes)"""
    rng = ctx.rng
    out = []
    for bits in (2, 4):
        for rd in (1, 2, 3, 5, 8):
            rows = []
            for _ in range(rd):
                perm = list(range(256))
                rng.shuffle(perm)
                rows.append(perm)
            out.append((bits, torch.tensor(rows, dtype=torch.uint8)))
        out.append((bits, torch.arange(256, dtype=torch.uint8)))               # rank 1
        out.append((bits, torch.arange(256, dtype=torch.uint8).reshape(2, 8, 16)))
        out.append((bits, torch.arange(256, dtype=torch.uint8).reshape(4, 64).t()))  # strided
    return out


def dispatch_cases(ctx, PackedTensor):
    """ops applied to a PackedTensor must act on its unpacked values"""
    rng = ctx.rng
    ops = {
        "add1": lambda t: t + 1,
        "sum": lambda t: t.sum(),
        "slice": lambda t: t[1:],
        "clone": lambda t: t.clone(),
        "reshape": lambda t: t.reshape(-1),
        "cat": lambda t: torch.cat([t, t]),
        "eq": lambda t: t == 1,
        "to_int32_after_add": lambda t: (t + 0).to(torch.int32),
        "mul": lambda t: t * 3,
        "flip": lambda t: torch.flip(t, [0]),
        "bitand": lambda t: t & 1,
        "max": lambda t: t.max(),
    }
    bad = []
    n = 0
    for bits in (2, 4):
        for R in (1, 3, 4, 7, 10):
            for trail in ([], [4], [2, 3]):
                t = rand_uint(rng, [R] + trail, bits)
                p = PackedTensor.pack(t, bits)
                ref = p.unpack()
                for name, f in ops.items():
                    n += 1
                    try:
                        a = f(p)
                    except Exception as e:  # noqa
                        a = "raise:" + exc_name(e)
                    try:
                        b = f(ref)
                    except Exception as e:  # noqa
                        b = "raise:" + exc_name(e)
                    same = (isinstance(a, str) and a == b) or (isinstance(a, torch.Tensor) and isinstance(b, torch.Tensor)
                                                                and a.shape == b.shape and a.dtype == b.dtype and torch.equal(torch.as_tensor(a), torch.as_tensor(b)))
                    if isinstance(a, PackedTensor):
                        same = False
                    ctx.count(f"dispatch:{name}")
                    if not same:
                        bad.append({"op": name, "bits": bits, "shape": [R] + trail, "got": str(a)[:200], "want": str(b)[:200]})
                # detach / moves keep the packed representation and the unpacked values
                for name, f in (("detach", lambda q: q.detach()), ("to_cpu", lambda q: q.to("cpu")), ("to_copy", lambda q: q.to("cpu", copy=True))):
                    n += 1
                    q = f(p)
                    ctx.count(f"dispatch:{name}")
                    if not (isinstance(q, PackedTensor) and q._bits == bits and torch.equal(q._data, p._data) and torch.equal(q.unpack(), ref) and tuple(q.shape) == tuple(t.shape)):
                        bad.append({"op": name, "bits": bits, "shape": [R] + trail, "got": repr(q)[:200]})
                # documented refusal: dtype change
                n += 1
                try:
                    p.to(torch.float32)
                    bad.append({"op": "to_float32", "bits": bits, "got": "no error", "want": "ValueError"})
                except ValueError:
                    pass
                except Exception as e:  # noqa
                    bad.append({"op": "to_float32", "bits": bits, "got": exc_name(e), "want": "ValueError"})
    # two packed operands: the result must be the one of the unpacked values.  Pairs are chosen so that the *payloads*
    # coincide or nearly do while the logical tensors differ (leading dimensions with the same number of payload rows,
    # the extra rows zero), next to ordinary same-shape pairs
    bops = {
        "equal2": lambda a, b: torch.tensor(torch.equal(a, b)),
        "eq2": lambda a, b: a == b,
        "add2": lambda a, b: a + b,
        "maximum2": lambda a, b: torch.maximum(a, b),
        "cat2": lambda a, b: torch.cat([a, b]),
    }
    for bits in (2, 4):
        per = 8 // bits
        for R in (1, 2, 3, 5, 7, 8):
            for trail in ([], [3], [2, 2]):
                t = rand_uint(rng, [R] + trail, bits)
                pairs = [("same-shape", rand_uint(rng, [R] + trail, bits)), ("same-values", t.clone())]
                for R2 in range(R + 1, ((R + per - 1) // per) * per + 1):
                    t2 = torch.zeros([R2] + trail, dtype=t.dtype)
                    t2[:R] = t
                    pairs.append(("zero-padded-same-payload", t2))
                for kind, t2 in pairs:
                    pa, pb = PackedTensor.pack(t, bits), PackedTensor.pack(t2, bits)
                    ra, rb = pa.unpack(), pb.unpack()
                    for name, f in bops.items():
                        for (x, y, rx, ry, order) in ((pa, pb, ra, rb, "ab"), (pb, pa, rb, ra, "ba")):
                            n += 1
                            try:
                                a = f(x, y)
                            except Exception as e:  # noqa
                                a = "raise:" + exc_name(e)
                            try:
                                b = f(rx, ry)
                            except Exception as e:  # noqa
                                b = "raise:" + exc_name(e)
                            same = (isinstance(a, str) and a == b) or (isinstance(a, torch.Tensor) and isinstance(b, torch.Tensor) and not isinstance(a, PackedTensor)
                                                                        and a.shape == b.shape and a.dtype == b.dtype and torch.equal(torch.as_tensor(a), torch.as_tensor(b)))
                            ctx.count(f"dispatch:{name}:{kind}")
                            if not same:
                                bad.append({"op": name, "bits": bits, "shape": [R] + trail, "other_shape": list(t2.shape), "pair": kind, "order": order,
                                            "got": str(a)[:200], "want": str(b)[:200]})
    return n, bad


def run(ctx):
    import extract
    extract.main()
    proofs_ok = lean_obligations(ctx)
    try:
        lib, dt = ensure_cpp_ext()
        ctx.notes.append(f"C++ unpack extension built/loaded from the working tree in {dt:.1f}s")
    except Exception as e:  # noqa
        print("cannot build the C++ unpack extension:", str(e)[-800:])
        print("HARNESS-ERROR property=C04 C++ toolchain unavailable (exit 2; not a violation)")
        return 2
    from optimum.quanto.tensor.qbits.packed import PackedTensor
    ctx.extra["rule"] = ("every leading dimension 1..64 [thorough 1..512] x bits {2,4} x trailing shapes of rank 0..3, contiguous/transposed/sliced; "
                         "byte sweeps: every byte 0..255 in every payload row for 5 row counts + rank-1/rank-3/strided payloads; all four unpack routes incl. the compiled C++ kernel; "
                         "distinct = (bits, shape, layout, data hash); non-trivial = leading dim not a multiple of 8/bits, or strided, or byte sweep")
    lines, expect, meta = [], [], []
    spec_lines, spec_meta = [], []
    seen_bytes = {}
    rng = ctx.rng
    for bits, t, layout in gen_cases(ctx):
        try:
            p = PackedTensor.pack(t, bits)
            u = p.unpack()
            all_routes(p._data, bits)
        except Exception as e:  # noqa
            ctx.spec_failures.append((f"C04:pack-or-unpack-raises:{exc_name(e)}", {"bits": bits, "shape": list(t.shape), "layout": layout, "message": str(e)[:200],
                                                                               "data": t.contiguous().reshape(-1).tolist()[:64]}))
            continue
        lines.append(f"pack {bits} {tline(t)}")
        expect.append(tline(p._data))
        meta.append(("pack", bits, list(t.shape), layout))
        lines.append(f"punpack {bits} {shape_s(t.shape)} {tline(p._data)}")
        expect.append(tline(u))
        meta.append(("punpack", bits, list(t.shape), layout))
        routes, fellback = all_routes(p._data, bits)
        if fellback:
            ctx.count("routed_op_fell_back_to_python")
        for kind, mk in (("py", "py"), ("cpp", "cpp"), ("routed-ext", "routed-ext"), ("routed-off", "routed-off")):
            lines.append(f"unpack {mk} {bits} {tline(p._data)}")
            expect.append(tline(routes[kind]))
            meta.append(("unpack-" + kind, bits, list(t.shape), layout))
        # results of different calls are different tensors: a second tensor of the same shape goes through the same calls
        # while the results of the first are still alive
        snap = {"unpack()": tline(u), **{k: tline(v) for k, v in routes.items()}}
        t2 = (t + 1 + rand_uint(rng, list(t.shape), bits - 1 if bits > 1 else 1)) % (2 ** bits) if t.numel() else t
        try:
            p2 = PackedTensor.pack(t2.to(torch.uint8), bits)
            u2 = p2.unpack()
            routes2, _ = all_routes(p2._data, bits)
        except Exception as e:  # noqa
            ctx.spec_failures.append((f"C04:pack-or-unpack-raises:{exc_name(e)}", {"bits": bits, "shape": list(t.shape), "layout": layout, "message": str(e)[:200]}))
            continue
        now = {"unpack()": tline(u), **{k: tline(v) for k, v in routes.items()}}
        changed = [k for k in snap if snap[k] != now[k]]
        if changed:
            ctx.spec_failures.append(("C04:result-changed-by-a-later-call", {"bits": bits, "shape": list(t.shape), "layout": layout, "results": changed}))
        if u2.shape != t2.shape or not torch.equal(u2, t2.to(torch.uint8)):
            ctx.spec_failures.append(("C04:lossy", {"bits": bits, "shape": list(t.shape), "layout": layout, "note": "second tensor of the same shape"}))
        spec_lines.append(f"spec04 {bits} {tline(t)} {tline(p._data)} {tline(u)} " + " ".join(tline(routes[k]) for k in routes))
        spec_meta.append((bits, list(t.shape), layout))
        ctx.evaluations += 1
        R = t.shape[0]
        ctx.count(f"bits{bits}:residue{R % (8 // bits)}:rank{t.ndim - 1}:{layout}")
        key = (bits, tuple(t.shape), layout, hashlib.md5(bytes(t.contiguous().reshape(-1).tolist())).hexdigest())
        if R % (8 // bits) != 0 or layout != "contig":
            ctx.nontriv(key)
        sb = seen_bytes.setdefault((bits, R % (8 // bits)), set())
        sb.update(p._data.reshape(-1).tolist())
    for bits, payload in byte_sweeps(ctx):
        routes, _ = all_routes(payload, bits)
        for kind in ("py", "cpp", "routed-ext", "routed-off"):
            lines.append(f"unpack {kind} {bits} {tline(payload)}")
            expect.append(tline(routes[kind]))
            meta.append(("sweep-" + kind, bits, list(payload.shape), "sweep"))
        ref = routes["py"]
        for k, v in routes.items():
            if v.shape != ref.shape or not torch.equal(v, ref):
                ctx.spec_failures.append(("C04:kernels-differ", {"bits": bits, "payload_shape": list(payload.shape), "route": k,
                                                                 "replay": f"unpack {k} {bits} {tline(payload)}"}))
        ctx.evaluations += 1
        ctx.nontriv(("sweep", bits, tuple(payload.shape), tuple(payload.stride())))
        ctx.count(f"bits{bits}:byte-sweep")
    ctx.extra["distinct_payload_bytes_per_residue"] = {f"bits{b}:res{r}": len(s) for (b, r), s in sorted(seen_bytes.items())}
    ctx.sample({"line": lines[0][:200], "impl": expect[0][:200]})
    ctx.sample({"line": lines[-1][:200], "impl": expect[-1][:200]})
    got = run_driver(lines)
    ctx.corr_cases += len(lines)
    for l, e, g, m in zip(lines, expect, got, meta):
        if e != g and len(ctx.corr_disagreements) < 20:
            ctx.corr_disagreements.append({"case": l[:1500], "impl": e[:1500], "model": g[:1500], "tag": m[0]})
    sout = run_driver(spec_lines)
    for l, o, m in zip(spec_lines, sout, spec_meta):
        if o != "ok":
            ctx.spec_failures.append((f"C04:{o}", {"bits": m[0], "shape": m[1], "layout": m[2], "replay": l[:3000]}))
    n, bad = dispatch_cases(ctx, PackedTensor)
    ctx.evaluations += n
    for b in bad:
        ctx.spec_failures.append((f"C04:dispatch-not-on-unpacked:{b['op']}", b))
    return finish(ctx, ["MPS/CUDA unpack kernels cannot run here", "strides are not modelled: strided inputs are compared by logical contents"])

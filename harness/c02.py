"""C02 — int2/int4 affine quantization error is at most half a step per group.

Correspondence: quantize_weight(qint2/qint4) -> QBitsTensor -> dequantize -> re-quantize on the
real code vs the Lean model (`aff`), bit for bit (codes, scales, zero-points, dequantized bit
patterns, re-quantized codes, shapes, exception class). Spec oracle: `spec02` in exact rationals."""
import torch
from common import *
from affine_common import *


def classify_failure(F, x, out, verdict):
    """signature of a spec failure = the verdict computed by the Lean predicate (which distinguishes
    overflow of the range / of scale*code in the working dtype from every other failure)"""
    return "C02:" + verdict


def run_cases(ctx, cases, tag="rand"):
    lines, impl_out, meta = [], [], []
    for F, bits, axis, gs, x, names in cases:
        out, qb, d = impl_affine(F, bits, axis, gs, x)
        lines.append(aff_line(F, bits, axis, gs, x))
        impl_out.append(out)
        meta.append((F, bits, axis, gs, x, names))
        ctx.evaluations += 1
        ctx.count(f"{tag}:{F}:int{bits}:axis{axis}:rank{x.ndim}:{'grouped' if gs else 'pergroup-none'}:{out.split()[0]}")
        for nme in set(names):
            ctx.count("rowclass:" + nme)
        key = (F, bits, axis, gs, tuple(x.shape), hashlib.md5(str(bits_of(x, F)).encode()).hexdigest())
        if any(c != "mixed" for c in names) or gs is not None:
            ctx.nontriv(key)
    model_out = run_driver(lines)
    ctx.corr_cases += len(lines)
    spec_lines, spec_idx = [], []
    for i, (l, a, b) in enumerate(zip(lines, impl_out, model_out)):
        ax = meta[i][2]
        if mask_zero_scale(a, ax) != mask_zero_scale(b, ax):
            if len(ctx.corr_disagreements) < 20:
                ctx.corr_disagreements.append({"case": l[:1500], "impl": a[:1500], "model": b[:1500], "classes": meta[i][5]})
        if a.startswith("ok"):
            F, bits, axis, gs, x, names = meta[i]
            spec_lines.append(spec02_line(F, bits, axis, gs, x, a))
            spec_idx.append(i)
    sout = run_driver(spec_lines)
    for i, l, o in zip(spec_idx, spec_lines, sout):
        F, bits, axis, gs, x, names = meta[i]
        a = impl_out[i].split()
        if o != "ok":
            verdict = o.split()[1]
            sig = classify_failure(F, x, impl_out[i], verdict)
            ctx.spec_failures.append((sig, {"F": F, "bits": bits, "axis": axis, "group_size": gs, "shape": list(x.shape), "classes": names,
                                            "verdict": o, "replay": lines[i][:3000]}))
        # shape / idempotence (float32, float16)
        if a[6] != shape_s(x.shape):
            ctx.spec_failures.append(("C02:shape-changed", {"replay": lines[i][:3000]}))
        if F != "bf16" and o == "ok":
            ax = axis
            m = mask_zero_scale(impl_out[i], ax).split()
            if m[8] != m[2]:
                sig = "C02:idempotence"
                ctx.spec_failures.append((sig, {"F": F, "bits": bits, "axis": axis, "group_size": gs, "shape": list(x.shape),
                                                "classes": names, "replay": lines[i][:3000]}))
    return lines, impl_out


def replay_aff_line(line):
    """run one `aff` protocol line on the implementation, evaluate the spec; returns (signatures, impl, model)"""
    _, F, bits, ext, axis, gs, shape, xb = line.split()
    shp = [int(d) for d in shape.split("x")]
    x = tensor_of_bits([int(v) for v in xb.split(",")], F, shp)
    gs_ = None if gs == "none" else int(gs)
    out, qb, d = impl_affine(F, int(bits), int(axis), gs_, x)
    model = run_driver([line])[0]
    sigs = set()
    if out.startswith("ok"):
        o = run_driver([spec02_line(F, int(bits), int(axis), gs_, x, out)])[0]
        if o != "ok":
            sigs.add("C02:" + o.split()[1])
        m = mask_zero_scale(out, int(axis)).split()
        if F != "bf16" and o == "ok" and m[8] != m[2]:
            sigs.add("C02:idempotence")
    else:
        sigs.add("C02:raises-" + out.split()[1])
    return sigs, mask_zero_scale(out, int(axis)), mask_zero_scale(model, int(axis))


def gen(ctx, n):
    rng = ctx.rng
    cases = []
    for _ in range(n):
        F = rng.choice(["f32", "f16", "bf16"])
        bits = rng.choice([2, 4])
        x, axis, gs, names = rand_weight(rng, F)
        cases.append((F, bits, axis, gs, x, names))
    return cases


def witness_cases():
    """minimal witnesses of the repaired defect F4 (kept in the corpus, always run first)"""
    out = []
    x = torch.tensor([[10.0, 10.05, 10.02, 9.98], [1.0, -1.0, 0.5, 0.25]])
    out.append(("f32", 4, 0, None, x, ["offset", "mixed"]))
    out.append(("f16", 4, 0, None, x.half(), ["offset", "mixed"]))
    out.append(("f32", 2, 0, None, torch.tensor([[3.0, 3.0, 3.0], [0.0, 0.0, 0.0]]), ["constant", "zeros"]))
    out.append(("f32", 4, -1, 2, torch.tensor([[5.0, -7.0], [5.0, -7.0], [5.5, -7.0], [5.0, -7.25]]), ["offset", "offset"]))
    return out


def run(ctx):
    lean_obligations(ctx)
    ctx.extra["rule"] = ("corpus witnesses first (offset / constant / all-zero groups), then seeded random weights of rank 1-4 whose per-axis slices are drawn from 8 row classes "
                         "(mixed, one-sided, offset c+eps*noise, constant, zeros, single non-zero, subnormal, near dtype max), dtype float32/float16/bfloat16, bits 2/4, axis 0/-1, "
                         "group_size None or a divisor; distinct = (F,bits,axis,group,shape,data hash); non-trivial = any non-'mixed' row class or grouped")
    lines, outs = run_cases(ctx, witness_cases(), "corpus")
    ctx.sample({"line": lines[0][:300], "impl": outs[0][:300]})
    n = 600 if not ctx.thorough else 30000
    lines, outs = run_cases(ctx, gen(ctx, n))
    ctx.sample({"line": lines[-1][:300], "impl": outs[-1][:300]})
    # S4: replay the witnesses of the listed findings on the implementation
    for sig, f in known_signatures("C02").items():
        sigs, out, model = replay_aff_line(f["witness"])
        if sig in sigs:
            if sig not in ctx.known_reproduced:
                ctx.known_reproduced.append(sig)
        else:
            ctx.notes.append(f"known finding {sig} no longer reproduces on its witness: impl={out[:100]}")
        if out != model:
            ctx.corr_disagreements.append({"case": f["witness"], "impl": out, "model": model, "tag": "known-finding-witness"})
    for f in load_known().get("fixed", []):
        if f["property"] == "C02":
            sigs, out, model = replay_aff_line(f["witness"])
            for sig in sigs:
                ctx.spec_failures.append((sig, {"note": "repaired defect is back", "fixed_entry": f["what"], "replay": f["witness"]}))
    return finish(ctx, ["NaN/out-of-range float->int conversions (undefined behaviour) are masked out for zero-scale groups", "CUDA kernels not executable here"])

"""C10 — state_dict save/load round trips reproduce the quantized model exactly.

Real serializers (pickle, weights_only pickle, safetensors) on quantized models (all six weight
qtypes, activations on/off, three dtypes, frozen or not); targets: a freshly quantized model with
the same configuration, with the default configuration, and requantize().  Compared: key set and
leaf types, every leaf bit for bit, qtypes, outputs bit for bit, the re-saved state_dict.  The key
sets and metadata strings of flattened quantized tensors are compared with the Lean model
(`ser10`, `meta10`, `parse10`)."""
import ast
import io
import os
import tempfile

import torch
from common import *
import qmeta


def build(rng, dt, kind=None):
    kind = kind or rng.choice(["mlp", "conv", "ln-mlp", "bigconv"])
    if kind == "bigconv":
        # per-output element counts above 128: the low-bit weights are quantized group-wise
        m = torch.nn.Sequential(torch.nn.Conv2d(32, 4, 3, padding=1), torch.nn.ReLU(), torch.nn.Conv2d(4, 2, (1, 1)), torch.nn.Flatten(), torch.nn.Linear(2 * 4 * 4, 3))
        return kind, m.to(dt), [2, 32, 4, 4]
    if kind == "mlp":
        inf = rng.choice([6, 160])
        m = torch.nn.Sequential(torch.nn.Linear(inf, 8, bias=rng.random() < 0.8), torch.nn.ReLU(), torch.nn.Linear(8, 3))
        shape = [2, inf]
    elif kind == "conv":
        m = torch.nn.Sequential(torch.nn.Conv2d(3, 4, 3, padding=1), torch.nn.ReLU(), torch.nn.Conv2d(4, 2, 1, bias=False))
        shape = [2, 3, 5, 5]
    else:
        m = torch.nn.Sequential(torch.nn.LayerNorm(6), torch.nn.Linear(6, 8), torch.nn.GELU(), torch.nn.Linear(8, 4))
        shape = [2, 6]
    return kind, m.to(dt), shape


def arch(kind, dt, like):
    """a fresh float model of the same architecture (different random parameters)"""
    m = type(like)(*[copy_arch(c) for c in like])
    return m.to(dt)


def copy_arch(c):
    import copy
    c2 = copy.deepcopy(c)
    for p in c2.parameters():
        with torch.no_grad():
            p.normal_()
    return c2


def sd_canon(sd):
    out = {}
    for k, v in sd.items():
        if isinstance(v, torch.Tensor):
            t = v.detach()
            out[k] = ("T", str(t.dtype), tuple(t.shape), hashlib.md5(t.contiguous().reshape(-1).view(torch.uint8).numpy().tobytes() if t.numel() else b"").hexdigest())
        else:
            out[k] = ("S", v)
    return out


def roundtrip_serializer(sd, how):
    from optimum.quanto import safe_load, safe_save
    if how in ("pickle", "weights_only"):
        b = io.BytesIO()
        torch.save(sd, b)
        b.seek(0)
        return torch.load(b, weights_only=(how == "weights_only"))
    with tempfile.TemporaryDirectory() as d:
        p = os.path.join(d, "m.safetensors")
        safe_save(sd, p)
        return safe_load(p)


def out_bits(o):
    return bits_of(o.dequantize() if hasattr(o, "dequantize") else o)


def run(ctx):
    import optimum.quanto as q
    from optimum.quanto import Calibration, QBitsTensor, QBytesTensor, freeze, quantize, requantize
    lean_obligations(ctx)
    rng = ctx.rng
    ctx.extra["rule"] = ("seeded models (Linear / Conv2d / LayerNorm stacks), weights in all six qtypes (per-axis and automatically grouped), activations None/qint8/qfloat8 (calibrated), dtype float32/float16/bfloat16, "
                         "frozen or not, serializer pickle / weights_only / safetensors, target same-quantized (also frozen beforehand, or loaded twice) / default-quantized / requantize(), one or two save-load cycles. distinct = the configuration tuple; non-trivial = all")
    n = 60 if not ctx.thorough else 4000
    lines, expect = [], []
    # every run: the whole grid model kind x weight family x frozen x target (activations, serializer and dtype rotate),
    # then seeded random configurations
    grid = []
    for kind_ in ("mlp", "conv", "ln-mlp", "bigconv"):
        for wq_ in ("qint2", "qint4", "qint8", "qfloat8"):
            for frozen_ in (True, False):
                for target_ in ["same", "default", "requantize"] + (["same-frozen", "same-loaded-twice"] if frozen_ else []):
                    k_ = len(grid)
                    grid.append((kind_, wq_, frozen_, target_, [None, "qint8", None, "qfloat8_e4m3fn"][k_ % 4], ["pickle", "weights_only", "safetensors"][k_ % 3]))
    for ci in range(len(grid) + n):
        dt = rng.choice([torch.float32, torch.float16, torch.bfloat16])
        torch.manual_seed(rng.getrandbits(30))
        if ci < len(grid):
            kind_, wq, frozen, target, aq, how = grid[ci]
            kind, model, shape = build(rng, dt, kind_)
        else:
            kind, model, shape = build(rng, dt)
            wq = rng.choice(["qint2", "qint4", "qint8", "qfloat8", "qfloat8_e4m3fn", "qfloat8_e5m2"])
            aq = rng.choice([None, None, "qint8", "qfloat8_e4m3fn"])
            frozen = rng.random() < 0.7
            how = rng.choice(["pickle", "weights_only", "safetensors"])
            target = rng.choice(["same", "default", "requantize"] + (["same-frozen", "same-loaded-twice"] if frozen else []))
        cfg = {"kind": kind, "weights": wq, "activations": aq, "dtype": str(dt), "frozen": frozen, "serializer": how, "target": target}
        fresh = arch(kind, dt, model)
        other = arch(kind, dt, model) if target == "same-loaded-twice" else None
        quantize(model, weights=q.qtypes[wq], activations=None if aq is None else q.qtypes[aq])
        x = torch.randn(shape).to(dt)
        with torch.no_grad():
            if aq is not None:
                # with streamlining, modules feeding incompatible functions (gelu, …) get their activations disabled:
                # the saved model then mixes modules with and without quantized activations
                with Calibration(streamline=rng.random() < 0.5):
                    model(x)
            if frozen:
                freeze(model)
            ref = out_bits(model(x))
        sd = model.state_dict()
        bad = [k for k, v in sd.items() if not (type(v) is torch.Tensor or isinstance(v, str))]
        if bad:
            ctx.spec_failures.append(("C10:state-dict-leaf-types", dict(cfg, keys=bad[:5])))
        canon = sd_canon(sd)
        # ---- whole-model layout: the keys of the quantized modules, in order, are the per-module dicts under
        # their dotted prefixes (`modelSave`), from which the model reads every module back (C10_model_roundtrip)
        from optimum.quanto.nn import QModuleMixin as _QM
        specs, prefixes = [], []
        for name, mod in model.named_modules():
            if isinstance(mod, _QM):
                w = mod.weight
                k = "float" if (mod.weight_qtype is None or not mod.frozen) else ("qbits" if isinstance(w, QBitsTensor) else "qbytes")
                specs.append(f"{name}.,{k},{1 if mod.bias is not None else 0}")
                prefixes.append(name + ".")
        if specs:
            lines.append("model10 " + ";".join(specs))
            expect.append([" ".join(k for k in sd.keys() if any(k.startswith(p) for p in prefixes)) + " all-roundtrip-ok"])
            ctx.count(f"model-layout:modules={len(specs)}")
        try:
            sd2 = roundtrip_serializer(sd, how)
        except Exception as e:  # noqa
            ctx.spec_failures.append((f"C10:serializer-raises:{how}:{exc_name(e)}", dict(cfg, message=str(e)[:200])))
            continue
        if sd_canon(sd2) != canon:
            diff = [k for k in set(canon) | set(sd_canon(sd2)) if canon.get(k) != sd_canon(sd2).get(k)]
            ctx.spec_failures.append((f"C10:serializer-alters-state-dict:{how}", dict(cfg, keys=diff[:5])))
        # ---- load into the target
        try:
            with torch.no_grad():
                if target == "requantize":
                    requantize(fresh, sd2)
                else:
                    if target in ("same", "same-frozen", "same-loaded-twice"):
                        quantize(fresh, weights=q.qtypes[wq], activations=None if aq is None else q.qtypes[aq])
                        if target == "same-frozen":
                            # the freshly quantized target (its own random weights) is frozen before it receives the state
                            freeze(fresh)
                        elif target == "same-loaded-twice":
                            # the target first receives the state of another frozen model of the same configuration
                            quantize(other, weights=q.qtypes[wq], activations=None if aq is None else q.qtypes[aq])
                            freeze(other)
                            fresh.load_state_dict(other.state_dict())
                    else:
                        quantize(fresh)
                    fresh.load_state_dict(sd2)
                out = out_bits(fresh(x))
        except Exception as e:  # noqa
            sig = f"C10:load-raises:{target}:{exc_name(e)}"
            if target in ("default", "requantize") and aq is not None and kind == "ln-mlp":
                sig = "C10:default-quantized-target-cannot-load-layernorm-activation-state"
            ctx.spec_failures.append((sig, dict(cfg, message=str(e)[:200])))
            continue
        ctx.evaluations += 1
        ctx.count(f"{how}:{target}:frozen={frozen}:acts={aq is not None}")
        ctx.nontriv(tuple(cfg.values()))
        if out != ref:
            sig = "C10:outputs-differ-after-load"
            if (not frozen) and wq in ("qint2", "qint4") and target in ("default", "requantize"):
                sig = "C10:unfrozen-lowbit-state-loses-group-size-in-default-target"
            ctx.spec_failures.append((sig, dict(cfg)))
        else:
            resaved = sd_canon(fresh.state_dict())
            if resaved != canon and not (target in ("default", "requantize") and not frozen):
                diff = [k for k in set(canon) | set(resaved) if canon.get(k) != resaved.get(k)]
                ctx.spec_failures.append(("C10:resaved-state-dict-differs", dict(cfg, keys=diff[:5])))
            elif resaved != canon:
                # unfrozen default target: the float weights are restored, the re-saved dict must hold the same float weights
                diff = [k for k in set(canon) | set(resaved) if canon.get(k) != resaved.get(k)]
                if diff:
                    ctx.spec_failures.append(("C10:resaved-state-dict-differs", dict(cfg, keys=diff[:5])))
        for name, mod in fresh.named_modules():
            src = dict(model.named_modules()).get(name)
            if hasattr(mod, "weight_qtype") and (mod.weight_qtype != src.weight_qtype or mod.activation_qtype != src.activation_qtype):
                ctx.spec_failures.append(("C10:qtypes-not-restored", dict(cfg, module=name)))
        # ---- model correspondence of the flattened tensors (frozen weights)
        if frozen:
            for name, mod in model.named_modules():
                w = getattr(mod, "weight", None)
                pre = f"{name}.weight."
                keys = {k: v for k, v in sd.items() if k.startswith(pre)}
                if isinstance(w, QBytesTensor):
                    lines.append(f"ser10 qbytes {pre} {w.qtype.name} {qmeta.axis_s(w.axis)} {list_s(w.shape)} {list_s(w.stride())}")
                elif isinstance(w, QBitsTensor):
                    p = w._data
                    lines.append(f"ser10 qbits {pre} {w.qtype.name} {qmeta.axis_s(w.axis)} {'none' if w._group_size is None else w._group_size} {list_s(w.shape)} {list_s(w.stride())} "
                                 f"{p._bits} {list_s(p.shape)} {list_s(p.stride())}")
                else:
                    continue
                toks = [f"{k}={'T' if isinstance(v, torch.Tensor) else v.replace(' ', '_')}" for k, v in keys.items()]
                expect.append(sorted(toks) + ["roundtrip-ok"])
    # ---- metadata strings: python str / literal_eval vs the model
    for _ in range(300 if not ctx.thorough else 3000):
        kind = rng.choice(["int", "none", "list", "tuple"])
        vals = [rng.choice([0, 1, -1, 7, 128, 4096, 10 ** 9, -37]) for _ in range(rng.randrange(0, 5))]
        if kind == "int":
            vals = vals[:1] or [rng.randrange(-5, 300)]
            py = str(vals[0])
        elif kind == "none":
            vals = []
            py = "None"
        elif kind == "list":
            py = str(list(vals))
        else:
            py = str(tuple(vals))
        lines.append(f"meta10 {kind} {list_s(vals)}")
        expect.append([py.replace(" ", "_"), "roundtrip-ok"])
        lines.append(f"parse10 {py.replace(' ', '_')}")
        v = ast.literal_eval(py)
        expect.append([("int " + str(v)) if isinstance(v, int) else ("none" if v is None else (("list " if isinstance(v, list) else "tuple ") + list_s(v)))])
        ctx.evaluations += 1
    got = run_driver(lines)
    ctx.corr_cases += len(lines)
    for l, e, g in zip(lines, expect, got):
        if l.startswith("ser10"):
            gt = g.split()
            ok = sorted(gt[:-1]) + [gt[-1]] == e
        elif l.startswith("meta10"):
            ok = g.split() == e
        else:
            ok = [g] == e
        if not ok and len(ctx.corr_disagreements) < 20:
            ctx.corr_disagreements.append({"case": l, "impl": str(e)[:600], "model": g[:600], "tag": l.split()[0]})
    ctx.sample({"line": lines[0], "impl": str(expect[0])[:300]})
    ctx.sample({"line": lines[-1], "impl": str(expect[-1])})
    # S4: directed witnesses of the listed findings, replayed on the implementation
    def w_layernorm():
        torch.manual_seed(0)
        m = torch.nn.Sequential(torch.nn.LayerNorm(6), torch.nn.Linear(6, 4))
        f = torch.nn.Sequential(torch.nn.LayerNorm(6), torch.nn.Linear(6, 4))
        quantize(m, weights=q.qint8, activations=q.qint8)
        freeze(m)
        try:
            requantize(f, m.state_dict())
            return False
        except Exception:  # noqa
            return True

    def w_group():
        torch.manual_seed(0)
        m = torch.nn.Sequential(torch.nn.Linear(160, 4))
        f = torch.nn.Sequential(torch.nn.Linear(160, 4))
        quantize(m, weights=q.qint4)
        x = torch.randn(2, 160)
        quantize(f)
        f.load_state_dict(m.state_dict())
        with torch.no_grad():
            return out_bits(f(x)) != out_bits(m(x))

    wit = {"C10:default-quantized-target-cannot-load-layernorm-activation-state": w_layernorm,
           "C10:unfrozen-lowbit-state-loses-group-size-in-default-target": w_group}
    for sig, f in known_signatures("C10").items():
        if sig in wit and wit[sig]():
            if sig not in ctx.known_reproduced:
                ctx.known_reproduced.append(sig)
        else:
            ctx.notes.append(f"known finding {sig} no longer reproduces on its witness")
    return finish(ctx, ["pickle / safetensors are trusted to carry plain tensors and strings unchanged (checked by the leaf-wise comparison)", "only the CPU device exists here"])

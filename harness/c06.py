"""C06 — a quantized tensor's reported metadata always matches what it holds.

Every quantized tensor reached by the C05 programs, by quantization (all six qtypes), by moves /
clone / detach, by state_dict round trips and by freeze() is observed through its flatten interface
and judged by the Lean well-formedness predicate (`wfbytes` / `wfbits`); shape / dtype / device are
compared with those of the dequantized value; moves and copies must keep the codes."""
import torch
from common import *
import ops_common as oc
import c01
import c05
import qmeta


def check_q(ctx, t, origin, wf_lines, wf_meta):
    """queue the WF verdict of `t` and compare reported shape/dtype/device with the dequantized value"""
    wf_lines.append(qmeta.wf_line(t))
    wf_meta.append(origin)
    try:
        probs = qmeta.consistent_with_dequantized(t)
    except Exception as e:  # noqa
        probs = [f"dequantize raises {exc_name(e)}: {str(e)[:100]}"]
    if probs:
        ctx.spec_failures.append((f"C06:reported-vs-dequantized:{origin}", {"origin": origin, "problems": probs, "observed": wf_lines[-1]}))
    ctx.count("wf:" + origin.split(":")[0])


def codes_equal(a, b):
    from optimum.quanto import QBitsTensor
    if isinstance(a, QBitsTensor):
        return torch.equal(a._data.unpack(), b._data.unpack()) and torch.equal(a._zeropoint, b._zeropoint)
    return bits_of(a._data.float()) == bits_of(b._data.float()) if a._data.dtype != torch.int8 else torch.equal(a._data, b._data)


def moves(ctx, t, origin, wf_lines, wf_meta):
    """detach / clone / device copy / dtype move keep the codes; a dtype move changes only the scale dtype"""
    from optimum.quanto import QBitsTensor, QBytesTensor
    for name, f in (("detach", lambda x: x.detach()), ("to_cpu_copy", lambda x: x.to("cpu", copy=True)), ("clone", lambda x: x.clone())):
        try:
            r = f(t)
        except Exception as e:  # noqa
            ctx.spec_failures.append((f"C06:move-raises:{name}:{type(t).__name__}:{exc_name(e)}", {"origin": origin, "message": str(e)[:150]}))
            continue
        ctx.evaluations += 1
        if not oc.is_q(r):
            if name == "clone" and isinstance(t, QBitsTensor):
                ctx.count("move:clone-qbits-dequantizes")
                continue   # not intercepted for QBitsTensor: falls back to a float tensor (C05's business)
            ctx.spec_failures.append((f"C06:move-dequantizes:{name}:{type(t).__name__}", {"origin": origin}))
            continue
        check_q(ctx, r, f"move-{name}:{origin}", wf_lines, wf_meta)
        if not codes_equal(t, r) or bits_of(t._scale) != bits_of(r._scale) or r.qtype != t.qtype or r.axis != t.axis:
            ctx.spec_failures.append((f"C06:move-alters-codes:{name}:{type(t).__name__}", {"origin": origin}))
    for dt in (torch.float32, torch.float16, torch.bfloat16):
        if dt == t.dtype:
            continue
        try:
            r = t.to(dt)
        except ValueError:
            if isinstance(t, QBitsTensor):
                ctx.count("move:dtype-refused-qbits")   # documented refusal
                continue
            ctx.spec_failures.append((f"C06:dtype-move-raises:{type(t).__name__}", {"origin": origin}))
            continue
        except Exception as e:  # noqa
            ctx.spec_failures.append((f"C06:dtype-move-raises:{type(t).__name__}:{exc_name(e)}", {"origin": origin, "message": str(e)[:150]}))
            continue
        ctx.evaluations += 1
        if isinstance(t, QBitsTensor):
            ctx.spec_failures.append(("C06:dtype-move-of-packed-tensor-not-refused", {"origin": origin}))
            continue
        check_q(ctx, r, f"move-dtype:{origin}", wf_lines, wf_meta)
        if not codes_equal(t, r) or r.dtype != dt or r._scale.dtype != dt or r._data.dtype != t._data.dtype or r.qtype != t.qtype or r.axis != t.axis:
            ctx.spec_failures.append((f"C06:dtype-move-alters-more-than-scale-dtype:{type(t).__name__}", {"origin": origin}))
        elif bits_of(r._scale) != bits_of(t._scale.to(dt)):
            ctx.spec_failures.append((f"C06:dtype-move-scale-value:{type(t).__name__}", {"origin": origin}))


def inplace_copies(ctx, t, origin, wf_lines, wf_meta):
    """`dest.copy_(src)` keeps what `dest` reports: sources of another float dtype (the float program casts), and a per-tensor
    source written into a per-axis destination (the float program broadcasts)"""
    from optimum.quanto import QBytesTensor
    if not isinstance(t, QBytesTensor):
        return
    import optimum.quanto as q
    srcs = []
    for dt in (torch.float32, torch.float16, torch.bfloat16):
        if dt != t.dtype:
            try:
                srcs.append((f"from-{str(dt).split('.')[-1]}", t.to(dt)))
            except Exception:  # noqa
                pass
    if t.axis is not None:
        s1 = t._scale.reshape(-1)[:1].reshape(())
        srcs.append(("per-tensor-into-per-axis", QBytesTensor(t.qtype, None, t.size(), t.stride(), t._data.clone(), s1.clone())))
    for name, src in srcs:
        dest = t.clone()
        if not oc.is_q(dest):
            return
        want_dtype, want_shape, want_axis = dest.dtype, tuple(dest.shape), dest.axis
        try:
            r = dest.copy_(src)
        except Exception as e:  # noqa
            ctx.spec_failures.append((f"C06:copy_-raises:{name.split('-')[0]}:{exc_name(e)}", {"origin": origin, "case": name, "message": str(e)[:150]}))
            continue
        ctx.evaluations += 1
        for label, v in (("dest", dest), ("returned", r)):
            if not oc.is_q(v):
                ctx.spec_failures.append((f"C06:copy_-dequantizes:{label}", {"origin": origin, "case": name}))
                continue
            check_q(ctx, v, f"copy_-{name}-{label}:{origin}", wf_lines, wf_meta)
            if v.dtype != want_dtype or tuple(v.shape) != want_shape or v.axis != want_axis or v._scale.dtype != want_dtype:
                ctx.spec_failures.append((f"C06:copy_-alters-reported-metadata:{name}", {"origin": origin, "dtype": [str(v.dtype), str(v._scale.dtype), str(want_dtype)], "axis": [v.axis, want_axis]}))
            elif not codes_equal_data(v, src):
                ctx.spec_failures.append((f"C06:copy_-alters-codes:{name}", {"origin": origin}))
            elif bits_of(v._scale.expand_as(t._scale) if v._scale.shape != t._scale.shape else v._scale) != bits_of(src._scale.to(want_dtype).expand_as(t._scale)):
                ctx.spec_failures.append((f"C06:copy_-scale-value:{name}", {"origin": origin}))


def codes_equal_data(a, b):
    return bits_of(a._data.float()) == bits_of(b._data.float()) if a._data.dtype != torch.int8 else torch.equal(a._data, b._data)


def state_dict_roundtrip(ctx, t, origin, wf_lines, wf_meta):
    from optimum.quanto import QBitsTensor, QBytesTensor
    sd = {}
    t.save_to_state_dict(sd, "w.", False)
    bad = [k for k, v in sd.items() if not (type(v) is torch.Tensor or isinstance(v, str))]
    if bad:
        ctx.spec_failures.append((f"C06:state-dict-leaf-types:{type(t).__name__}", {"origin": origin, "keys": bad}))
    cls = QBitsTensor if isinstance(t, QBitsTensor) else QBytesTensor
    try:
        r = cls.load_from_state_dict(dict(sd), "w.")
    except Exception as e:  # noqa
        ctx.spec_failures.append((f"C06:state-dict-load-raises:{type(t).__name__}:{exc_name(e)}", {"origin": origin, "message": str(e)[:150]}))
        return
    ctx.evaluations += 1
    check_q(ctx, r, f"deserialized:{origin}", wf_lines, wf_meta)
    if not codes_equal(t, r) or bits_of(t._scale) != bits_of(r._scale) or r.qtype != t.qtype or r.axis != t.axis or tuple(r.shape) != tuple(t.shape):
        ctx.spec_failures.append((f"C06:state-dict-roundtrip-alters:{type(t).__name__}", {"origin": origin}))


def run(ctx):
    import optimum.quanto as q
    import extract
    extract.main()
    lean_obligations(ctx)
    rng = ctx.rng
    ctx.extra["rule"] = ("every quantized value reached by the C05 programs (depth 1-8), by quantize_weight / quantize_activation over all six qtypes, axes, group sizes, dtypes and ranks, "
                         "by detach / clone / device copy / dtype moves, by in-place copy_ from sources of another dtype / scale shape, by state_dict flatten→unflatten, and by freeze() of Linear/Conv2d modules. distinct = (origin, qtype, axis, group, shape, dtype); non-trivial = all")
    wf_lines, wf_meta = [], []
    seen = set()

    def collect(step, res):
        outs = res if isinstance(res, list) else [res]
        for o in outs:
            if oc.is_q(o):
                name = step.note or step.name
                check_q(ctx, o, f"op:{name}", wf_lines, wf_meta)
                key = (name, o.qtype.name, o.axis, tuple(o.shape), str(o.dtype))
                ctx.nontriv(key)
                if key not in seen and len(seen) < 400:
                    seen.add(key)
                    moves(ctx, o, f"op:{name}", wf_lines, wf_meta)
                    inplace_copies(ctx, o, f"op:{name}", wf_lines, wf_meta)
                    state_dict_roundtrip(ctx, o, f"op:{name}", wf_lines, wf_meta)

    n = 250 if not ctx.thorough else 8000
    lines, impl_tok, meta, spec_lines, spec_meta = c05.run_programs(ctx, n, collect_wf=collect)
    # the correspondence of the op results is C05's; here it ties the model's metadata to the implementation's
    c05.finish_programs(ctx, lines, impl_tok, meta, [], [], pid="C06")
    # C05's relation failures are not C06's business
    ctx.spec_failures = [(s, c) for (s, c) in ctx.spec_failures if s.startswith("C06:")]
    # ---- quantization outputs, all six qtypes
    import affine_common as ac
    nq = 150 if not ctx.thorough else 4000
    for i in range(nq):
        F = rng.choice(["f32", "f16", "bf16"])
        x, axis, gs, names = ac.rand_weight(rng, F)
        qn = rng.choice(["qint2", "qint4", "qint8", "qfloat8", "qfloat8_e4m3fn", "qfloat8_e5m2"])
        qt = q.qtypes[qn]
        try:
            t = q.quantize_weight(x, qt, axis, gs if qt.bits != 8 else None)
        except ValueError:
            continue
        ctx.evaluations += 1
        origin = f"quantize_weight:{qn}"
        check_q(ctx, t, origin, wf_lines, wf_meta)
        ctx.nontriv((origin, axis, gs, tuple(x.shape), F))
        if t.qtype != qt:
            ctx.spec_failures.append(("C06:qtype-not-as-requested", {"origin": origin}))
        moves(ctx, t, origin, wf_lines, wf_meta)
        inplace_copies(ctx, t, origin, wf_lines, wf_meta)
        state_dict_roundtrip(ctx, t, origin, wf_lines, wf_meta)
        if i % 3 == 0 and qt.bits == 8:
            a = q.quantize_activation(x, qt, (x.abs().max() / 100 + 1e-3).to(x.dtype))
            check_q(ctx, a, "quantize_activation:" + qn, wf_lines, wf_meta)
    # ---- freeze
    for wq in ["qint2", "qint4", "qint8", "qfloat8"]:
        for dt in (torch.float32, torch.float16):
            m = torch.nn.Sequential(torch.nn.Linear(rng.choice([24, 160, 256]), 5), torch.nn.Conv2d(3, 4, 3)).to(dt)
            q.quantize(m, weights=q.qtypes[wq])
            q.freeze(m)
            for mod in m:
                ctx.evaluations += 1
                check_q(ctx, mod.weight.data if not oc.is_q(mod.weight) else mod.weight, f"freeze:{wq}:{type(mod).__name__}", wf_lines, wf_meta)
                ctx.nontriv(("freeze", wq, str(dt), type(mod).__name__))
    wout = run_driver(wf_lines)
    for l, o, m in zip(wf_lines, wout, wf_meta):
        if o != "ok":
            ctx.spec_failures.append((f"C06:malformed:{m.split(':')[0]}:{m.split(':')[1] if ':' in m else ''}:{o}", {"origin": m, "observed": l}))
    ctx.count("wf_oracle_cases", len(wf_lines))
    ctx.sample({"wf_line": wf_lines[0], "verdict": wout[0]})
    ctx.sample({"wf_line": wf_lines[-1], "verdict": wout[-1]})
    return finish(ctx, ["strides are reported as torch computes them and are not part of the predicate", "only the CPU device exists here"])

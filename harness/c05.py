"""C05 — operations on quantized tensors equal the same operations on dequantized values.

Typed random programs (depth 1-8).  After every step: (i) correspondence of the implementation's
result with the Lean transcription of the dispatched function (`op05`): type, qtype, axis, shapes,
codes, scale bit patterns, exception class; (ii) the relation with the float reference — the same
torch op on the dequantized operands (same reported strides): bit equality for data movement,
`spec05r` (rounding-level) for rescaling, `spec01` (nearest grid point of the output scale) for
re-quantization, float64 accumulation envelope for contractions; (iii) no spurious raise."""
import torch
from common import *
import ops_common as oc
from ops_common import *
import c01
import qmeta

DOCUMENTED_REFUSALS = {("to", "qbits"), ("where", "quantized-condition")}


def run_fn(step, operands):
    try:
        return step.fn(*operands)
    except Exception as e:  # noqa
        return e


def finite(t):
    return bool(torch.isfinite(t.float()).all())


def same_bits(a, b):
    if isinstance(a, (list, tuple)):
        return isinstance(b, (list, tuple)) and len(a) == len(b) and all(same_bits(x, y) for x, y in zip(a, b))
    if not isinstance(a, torch.Tensor) or not isinstance(b, torch.Tensor):
        return False
    if a.shape != b.shape or a.dtype != b.dtype:
        return False
    if a.dtype == torch.bool:
        return torch.equal(a, b)
    return bits_of(a) == bits_of(b)


def deq_out(v):
    if isinstance(v, (list, tuple)):
        return [deq_out(x) for x in v]
    return v.dequantize() if oc.is_q(v) else v


def signature(step, res):
    kinds = "+".join(oc.kind_of(o) if not isinstance(o, list) else "[" + ",".join(oc.kind_of(x) for x in o) + "]" for o in step.operands)
    nm = step.note or step.name
    return f"{nm}:{kinds}"


def check_step(ctx, step, res, ref, spec_lines, spec_meta):
    """relation between the implementation's result and the float reference"""
    name = step.note or step.name
    sigbase = signature(step, res)
    if isinstance(ref, BaseException):
        return "ref-invalid"     # the float program is not valid: outside the property
    if step.rel == "refusal":
        # documented refusal: the dtype of a packed low-bit tensor cannot be changed (ValueError)
        if isinstance(res, ValueError):
            return "documented-refusal"
        ctx.spec_failures.append((f"C05:documented-refusal-not-raised:{sigbase}", {"op": name, "got": type(res).__name__}))
        return "differs"
    if isinstance(res, BaseException):
        sig = f"C05:raises:{sigbase}:{exc_name(res)}"
        ops = step.operands
        if step.name == "copy_" and exc_name(res) == "AttributeError" and any(isinstance(o, torch.Tensor) and not oc.is_q(o) for o in ops):
            sig = "C05:copy_-plain-operand-raises-AttributeError"
        elif step.name == "copy_" and "AssertionError" in exc_name(res) and all(oc.is_qb(o) for o in ops) and ops[0].qtype != ops[1].qtype:
            sig = "C05:copy_-other-qtype-raises-AssertionError"
        elif step.name == "copy_" and all(oc.is_qb(o) for o in ops) and ops[0].qtype == ops[1].qtype and ops[0].axis != ops[1].axis:
            sig = "C05:copy_-different-axis-raises"
        elif step.name == "t" and exc_name(res) == "ValueError" and oc.is_qb(ops[0]) and ops[0].ndim == 1:
            sig = "C05:t-on-1d-raises-ValueError"
        ctx.spec_failures.append((sig, {"op": name, "params": step.params, "operands": [oc.enc(o)[:200] for o in step.operands],
                                                                           "exception": exc_name(res), "message": str(res)[:200]}))
        return "spurious-raise"
    d = deq_out(res)
    if step.name == "linear" and isinstance(d, torch.Tensor) and isinstance(ref, torch.Tensor) and step.operands[0].ndim == 1 and d.dtype == ref.dtype \
            and tuple(d.shape) == (1,) + tuple(ref.shape):
        ctx.spec_failures.append(("C05:linear-1d-input-returns-2d", {"op": name, "got": list(d.shape), "want": list(ref.shape), "operands": [oc.enc(o)[:200] for o in step.operands]}))
        return "differs"
    if isinstance(d, torch.Tensor) and isinstance(ref, torch.Tensor) and (d.shape != ref.shape or d.dtype != ref.dtype):
        ctx.spec_failures.append((f"C05:differs:shape-or-dtype:{sigbase}", {"op": name, "params": step.params, "got": [list(d.shape), str(d.dtype)], "want": [list(ref.shape), str(ref.dtype)],
                                                                        "operands": [oc.enc(o)[:200] for o in step.operands]}))
        return "differs"
    if step.rel in ("exact", "fallback", "copy"):
        if not same_bits(d, ref):
            if step.name == "neg" and oc.is_qb(step.operands[0]) and isinstance(d, torch.Tensor) and d.shape == ref.shape:
                x = step.operands[0]
                diff = (d.float() != ref.float()).reshape(-1)
                if not x.qtype.is_floating_point and bool((x._data.reshape(-1)[diff] == -128).all()):
                    sigbase = "neg:int8-code-minus-128-wraps"
            ctx.spec_failures.append((f"C05:differs:{sigbase}", {"op": name, "params": step.params, "operands": [oc.enc(o)[:300] for o in step.operands],
                                                                "got": oc.enc(d)[:300] if not isinstance(d, list) else str([oc.enc(x)[:100] for x in d]),
                                                                "want": oc.enc(ref)[:300] if not isinstance(ref, list) else str([oc.enc(x)[:100] for x in ref])}))
            return "differs"
        return "ok"
    if step.rel == "rescale":
        if d.shape != ref.shape or d.dtype != ref.dtype:
            ctx.spec_failures.append((f"C05:differs:{sigbase}", {"op": name, "note": "shape/dtype", "got": [list(d.shape), str(d.dtype)], "want": [list(ref.shape), str(ref.dtype)]}))
            return "differs"
        if not (finite(d) and finite(ref)):
            return "nonfinite-skipped"
        F = fmt_of_dtype(d.dtype)
        k = next((o for o in step.operands if isinstance(o, Fraction)), None)
        if k is None:
            kt = next((o for o in step.operands if isinstance(o, torch.Tensor) and not oc.is_q(o) and o.numel() == 1), None)
            k = Fraction(float(kt)) if kt is not None else Fraction(1)
        Fc = F
        Fe = F
        if step.name == "to":   # relative term: the coarser precision of source and target; absolute term: the narrower exponent range
            src = fmt_of_dtype(step.operands[0].dtype)
            order = {"f32": 0, "f16": 1, "bf16": 2}
            Fc = F if order[F] >= order[src] else src
            Fe = "f16" if "f16" in (F, src) else Fc
        qm = {"qint8": 128, "e4m3": 448, "e5m2": 57344}[oc.QNAME[step.operands[0].qtype.name if oc.is_qb(step.operands[0]) else step.operands[1].qtype.name]]
        spec_lines.append(f"spec05r {Fc} {Fe} {F} {qm} {k.numerator} {k.denominator} {list_s(bits_of(d, F))} {list_s(bits_of(ref, F))}")
        spec_meta.append((f"C05:rescale-error:{sigbase}", step))
        return "ok"
    if step.rel == "requant":
        if oc.is_qb(res):
            F = fmt_of_dtype(res.dtype)
            Q = oc.QNAME[res.qtype.name]
            if res.axis is not None or res._scale.numel() != 1:
                ctx.spec_failures.append((f"C05:requant-not-per-tensor:{sigbase}", {"op": name}))
                return "differs"
            if not finite(ref):
                return "nonfinite-skipped"
            spec_lines.append(f"spec01 {F} {Q} {list_s(bits_of(ref, F))} {list_s(bits_of(res._scale, F))} {list_s(c01.codes_of(res._data, Q))} {list_s(bits_of(d, F))}")
            spec_meta.append((f"C05:requant-error:{sigbase}", step))
            return "ok"
        if not same_bits(d, ref):     # per-axis input: float result
            ctx.spec_failures.append((f"C05:differs:{sigbase}", {"op": name, "note": "float result of a re-quantizing op differs from the reference"}))
            return "differs"
        return "ok"
    if step.rel == "contraction":
        if d.shape != ref.shape or d.dtype != ref.dtype:
            ctx.spec_failures.append((f"C05:differs:{sigbase}", {"op": name, "note": "shape/dtype", "got": [list(d.shape), str(d.dtype)], "want": [list(ref.shape), str(ref.dtype)]}))
            return "differs"
        # float accumulation envelope, evaluated in float64 on the dequantized operands
        a, b = [deq_out(o).double() for o in step.operands[:2]]
        if name == "linear":
            exact = a @ b.t()
            mag = a.abs() @ b.abs().t()
            K = a.shape[-1]
        else:
            exact = a @ b
            mag = a.abs() @ b.abs()
            K = a.shape[-1]
        u = {torch.float32: 2.0 ** -24, torch.float16: 2.0 ** -11, torch.bfloat16: 2.0 ** -8}[d.dtype]
        # one accumulation: (K+4) float32 roundings on the magnitude sum; the dequantized operands themselves
        # carry one rounding of the working dtype each (2u on every product), the output one more
        env = ((K + 4) * (2.0 ** -24) + 3 * u) * mag + 3 * u * exact.abs() + 2 * float(torch.finfo(d.dtype).tiny) * u
        if not finite(d):
            if bool((exact.abs() * (1 + 2 * u) < float(torch.finfo(d.dtype).max)).all()):
                qops = [o for o in step.operands[:2] if oc.is_qb(o)]
                if len(qops) == 2 and all(o.qtype.is_floating_point for o in qops) and d.dtype == torch.float16:
                    sigbase = "float8xfloat8-in-float16"
                ctx.spec_failures.append((f"C05:contraction-nonfinite:{sigbase}", {"op": name, "operands": [oc.enc(o)[:200] for o in step.operands]}))
                return "differs"
            return "nonfinite-skipped"
        bad = (d.double() - exact).abs() > env
        # the float reference itself (torch on dequantized operands) must be inside the envelope as well
        if bool(bad.any()):
            qops = [o for o in step.operands[:2] if oc.is_qb(o)]
            if len(qops) == 2 and float((qops[0]._scale.double().abs().min() * qops[1]._scale.double().abs().min())) < float(torch.finfo(d.dtype).tiny):
                sigbase = "scale-product-subnormal"
            ctx.spec_failures.append((f"C05:contraction-error:{sigbase}", {"op": name, "max_excess": float(((d.double() - exact).abs() - env).max()),
                                                                         "operands": [oc.enc(o)[:300] for o in step.operands]}))
            return "differs"
        return "ok"
    return "ok"


def run_programs(ctx, nprog, collect_wf=None):
    rng = ctx.rng
    lines, impl_tok, meta = [], [], []
    spec_lines, spec_meta = [], []
    for pi in range(nprog):
        F = rng.choice(["f32", "f16", "bf16"])
        pool = oc.initial_pool(rng, F)
        depth = rng.randrange(1, 9)
        trace = []
        for si in range(depth):
            step = None
            for _ in range(8):
                step = oc.gen_step(rng, pool)
                if step is not None:
                    break
            if step is None:
                continue
            # pass-through functions: the reference is the function on the dequantized operands as they are (the twin
            # with the payload's strides exists for stride-dependent validity, and would only change the order of reductions)
            ref_ops = [(o.dequantize() if oc.is_q(o) else o) for o in step.operands] if step.rel == "fallback" else [oc.deq(o) for o in step.operands]
            with torch.no_grad():
                ref = run_fn(step, ref_ops)
                res = run_fn(step, list(step.operands))
            name = step.note or step.name
            ctx.evaluations += 1
            branch = "raise" if isinstance(res, BaseException) else ("quantized" if (oc.is_q(res) or (isinstance(res, list) and any(oc.is_q(x) for x in res))) else "float")
            ctx.count(f"op:{name}:{branch}")
            try:
                status = check_step(ctx, step, res, ref, spec_lines, spec_meta)
            except Exception as e:  # noqa  — the implementation returned something the relation cannot even be evaluated on
                ctx.spec_failures.append((f"C05:result-not-comparable:{step.note or step.name}:{exc_name(e)}", {"op": step.note or step.name, "params": step.params, "message": str(e)[:200],
                                                                                                         "operands": [oc.enc(o)[:200] for o in step.operands]}))
                status = "differs"
            ctx.count("status:" + status)
            trace.append(f"{name}{step.params}")
            ctx.nontriv((name, tuple(step.params), oc.signature(step, res) if hasattr(oc, "signature") else signature(step, res), branch, F))
            if status == "ref-invalid":
                continue
            # correspondence with the Lean transcription
            if step.model:
                lines.append(step.line(ref if not isinstance(ref, BaseException) else None) if step.oracle != "ref" or not isinstance(ref, BaseException) else step.line(torch.zeros(1)))
                # a pass-through function is modelled by its float oracle: torch may decompose it into intercepted ops (cumsum of a
                # 0-d tensor is a clone) and hand back a quantized tensor denoting the same values — compare what it denotes
                impl_tok.append(oc.enc(res.dequantize() if (step.rel == "fallback" and oc.is_q(res)) else res))
                meta.append((name, signature(step, res)))
            elif step.name == "mm" and not isinstance(res, BaseException):
                a, b = step.operands
                n, m = a.shape
                p = b.shape[-1]
                if a.qtype.name == "qint8" and b.qtype.name == "qint8" and n > 16 and n % 8 == 0 and m % 8 == 0 and p % 8 == 0:
                    lines.append(f"op05 mm_int - 2 {oc.enc(a)} {oc.enc(b)}")
                    impl_tok.append(oc.enc(res))
                    meta.append(("mm_int", signature(step, res)))
            if collect_wf is not None and not isinstance(res, BaseException):
                collect_wf(step, res)
            # grow the pool with well-formed results only
            outs = res if isinstance(res, list) else [res]
            if not isinstance(res, BaseException):
                def usable(o):
                    # (a result that cannot even be dequantized has been reported by the step / well-formedness checks: keep it out of the pool)
                    try:
                        return not oc.is_q(o) or tuple(o.shape) == tuple(o.dequantize().shape)
                    except Exception:  # noqa
                        return False
                for o in outs:
                    if isinstance(o, torch.Tensor) and o.numel() > 0 and o.numel() <= 4096 and usable(o):
                        if not oc.is_q(o) and o.dtype == torch.bool:
                            continue
                        if o.dtype in (torch.float32, torch.float16, torch.bfloat16) and finite(o.dequantize() if oc.is_q(o) else o):
                            pool.append(o)
        if pi < 3:
            ctx.sample({"program": trace, "F": F})
    return lines, impl_tok, meta, spec_lines, spec_meta


ALIAS_PRODUCERS = {
    # name: (function, is the float result a view of its input?, needs)
    "clone": (lambda t: t.clone(), False, None),
    "contiguous-clone": (lambda t: t.clone(memory_format=torch.contiguous_format), False, None),
    "to-copy": (lambda t: t.to(t.device, copy=True), False, None),
    "detach": (lambda t: t.detach(), True, None),
    "t": (lambda t: t.t(), True, "2d"),
    "transpose": (lambda t: t.transpose(0, -1), True, None),
    "unsqueeze": (lambda t: t.unsqueeze(0), True, None),
    "view-flat": (lambda t: t.view(-1), True, "per-tensor"),
    "expand-as-is": (lambda t: t.expand(*t.shape), True, None),
    "neg": (lambda t: -t, False, None),
    "relu": (lambda t: torch.relu(t), False, None),
    "mul-scalar": (lambda t: t * 2, False, None),
    "cat-with-itself": (lambda t: torch.cat([t, t]), False, None),
    "stack-with-itself": (lambda t: torch.stack([t, t]), False, None),
}


def aliasing_cases(ctx):
    """two-step programs with an in-place step: `b = P(a)`, then `a.copy_(c)` (or `b.copy_(c')`), then read the other one.
    The float program decides what must happen: a view follows its base, anything else is independent of it."""
    rng = ctx.rng
    n = 160 if not ctx.thorough else 6000
    names = sorted(ALIAS_PRODUCERS)
    alines, aexpect = [], []
    for i in range(n):
        F = rng.choice(["f32", "f16", "bf16"])
        Q = rng.choice(["qint8", "qint8", "e4m3", "e5m2"])
        pname = names[i % len(names)]
        fn, is_view, needs = ALIAS_PRODUCERS[pname]
        axis = rng.choice([None, None, 0, -1]) if needs != "per-tensor" else None
        shape = [rng.randrange(2, 5), rng.randrange(2, 5)] if (needs == "2d" or axis is not None) else oc.rand_shape(rng, rng.randrange(1, 4), 4)
        direction = rng.choice(["into-source", "into-result"])
        with torch.no_grad():
            a = oc.make_qb(rng, F, Q, shape, axis=axis)
            c = oc.make_qb(rng, F, Q, shape, axis=axis, mag=10.0 ** rng.uniform(-2, 2))
            try:
                b = fn(a)
                c2 = fn(c)
            except Exception:  # noqa  (the per-step checks deal with operations that raise)
                continue
            if not oc.is_q(b) or not oc.is_q(c2):
                ctx.count("aliasing:skipped-float-result")
                continue
            same = lambda u, v: u.untyped_storage().data_ptr() == v.untyped_storage().data_ptr()
            sd_, ss_ = same(b._data, a._data), same(b._scale, a._scale)
            sharing = "both" if (sd_ and ss_) else ("scale" if ss_ else ("data" if sd_ else "fresh"))
            a_f = a.dequantize().clone()
            b_f = fn(a_f)
            b_before = bits_of(b.dequantize())
            a_before = bits_of(a.dequantize())
            wdst, wsrc = (a, c) if direction == "into-source" else (b, c2)
            data_differs = bits_of(wdst._data.float()) != bits_of(wsrc._data.float())
            scale_differs = bits_of(wdst._scale.expand_as(wsrc._scale) if wdst._scale.shape != wsrc._scale.shape else wdst._scale) != bits_of(wsrc._scale)
            inner = lambda t: (bits_of(t._data.float()), bits_of(t._scale))
            try:
                if direction == "into-source":
                    inner_before = inner(b)
                    a.copy_(c)
                    a_f.copy_(c.dequantize())
                    got, other_before, want_view, inner_after = bits_of(b.dequantize()), b_before, bits_of(b_f), inner(b)
                else:
                    inner_before = inner(a)
                    b.copy_(c2)
                    b_f.copy_(c2.dequantize())
                    got, other_before, want_view, inner_after = bits_of(a.dequantize()), a_before, bits_of(a_f), inner(a)
            except Exception as e:  # noqa
                ctx.count("aliasing:copy_-raises:" + exc_name(e))
                continue
        ctx.evaluations += 1
        kind = "view" if is_view else "fresh"
        # correspondence with the storage model (`alias05`): what the result shares with its operand, and the outcome
        # (the model's tensor value is the pair of cell contents: observe the inner tensors, not only the dequantized value)
        outcome = "unchanged" if inner_after == inner_before else ("follows" if (is_view and got == want_view) else "changes")
        # the model predicts the outcome for a write whose contents differ from the old contents of the shared cell(s)
        if (sharing == "data" and not data_differs) or (sharing == "scale" and not scale_differs) or (sharing == "both" and not (data_differs or scale_differs)):
            outcome = "*"
        alines.append(f"alias05 {pname}")
        aexpect.append(f"{sharing} {outcome} {'follows' if is_view else 'unchanged'}")
        ctx.count(f"aliasing:{pname}:{direction}")
        ctx.nontriv(("aliasing", pname, direction, F, Q, axis, tuple(shape)))
        want = want_view if is_view else other_before
        if got != want:
            ctx.spec_failures.append((f"C05:aliasing:{kind}-result-of-{pname}:{'changes' if not is_view else 'does-not-follow'}",
                                      {"producer": pname, "direction": direction, "F": F, "qtype": Q, "axis": axis, "shape": shape,
                                       "note": "an independent tensor changed when another one was written in place" if not is_view else "a view did not follow the in-place write"}))


    got_ = run_driver(alines)
    ctx.corr_cases += len(alines)
    for l, e, g in zip(alines, aexpect, got_):
        if e.split()[1:2] == ["*"] and len(g.split()) == 3:
            g = " ".join([g.split()[0], "*", g.split()[2]])
        if e != g and len(ctx.corr_disagreements) < 30:
            ctx.corr_disagreements.append({"case": l, "impl": e, "model": g, "tag": "aliasing (sharing, outcome of copy_, outcome required by the float program)"})


def canon_tok(t):
    """exceptions are compared by class; -0/NaN canonicalisation is already done by enc"""
    return t


def finish_programs(ctx, lines, impl_tok, meta, spec_lines, spec_meta, pid="C05"):
    got = run_driver(lines)
    ctx.corr_cases += len(lines)
    for l, e, g, m in zip(lines, impl_tok, got, meta):
        if canon_tok(e) != canon_tok(g):
            # an exception on one side only, or different values
            if len(ctx.corr_disagreements) < 30:
                ctx.corr_disagreements.append({"case": l[:1200], "impl": e[:600], "model": g[:600], "tag": m[0], "signature": m[1]})
            ctx.count("corr-disagree:" + m[0])
    sout = run_driver(spec_lines, weights=[len(l) * (60 if l.startswith("spec01") else 1) for l in spec_lines])
    for l, o, (sig, step) in zip(spec_lines, sout, spec_meta):
        if o != "ok":
            ctx.spec_failures.append((sig.replace("C05:", pid + ":") + ":" + (o.split()[1].split(":", 1)[1] if len(o.split()) > 1 and ":" in o.split()[1] else "fail"),
                                      {"op": step.note or step.name, "params": step.params, "verdict": o[:200], "replay": l[:1500]}))


def run(ctx):
    import extract
    extract.main()
    lean_obligations(ctx)
    ctx.extra["rule"] = ("seeded typed random programs of depth 1-8 over a pool of per-tensor / per-axis QBytes (3 qtypes, equal and different scales), packed QBits, plain tensors and exactly representable Python scalars, "
                         "dtype float32/float16/bfloat16, ranks 1-4; ops: every entry of the QBytes dispatch table + reshape + 16 pass-through functions; two-step aliasing programs (14 producers x in-place copy_ into the source / into the result). distinct = (op, params, operand kinds, branch, dtype); "
                         "non-trivial = all (every step is an intercepted or fallback dispatch)")
    n = 400 if not ctx.thorough else 20000
    lines, impl_tok, meta, spec_lines, spec_meta = run_programs(ctx, n)
    finish_programs(ctx, lines, impl_tok, meta, spec_lines, spec_meta)
    ctx.extra["ops_never_hit"] = sorted(set(["view", "permute", "transpose", "select", "slice", "unsqueeze", "expand", "t", "neg", "relu", "detach", "clone", "to", "mul", "div", "cat", "stack",
                                             "split", "lt", "softmax", "where", "mm", "bmm", "linear", "copy_", "reshape"]) - {k.split(":")[1] for k in ctx.hist if k.startswith("op:")})
    # directed corpus (sequences the random programs do not reach) + S4 witnesses of listed findings
    import witnesses05
    witnesses05.run_directed(ctx)
    aliasing_cases(ctx)
    replay_known(ctx)
    return finish(ctx, ["torch's dispatcher and CompositeImplicit decompositions are trusted (modelled at the aten level)", "float softmax / float matmul / pass-through functions are oracles supplied by torch on the dequantized operands",
                        "strides are not modelled: validity that depends on strides is taken from the float reference with the same reported strides"])


def replay_known(ctx):
    import witnesses05
    for sig, f in known_signatures(ctx.pid).items():
        if witnesses05.reproduces(f):
            if sig not in ctx.known_reproduced:
                ctx.known_reproduced.append(sig)
        else:
            ctx.notes.append(f"known finding {sig} no longer reproduces on its witness")

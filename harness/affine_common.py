"""Shared generators / implementation runners for C02, C03, C16 (range optimizers,
affine 2/4-bit quantizer, grouping)."""
import torch
from common import *

# the model mirrors the code as it is; after the "fix:" commit in /repo (MaxOptimizer range
# extended to contain zero) the driver is asked for the repaired semantics.
MAXOPT_EXTENDS_RANGE = "1"

ROW_CLASSES = ["mixed", "onesided", "offset", "constant", "zeros", "single", "subnormal", "nearmax"]


def make_rows(rng, n_rows, row_len, F, classes=None):
    """a [n_rows, row_len] float64 matrix assembled from the degenerate row classes, cast to F.
    Returns (tensor in dtype F, list of class names)."""
    dt = fmts()[F][0]
    fi = torch.finfo(dt)
    rows, names = [], []
    g = torch.Generator().manual_seed(rng.getrandbits(40))
    for _ in range(n_rows):
        c = rng.choice(classes or ROW_CLASSES)
        mag = 10.0 ** rng.uniform(-3, 3)
        if c == "mixed":
            r = torch.randn(row_len, generator=g, dtype=torch.float64) * mag
        elif c == "onesided":
            r = torch.rand(row_len, generator=g, dtype=torch.float64) * mag * rng.choice([-1, 1])
        elif c == "offset":
            r = (rng.choice([-1, 1]) * mag) * (1 + 10.0 ** rng.uniform(-4, -1) * torch.randn(row_len, generator=g, dtype=torch.float64))
        elif c == "constant":
            r = torch.full((row_len,), rng.choice([-1, 1]) * mag, dtype=torch.float64)
        elif c == "zeros":
            r = torch.zeros(row_len, dtype=torch.float64)
        elif c == "single":
            r = torch.zeros(row_len, dtype=torch.float64)
            r[rng.randrange(row_len)] = rng.choice([-1, 1]) * mag
        elif c == "subnormal":
            r = torch.randn(row_len, generator=g, dtype=torch.float64) * float(fi.tiny) * rng.choice([0.01, 0.3, 1.0, 3.0])
        else:  # nearmax
            r = (torch.rand(row_len, generator=g, dtype=torch.float64) * 2 - 1) * float(fi.max) * rng.choice([0.2, 0.45, 0.9, 1.0])
        rows.append(r)
        names.append(c)
    t = torch.stack(rows).clamp(-float(fi.max), float(fi.max)).to(dt)
    t = torch.where(t == 0, torch.zeros_like(t), t)
    return t, names


def divisors(n):
    return [d for d in range(1, n + 1) if n % d == 0]


def rand_weight(rng, F, classes=None, max_rank=4):
    """a weight tensor of rank 1..4 whose axis-0 rows (or axis -1 columns) come from the row classes"""
    rank = rng.randrange(1, max_rank + 1)
    axis = rng.choice([0, -1])
    dims = [rng.choice([1, 2, 3, 4, 6, 8]) for _ in range(rank)]
    if rank == 1:
        dims = [rng.choice([1, 2, 4, 8, 12])]
    n = 1
    for d in dims:
        n *= d
    axis_dim = dims[0] if axis == 0 else dims[-1]
    per = n // axis_dim
    m, names = make_rows(rng, axis_dim, per, F, classes)
    if rank == 1:
        m, names = make_rows(rng, 1, n, F, classes)
        t = m.reshape(dims)
    elif axis == 0:
        t = m.reshape(dims)
    else:
        t = m.t().contiguous().reshape(dims)
    gs_choices = [None] + divisors(per)
    gs = rng.choice(gs_choices) if rng.random() < 0.7 else None
    return t.contiguous(), axis, gs, names


def impl_affine(F, bits, axis, gs, x):
    """quantize_weight(qint2/qint4, default MaxOptimizer) + dequantize + re-quantize with the same params"""
    import optimum.quanto as q
    from optimum.quanto.tensor.quantizers import AffineQuantizer
    qt = q.qint2 if bits == 2 else q.qint4
    try:
        qb = q.quantize_weight(x, qt, axis, gs)
        # another weight of the same shape and configuration goes through the library while the first result is alive:
        # results of different calls must stay independent
        try:
            other = q.quantize_weight((x.float().clamp(-100.0, 100.0) * -0.37 + 1.3).to(x.dtype), qt, axis, gs)
        except Exception:  # noqa
            other = None
        d = qb.dequantize()
        codes = qb._data.unpack()
        try:
            q2 = AffineQuantizer.apply(d, qt, axis, gs, qb._scale, qb._zeropoint)
            again = list_s(q2._data.unpack().reshape(-1).tolist())
        except Exception as e:  # noqa
            again = "err:" + exc_name(e)
        out = (f"ok {shape_s(codes.shape)} {list_s(codes.reshape(-1).tolist())} {shape_s(qb._scale.shape)} {list_s(bits_of(qb._scale, F))} "
               f"{list_s(qb._zeropoint.reshape(-1).to(torch.int64).tolist())} {shape_s(d.shape)} {list_s(bits_of(d, F))} {again}")
        return out, qb, d
    except Exception as e:  # noqa
        return "err " + exc_name(e), None, None


def mask_zero_scale(out, axis):
    """zero-points and codes of groups whose scale is exactly 0 come from a NaN -> int conversion
    (undefined behaviour, not part of any property): blank them on both sides before comparing.
    out = 'ok gshape codes pshape scalebits zeros dshape deqbits again'"""
    if not out.startswith("ok"):
        return out
    t = out.split()
    gshape = [] if t[1] == "-" else [int(d) for d in t[1].split("x")]
    sb = [] if t[4] == "-" else t[4].split(",")
    if not any(b == "0" for b in sb):
        return out
    codes = t[2].split(",")
    zeros = t[5].split(",")
    again = t[8].split(",") if not t[8].startswith("err") else None
    n = len(codes)
    k = len(sb)
    if len(gshape) <= 1 or k == 1:
        keyf = lambda i: 0
    elif axis == 0:
        per = n // gshape[0]
        keyf = lambda i: i // per
    else:
        last = gshape[-1]
        keyf = lambda i: i % last
    for i in range(n):
        if sb[keyf(i)] == "0":
            codes[i] = "0"
            if again is not None and i < len(again):
                again[i] = "0"
    zeros = ["0" if sb[j] == "0" else zeros[j] for j in range(k)]
    t[2] = ",".join(codes)
    t[5] = ",".join(zeros)
    if again is not None:
        t[8] = ",".join(again)
    return " ".join(t)


def aff_line(F, bits, axis, gs, x):
    return f"aff {F} {bits} {MAXOPT_EXTENDS_RANGE} {axis} {'none' if gs is None else gs} {shape_s(x.shape)} {list_s(bits_of(x, F))}"


def spec02_line(F, bits, axis, gs, x, out):
    t = out.split()
    return f"spec02 {F} {bits} {axis} {'none' if gs is None else gs} {shape_s(x.shape)} {list_s(bits_of(x, F))} {t[3]} {t[4]} {t[1]} {t[2]} {t[5]} {t[7]}"

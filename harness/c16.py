"""C16 — finite tensors never quantize to NaN/Inf, whatever their range.

quantize_weight with the default optimizers on tensors assembled from the degenerate row classes
(all six qtypes), calibration followed by inference on zero/constant batches, zero-weight layers.
Correspondence with the Lean model for the whole quantize_weight path; spec oracles spec01 / spec02
(error bounds of C01 / C02) + finiteness on the implementation's outputs."""
import torch
from common import *
from affine_common import *
import c01

QMAX = {"qint8": 127, "e4m3": 448, "e5m2": 57344}


SPEC3 = []


def weight8_case(ctx, F, Q, axis, x, names, lines, expect, meta, spec_lines, spec_meta):
    import optimum.quanto as q
    qt = q.qtypes[c01.QT[Q]]
    xb = list_s(bits_of(x, F))
    try:
        qb = q.quantize_weight(x, qt, axis)
    except Exception as e:  # noqa
        ctx.count(f"weight8:raises:{exc_name(e)}")
        if x.ndim > 1:
            ctx.spec_failures.append((f"C16:quantize_weight-raises:{exc_name(e)}", {"F": F, "Q": Q, "axis": axis, "shape": list(x.shape)}))
        return
    d = qb.dequantize()
    eff_axis = "none" if qb.axis is None else str(qb.axis)
    sb = bits_of(qb._scale, F)
    lines.append(f"absmaxw {F} {eff_axis} {shape_s(x.shape)} {xb}")
    expect.append(f"{shape_s(qb._scale.shape)} {list_s(sb)}")
    meta.append(("scale", F, Q, axis, x))
    lines.append(f"sym {F} {Q} {eff_axis} {shape_s(x.shape)} {xb} {shape_s(qb._scale.shape)} {list_s(sb)}")
    expect.append(("ok", eff_axis, shape_s(qb._data.shape), list_s(c01.codes_of(qb._data, Q)), shape_s(d.shape), list_s(bits_of(d, F))))
    meta.append(("codes", F, Q, axis, x))
    # spec: elementwise with the broadcast scale
    sfull = qb._scale.expand(x.shape) if qb._scale.ndim else qb._scale.reshape(1)
    sl = list_s(bits_of(sfull.contiguous(), F))
    spec_lines.append(f"spec01 {F} {Q} {xb} {sl} {list_s(c01.codes_of(qb._data, Q))} {list_s(bits_of(d, F))}")
    spec_meta.append(("w8", F, Q, axis, x, names))
    if not torch.isfinite(d.float()).all():
        ctx.count("weight8:nonfinite-deq")
    # with the default optimizer nothing saturates: the C01 bound is then half a step for every element (`spec03`: the scale
    # keeps every element of its slice inside the grid, up to rounding)
    SPEC3.append((f"spec03 {F} {c01.QMAX[Q] if hasattr(c01, 'QMAX') else {'qint8': 127, 'e4m3': 448, 'e5m2': 57344}[Q]} {eff_axis} {shape_s(x.shape)} {xb} {shape_s(qb._scale.shape)} {list_s(sb)}",
                  (F, Q, axis, x, names)))


def calibration_cases(ctx):
    """calibrate on degenerate batches, then run inference: outputs must be finite"""
    import optimum.quanto as q
    from optimum.quanto import Calibration, freeze, quantize
    rng = ctx.rng
    n = 24 if not ctx.thorough else 200
    for _ in range(n):
        act = rng.choice(["qint8", "qfloat8_e4m3fn", "qfloat8_e5m2"])
        wq = rng.choice(["qint8", "qint4", "qfloat8"])
        dt = rng.choice([torch.float32, torch.float16, torch.bfloat16])
        torch.manual_seed(rng.getrandbits(30))
        model = torch.nn.Sequential(torch.nn.Linear(8, 8), torch.nn.ReLU(), torch.nn.Linear(8, 4)).to(dt)
        quantize(model, weights=q.qtypes[wq], activations=q.qtypes[act])
        kinds = [rng.choice(["zeros", "constant", "normal", "tiny"]) for _ in range(rng.randrange(1, 4))]
        def batch(kind):
            if kind == "zeros":
                return torch.zeros(3, 8, dtype=dt)
            if kind == "constant":
                return torch.full((3, 8), rng.choice([1.0, -2.5, 100.0]), dtype=dt)
            if kind == "tiny":
                return (torch.randn(3, 8) * 1e-30).to(dt)
            return torch.randn(3, 8).to(dt)
        try:
            with torch.no_grad(), Calibration(streamline=False):
                for k in kinds:
                    model(batch(k))
            outs = []
            with torch.no_grad():
                for k in ["normal", "zeros", "constant"]:
                    o = model(batch(k))
                    o = o.dequantize() if hasattr(o, "dequantize") else o
                    outs.append((k, o))
        except Exception as e:  # noqa
            ctx.spec_failures.append((f"C16:calibration-raises:{exc_name(e)}", {"activations": act, "weights": wq, "dtype": str(dt), "calibration_batches": kinds}))
            continue
        ctx.evaluations += 1
        ctx.count("calibration:" + "+".join(sorted(set(kinds))))
        ctx.nontriv(("calib", act, wq, str(dt), tuple(kinds)))
        scales = [float(m.output_scale) for m in model if hasattr(m, "output_scale")] + [float(m.input_scale) for m in model if hasattr(m, "input_scale")]
        for k, o in outs:
            if not torch.isfinite(o.float()).all():
                zero_only = all(kk in ("zeros", "tiny") for kk in kinds)
                sig = "C16:nonfinite-after-calibration:" + ("zero-batches-only" if zero_only else "other")
                if "float8" in wq and "float8" in act and dt == torch.float16:
                    sig = "C16:nonfinite-after-calibration:float8xfloat8-in-float16"
                ctx.spec_failures.append((sig, {"activations": act, "weights": wq, "dtype": str(dt), "calibration_batches": kinds, "inference_batch": k, "scales": scales}))
                break


def zero_layer_cases(ctx):
    """a layer whose weights are all zero outputs exactly its bias"""
    import optimum.quanto as q
    from optimum.quanto import freeze, quantize
    rng = ctx.rng
    for wq in ["qint2", "qint4", "qint8", "qfloat8_e4m3fn", "qfloat8_e5m2", "qfloat8"]:
        for dt in (torch.float32, torch.float16, torch.bfloat16):
            for kind in ("linear", "conv"):
                for frozen in (False, True):
                    torch.manual_seed(rng.getrandbits(30))
                    if kind == "linear":
                        m = torch.nn.Sequential(torch.nn.Linear(256, 6)).to(dt)
                        x = torch.randn(5, 256).to(dt)
                    else:
                        m = torch.nn.Sequential(torch.nn.Conv2d(4, 6, 3)).to(dt)
                        x = torch.randn(2, 4, 5, 5).to(dt)
                    with torch.no_grad():
                        m[0].weight.zero_()
                    bias = m[0].bias.detach().clone()
                    try:
                        quantize(m, weights=q.qtypes[wq])
                        if frozen:
                            freeze(m)
                        with torch.no_grad():
                            out = m(x)
                    except Exception as e:  # noqa
                        ctx.spec_failures.append((f"C16:zero-layer-raises:{exc_name(e)}", {"weights": wq, "dtype": str(dt), "kind": kind, "frozen": frozen}))
                        continue
                    ctx.evaluations += 1
                    ctx.count(f"zero-layer:{kind}")
                    ctx.nontriv(("zero-layer", wq, str(dt), kind, frozen))
                    ref = bias.reshape(1, -1).expand(out.shape) if kind == "linear" else bias.reshape(1, -1, 1, 1).expand(out.shape)
                    if not torch.equal(out, ref):
                        nan = not torch.isfinite(out.float()).all()
                        sig = "C16:zero-layer-not-bias:" + ("float8-nan" if (nan and "float8" in wq) else "other")
                        ctx.spec_failures.append((sig, {"weights": wq, "dtype": str(dt), "kind": kind, "frozen": frozen, "out_sample": out.reshape(-1)[:4].tolist()}))


def replay_witness(ctx, w):
    """returns the set of C16 failure signatures of one witness on the implementation"""
    sigs = set()
    if "aff" in w:
        import c02
        s2, out, model = c02.replay_aff_line(w["aff"])
        return {s.replace("C02:", "C16:affine-") for s in s2}
    w = w["sym8"]
    x = tensor_of_bits(w["x_bits"], w["F"], w["shape"])
    sub = Ctx("C16", ctx.tier, ctx.seed)
    lines, expect, meta, spec_lines, spec_meta = [], [], [], [], []
    weight8_case(sub, w["F"], w["Q"], w["axis"], x, ["witness"], lines, expect, meta, spec_lines, spec_meta)
    for sig, _ in sub.spec_failures:
        sigs.add(sig)
    for l, o in zip(spec_lines, run_driver(spec_lines)):
        if o != "ok":
            for it in o.split()[1:]:
                if not it.startswith("n="):
                    sigs.add(f"C16:sym-{it.split(':', 1)[1]}:{'float8' if w['Q'] != 'qint8' else 'int8'}")
    return sigs


def run(ctx):
    lean_obligations(ctx)
    rng = ctx.rng
    ctx.extra["rule"] = ("weights assembled from the 8 degenerate row classes in random mixtures, all six qtypes, axis 0/-1, group sizes, three dtypes; calibration on zero/constant/tiny/normal batch sequences followed by inference; "
                         "zero-weight Linear/Conv2d layers for all qtypes/dtypes/frozen states. distinct = (qtype,F,axis,group,shape,data hash); non-trivial = contains a non-'mixed' class")
    n = 600 if not ctx.thorough else 30000
    lines, expect, meta, spec_lines, spec_meta = [], [], [], [], []
    aff_cases = []
    # every run starts with the same dtype-ordered sequence (float32, then float16, then bfloat16) of weights holding a null
    # row, a row of subnormals, an ordinary and a large row: whatever a call leaves behind in the shared default optimizer
    # or the library must not reach the calls that follow, in this order as in the random order below
    for F in ("f32", "f16", "bf16"):
        dt = fmts()[F][0]
        fi = torch.finfo(dt)
        sub = fi.tiny * fi.eps       # smallest positive subnormal
        rows = torch.stack([torch.zeros(8), torch.tensor([sub * k for k in (1, -2, 3, 0, 5, -7, 11, 13)], dtype=torch.float64).float() if F == "f32" else
                            torch.tensor([sub * k for k in (1, -2, 3, 0, 5, -7, 11, 13)], dtype=torch.float64).to(dt).float(),
                            torch.linspace(-1.0, 1.0, 8), torch.linspace(-300.0, 250.0, 8)]).to(dt)
        for kind in ("qint8", "e4m3", "e5m2"):
            for axis, x in ((0, rows), (-1, rows.t())):
                weight8_case(ctx, F, kind, axis, x, ["zero", "subnormal", "mixed", "mixed"], lines, expect, meta, spec_lines, spec_meta)
                ctx.count(f"weight8:ordered-prologue:{F}:{kind}")
                ctx.evaluations += 1
    for _ in range(n):
        F = rng.choice(["f32", "f16", "bf16"])
        x, axis, gs, names = rand_weight(rng, F)
        kind = rng.choice(["qint8", "e4m3", "e5m2", "int4", "int2"])
        ctx.evaluations += 1
        for nme in set(names):
            ctx.count("rowclass:" + nme)
        if any(c != "mixed" for c in names):
            ctx.nontriv((kind, F, axis, gs, tuple(x.shape), hashlib.md5(str(bits_of(x, F)).encode()).hexdigest()))
        if kind in QMAX:
            weight8_case(ctx, F, kind, axis, x, names, lines, expect, meta, spec_lines, spec_meta)
            ctx.count(f"weight8:{F}:{kind}")
        else:
            aff_cases.append((F, 4 if kind == "int4" else 2, axis, gs, x, names))
            ctx.count(f"weight{kind}:{F}")
    # affine cases through the C02 machinery (correspondence + spec02), signatures re-labelled
    import c02
    sub = Ctx("C02", ctx.tier, ctx.seed)
    c02.run_cases(sub, aff_cases, "c16")
    ctx.corr_cases += sub.corr_cases
    ctx.corr_disagreements += sub.corr_disagreements
    for sig, case in sub.spec_failures:
        ctx.spec_failures.append((sig.replace("C02:", "C16:affine-"), case))
    got = run_driver(lines)
    ctx.corr_cases += len(lines)
    for l, e, g, m in zip(lines, expect, got, meta):
        if m[0] == "codes":
            gt = g.split()
            ok = (tuple(gt[:6]) == e) if gt and gt[0] == "ok" else False
        else:
            ok = (g == e)
        if not ok and len(ctx.corr_disagreements) < 20:
            ctx.corr_disagreements.append({"case": l[:1500], "impl": str(e)[:1500], "model": g[:1500], "tag": m[0]})
    if lines:
        ctx.sample({"line": lines[0][:300], "impl": str(expect[0])[:300]})
    sout = run_driver(spec_lines, weights=[len(l) * 60 for l in spec_lines])
    for l, o, m in zip(spec_lines, sout, spec_meta):
        if o == "ok":
            continue
        _, F, Q, axis, x, names = m
        verdicts = sorted({it.split(":", 1)[1] for it in o.split()[1:] if not it.startswith("n=")})
        for v in verdicts:
            sig = f"C16:sym-{v}:{'float8' if Q != 'qint8' else 'int8'}"
            ctx.spec_failures.append((sig, {"F": F, "Q": Q, "axis": axis, "shape": list(x.shape), "classes": names, "verdict": o[:200], "replay": l[:2000]}))
    s3 = run_driver([l for l, _ in SPEC3])
    for (l, (F, Q, axis, x, names)), o in zip(SPEC3, s3):
        if o != "ok" and len(o.split()) > 1 and o.split()[1] == "saturates":
            ctx.spec_failures.append((f"C16:sym-saturates-with-the-default-scale:{'float8' if Q != 'qint8' else 'int8'}",
                                      {"F": F, "Q": Q, "axis": axis, "shape": list(x.shape), "classes": names, "verdict": o[:200], "replay": l[:2000]}))
    del SPEC3[:]
    calibration_cases(ctx)
    zero_layer_cases(ctx)
    # S4: witnesses of the listed findings, and of the repaired defects (which must now pass)
    for sig, f in known_signatures("C16").items():
        if f["witness"].get("directed") == "f8xf8-f16-overflow":
            import witnesses07
            with torch.no_grad():
                hit = witnesses07.case_f8xf8_f16_overflow()
            if hit and sig not in ctx.known_reproduced:
                ctx.known_reproduced.append(sig)
            continue
        sigs = replay_witness(ctx, f["witness"])
        if sig in sigs:
            if sig not in ctx.known_reproduced:
                ctx.known_reproduced.append(sig)
        else:
            ctx.notes.append(f"known finding {sig} no longer reproduces on its witness")
    for f in load_known().get("fixed", []):
        if f["property"] == "C16":
            for sig in replay_witness(ctx, f["witness"]):
                ctx.spec_failures.append((sig, {"note": "repaired defect is back", "fixed_entry": f["what"], "witness": f["witness"]}))
    return finish(ctx, ["NaN/out-of-range float->int conversions are undefined behaviour and are not relied on", "CUDA kernels not executable here"])

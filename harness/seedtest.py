"""Self-test helper (not used by MANIFEST commands): apply a seeded change to /repo, run checks,
undo it.   usage: /venv/bin/python harness/seedtest.py <seeded-id> [check ids … | all] [--tier quick|thorough]"""
import json
import os
import subprocess
import sys

VERIF = os.path.dirname(os.path.dirname(os.path.abspath(__file__)))
ALL = [f"C{i:02d}" for i in range(1, 17)]


def main():
    sid = sys.argv[1]
    args = [a for a in sys.argv[2:] if not a.startswith("--")]
    tier = "quick"
    if "--tier" in sys.argv:
        tier = sys.argv[sys.argv.index("--tier") + 1]
        args = [a for a in args if a != tier]
    d = os.path.join(VERIF, "seeded", sid)
    meta = json.load(open(os.path.join(d, "meta.json")))
    checks = ALL if args == ["all"] else (args or [meta["property"]])
    patch = os.path.join(d, "patch.diff")
    st = subprocess.run(["git", "-C", "/repo", "status", "--porcelain"], capture_output=True, text=True).stdout.strip()
    if st:
        print("refusing: /repo has uncommitted changes:\n" + st)
        return 2
    r = subprocess.run(["git", "-C", "/repo", "apply", patch], capture_output=True, text=True)
    if r.returncode != 0:
        print("patch does not apply:", r.stderr)
        return 2
    results = {}
    try:
        for c in checks:
            p = subprocess.run([os.path.join(VERIF, "vcheck"), c, "--tier", tier], cwd=VERIF, capture_output=True, text=True, timeout=3600)
            lines = [l for l in p.stdout.split("\n") if l.startswith("VIOLATION") or l.startswith("HARNESS-ERROR")]
            results[c] = {"exit": p.returncode, "lines": lines}
            print(c, "exit", p.returncode, lines[:3])
            for l in lines[:2]:
                if "replay=" in l:
                    rp = l.split("replay=")[1].split()[0]
                    try:
                        rj = json.load(open(os.path.join(VERIF, rp)))
                        print("   ", rj.get("kind"), rj.get("signature"), json.dumps(rj.get("case") or rj.get("correspondence_broken", [{}])[0])[:400])
                    except Exception as e:  # noqa
                        print("    (cannot read replay)", e)
    finally:
        subprocess.run(["git", "-C", "/repo", "checkout", "--", "."], check=True)
    json.dump({"tier": tier, "results": results}, open(os.path.join(d, f"result_{tier}.json"), "w"), indent=1)
    return 0


if __name__ == "__main__":
    sys.exit(main())

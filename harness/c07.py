"""C07 — quantized matmul/linear kernels compute scale-corrected products on every path.

(i) exact-arithmetic operand sets (small integer / dyadic codes, power-of-two scales, exactly
representable activations and biases): torch.nn.functional.linear on real quantized tensors vs the
Lean model `lin07`, bit for bit, for the kernel chosen by the modelled route table; the three kernel
functions and the CPU / CUDA / MPS route functions are also called directly on CPU tensors, the
kernel actually taken is observed by wrapping the module-level kernel functions and compared with
`route07`.  (ii) realistic magnitudes (incl. saturating codes): float64 reference inside the
accumulation envelope; finiteness."""
import torch
from common import *
import ops_common as oc
import c01

PAY = {torch.int8: "int8", torch.float8_e4m3fn: "float8", torch.float8_e5m2: "float8", torch.float32: "f32", torch.float16: "f16", torch.bfloat16: "bf16"}


def pow2(rng, lo=-4, hi=2):
    return 2.0 ** rng.randrange(lo, hi + 1)


def mk_qbytes(qtype, axis, data, scale):
    from optimum.quanto import QBytesTensor
    return QBytesTensor(qtype, axis, data.size(), data.stride(), data, scale)


def rand_codes(rng, g, shape, qtype, small=True):
    if qtype.is_floating_point:
        vals = torch.randint(-8, 9, shape, generator=g).float() * (0.5 if small else 8.0)
        return vals.to(qtype.dtype)
    return torch.randint(-8 if small else -128, 9 if small else 128, shape, generator=g, dtype=torch.int8)


def exact_case(ctx, rng, g):
    import optimum.quanto as q
    F = rng.choice(["f32", "f16", "bf16"])
    dt = fmts()[F][0]
    rows_shape = rng.choice([[1], [2], [7], [16], [17], [24], [32], [64], [2, 3], [1, 5], [2, 2, 4], [3, 1, 2]])
    inF = rng.choice([1, 3, 4, 7, 8, 31, 32, 33, 64, 100, 128] + ([512] if rng.random() < 0.1 else []))
    outF = rng.choice([1, 3, 8, 32, 33] + ([64] if rng.random() < 0.2 else []))
    wq = q.qtypes[rng.choice(["qint8", "qint8", "qfloat8_e4m3fn", "qfloat8_e5m2"])]
    if F == "bf16" and rng.random() < 0.3:
        wq = q.qint8
        inF = rng.choice([16, 32, 64, 128])     # int8-packed route
    wdata = rand_codes(rng, g, [outF, inF], wq)
    if rng.random() < 0.7 and outF > 1:
        wscale = torch.tensor([pow2(rng) for _ in range(outF)]).reshape(outF, 1).to(dt)
        waxis = 0
    else:
        wscale = torch.tensor(pow2(rng)).to(dt)
        waxis = None
    w = mk_qbytes(wq, waxis, wdata, wscale)
    akind = rng.choice(["float", "qint8", "qfloat8_e4m3fn", "qfloat8_e5m2"])
    if wq.name == "qint8" and rng.random() < 0.4:
        akind = "qint8"                         # integer GEMM route
    if akind == "float":
        x = (torch.randint(-16, 17, rows_shape + [inF], generator=g).float() / 4).to(dt)
    else:
        aq = q.qtypes[akind]
        x = mk_qbytes(aq, None, rand_codes(rng, g, rows_shape + [inF], aq), torch.tensor(pow2(rng)).to(dt))
    bias = (torch.randint(-8, 9, [outF], generator=g).float() / 2).to(dt) if rng.random() < 0.5 else None
    return F, x, w, bias, akind


def big_accumulator_case(ctx, rng, g):
    """exact-arithmetic operands whose un-scaled accumulator is large (codes +-127 / +-64 aligned with the
    sign of power-of-two activations) while the scaled result is small: the matmul of integer payloads must
    be formed in float32 whatever the dtype of the activations"""
    import optimum.quanto as q
    F = rng.choice(["f16", "f16", "bf16", "f32"])
    dt = fmts()[F][0]
    inF = rng.choice([33, 100, 128, 160])
    outF = rng.choice([1, 3, 8])
    rows = rng.choice([1, 3, 17])
    c = rng.choice([4.0, 8.0])
    sx = torch.randint(0, 2, [rows, inF], generator=g).float() * 2 - 1
    x = (sx * c).to(dt)
    mag = torch.tensor(rng.choice([127, 127, 101])).to(torch.int8)
    sw = torch.randint(0, 2, [outF, 1], generator=g).float() * 2 - 1
    wdata = (sx[0:1].expand(outF, inF) * sw * float(mag)).to(torch.int8)      # aligned with the first row of x
    wscale = torch.full((outF, 1), 2.0 ** -rng.choice([8, 10, 12])).to(dt)
    w = mk_qbytes(q.qint8, 0, wdata, wscale)
    return F, x, w, None, "float"


def payload_of(x):
    return PAY[x._data.dtype] if oc.is_qb(x) else PAY[x.dtype]


def route_functions():
    """the CPU / CUDA / MPS route functions of library/qbytes_mm.py as plain callables: torch.library.impl
    does not return them, so they are re-created from the working tree's source text (decorators stripped)
    inside the module's own namespace — the kernels they call are the module's (spied) functions"""
    import optimum.quanto.library.qbytes_mm as m
    import ast
    src = open(m.__file__).read()
    tree = ast.parse(src)
    out = {}
    for node in tree.body:
        if isinstance(node, ast.FunctionDef) and node.name.startswith("qbytes_mm_impl_"):
            node.decorator_list = []
            mod = ast.Module(body=[node], type_ignores=[])
            ns = {}
            exec(compile(mod, m.__file__, "exec"), m.__dict__, ns)
            out[node.name.replace("qbytes_mm_impl_", "")] = ns[node.name]
    return out


class KernelSpy:
    """wrap the module-level kernel functions of library/qbytes_mm.py to observe the route taken"""

    def __init__(self):
        import optimum.quanto.library.qbytes_mm as m
        self.m = m
        self.called = []
        self.orig = {n: getattr(m, n) for n in ("qbytes_mm", "qbytes_int_mm", "qbytes_int8pack_mm")}

    def __enter__(self):
        for n, f in self.orig.items():
            def wrap(*a, _n=n, _f=f, **k):
                self.called.append({"qbytes_mm": "float", "qbytes_int_mm": "int", "qbytes_int8pack_mm": "pack"}[_n])
                return _f(*a, **k)
            setattr(self.m, n, wrap)
        return self

    def __exit__(self, *a):
        for n, f in self.orig.items():
            setattr(self.m, n, f)


def envelope_check(ctx, name, out, x, w, bias, extra=""):
    """float64 reference on the dequantized operands inside one accumulation's error envelope"""
    xd = (x.dequantize() if oc.is_q(x) else x).double()
    wd = (w.dequantize() if oc.is_q(w) else w).double()
    exact = xd @ wd.t()
    mag = xd.abs() @ wd.abs().t()
    K = xd.shape[-1]
    if bias is not None:
        exact = exact + bias.double()
        mag = mag + bias.double().abs()
    u = {torch.float32: 2.0 ** -24, torch.float16: 2.0 ** -11, torch.bfloat16: 2.0 ** -8}[out.dtype]
    env = ((K + 4) * 2.0 ** -24 + 3 * u) * mag + 3 * u * exact.abs() + 2 * float(torch.finfo(out.dtype).tiny) * u
    representable = bool((exact.abs() * (1 + 2 * u) < float(torch.finfo(out.dtype).max)).all())
    if not bool(torch.isfinite(out.float()).all()):
        if representable:
            both_f8 = oc.is_qb(x) and oc.is_qb(w) and x.qtype.is_floating_point and w.qtype.is_floating_point
            w_f8 = oc.is_qb(w) and w.qtype.is_floating_point
            sig = ("C07:nonfinite-result:float8xfloat8-in-float16" if (both_f8 and out.dtype == torch.float16)
                   else ("C07:nonfinite-result:float8-weights-in-float16" if (w_f8 and out.dtype == torch.float16) else f"C07:nonfinite-result:{name}"))
            ctx.spec_failures.append((sig, {"site": name, "dtype": str(out.dtype), "x": oc.kind_of(x), "w": oc.kind_of(w), "shape_x": list(x.shape), "shape_w": list(w.shape)}))
        return
    if out.shape != exact.shape:
        ctx.spec_failures.append((f"C07:wrong-shape:{name}", {"got": list(out.shape), "want": list(exact.shape)}))
        return
    bad = (out.double() - exact).abs() > env
    if bool(bad.any()):
        sig = f"C07:outside-envelope:{name}{extra}"
        if oc.is_qb(x) and oc.is_qb(w) and float(x._scale.double().abs().min() * w._scale.double().abs().min()) < float(torch.finfo(out.dtype).tiny):
            sig = "C07:outside-envelope:scale-product-subnormal"
        ctx.spec_failures.append((sig, {"site": name, "max_excess": float(((out.double() - exact).abs() - env).max()), "dtype": str(out.dtype), "x": oc.kind_of(x), "w": oc.kind_of(w),
                                        "shape_x": list(x.shape), "shape_w": list(w.shape)}))


def unaligned_probe(ctx):
    import subprocess
    n = 250 if not ctx.thorough else 2500
    p = subprocess.run([sys.executable, os.path.join(VERIF, "harness", "c07_views.py"), str(ctx.seed), str(n)], capture_output=True, text=True, timeout=3000)
    last_start, done = None, False
    for l in p.stdout.split("\n"):
        if not l.startswith("{"):
            continue
        o = json.loads(l)
        if "start" in o:
            last_start = o["start"]
        elif "done" in o:
            done = True
        else:
            ctx.evaluations += 1
            c = o["case"]
            ctx.count(f"views:{c['F']}:act-{c['act']}:x-{c['x_layout']}:w-{c['w_layout']}"[:60])
            ctx.nontriv(("views", json.dumps(c, sort_keys=True)))
            if o["status"] != "ok":
                kind = "raises" if o["status"].startswith("raises") else "differs"
                sig = f"C07:view-operands:{kind}:act-{c['act']}:w-{c['w']}"
                if kind == "differs" and o.get("what") == "non-finite" and o.get("f8xf8_f16"):
                    sig = "C07:nonfinite-result:float8xfloat8-in-float16"
                elif kind == "differs" and o.get("scale_product_subnormal"):
                    sig = "C07:outside-envelope:scale-product-subnormal"
                ctx.spec_failures.append((sig, {"case": c, "status": o["status"], "what": o.get("what") or o.get("message"),
                                                                                          "replay": f"harness/c07_views.py {ctx.seed} {n}"}))
    if not done:
        ctx.spec_failures.append(("C07:view-operands:process-crashed", {"exit": p.returncode, "case": last_start, "stderr": p.stderr[-300:],
                                                                        "replay": f"harness/c07_views.py {ctx.seed} {n}"}))


def run(ctx):
    import optimum.quanto as q
    import optimum.quanto.library.qbytes_mm as mm
    lean_obligations(ctx)
    rng = ctx.rng
    g = torch.Generator().manual_seed(ctx.seed + 11)
    ctx.extra["rule"] = ("(i) exact-arithmetic sets: rows {1,2,7,16,17,24,32,64 and batch ranks 2-3}, in_features {1,3,4,7,8,31,32,33,64,100,128,512}, out_features {1,3,8,32,33,64}, dtype float32/float16/bfloat16, "
                         "activations float / qint8 / qfloat8 e4m3 / e5m2, weights qint8 / qfloat8 per-axis or per-tensor, bias on/off — bit-exact against the model; kernels and CPU/CUDA/MPS route functions called directly; "
                         "(ii) realistic magnitudes incl. saturating codes and low-bit weights against a float64 reference. distinct = (dtype, act kind, weight qtype/axis, shapes, bias); non-trivial = all")
    ROUTES = route_functions()
    n_exact = 300 if not ctx.thorough else 6000
    lines, expect, meta = [], [], []
    rlines, rexpect = [], []
    for ci in range(n_exact):
        F, x, w, bias, akind = exact_case(ctx, rng, g) if ci % 6 else big_accumulator_case(ctx, rng, g)
        dt = fmts()[F][0]
        rows = x.numel() // x.shape[-1]
        cfg = f"{payload_of(x)} {payload_of(w)} {rows} {x.shape[-1]} {w.shape[0]} 1"
        with KernelSpy() as spy, torch.no_grad():
            try:
                out = torch.nn.functional.linear(x, w, bias)
            except Exception as e:  # noqa
                ctx.spec_failures.append((f"C07:linear-raises:{exc_name(e)}", {"F": F, "act": akind, "w": oc.kind_of(w), "shape_x": list(x.shape), "shape_w": list(w.shape), "message": str(e)[:150]}))
                continue
        ctx.evaluations += 1
        taken = spy.called[-1] if spy.called else "none"
        ctx.count(f"exact:{F}:act-{akind}:w-{w.qtype.name}:{'pa' if w.axis is not None else 'pt'}:kernel-{taken}")
        ctx.nontriv((F, akind, w.qtype.name, w.axis, tuple(x.shape), tuple(w.shape), bias is not None))
        rlines.append(f"route07 cpu {cfg}")
        rexpect.append(taken)
        btok = oc.enc(bias) if bias is not None else "-"
        lines.append(f"lin07 {taken} {F} {oc.enc(x)} {oc.enc(w)} {btok}")
        expect.append(f"{shape_s(out.shape)} {list_s(bits_of(out, F))}")
        meta.append(("linear", F, akind, w.qtype.name))
        envelope_check(ctx, "linear-exact", out, x, w, bias)
        # the kernels and the route functions, called directly on the payloads
        if oc.is_qb(x):
            a, scales = x._data, x._scale * w._scale
        else:
            a, scales = x, w._scale
        scales = scales if scales.ndim == 2 else scales.reshape(1, 1).expand(w.shape[0], 1).contiguous()
        ref = mm.qbytes_mm(a, w._data, scales)
        variants = {"kernel-float": ref}
        if a.dtype == torch.int8 and w._data.dtype == torch.int8 and a.shape[-1] > 1:   # torch._int_mm is wrong on CPU for K = 1
            variants["kernel-int"] = mm.qbytes_int_mm(a, w._data, scales)
        if a.dtype == torch.bfloat16 and w._data.dtype == torch.int8 and a.shape[-1] % 16 == 0:   # the torch CPU kernel crashes otherwise
            try:
                variants["kernel-pack"] = mm.qbytes_int8pack_mm(a, w._data, scales)
            except Exception as e:  # noqa
                ctx.count("int8pack-unavailable:" + exc_name(e))
        for dev, fn in ROUTES.items():
            if dev == "default":
                continue
            if dev == "cuda" and a.ndim not in (2, 3):
                continue
            with KernelSpy() as spy2:
                try:
                    variants["route-" + dev] = fn(a, w._data, scales)
                except Exception as e:  # noqa
                    ctx.count(f"route-{dev}-raises:{exc_name(e)}")
                    continue
            tokens = a.shape[0] if a.ndim == 2 else (a.shape[0] * a.shape[1] if a.ndim == 3 else rows)
            rlines.append(f"route07 {dev} {payload_of(x)} {payload_of(w)} {tokens} {x.shape[-1]} {w.shape[0]} 1")
            rexpect.append(spy2.called[-1] if spy2.called else "none")
        for name, v in variants.items():
            if v.shape != ref.shape or bits_of(v) != bits_of(ref):
                ctx.spec_failures.append((f"C07:routes-disagree:{name}", {"F": F, "act": akind, "w": oc.kind_of(w), "shape_x": list(x.shape), "shape_w": list(w.shape),
                                                                        "max_diff": float((v.double() - ref.double()).abs().max()) if v.shape == ref.shape else None}))
            ctx.count("variant:" + name)
    # ---- aten.mm / bmm on two quantized operands, all axis combinations, shapes on both sides of the integer route
    for _ in range(40 if not ctx.thorough else 2000):
        F = rng.choice(["f32", "f16", "bf16"])
        dt = fmts()[F][0]
        n, m, p = rng.choice([(24, 24, 24), (32, 32, 48), (24, 16, 8), (17, 8, 8), (24, 12, 8), (5, 7, 3), (64, 8, 16)])
        la, ra = rng.choice([None, 0, -1]), rng.choice([None, 0, -1])
        A = (torch.randn(n, m, generator=g) * torch.logspace(-1, 1, m).reshape(1, m)).to(dt)
        B = (torch.randn(m, p, generator=g) * torch.logspace(-1, 1, m).reshape(m, 1)).to(dt)
        try:
            qa = q.quantize_weight(A, q.qint8, la) if la is not None else q.quantize_activation(A, q.qint8, (A.abs().max() / 127).to(dt))
            qb = q.quantize_weight(B, q.qint8, ra) if ra is not None else q.quantize_activation(B, q.qint8, (B.abs().max() / 127).to(dt))
            with torch.no_grad():
                out = torch.mm(qa, qb)
        except Exception as e:  # noqa
            ctx.spec_failures.append((f"C07:mm-raises:{exc_name(e)}", {"F": F, "shapes": [n, m, p], "left_axis": la, "right_axis": ra, "message": str(e)[:150]}))
            continue
        ctx.evaluations += 1
        ctx.count(f"mm:{F}:left-axis={la}:right-axis={ra}")
        ctx.nontriv(("mm", F, n, m, p, la, ra))
        # reference through the linear-shaped envelope helper: out = qa @ qb = linear(qa, qb.t())
        xd, wd = qa.dequantize().double(), qb.dequantize().double()
        exact = xd @ wd
        mag = xd.abs() @ wd.abs()
        u = {torch.float32: 2.0 ** -24, torch.float16: 2.0 ** -11, torch.bfloat16: 2.0 ** -8}[dt]
        env = ((m + 4) * 2.0 ** -24 + 3 * u) * mag + 3 * u * exact.abs() + 2 * float(torch.finfo(dt).tiny) * u
        od = out.dequantize() if oc.is_q(out) else out
        if od.shape != exact.shape or (torch.isfinite(od.float()).all() and bool(((od.double() - exact).abs() > env).any())):
            sig = "C07:mm-outside-envelope"
            if float(qa._scale.double().abs().min() * qb._scale.double().abs().min()) < float(torch.finfo(dt).tiny):
                sig = "C07:outside-envelope:scale-product-subnormal"
            ctx.spec_failures.append((sig, {"F": F, "shapes": [n, m, p], "left_axis": la, "right_axis": ra,
                                            "max_excess": float(((od.double() - exact).abs() - env).max()) if od.shape == exact.shape else None}))
    # ---- QBits weights (dequantize + float matmul), exact sets
    from optimum.quanto import QBitsTensor
    for _ in range(40 if not ctx.thorough else 2000):
        F = rng.choice(["f32", "f16", "bf16"])
        dt = fmts()[F][0]
        bits = rng.choice([2, 4])
        outF, inF = rng.choice([1, 3, 8]), rng.choice([4, 8, 32, 64])
        gs = rng.choice([None, 4]) if inF >= 4 else None
        codes = torch.randint(0, 2 ** bits, [outF * inF // gs, gs] if gs else [outF, inF], generator=g, dtype=torch.uint8)
        nsc = codes.shape[0]
        scale = torch.tensor([pow2(rng, -3, 1) for _ in range(nsc)]).reshape(nsc, 1).to(dt)
        zp = torch.randint(0, 2 ** bits, [nsc, 1], generator=g, dtype=torch.int8)
        w = QBitsTensor(q.qint2 if bits == 2 else q.qint4, 0, gs, torch.Size([outF, inF]), (inF, 1), codes, scale, zp)
        x = (torch.randint(-8, 9, [rng.choice([1, 3, 17]), inF], generator=g).float() / 4).to(dt)
        bias = (torch.randint(-8, 9, [outF], generator=g).float() / 2).to(dt) if rng.random() < 0.5 else None
        with torch.no_grad():
            out = torch.nn.functional.linear(x, w, bias)
        ctx.evaluations += 1
        ctx.count(f"exact-qbits:{F}:int{bits}")
        ctx.nontriv(("qbits", F, bits, gs, tuple(x.shape), outF))
        lines.append(f"lin07 fallbackfloat {F} {oc.enc(x)} {oc.enc(w.dequantize())} {oc.enc(bias) if bias is not None else '-'}")
        expect.append(f"{shape_s(out.shape)} {list_s(bits_of(out, F))}")
        meta.append(("linear-qbits", F, "float", f"int{bits}"))
        envelope_check(ctx, "linear-qbits", out, x, w, bias)
    # ---- realistic magnitudes
    n_real = 150 if not ctx.thorough else 8000
    for _ in range(n_real):
        F = rng.choice(["f32", "f16", "bf16"])
        dt = fmts()[F][0]
        rows_shape = rng.choice([[1], [5], [17], [32], [2, 9], [2, 2, 3]])
        inF = rng.choice([5, 16, 33, 64, 160, 256])
        outF = rng.choice([1, 7, 16, 40])
        wf = (torch.randn(outF, inF, generator=g) * 10 ** rng.uniform(-2, 1)).to(dt)
        wqn = rng.choice(["qint8", "qfloat8", "qfloat8_e5m2", "qint4", "qint2"])
        gs = None
        if wqn in ("qint4", "qint2"):
            gs = rng.choice([None] + [d for d in (8, 16, 32) if inF % d == 0])
        w = q.quantize_weight(wf, q.qtypes[wqn], 0, gs)
        xf = (torch.randn(rows_shape + [inF], generator=g) * 10 ** rng.uniform(-2, 1)).to(dt)
        akind = rng.choice(["float", "qint8", "qfloat8_e4m3fn", "qfloat8_e5m2"])
        if akind == "float":
            x = xf
        else:
            aq = q.qtypes[akind]
            # scale chosen so that part of the activations saturate
            s = (xf.abs().max().float() / float(torch.finfo(aq.dtype).max if aq.is_floating_point else 127) * rng.choice([1.0, 1.0, 0.5])).to(dt)
            x = q.quantize_activation(xf, aq, s)
        bias = torch.randn(outF, generator=g).to(dt) if rng.random() < 0.5 else None
        with torch.no_grad():
            try:
                out = torch.nn.functional.linear(x, w, bias)
            except Exception as e:  # noqa
                ctx.spec_failures.append((f"C07:linear-raises:{exc_name(e)}", {"F": F, "act": akind, "w": wqn, "message": str(e)[:150]}))
                continue
        ctx.evaluations += 1
        ctx.count(f"realistic:{F}:act-{akind}:w-{wqn}")
        ctx.nontriv(("real", F, akind, wqn, tuple(x.shape), outF, gs))
        if out.dtype != dt:
            ctx.spec_failures.append(("C07:output-dtype", {"got": str(out.dtype), "want": str(dt), "act": akind, "w": wqn}))
        envelope_check(ctx, "linear-realistic", out, x, w, bias)
    # ---- aligned rows: activations that have the sign pattern of one weight row accumulate without cancellation, so the output is
    # large compared with the weights (and with the weight scale) although it is far inside the range of the output dtype
    agrid = [(F_, K_, a_, w_) for F_ in ("f16", "bf16") for K_ in (256, 512) for a_ in ("float", "qint8", "qfloat8_e4m3fn") for w_ in ("qint8", "qfloat8", "qint4")]
    for ai in range(len(agrid) + (8 if not ctx.thorough else 240)):
        # every run: the whole grid dtype x K x activation kind x weight qtype, then seeded random cases
        F = rng.choice(["f16", "f16", "bf16", "f32"])
        K = rng.choice([128, 256, 512])
        forced = agrid[ai] if ai < len(agrid) else None
        if forced:
            F, K = forced[0], forced[1]
        dt = fmts()[F][0]
        outF = rng.choice([1, 4, 9])
        wf = torch.randn(outF, K, generator=g) * 0.02
        sgn = torch.where(torch.rand(K, generator=g) < 0.5, -1.0, 1.0)
        wf[0] = sgn * 0.5 * (0.5 + 0.5 * torch.rand(K, generator=g))
        wqn = forced[3] if forced else rng.choice(["qint8", "qfloat8", "qint4"])
        w = q.quantize_weight(wf.to(dt), q.qtypes[wqn], 0)
        rows = rng.choice([1, 3])
        xf = (sgn * (2 + 6 * torch.rand(rows, K, generator=g))).to(dt)
        akind = forced[2] if forced else rng.choice(["float", "qint8", "qfloat8_e4m3fn"])
        if akind == "float":
            x = xf
        else:
            aq = q.qtypes[akind]
            x = q.quantize_activation(xf, aq, (xf.abs().max().float() / float(torch.finfo(aq.dtype).max if aq.is_floating_point else 127)).to(dt))
        bias = torch.randn(outF, generator=g).to(dt) if rng.random() < 0.5 else None
        with torch.no_grad():
            try:
                out = torch.nn.functional.linear(x, w, bias)
            except Exception as e:  # noqa
                ctx.spec_failures.append((f"C07:linear-raises:{exc_name(e)}", {"F": F, "act": akind, "w": wqn, "message": str(e)[:150]}))
                continue
        ctx.evaluations += 1
        ctx.count(f"aligned:{F}:act-{akind}:w-{wqn}")
        ctx.nontriv(("aligned", F, akind, wqn, K, outF, rows))
        envelope_check(ctx, "linear-aligned", out, x, w, bias)
    # ---- operands that are views (expanded, transposed storage, slices, odd offsets), in a child process:
    # the torch kernels behind the integer and int8-pack routes may crash the interpreter on them
    unaligned_probe(ctx)
    # ---- correspondence
    got = run_driver(lines, weights=[len(l) * (int(l.split()[3].split(";")[2].split("x")[-1]) if False else 1) for l in lines])
    ctx.corr_cases += len(lines) + len(rlines)
    for l, e, gg, m in zip(lines, expect, got, meta):
        if e != gg and len(ctx.corr_disagreements) < 20:
            ctx.corr_disagreements.append({"case": l[:800], "impl": e[:400], "model": gg[:400], "tag": str(m)})
    rgot = run_driver(rlines)
    for l, e, gg in zip(rlines, rexpect, rgot):
        if e != gg and e != "none" and len(ctx.corr_disagreements) < 30:
            ctx.corr_disagreements.append({"case": l, "impl": e, "model": gg, "tag": "route"})
    ctx.sample({"line": lines[0][:300], "impl": expect[0][:200]})
    ctx.sample({"line": rlines[0], "impl": rexpect[0]})
    # S4
    for sig, f in known_signatures("C07").items():
        import witnesses07
        if witnesses07.reproduces(f):
            if sig not in ctx.known_reproduced:
                ctx.known_reproduced.append(sig)
        else:
            ctx.notes.append(f"known finding {sig} no longer reproduces on its witness")
    return finish(ctx, ["float accumulation inside BLAS/ATen kernels is not modelled: bit-exact tie only on operand sets where it is exact, envelope otherwise (validated, not proved)",
                        "CUDA / MPS kernels cannot run; their Python route functions are exercised on CPU tensors"])

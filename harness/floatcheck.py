"""Validation of the Lean float model (L0) against torch's CPU kernels, bit for bit."""
import torch
from common import *


def special_bits(fmt, rng, n):
    dt, it, w = fmts()[fmt]
    out = []
    for _ in range(n):
        k = rng.random()
        if k < 0.6:
            out.append(rng.getrandbits(w))
        elif k < 0.8:   # small exponents / subnormals
            mb = {"f32": 23, "f16": 10, "bf16": 7}[fmt]
            out.append((rng.getrandbits(1) << (w - 1)) | (rng.randrange(0, 3) << mb) | rng.getrandbits(mb))
        else:           # near max
            mb = {"f32": 23, "f16": 10, "bf16": 7}[fmt]
            eb = w - 1 - mb
            out.append((rng.getrandbits(1) << (w - 1)) | (((1 << eb) - rng.randrange(1, 3)) << mb) | rng.getrandbits(mb))
    return out


def run(ctx, n):
    """returns number of mismatches; records in ctx"""
    rng = ctx.rng
    lines, expect = [], []
    for fmt in ("f16", "bf16", "e4m3", "e5m2"):
        w = fmts()[fmt][2]
        allb = list(range(1 << w))
        t = tensor_of_bits(allb, fmt)
        exp = bits_of(t, fmt)
        for b, e in zip(allb, exp):
            lines.append(f"recode {fmt} {b}")
            expect.append(str(e))
    for fmt in ("f32", "f16", "bf16"):
        a = special_bits(fmt, rng, n)
        b = special_bits(fmt, rng, n)
        ta, tb = tensor_of_bits(a, fmt), tensor_of_bits(b, fmt)
        # canonicalise -0 inputs to +0 (model has no signed zero)
        ta = torch.where(ta == 0, torch.zeros_like(ta), ta)
        tb = torch.where(tb == 0, torch.zeros_like(tb), tb)
        a, b = bits_of(ta, fmt), bits_of(tb, fmt)
        for op, f in (("div", torch.div), ("mul", torch.mul), ("sub", torch.sub), ("add", torch.add)):
            r = bits_of(f(ta, tb), fmt)
            for x, y, z in zip(a, b, r):
                if op == "div" and tensor_of_bits([y], fmt).item() == 0 and tensor_of_bits([x], fmt).item() < 0:
                    pass
                lines.append(f"{op} {fmt} {x} {y}")
                expect.append(str(z))
    got = run_driver(lines)
    bad = [(l, e, g) for l, e, g in zip(lines, expect, got) if e != g]
    ctx.count("floatmodel_cases", len(lines))
    return bad


if __name__ == "__main__":
    ctx = Ctx("FLOAT", "quick", int(os.environ.get("VERIF_SEED", "0")))
    bad = run(ctx, int(sys.argv[1]) if len(sys.argv) > 1 else 3000)
    print("cases", ctx.hist, "mismatches", len(bad))
    for b in bad[:20]:
        print(b)

"""./vcheck replay <file> — re-run the concrete input of a replay file against the implementation.

Replay files written by the checks carry, where a failing input was found, a `replay` entry: a driver
protocol line (the same line is fed to the model) or the name of a directed case.  This command
re-evaluates it on the working tree and prints what the implementation and the model say."""
import json

from common import *


def main(path):
    d = json.load(open(path))
    pid = d.get("property")
    print(f"property {pid}  kind {d.get('kind')}  signature {d.get('signature')}")
    case = d.get("case") or {}
    line = case.get("replay")
    if d.get("kind") == "proof-or-correspondence-broken":
        print("no failing input was found; the theorem / correspondence that no longer checks:")
        print(json.dumps({k: d[k] for k in d if k in ("proof_obligations_not_checked", "correspondence_broken", "forbidden_hits", "note")}, indent=1)[:4000])
        for c in d.get("correspondence_broken", [])[:3]:
            if isinstance(c.get("case"), str) and c["case"].split()[0] in ("sym", "aff", "pack", "unpack", "punpack", "awq", "op05", "lin07", "calib12", "quant08", "cfgw", "cfgs"):
                print("model says :", run_driver([c["case"]])[0][:600])
                print("impl said  :", str(c.get("impl"))[:600])
        return 1
    if not line:
        print(json.dumps(case, indent=1)[:3000])
        return 1
    if isinstance(line, str) and line.startswith("harness/witnesses05.py::"):
        import witnesses05
        fn = getattr(witnesses05, line.split("::")[1])
        r = fn()
        print("directed case:", "property holds" if r is None else r)
        return 0 if r is None else 1
    cmd = line.split()[0]
    if cmd == "sym":
        import c01
        out, model, sigs = c01.replay_sym_line(line)
        print("impl :", out[:600])
        print("model:", model[:600])
        print("failing verdicts:", sorted(sigs))
        return 1 if sigs else 0
    if cmd == "aff":
        import c02
        sigs, out, model = c02.replay_aff_line(line)
        print("impl :", out[:600])
        print("model:", model[:600])
        print("failing verdicts:", sorted(sigs))
        return 1 if sigs else 0
    # any other protocol line: the oracle / model side can be re-evaluated directly
    print("line :", line[:800])
    print("model/oracle says:", run_driver([line])[0][:800])
    print(json.dumps({k: v for k, v in case.items() if k != "replay"}, indent=1)[:2000])
    return 1

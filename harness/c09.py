"""C09 — freeze() preserves outputs bit-for-bit, is idempotent and compacts storage.

Random histories of forward / calibrate / freeze / freeze-again / to(cpu) / deepcopy on real
quantized models (Linear / Conv2d stacks, all six weight qtypes, three dtypes, activations on/off):
outputs compared bit for bit across events; everything but the weights compared by bit hashes
around freeze; storage of every frozen weight compared with the Lean formula (`store09`, which the
theorems derive from the packing density and grouping shapes)."""
import copy

import torch
from common import *
import qmeta


def build(rng, dt):
    kind = rng.choice(["mlp", "conv", "mixed"])
    if kind == "mlp":
        inf = rng.choice([6, 160, 256])
        m = torch.nn.Sequential(torch.nn.Linear(inf, 8), torch.nn.ReLU(), torch.nn.Linear(8, 3))
        shape = [2, inf]
    elif kind == "conv":
        m = torch.nn.Sequential(torch.nn.Conv2d(3, 4, 3, padding=1), torch.nn.ReLU(), torch.nn.Conv2d(4, 2, 1))
        shape = [2, 3, 5, 5]
    else:
        m = torch.nn.Sequential(torch.nn.Conv2d(2, 4, 3), torch.nn.Flatten(), torch.nn.LayerNorm(36), torch.nn.Linear(36, 5))
        shape = [2, 2, 5, 5]
    return kind, m.to(dt), shape


def out_bits(o):
    return bits_of(o.dequantize() if hasattr(o, "dequantize") else o)


def nonweight_snapshot(model):
    from optimum.quanto.nn import QModuleMixin
    snap = {}
    for n, m in model.named_modules():
        for bn, b in m.named_buffers(recurse=False):
            snap[f"{n}.{bn}"] = (str(b.dtype), bits_of(b.float()))
        for pn, p in m.named_parameters(recurse=False):
            if isinstance(m, QModuleMixin) and pn == "weight" and m.weight_qtype is not None:
                continue
            snap[f"{n}.{pn}"] = (str(p.dtype), bits_of(p.float()))
        if isinstance(m, QModuleMixin):
            snap[f"{n}#q"] = (str(m.weight_qtype), str(m.activation_qtype), m.weight_group_size)
    return snap


def frozen_snapshot(model):
    from optimum.quanto import QBitsTensor, QBytesTensor
    snap = {}
    for n, p in model.named_parameters():
        d = p.data if not isinstance(p, (QBytesTensor, QBitsTensor)) else p
        if isinstance(d, QBitsTensor):
            snap[n] = ("qbits", d._data._data.tolist(), bits_of(d._scale), d._zeropoint.tolist(), d.qtype.name, d._group_size)
        elif isinstance(d, QBytesTensor):
            snap[n] = ("qbytes", bits_of(d._data.float()), bits_of(d._scale), d.qtype.name, d.axis)
        else:
            snap[n] = ("float", bits_of(p.float()))
    return snap


def run(ctx):
    import optimum.quanto as q
    from optimum.quanto import Calibration, QBitsTensor, QBytesTensor, QTensor, freeze, quantize
    from optimum.quanto.nn import QModuleMixin
    lean_obligations(ctx)
    rng = ctx.rng
    ctx.extra["rule"] = ("seeded histories of 3-10 events (forward, calibrate, freeze, freeze again, to(cpu), deepcopy) on Linear / Conv2d / LayerNorm stacks, weights in all six qtypes, activations None/qint8/qfloat8, "
                         "dtype float32/float16/bfloat16. distinct = (model kind, qtypes, dtype, event sequence); non-trivial = history containing a freeze")
    n = 120 if not ctx.thorough else 4000
    slines, sexpect, smeta = [], [], []
    for _ in range(n):
        dt = rng.choice([torch.float32, torch.float16, torch.bfloat16])
        torch.manual_seed(rng.getrandbits(30))
        kind, model, shape = build(rng, dt)
        wq = rng.choice(["qint2", "qint4", "qint8", "qfloat8", "qfloat8_e4m3fn", "qfloat8_e5m2"])
        aq = rng.choice([None, None, "qint8", "qfloat8_e4m3fn"])
        quantize(model, weights=q.qtypes[wq], activations=None if aq is None else q.qtypes[aq])
        x = torch.randn(shape).to(dt)
        if aq is not None:
            # "every input": also an input that is already quantized in the activation qtype, with a scale of its own
            qa = q.qtypes[aq]
            sx = (x.abs().max().float() * rng.choice([0.6, 1.0, 1.7]) / (127 if aq == "qint8" else 448)).to(dt)
            xq = q.quantize_activation(x, qa, sx)
            run_model = lambda mod: out_bits(mod(x)) + out_bits(mod(xq))
        else:
            run_model = lambda mod: out_bits(mod(x))
        events = ["forward"] + [rng.choice(["forward", "calibrate", "freeze", "freeze", "to_cpu", "deepcopy", "freeze_one"]) for _ in range(rng.randrange(2, 9))]
        if "freeze" not in events:
            events.insert(rng.randrange(1, len(events) + 1), "freeze")
        frozen = False
        any_frozen = False
        last = None           # output bits since the last event that may legitimately change outputs (calibrate)
        cfg = {"kind": kind, "weights": wq, "activations": aq, "dtype": str(dt), "events": events}
        ok = True
        for i, ev in enumerate(events):
            try:
                with torch.no_grad():
                    if ev == "forward":
                        o = run_model(model)
                        if last is not None and o != last:
                            ctx.spec_failures.append(("C09:outputs-changed-without-calibration", dict(cfg, at=i)))
                            ok = False
                        last = o
                    elif ev == "calibrate":
                        if aq is not None:
                            with Calibration(streamline=False):
                                model(x)
                            last = None
                    elif ev == "freeze":
                        before_out = run_model(model)
                        nw = nonweight_snapshot(model)
                        fs = frozen_snapshot(model) if frozen else None
                        freeze(model)
                        after_out = run_model(model)
                        if before_out != after_out:
                            ctx.spec_failures.append(("C09:freeze-changes-outputs", dict(cfg, at=i, refreeze=frozen)))
                            ok = False
                        if nonweight_snapshot(model) != nw:
                            ctx.spec_failures.append(("C09:freeze-touches-non-weight-state", dict(cfg, at=i)))
                        if frozen and frozen_snapshot(model) != fs:
                            ctx.spec_failures.append(("C09:freeze-not-idempotent", dict(cfg, at=i)))
                        frozen = True
                        last = after_out
                        # storage of every frozen weight
                        for name, m in model.named_modules():
                            if isinstance(m, QModuleMixin) and m.weight_qtype is not None:
                                w = m.weight
                                if not isinstance(w, QTensor) or w.qtype != m.weight_qtype:
                                    ctx.spec_failures.append(("C09:frozen-weight-qtype", dict(cfg, module=name, got=str(getattr(w, "qtype", type(w))))))
                                    continue
                                rows = w.shape[0]
                                cols = w.numel() // rows
                                if isinstance(w, QBitsTensor):
                                    payload = w._data._data.numel()
                                    nscales = w._scale.numel()
                                    if w._zeropoint.numel() != nscales:
                                        ctx.spec_failures.append(("C09:zeropoint-count", dict(cfg, module=name)))
                                else:
                                    payload = w._data.numel() * w._data.element_size()
                                    nscales = w._scale.numel()
                                slines.append(f"store09 {wq} {rows} {cols} {'none' if m.weight_group_size is None else m.weight_group_size}")
                                sexpect.append(f"{payload} {nscales}")
                                smeta.append(dict(cfg, module=name))
                    elif ev == "freeze_one":
                        # one quantized sub-module is frozen on its own (outputs unchanged); a later freeze(model) must still freeze the others
                        qmods = [m_ for m_ in model.modules() if isinstance(m_, QModuleMixin)]
                        before_out = run_model(model)
                        rng.choice(qmods).freeze()
                        any_frozen = True
                        if run_model(model) != before_out:
                            ctx.spec_failures.append(("C09:freeze-changes-outputs", dict(cfg, at=i, note="one sub-module")))
                        last = before_out
                    elif ev == "to_cpu":
                        model.to("cpu")
                    elif ev == "deepcopy":
                        ref = run_model(model)
                        model2 = copy.deepcopy(model)
                        if run_model(model2) != ref:
                            ctx.spec_failures.append(("C09:deepcopy-changes-outputs", dict(cfg, at=i, frozen=frozen)))
                        model = model2
            except Exception as e:  # noqa
                sig = f"C09:{ev}-raises:{exc_name(e)}"
                if ev == "deepcopy" and (frozen or any_frozen) and wq in ("qint2", "qint4"):
                    sig = "C09:deepcopy-of-frozen-lowbit-model-raises"
                ctx.spec_failures.append((sig, dict(cfg, at=i, message=str(e)[:200])))
                ok = False
                break
        ctx.evaluations += 1
        ctx.count(f"history:{kind}:w={wq}:a={aq}")
        ctx.nontriv((kind, wq, aq, str(dt), tuple(events)))
    # ---- modules whose bias is kept in another float dtype than the weight (float32 bias on a half-precision Linear):
    # freeze must still leave the bias and the outputs alone (every weight qtype x half dtype; deterministic)
    for dt in (torch.float16, torch.bfloat16):
        for wq in ("qint2", "qint4", "qint8", "qfloat8", "qfloat8_e4m3fn", "qfloat8_e5m2"):
            torch.manual_seed(rng.getrandbits(30))
            model = torch.nn.Sequential(torch.nn.ReLU(), torch.nn.Linear(rng.choice([6, 160]), 3)).to(dt)
            quantize(model, weights=q.qtypes[wq])
            model[1].bias = torch.nn.Parameter(model[1].bias.detach().float() * 1.000123)
            x = torch.randn(2, model[1].in_features).to(dt)
            cfg = {"kind": "linear-with-float32-bias", "weights": wq, "activations": None, "dtype": str(dt), "events": ["freeze", "freeze"]}
            try:
                with torch.no_grad():
                    before = (str(model(x).dtype), out_bits(model(x)))
                    nw = nonweight_snapshot(model)
                    freeze(model)
                    after = (str(model(x).dtype), out_bits(model(x)))
                    if before != after:
                        ctx.spec_failures.append(("C09:freeze-changes-outputs", dict(cfg, at=0, refreeze=False, out_dtype_before=before[0], out_dtype_after=after[0])))
                    if nonweight_snapshot(model) != nw:
                        ctx.spec_failures.append(("C09:freeze-touches-non-weight-state", dict(cfg, at=0)))
                    fs = frozen_snapshot(model)
                    freeze(model)
                    if frozen_snapshot(model) != fs:
                        ctx.spec_failures.append(("C09:freeze-not-idempotent", dict(cfg, at=1)))
            except Exception as e:  # noqa
                ctx.spec_failures.append((f"C09:raises:{exc_name(e)}", dict(cfg, message=str(e)[:200])))
            ctx.evaluations += 1
            ctx.count("mixed-precision-bias")
    got = run_driver(slines)
    ctx.corr_cases += len(slines)
    for l, e, g, m in zip(slines, sexpect, got, smeta):
        if e != g:
            ctx.spec_failures.append(("C09:storage-not-compact", dict(m, formula_input=l, observed=e, formula=g)))
    if slines:
        ctx.sample({"line": slines[0], "impl": sexpect[0]})
        ctx.sample({"line": slines[-1], "impl": sexpect[-1]})
    for sig, f in known_signatures("C09").items():
        # the witness is a deepcopy of a frozen int4 model
        m = torch.nn.Sequential(torch.nn.Linear(8, 4))
        quantize(m, weights=q.qint4)
        freeze(m)
        try:
            copy.deepcopy(m)
            ctx.notes.append(f"known finding {sig} no longer reproduces")
        except Exception:  # noqa
            if sig not in ctx.known_reproduced:
                ctx.known_reproduced.append(sig)
    return finish(ctx, ["only the CPU device exists here: device moves are to('cpu')", "outputs are compared between torch executions (torch is its own reference)"])

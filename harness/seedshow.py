"""print a one-line summary of seeded/<id>/confirm.json for the given ids"""
import json, os, sys
V = os.path.dirname(os.path.dirname(os.path.abspath(__file__)))
for sid in sys.argv[1:]:
    try:
        r = json.load(open(os.path.join(V, "seeded", sid, "confirm.json")))
    except Exception as e:
        print(sid, "no confirm.json", e); continue
    print(sid, "demo", r.get("demo_without_change"), "->", r.get("demo_with_change"), "tests_ok", r.get("tests_failed_set_equals_baseline"))
    for c, e in r.get("checks", {}).items():
        print("   ", c, "exit", e["exit"], [l[:120] for l in e["lines"][:2]], [x.get("signature") for x in e["replays"]])

"""C13 — calibration is scoped; inference and quantization are free of side effects.

(a) Random well-nested traces of Calibration contexts (nested, sequential, left by an exception
raised inside forward at a random module): after every enter/exit the sizes of torch's global
forward-hook registries and the depth of the torch-function mode stack are compared with the Lean
state machine (`hookev13`); after the whole trace they must be back to their initial content.
(b) Outside a context: forwards of calibrated / frozen / unfrozen models, quantize(), freeze(),
quantize_weight(), quantize_activation() and library calls leave every parameter, buffer, scale,
qtype and float source tensor bit-identical; repeated evaluation is bit-identical; modules created
or run after a context are unaffected.  (c) write-set tables regenerated from the source."""
import copy

import torch
from common import *


def registry_state():
    import torch.nn.modules.module as M
    from torch.overrides import _get_current_function_mode_stack
    return len(M._global_forward_pre_hooks), len(M._global_forward_hooks), len(_get_current_function_mode_stack())


def registry_ids():
    import torch.nn.modules.module as M
    return list(M._global_forward_pre_hooks.keys()), list(M._global_forward_hooks.keys())


class Boom(Exception):
    pass


def snapshot(model):
    """bit-level snapshot of parameters, buffers, qtypes and frozen payloads"""
    from optimum.quanto import QTensor
    from optimum.quanto.nn import QModuleMixin
    snap = {}
    for k, v in model.state_dict().items():
        if isinstance(v, torch.Tensor):
            t = v.detach()
            snap[k] = (str(t.dtype), tuple(t.shape), hashlib.md5(t.contiguous().reshape(-1).view(torch.uint8).numpy().tobytes() if t.numel() else b"").hexdigest())
        else:
            snap[k] = v
    for n, m in model.named_modules():
        if isinstance(m, QModuleMixin):
            snap[n + "#qtypes"] = (str(m.weight_qtype), str(m.activation_qtype), m.frozen, m.weight_group_size)
    return snap


def tensor_hash(t):
    return hashlib.md5(t.detach().contiguous().reshape(-1).view(torch.uint8).numpy().tobytes()).hexdigest()


def make_model(rng, dt, acts):
    import optimum.quanto as q
    torch.manual_seed(rng.getrandbits(30))
    m = torch.nn.Sequential(torch.nn.Linear(6, 8), torch.nn.ReLU(), torch.nn.LayerNorm(8), torch.nn.Linear(8, 4)).to(dt)
    wq = rng.choice(["qint8", "qint4", "qfloat8", "qint2"])
    q.quantize(m, weights=q.qtypes[wq], activations=None if acts is None else q.qtypes[acts])
    return m.to(dt)    # the scale buffers are created in float32: move them to the model dtype


class InplaceBlock(torch.nn.Module):
    """two linear layers with an in-place elementwise step on the (possibly quantized) activations in between, as
    attention blocks do with their scores"""

    def __init__(self, op):
        super().__init__()
        self.fc1 = torch.nn.Linear(6, 8)
        self.fc2 = torch.nn.Linear(8, 4)
        self.op = op

    def forward(self, x):
        h = self.fc1(x)
        if self.op == "div_":
            h /= 4.0
        elif self.op == "mul_":
            h *= 2.0
        elif self.op == "add_":
            h += 1.0
        elif self.op == "neg_":
            h = h.neg_()
        elif self.op == "relu_":
            h = torch.relu_(h)
        elif self.op == "clamp_":
            h = h.clamp_(-1.0, 1.0)
        return self.fc2(h)


INPLACE_OPS = ["div_", "mul_", "add_", "neg_", "relu_", "clamp_"]


def drop_leaked(base_ids):
    """remove global hooks that outlived their context, so that what follows is judged on its own"""
    import torch.nn.modules.module as M
    for reg, keep in ((M._global_forward_pre_hooks, base_ids[0]), (M._global_forward_hooks, base_ids[1])):
        for k in list(reg.keys()):
            if k not in keep:
                del reg[k]


def run_trace(ctx, rng, lines, expect):
    """one random well-nested trace; returns nothing, records failures"""
    from optimum.quanto import Calibration
    dt = rng.choice([torch.float32, torch.float16])
    model = make_model(rng, dt, rng.choice(["qint8", "qfloat8_e4m3fn"]))
    x = torch.randn(3, 6).to(dt)
    base = registry_state()
    base_ids = registry_ids()
    events, states = [], []
    counter = [0]

    def body(depth):
        """a sequence of forwards / nested contexts; may raise Boom"""
        for _ in range(rng.randrange(1, 4) if depth == 0 else rng.randrange(0, 3)):
            r = rng.random()
            if r < 0.3:
                with torch.no_grad():
                    model(x)
            elif r < 0.8 and depth < 3:
                ctxid = counter[0] = counter[0] + 1
                cm = Calibration(momentum=rng.choice([0.5, 0.9]), streamline=rng.random() < 0.5)
                try:
                    with cm:
                        events.append(f"e{ctxid}")
                        states.append(registry_state())
                        body(depth + 1)
                finally:
                    # the with-statement has run __exit__ (normally or while an exception propagates)
                    events.append("x")
                    states.append(registry_state())
            elif r < 0.9:
                # exception raised inside forward at a random module
                victim = rng.choice([m for m in model])
                h = victim.register_forward_pre_hook(lambda *a: (_ for _ in ()).throw(Boom()))
                try:
                    with torch.no_grad():
                        model(x)
                finally:
                    h.remove()
            else:
                torch.ops.quanto.unpack(torch.zeros(2, 3, dtype=torch.uint8), 4)   # a library call
    try:
        body(0)
    except Boom:
        pass
    except Exception as e:  # noqa — e.g. a leaked hook of an earlier context acting on this model
        ctx.spec_failures.append((f"C13:forward-raises-during-trace:{exc_name(e)}", {"events": events, "message": str(e)[:200]}))
    ctx.evaluations += 1
    ctx.count(f"trace:events={min(len(events), 12)}")
    rel = [(a - base[0], b - base[1], c - base[2]) for a, b, c in states]
    if events:
        lines.append("hookev13 " + " ".join(events))
        expect.append(";".join(f"{a},{b},{c}" for a, b, c in rel))
        ctx.nontriv(tuple(events))
    end = registry_state()
    if end != base or registry_ids() != base_ids:
        ctx.spec_failures.append(("C13:registries-not-restored", {"events": events, "before": base, "after": end}))
        drop_leaked(base_ids)
    # a module created and run afterwards is unaffected
    fresh = make_model(rng, dt, "qint8")
    before = snapshot(fresh)
    try:
        with torch.no_grad():
            fresh(x)
    except Exception as e:  # noqa
        ctx.spec_failures.append((f"C13:module-run-after-context-raises:{exc_name(e)}", {"events": events, "message": str(e)[:200]}))
    if snapshot(fresh) != before:
        ctx.spec_failures.append(("C13:module-run-after-context-is-modified", {"events": events}))


def side_effect_cases(ctx, rng):
    import optimum.quanto as q
    from optimum.quanto import Calibration, freeze, quantize
    n = 40 if not ctx.thorough else 400
    for i in range(n):
        dt = rng.choice([torch.float32, torch.float16, torch.bfloat16])
        acts = rng.choice([None, "qint8", "qfloat8_e4m3fn", "qfloat8_e5m2"])
        torch.manual_seed(rng.getrandbits(30))
        inplace = INPLACE_OPS[i % len(INPLACE_OPS)] if i % 2 else None
        if inplace is None:
            fm = torch.nn.Sequential(torch.nn.Linear(6, 8), torch.nn.ReLU(), torch.nn.LayerNorm(8), torch.nn.Linear(8, 4)).to(dt)
        else:
            fm = InplaceBlock(inplace).to(dt)
        float_src = {k: (v, tensor_hash(v)) for k, v in fm.named_parameters()}
        wq = rng.choice(["qint8", "qint4", "qfloat8", "qint2", "qfloat8_e5m2"])
        quantize(fm, weights=q.qtypes[wq], activations=None if acts is None else q.qtypes[acts])
        fm.to(dt)
        # quantize() must not modify the float tensors it read (they are moved into the quantized modules)
        for k, (v, h) in float_src.items():
            if tensor_hash(v) != h:
                ctx.spec_failures.append(("C13:quantize-modified-float-source", {"param": k, "weights": wq}))
            cur = dict(fm.named_parameters()).get(k)
            if cur is not None and bits_of(cur) != bits_of(v):
                ctx.spec_failures.append(("C13:quantize-changed-parameter-values", {"param": k, "weights": wq}))
        x = torch.randn(3, 6).to(dt)
        state = rng.choice(["unfrozen", "calibrated", "frozen", "calibrated+frozen"])
        with torch.no_grad():
            if "calibrated" in state and acts is not None:
                reg0, ids0 = registry_state(), registry_ids()
                sl = rng.random() < 0.5
                with Calibration(streamline=sl):
                    fm(x)
                if registry_state() != reg0 or registry_ids() != ids0:
                    ctx.spec_failures.append(("C13:registries-not-restored", {"events": [f"enter streamline={sl}", "forward", "exit"], "before": reg0, "after": registry_state()}))
                    drop_leaked(ids0)
            if "frozen" in state:
                wsrc = {k: (v, tensor_hash(v)) for k, v in fm.named_parameters() if k.endswith("weight")}
                freeze(fm)
                for k, (v, h) in wsrc.items():
                    if tensor_hash(v) != h:
                        ctx.spec_failures.append(("C13:freeze-modified-float-source", {"param": k, "weights": wq}))
            before = snapshot(fm)
            outs = []
            for rep in range(3):
                try:
                    o = fm(x)
                except Exception as e:  # noqa
                    ctx.spec_failures.append((f"C13:inference-raises:{exc_name(e)}", {"state": state, "acts": acts, "weights": wq, "message": str(e)[:200]}))
                    outs.append(None)
                    continue
                outs.append(bits_of(o.dequantize() if hasattr(o, "dequantize") else o))
                if rep == 0:
                    # any input: also inputs of another float dtype (may be rejected by torch, must not leave traces)
                    for odt in (torch.float16, torch.float32, torch.bfloat16):
                        if odt != dt:
                            try:
                                fm(x.to(odt))
                            except Exception:  # noqa
                                pass
            after = snapshot(fm)
        ctx.evaluations += 1
        ctx.count(f"inference:{state}:acts={acts}:inplace={inplace}")
        ctx.nontriv(("inference", state, acts, wq, str(dt), inplace))
        if before != after:
            diff = [k for k in before if before[k] != after.get(k)]
            ctx.spec_failures.append(("C13:inference-modified-state", {"state": state, "acts": acts, "weights": wq, "changed": diff[:6], "inplace_step": inplace}))
        if outs[0] != outs[1] or outs[1] != outs[2]:
            ctx.spec_failures.append(("C13:repeated-evaluation-differs", {"state": state, "acts": acts, "weights": wq, "inplace_step": inplace}))
        # quantize_activation with scales that are subnormal in their dtype (and ordinary ones): the scale tensor is only read
        for sv in (2e-5, 3e-8, 0.37, 1e-40):
            sc_ = torch.tensor(sv).to(dt)
            if float(sc_) == 0:
                continue
            sb = bits_of(sc_)
            xa = torch.randn(4, 6).to(dt)
            ha = tensor_hash(xa)
            for qn_ in ("qint8", "qfloat8_e4m3fn", "qfloat8_e5m2"):
                try:
                    q.quantize_activation(xa, q.qtypes[qn_], sc_)
                except Exception:  # noqa
                    pass
                ctx.evaluations += 1
                if bits_of(sc_) != sb or tensor_hash(xa) != ha:
                    ctx.spec_failures.append(("C13:library-call-modified-its-input", {"call": "quantize_activation", "qtype": qn_, "dtype": str(dt), "scale_before": float(torch.tensor(sv).to(dt)), "scale_after": float(sc_)}))
                    break
        # quantize_weight over qtypes / axes / group sizes (also the group size that makes one group per axis index) and ranks
        shp = rng.choice([[8, 16], [32, 64], [16, 4, 8], [4, 2, 4, 8], [16]])
        wx = torch.randn(shp).to(dt)
        hx = tensor_hash(wx)
        qn = rng.choice(["qint2", "qint4", "qint8", "qfloat8"])
        ax = rng.choice([0, -1])
        per_axis = wx.numel() // wx.shape[ax]
        gsz = rng.choice([None, per_axis] + [g_ for g_ in (2, 4, 8, 16, 32) if per_axis % g_ == 0]) if qn in ("qint2", "qint4") else None
        try:
            r1 = q.quantize_weight(wx, q.qtypes[qn], ax, gsz)
            d1 = bits_of(r1.dequantize())
            r2 = q.quantize_weight(wx, q.qtypes[qn], ax, gsz)
            ctx.evaluations += 1
            ctx.count(f"library:quantize_weight:{qn}:axis={ax}:group={'none' if gsz is None else ('whole' if gsz == per_axis else 'part')}")
            if tensor_hash(wx) != hx:
                ctx.spec_failures.append(("C13:library-call-modified-its-input", {"call": "quantize_weight", "qtype": qn, "axis": ax, "group_size": gsz, "shape": shp}))
            elif bits_of(r2.dequantize()) != d1:
                ctx.spec_failures.append(("C13:repeated-evaluation-differs", {"call": "quantize_weight", "qtype": qn, "axis": ax, "group_size": gsz, "shape": shp}))
        except ValueError:
            pass
        # library entry points do not modify what they read
        w = torch.randn(4, 8).to(dt)
        hw = tensor_hash(w)
        s = torch.tensor(0.01).to(dt)
        for fn in (lambda: q.quantize_weight(w, q.qint8, 0), lambda: q.quantize_weight(w, q.qint4, 0, 4), lambda: q.quantize_weight(w, q.qfloat8, -1),
                   lambda: q.quantize_activation(w, q.qint8, s), lambda: q.absmax_scale(w, q.qint8, 0), lambda: q.quantize_weight(w, q.qint8, 0).dequantize()):
            fn()
            ctx.evaluations += 1
            if tensor_hash(w) != hw or bits_of(s) != bits_of(torch.tensor(0.01).to(dt)):
                ctx.spec_failures.append(("C13:library-call-modified-its-input", {}))


def run(ctx):
    import extract
    extract.main()
    lean_obligations(ctx)
    rng = ctx.rng
    ctx.extra["rule"] = ("seeded well-nested traces of Calibration contexts (depth <= 3, sequential and nested, exits by an exception raised in a forward pre-hook of a random module, forwards and library calls in between); "
                         "side-effect snapshots (bit hashes of every state_dict entry, qtypes, float sources) around forwards of unfrozen / calibrated / frozen models and around library calls. "
                         "distinct = event sequence / (state, activations, weights, dtype); non-trivial = traces with at least one context")
    lines, expect = [], []
    n = 200 if not ctx.thorough else 2000
    base = registry_state()
    for _ in range(n):
        run_trace(ctx, rng, lines, expect)
    if registry_state() != base:
        ctx.spec_failures.append(("C13:registries-not-restored", {"note": "after all traces"}))
    got = run_driver(lines)
    ctx.corr_cases += len(lines)
    for l, e, g in zip(lines, expect, got):
        if e != g and len(ctx.corr_disagreements) < 20:
            ctx.corr_disagreements.append({"case": l, "impl": e, "model": g, "tag": "hook-registry-trace"})
    if lines:
        ctx.sample({"line": lines[0], "impl": expect[0]})
        longest = max(range(len(lines)), key=lambda i: len(lines[i]))
        ctx.sample({"line": lines[longest], "impl": expect[longest]})
    side_effect_cases(ctx, rng)
    # disable_extensions is scoped as well
    from optimum.quanto.library import disable_extensions
    import optimum.quanto.library.ops as ops
    before = ops._ext_enabled
    try:
        with disable_extensions():
            raise Boom()
    except Boom:
        pass
    if ops._ext_enabled != before:
        ctx.spec_failures.append(("C13:disable_extensions-not-restored", {}))
    # the switch along nested traces (exits through exceptions included), against the model (`ext13`)
    elines, eexpect = [], []
    for _ in range(30 if not ctx.thorough else 300):
        depth_plan = [rng.randrange(1, 4) for _ in range(rng.randrange(1, 4))]     # sequential groups of nested contexts
        evs, obs = [], []

        def nest(d, boom):
            with disable_extensions():
                evs.append("e")
                obs.append(f"{str(ops._ext_enabled).lower()}:{len([x for x in evs if x == 'e']) - len([x for x in evs if x == 'x'])}")
                if d > 1:
                    try:
                        nest(d - 1, boom)
                    finally:
                        evs.append("x")
                        obs.append(f"{str(ops._ext_enabled).lower()}:{len([x for x in evs if x == 'e']) - len([x for x in evs if x == 'x'])}")
                elif boom:
                    raise Boom()
        for d in depth_plan:
            try:
                nest(d, rng.random() < 0.5)
            except Boom:
                pass
            evs.append("x")
            obs.append(f"{str(ops._ext_enabled).lower()}:{len([x for x in evs if x == 'e']) - len([x for x in evs if x == 'x'])}")
        elines.append("ext13 " + " ".join(evs))
        eexpect.append(";".join(obs))
        ctx.evaluations += 1
        ctx.count(f"ext-switch:max-depth={max(depth_plan)}")
        if ops._ext_enabled != before:
            ctx.spec_failures.append(("C13:disable_extensions-not-restored", {"events": evs}))
    egot = run_driver(elines)
    ctx.corr_cases += len(elines)
    for l, e, g in zip(elines, eexpect, egot):
        if e != g and len(ctx.corr_disagreements) < 20:
            ctx.corr_disagreements.append({"case": l, "impl": e, "model": g, "tag": "disable_extensions switch"})
    return finish(ctx, ["torch's global hook registries and function-mode stack are read through torch's own module attributes",
                        "write-set tables are extracted from source text (sound up to callee effects and dynamic setattr); the snapshots are the behavioural tie"])

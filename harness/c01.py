"""C01 — 8-bit symmetric quantization is a nearest-grid-point projection.

Correspondence: SymmetricQuantizer / QBytesTensor.dequantize from /repo vs the Lean model
(`sym` driver command), bit for bit: codes, dequantized bit patterns, re-quantized codes,
shapes, axis, exception class.  Spec oracle: `spec01` / `idem01` (exact rationals) applied
to the implementation's outputs."""
import torch
from common import *

QT = {"qint8": "qint8", "e4m3": "qfloat8_e4m3fn", "e5m2": "qfloat8_e5m2"}
MB = {"f32": 23, "f16": 10, "bf16": 7}


def quanto():
    import optimum.quanto as q
    return q


def codes_of(data, Q):
    """codes on the wire: int8 → ints, float8 → canonical bit patterns"""
    if Q == "qint8":
        return data.reshape(-1).to(torch.int64).tolist()
    return bits_of(data, Q)


def impl_sym(F, Q, axis, x, scale):
    q = quanto()
    from optimum.quanto.tensor.quantizers import SymmetricQuantizer
    qt = q.qtypes[QT[Q]]
    try:
        qb = SymmetricQuantizer.apply(x, qt, axis, scale)
        d = qb.dequantize()
        try:
            q2 = SymmetricQuantizer.apply(d, qt, axis, scale)
            again = list_s(codes_of(q2._data, Q))
        except Exception as e:  # noqa
            again = "err:" + exc_name(e)
        ax = "none" if qb.axis is None else str(qb.axis)
        out = f"ok {ax} {shape_s(qb._data.shape)} {list_s(codes_of(qb._data, Q))} {shape_s(d.shape)} {list_s(bits_of(d, F))} {again}"
        return out, qb, d
    except Exception as e:  # noqa
        return "err " + exc_name(e), None, None


def finite_pos(F, bits):
    """keep finite patterns, canonicalise -0"""
    t = tensor_of_bits(bits, F)
    keep = torch.isfinite(t.to(torch.float32))
    t = t[keep]
    t = torch.where(t == 0, torch.zeros_like(t), t)
    return t


def rand_scale_bits(F, rng, kind):
    dt, it, w = fmts()[F]
    mb = MB[F]
    eb = w - 1 - mb
    bias = (1 << (eb - 1)) - 1
    if kind == "pow2":
        e = rng.randrange(-8, 8)
        return (e + bias) << mb
    if kind == "mid":        # scale with odd mantissa → many mid-point quotients
        return ((rng.randrange(-6, 6) + bias) << mb) | (rng.getrandbits(mb) | 1)
    if kind == "tiny":       # makes almost everything saturate
        return ((max(1, bias - (10 if F == "f16" else 30))) << mb) | rng.getrandbits(mb)
    if kind == "subnormal":
        return rng.randrange(1, 1 << mb)
    if kind == "huge":
        return (((1 << eb) - 2 - rng.randrange(0, 3)) << mb) | rng.getrandbits(mb)
    return ((rng.randrange(-12 if F == "f16" else -20, 12 if F == "f16" else 20) + bias) << mb) | rng.getrandbits(mb)


def boundary_values_f32(rng, sbits, Q, n):
    """x values around rounding mid-points and the saturation end points of the grid for scale s"""
    s = tensor_of_bits([sbits], "f32").double()
    qmax = {"qint8": 127, "e4m3": 448, "e5m2": 57344}[Q]
    ks = []
    for _ in range(n):
        r = rng.random()
        if Q == "qint8":
            k = rng.randrange(-130, 130) + 0.5 if r < 0.6 else (qmax if r < 0.8 else -qmax - 1) * (1 + rng.choice([-1, 0, 1]) * 2.0 ** -rng.randrange(20, 25))
        else:
            fmt8 = Q
            b = rng.randrange(0, 256)
            v = tensor_of_bits([b], fmt8).double().item()
            b2 = (b & 0x7F) + 1
            v2 = tensor_of_bits([min(b2, 0x7E) | (b & 0x80)], fmt8).double().item()
            if v != v or v2 != v2 or abs(v) == float("inf") or abs(v2) == float("inf"):
                v, v2 = 1.0, 1.125
            k = (v + v2) / 2 if r < 0.7 else v
        ks.append(k * (1 + rng.choice([-1, 0, 0, 1]) * 2.0 ** -rng.randrange(21, 26)))
    x = (torch.tensor(ks, dtype=torch.float64) * s).to(torch.float32)
    x = x[torch.isfinite(x)]
    return torch.where(x == 0, torch.zeros_like(x), x)


def gen_elementwise(ctx):
    """(F, Q, xtensor(1-D), scale 0-dim) cases"""
    rng = ctx.rng
    cases = []
    kinds = ["pow2", "mid", "tiny", "subnormal", "huge", "rand"]
    nscale = 6 if not ctx.thorough else 24
    for F in ("f16", "bf16"):
        allx = finite_pos(F, list(range(1 << 16)))
        for Q in QT:
            for i in range(nscale):
                sb = rand_scale_bits(F, rng, kinds[i % len(kinds)])
                s = tensor_of_bits([sb], F).reshape(())
                # complete value space, chunked so that the driver processes run in parallel
                for c in range(0, allx.numel(), 8192):
                    cases.append((F, Q, allx[c:c + 8192], s, "exhaustive16"))
    nrand = 50000 if not ctx.thorough else 1000000
    for Q in QT:
        for i in range(nscale):
            sb = rand_scale_bits("f32", rng, kinds[i % len(kinds)])
            s = tensor_of_bits([sb], "f32").reshape(())
            xb = boundary_values_f32(rng, sb, Q, 1500)
            cases.append(("f32", Q, xb, s, "boundary32"))
            per = nrand // (3 * nscale)
            bits = [rng.getrandbits(32) for _ in range(per)]
            xr = finite_pos("f32", bits)
            # half of the random values are rescaled into the grid's range so they do not all saturate
            sv = s.double().item()
            if sv > 0 and sv == sv:
                inr = (torch.tensor([rng.uniform(-1.2, 1.2) for _ in range(per)], dtype=torch.float64) * sv * {"qint8": 127, "e4m3": 448, "e5m2": 57344}[Q]).to(torch.float32)
                inr = inr[torch.isfinite(inr)]
                xr = torch.cat([xr[: per // 2], torch.where(inr == 0, torch.zeros_like(inr), inr)])
            for c in range(0, xr.numel(), 8192):
                cases.append(("f32", Q, xr[c:c + 8192], s, "random32"))
    return cases


def rand_shape(rng, rank):
    return [rng.choice([1, 2, 3, 4, 5, 7]) for _ in range(rank)]


def gen_tensor_cases(ctx):
    """per-axis / strided cases, incl. the validation ladder: (F,Q,axis,x,scale,tag)"""
    rng = ctx.rng
    n = 200 if not ctx.thorough else 2000
    cases = []
    for _ in range(n):
        F = rng.choice(["f32", "f16", "bf16"])
        Q = rng.choice(list(QT))
        dt = fmts()[F][0]
        rank = rng.randrange(1, 5)
        shape = rand_shape(rng, rank)
        axis = rng.choice([None, None, 0, -1, rank - 1, 1, -2])
        g = torch.Generator().manual_seed(rng.getrandbits(40))
        mag = 10.0 ** rng.uniform(-3, 3)
        layout = rng.choice(["contig", "transposed", "sliced"])
        if layout == "transposed" and rank >= 2:
            base = (torch.randn(shape[::-1], generator=g) * mag).to(dt).permute(*range(rank - 1, -1, -1))
        elif layout == "sliced":
            big = (torch.randn([2 * d for d in shape], generator=g) * mag).to(dt)
            base = big[tuple(slice(0, 2 * d, 2) for d in shape)]
        else:
            base = (torch.randn(shape, generator=g) * mag).to(dt)
        base = torch.where(base == 0, torch.zeros_like(base), base)
        # scale shape: mostly the right one, sometimes a wrong one (validation ladder / broadcast)
        r = rng.random()
        if axis is None:
            sshape = [] if r < 0.85 else [1] * rng.randrange(1, 3)
        else:
            a = axis if axis >= 0 else rank + axis
            if 0 <= a < rank and r < 0.8:
                sshape = [1] * rank
                sshape[a] = shape[a]
            elif r < 0.9:
                sshape = [shape[a % rank]] if rank > 0 else []
            else:
                sshape = [1] * rank
                sshape[rng.randrange(rank)] = shape[rng.randrange(rank)]
        sc = (torch.rand(sshape, generator=g) * mag / 50 + mag / 200).to(dt)
        cases.append((F, Q, axis, base, sc, "tensor:" + layout))
    return cases


def nontrivial_keys(F, Q, x, s, codes, qmaxv):
    """count elements whose quotient is near a rounding mid-point, saturates, or is subnormal"""
    xs = x.double().reshape(-1)
    sv = s.double().reshape(-1)
    with torch.no_grad():
        qd = xs / sv
        frac = (qd - torch.floor(qd) - 0.5).abs()
        mid = (frac < 1e-3) & (qd.abs() < qmaxv)
        sat = qd.abs() >= qmaxv
        tiny = dt_tiny(F)
        sub = (xs.abs() < tiny) & (xs != 0)
    return int(mid.sum()), int(sat.sum()), int(sub.sum())


def dt_tiny(F):
    return float(torch.finfo(fmts()[F][0]).tiny)


def replay_sym_line(line):
    """run one `sym` protocol line on the implementation and evaluate the spec on its output.
    Returns (impl_out, model_out, set of failing signatures)."""
    _, F, Q, axis, shape, xb, sshape, sb = line.split()
    xb = [int(v) for v in xb.split(",")]
    sbl = [int(v) for v in sb.split(",")]
    shp = [] if shape == "-" else [int(d) for d in shape.split("x")]
    sshp = [] if sshape == "-" else [int(d) for d in sshape.split("x")]
    x = tensor_of_bits(xb, F, shp)
    sc = tensor_of_bits(sbl, F, sshp)
    out, qb, d = impl_sym(F, Q, None if axis == "none" else int(axis), x, sc)
    sigs = set()
    model = run_driver([line])[0]
    if out.startswith("ok") and len(sbl) == 1:
        toks = out.split()
        ls = [f"spec01 {F} {Q} {list_s(xb)} {sb} {toks[3]} {toks[5]}"]
        if F != "bf16" and not toks[6].startswith("err"):
            ls.append(f"idem01 {F} {Q} {sb} {toks[3]} {toks[6]}")
        for o in run_driver(ls):
            for item in o.split()[1:]:
                if not item.startswith("n="):
                    sigs.add("C01:" + item.split(":", 1)[1])
    return out, model, sigs


def run(ctx):
    import floatcheck
    T = lambda m: os.environ.get('VERIF_DEBUG') and print(f'[{time.time()-ctx.t0:7.1f}s] {m}', flush=True)
    proofs_ok = lean_obligations(ctx)
    ctx.extra["rule"] = ("exhaustive: every finite float16/bfloat16 bit pattern x 3 qtypes x seeded scales (6 kinds: power of two, odd mantissa, "
                         "tiny/saturating, subnormal, huge, random); float32: boundary-directed (mid-points of the code grid, saturation end points, "
                         "+-1 ulp) and random bit patterns; tensor cases of rank 1-4 with axis None/0/-1/other, contiguous/transposed/sliced, correct and wrong "
                         "scale shapes. distinct = distinct (F,Q,x bits,s bits); non-trivial = quotient within 1e-3 of a rounding mid-point, saturating, or subnormal source")
    T('proofs done')
    # --- float model validation (ties L0 to torch's kernels)
    bad = floatcheck.run(ctx, 1500 if not ctx.thorough else 20000)
    for l, e, g in bad[:5]:
        ctx.corr_disagreements.append({"case": l, "impl": e, "model": g, "layer": "float-model"})
    T('floatcheck done')
    # --- elementwise
    el = gen_elementwise(ctx)
    lines, impl_out, meta = [], [], []
    qmaxs = {"qint8": 127, "e4m3": 448, "e5m2": 57344}
    seen = set()
    for F, Q, x, s, tag in el:
        xb = bits_of(x, F)
        sb = bits_of(s, F)
        line = f"sym {F} {Q} none {x.numel()} {list_s(xb)} - {list_s(sb)}"
        out, qb, d = impl_sym(F, Q, None, x, s)
        lines.append(line)
        impl_out.append(out)
        meta.append((F, Q, xb, sb, tag))
        ctx.evaluations += x.numel()
        ctx.count(f"{tag}:{F}:{Q}", x.numel())
        if qb is not None:
            m, sa, su = nontrivial_keys(F, Q, x, s, None, qmaxs[Q])
            ctx.count("nontrivial:midpoint", m)
            ctx.count("nontrivial:saturating", sa)
            ctx.count("nontrivial:subnormal", su)
            ctx.extra["nontrivial_elements"] = ctx.extra.get("nontrivial_elements", 0) + m + sa + su
        key = (F, Q, sb[0], hashlib.md5(str(xb).encode()).hexdigest())
        if key not in seen:
            seen.add(key)
            ctx.nontriv(key)
    T('elementwise impl done')
    # --- tensor level
    tc = gen_tensor_cases(ctx)
    for F, Q, axis, x, sc, tag in tc:
        xb, sb = bits_of(x, F), bits_of(sc, F)
        ax = "none" if axis is None else str(axis)
        line = f"sym {F} {Q} {ax} {shape_s(x.shape)} {list_s(xb)} {shape_s(sc.shape)} {list_s(sb)}"
        out, qb, d = impl_sym(F, Q, axis, x, sc)
        lines.append(line)
        impl_out.append(out)
        meta.append((F, Q, xb, sb, tag))
        ctx.evaluations += 1
        ctx.count(tag + (":ok" if out.startswith("ok") else ":" + out.split()[1]))
        ctx.nontriv((F, Q, ax, tuple(x.shape), tuple(sc.shape), out[:3]))
    ctx.sample({"line": lines[-1][:300], "impl": impl_out[-1][:300]})
    T('tensor impl done')
    model_out = run_driver(lines)
    T('model done')
    ctx.corr_cases += len(lines)
    disagree_idx = []
    for i, (l, a, b) in enumerate(zip(lines, impl_out, model_out)):
        if a != b:
            disagree_idx.append(i)
            if len(ctx.corr_disagreements) < 20:
                ctx.corr_disagreements.append({"case": l[:2000], "impl": a[:2000], "model": b[:2000], "tag": meta[i][4]})
    # --- spec oracle on the implementation's outputs
    # every case when something is broken, otherwise a deterministic subsample (the theorem covers the model,
    # and the model equals the implementation on all cases above)
    broken = (not proofs_ok) or bool(disagree_idx)
    spec_lines, spec_meta = [], []
    for i, (l, a) in enumerate(zip(lines, impl_out)):
        if not a.startswith("ok"):
            continue
        F, Q, xb, sb, tag = meta[i]
        if tag.startswith("tensor"):
            # per-axis / broadcast cases: expand the scale to one value per element and judge elementwise
            toks = a.split()
            shp = [int(d) for d in l.split()[4].split("x")] if l.split()[4] != "-" else []
            sshp = [int(d) for d in l.split()[6].split("x")] if l.split()[6] != "-" else []
            if toks[2] != l.split()[4]:
                continue     # the result was broadcast to a larger shape than the source: not a property case
            sfull = tensor_of_bits(sb, F, sshp).expand(shp).contiguous() if shp else tensor_of_bits(sb, F, sshp).reshape(1)
            spec_lines.append(f"spec01 {F} {Q} {list_s(xb)} {list_s(bits_of(sfull, F))} {toks[3]} {toks[5]}")
            spec_meta.append((i, "spec", 1))
            continue
        toks = a.split()
        codes, ybits, again = toks[3], toks[5], toks[6]
        step = 1 if broken else 8
        xs = xb[::step]
        cs = codes.split(",")[::step]
        ys = ybits.split(",")[::step]
        spec_lines.append(f"spec01 {F} {Q} {list_s(xs)} {list_s(sb)} {','.join(cs)} {','.join(ys)}")
        spec_meta.append((i, "spec", step))
        if F != "bf16" and not again.startswith("err"):
            spec_lines.append(f"idem01 {F} {Q} {list_s(sb)} {codes} {again}")
            spec_meta.append((i, "idem", 1))
    T('spec lines built')
    if os.environ.get('VERIF_DUMP'): open('/tmp/spec_lines.txt','w').write('\n'.join(spec_lines)+'\n')
    spec_out = run_driver(spec_lines, weights=[len(l) * (60 if l.startswith('spec01') else 1) for l in spec_lines])
    T('spec done')
    ctx.count("spec_oracle_elements", sum(len(l.split()[3].split(",")) for l in spec_lines))
    for (i, kind, step), l, o in zip(spec_meta, spec_lines, spec_out):
        if o == "ok":
            continue
        F, Q, xb, sb, tag = meta[i]
        for item in o.split()[1:]:
            if item.startswith("n="):
                continue
            idx, verdict = item.split(":", 1)
            idx = int(idx) * step
            sig = f"C01:{verdict}"
            case = {"F": F, "Q": Q, "x_bits": xb[idx] if idx < len(xb) else None, "scale_bits": sb[0], "verdict": verdict,
                    "impl_line": impl_out[i][:200], "replay": f"sym {F} {Q} none 1 {xb[idx]} - {sb[0]}"}
            ctx.spec_failures.append((sig, case))
    # --- S4: replay the witnesses of the listed findings on the implementation
    for sig, f in known_signatures("C01").items():
        out, model, sigs = replay_sym_line(f["witness"])
        if sig in sigs:
            if sig not in ctx.known_reproduced:
                ctx.known_reproduced.append(sig)
        else:
            ctx.notes.append(f"known finding {sig} no longer reproduces on its witness ({f['witness']}): impl={out[:80]}")
        if out != model:
            ctx.corr_disagreements.append({"case": f["witness"], "impl": out, "model": model, "tag": "known-finding-witness"})
    return finish(ctx, ["strides/memory layout are not modelled (inputs are compared by logical contents)", "CUDA kernels not executable here"])

"""S0 — re-extract finite facts from the live code / source text into lean/Quanto/Generated.lean.
The file is rewritten only when its content changes (so lake does not rebuild needlessly)."""
import os
import re
import sys

from common import LEAN, REPO


def cpp_unpack_table_compiled():
    """(mask, shift) of every output block of the COMPILED unpack kernel (built from the working tree), read off its
    behaviour on the complete byte domain: block k of `unpack(arange(256), bits)` must be `(b & mask) >> shift` for all 256 b.
    Independent of how the C++ source is written; returns None when the extension cannot be built."""
    try:
        import torch
        import c04
        c04.ensure_cpp_ext()
    except Exception:  # noqa
        return None
    x = torch.arange(256, dtype=torch.uint8)
    out, routes = {}, []
    for bits in range(1, 9):
        try:
            y = torch.ops.quanto_ext.unpack(x, bits)
        except Exception:  # noqa
            continue
        if y.ndim != 1 or y.numel() % 256:
            out[bits] = [(0, 0)]
            routes.append((str(bits), str(bits)))
            continue
        tbl = []
        for k in range(y.numel() // 256):
            f = y[k * 256:(k + 1) * 256].to(torch.int64).tolist()
            found = None
            for shift in range(8):
                mask = 0
                for bit in range(8):      # input bits that influence this block
                    if any(f[b] != f[b ^ (1 << bit)] for b in range(256)):
                        mask |= 1 << bit
                if all(f[b] == ((b & mask) >> shift) for b in range(256)):
                    found = (mask, shift)
                    break
            tbl.append(found if found is not None else (0, 255))      # 255: not a mask-and-shift at all
        out[bits] = tbl
        routes.append((str(bits), str(bits)))
    return out, routes


def cpp_unpack_table():
    """literal masks and shifts of library/ext/cpp/unpack.cpp, per bit width (fallback: source text)"""
    compiled = cpp_unpack_table_compiled()
    if compiled is not None:
        return compiled
    src = open(os.path.join(REPO, "optimum/quanto/library/ext/cpp/unpack.cpp")).read()
    out = {}
    for bits in (2, 4):
        m = re.search(rf"unpack_{bits}bit\s*\(.*?\)\s*\{{(.*?)\n\}}", src, flags=re.S)
        body = m.group(1) if m else ""
        tbl = []
        # any identifier for the tensor; the shift written as a method call or as an operator
        for mm in re.finditer(r"\(\s*\w+\s*&\s*(0x[0-9A-Fa-f]+|\d+)\s*\)(?:\s*(?:\.__rshift__\(\s*(\d+)\s*\)|>>\s*(\d+)))?", body):
            tbl.append((int(mm.group(1), 0), int(mm.group(2) or mm.group(3) or 0)))
        out[bits] = tbl
    # which widths does the switch route, and to what
    routes = re.findall(r"case\s+(\d+)\s*:\s*return\s+unpack_(\d)bit", src)
    return out, routes


def awq_orders():
    """AWQ_ORDER / AWQ_REVERSE_ORDER read from the source text (the module asserts CUDA at import of nothing, but keep it import-free)"""
    src = open(os.path.join(REPO, "optimum/quanto/tensor/qbits/awq/packed.py")).read()
    o = re.search(r"^AWQ_ORDER\s*=\s*\[(.*?)\]", src, flags=re.M)
    r = re.search(r"^AWQ_REVERSE_ORDER\s*=\s*\[(.*?)\]", src, flags=re.M)
    f = lambda m: [int(v) for v in m.group(1).split(",")] if m else []
    return f(o), f(r)


CANON_CREATE = ["qtype == qint4", "scale.dtype == torch.float16", "axis == 0", "group_size == 128", "len(size) == 2",
                "data.device.type == 'cuda'", "torch.cuda.get_device_capability(data.device)[0] >= 8"]


def awq_create_conds_behavioural():
    """the decision of `QBitsTensor.create`, read off its behaviour on a stand-in CUDA device (python -O only): every
    atomic condition is swept alone, then all 2^7 combinations of a satisfying / a non-satisfying value are evaluated; if the
    outcome is the conjunction of the seven atoms with the expected satisfying sets, the canonical conjunct list is returned"""
    import itertools
    import torch
    import optimum.quanto as q
    from optimum.quanto.tensor.qbits import QBitsTensor

    class FakeCuda(torch.Tensor):
        device = property(lambda self: torch.device("cuda:0"))

    cap = [(8, 0)]
    saved = torch.cuda.get_device_capability
    torch.cuda.get_device_capability = lambda d=None: cap[0]
    dts = {"f16": torch.float16, "f32": torch.float32, "bf16": torch.bfloat16}

    def outcome(qn, F, axis, gs, rank, dev, c):
        size = {1: [512], 2: [4, 128], 3: [4, 2, 64], 4: [4, 2, 2, 32]}[rank]
        rows = 512 // gs
        codes = torch.zeros((rows, gs) if axis == 0 else (gs, rows), dtype=torch.uint8)
        scale = torch.ones((rows, 1) if axis == 0 else (1, rows), dtype=dts[F])
        zp = torch.zeros(tuple(scale.shape), dtype=torch.int8)
        cap[0] = (c, 0)
        data = codes.as_subclass(FakeCuda) if dev == "cuda" else codes
        try:
            r = QBitsTensor.create(q.qtypes[qn], axis, gs, torch.Size(size), list(torch.empty(size).stride()), data, scale, zp)
            return type(r).__name__ == "AWQBitsTensor"
        except Exception:  # noqa
            return None
    try:
        base = dict(qn="qint4", F="f16", axis=0, gs=128, rank=2, dev="cuda", c=8)
        sweeps = {"qn": (["qint2", "qint4"], {"qint4"}), "F": (["f16", "f32", "bf16"], {"f16"}), "axis": ([0, -1], {0}), "gs": ([32, 64, 128, 256], {128}),
                  "rank": ([1, 2, 3, 4], {2}), "dev": (["cuda", "cpu"], {"cuda"}), "c": ([6, 7, 8, 9, 10], {8, 9, 10})}
        for k, (vals, want) in sweeps.items():
            got = {v for v in vals if outcome(**dict(base, **{k: v}))}
            if got != want:
                return [f"<{k} selects {sorted(map(str, got))}>", "=> AWQBitsTensor", "else QBitsTensor"]
        false_of = dict(qn="qint2", F="f32", axis=-1, gs=64, rank=4, dev="cpu", c=7)
        keys = list(base)
        for bitsel in itertools.product([True, False], repeat=len(keys)):
            cfg = {k: (base[k] if b else false_of[k]) for k, b in zip(keys, bitsel)}
            if bool(outcome(**cfg)) != all(bitsel):
                return ["<not a conjunction>", "=> AWQBitsTensor", "else QBitsTensor"]
        return CANON_CREATE + ["=> AWQBitsTensor", "else QBitsTensor"]
    finally:
        torch.cuda.get_device_capability = saved


def previous_list(name):
    """the value a list definition has in the current Generated.lean (used when this run cannot regenerate it)"""
    try:
        src = open(os.path.join(LEAN, "Quanto", "Generated.lean")).read()
        m = re.search(rf"def {name} : List String := \[(.*)\]", src)
        return [x for x in re.findall(r'"((?:[^"\\]|\\.)*)"', m.group(1))] if m else None
    except OSError:
        return None


def awq_create_conds():
    """conjuncts of the condition under which `QBitsTensor.create` builds an AWQBitsTensor, and of the
    condition under which `_to_copy` converts back to the standard representation first (source text)"""
    import ast
    out = {"create": ["<not found>"], "to_copy": ["<not found>"], "optimize": ["<not found>"]}
    tree = ast.parse(open(os.path.join(REPO, "optimum/quanto/tensor/qbits/qbits.py")).read())
    cls = next((n for n in ast.walk(tree) if isinstance(n, ast.ClassDef) and n.name == "QBitsTensor"), None)

    def conj(test):
        return [ast.unparse(v) for v in test.values] if isinstance(test, ast.BoolOp) and isinstance(test.op, ast.And) else [ast.unparse(test)]
    if cls is not None:
        fn = next((n for n in cls.body if isinstance(n, ast.FunctionDef) and n.name == "create"), None)
        if fn is not None:
            ifs = [n for n in fn.body if isinstance(n, ast.If)]
            rets = [ast.unparse(n.value).split("(")[0] for n in fn.body if isinstance(n, ast.Return)]
            if len(ifs) == 1 and not ifs[0].orelse:
                inner = [ast.unparse(n.value).split("(")[0] for n in ast.walk(ifs[0]) if isinstance(n, ast.Return)]
                out["create"] = conj(ifs[0].test) + ["=> " + ",".join(inner), "else " + ",".join(rets)]
        fn = next((n for n in cls.body if isinstance(n, ast.FunctionDef) and n.name == "optimize"), None)
        if fn is not None:
            ifs = [n for n in fn.body if isinstance(n, ast.If)]
            if len(ifs) == 1:
                out["optimize"] = conj(ifs[0].test) + ["=> " + ";".join(ast.unparse(n) for n in ifs[0].body)]
    tree = ast.parse(open(os.path.join(REPO, "optimum/quanto/tensor/qbits/qbits_ops.py")).read())
    fn = next((n for n in ast.walk(tree) if isinstance(n, ast.FunctionDef) and n.name == "_to_copy"), None)
    if fn is not None:
        ifs = [n for n in fn.body if isinstance(n, ast.If)]
        out["to_copy"] = [" | ".join(conj(i.test)) + " => " + ";".join(ast.unparse(n) for n in i.body) for i in ifs]
        out["to_copy"].append("return " + ",".join(ast.unparse(n.value).split("(")[0] for n in fn.body if isinstance(n, ast.Return)))
    if out["create"] == ["<not found>"] or not out["create"][-2:] == ["=> AWQBitsTensor", "else QBitsTensor"] or len(out["create"]) < 3:
        # the condition is not written as one `if` in `create` any more: read the decision off the behaviour instead
        # (needs python -O, i.e. the C15 run; other runs keep what the last C15 run established)
        if sys.flags.optimize:
            try:
                out["create"] = awq_create_conds_behavioural()
            except Exception:  # noqa
                pass
        else:
            prev = previous_list("awqCreateConds")
            if prev:
                out["create"] = prev
    return out


WRITE_SET_FUNCS = [
    ("optimum/quanto/nn/qmodule.py", "QModuleMixin.forward"), ("optimum/quanto/nn/qmodule.py", "QModuleMixin.qweight"),
    ("optimum/quanto/nn/qmodule.py", "QModuleMixin.freeze"),
    ("optimum/quanto/nn/qlinear.py", "QLinear.qforward"), ("optimum/quanto/nn/qconv2d.py", "QConv2d.qforward"),
    ("optimum/quanto/nn/qlayernorm.py", "QLayerNorm.qforward"),
    ("optimum/quanto/tensor/qweight.py", "quantize_weight"), ("optimum/quanto/tensor/qactivation.py", "quantize_activation"),
    ("optimum/quanto/tensor/quantizers/symmetric.py", "SymmetricQuantizer.forward"), ("optimum/quanto/tensor/quantizers/affine.py", "AffineQuantizer.forward"),
    ("optimum/quanto/tensor/optimizers/absmax_optimizer.py", "AbsmaxOptimizer.optimize"), ("optimum/quanto/tensor/optimizers/max_optimizer.py", "MaxOptimizer.optimize"),
    ("optimum/quanto/tensor/qbytes.py", "QBytesDequantizer.forward"), ("optimum/quanto/tensor/qbits/qbits.py", "QBitsDequantizer.forward"),
    ("optimum/quanto/calibrate.py", "absmax_scale"),
]


def write_sets():
    """per entry point: attribute assignments on self/arguments and calls of in-place (`_`-suffixed) methods,
    read from the source text with `ast` (sound only up to callee effects and dynamic setattr)"""
    import ast
    out = []
    for rel, qual in WRITE_SET_FUNCS:
        tree = ast.parse(open(os.path.join(REPO, rel)).read())
        parts = qual.split(".")
        node = tree
        for pname in parts:
            node = next((n for n in ast.walk(node) if isinstance(n, (ast.FunctionDef, ast.ClassDef)) and n.name == pname), None)
            if node is None:
                break
        writes = []
        if node is not None:
            for n in ast.walk(node):
                targets = []
                if isinstance(n, ast.Assign):
                    targets = n.targets
                elif isinstance(n, (ast.AugAssign, ast.AnnAssign)):
                    targets = [n.target]
                for t in targets:
                    for tt in ast.walk(t):
                        if isinstance(tt, (ast.Attribute, ast.Subscript)):
                            writes.append(ast.unparse(tt))
                if isinstance(n, ast.Call) and isinstance(n.func, ast.Attribute) and n.func.attr.endswith("_") and not n.func.attr.startswith("_"):
                    writes.append(ast.unparse(n.func) + "()")
                if isinstance(n, ast.Call) and isinstance(n.func, ast.Name) and n.func.id in ("setattr", "delattr"):
                    writes.append(ast.unparse(n))
        out.append((qual, sorted(set(writes)), node is not None))
    return out


def dispatch_tables():
    """names of the ops / functions / module classes registered in quanto's live dispatch tables"""
    import torch  # noqa
    import optimum.quanto  # noqa
    from optimum.quanto.nn import qmodule
    from optimum.quanto.tensor import qbytes_ops, qtensor_func
    from optimum.quanto.tensor.qbits import qbits_ops

    def opname(o):
        return str(o).replace("aten.", "").replace("torch.ops.", "") if not hasattr(o, "__name__") else o.__name__
    qbytes = sorted(str(k).split(".")[-1] for k in qbytes_ops._QBYTESTENSOR_OP_TABLE)
    qbits = sorted(str(k).split(".")[-1] for k in qbits_ops._QBITSTENSOR_OP_TABLE)
    funcs = sorted(getattr(k, "__name__", str(k)) for k in qtensor_func._QTENSOR_FUNC_TABLE)
    mods = sorted(k.__name__ + "->" + v[0].__name__ for k, v in qmodule._QMODULE_TABLE.items())
    return qbytes, qbits, funcs, mods


def render():
    tbl, routes = cpp_unpack_table()
    lines = ["/- GENERATED by harness/extract.py from /repo's working tree on every check run. Do not edit. -/",
             "namespace Quanto.Generated", ""]
    lines.append("/-- (mask, right shift) of every output block of the compiled C++ unpack kernel, per routed bit width: read off the kernel's behaviour on all 256 byte values (source text of unpack.cpp when the extension cannot be built) -/")
    lines.append("def cppUnpackTable : Nat → List (Nat × Nat)")
    for case, fn in routes:
        t = tbl.get(int(fn), [])
        lines.append(f"  | {case} => [" + ", ".join(f"({m}, {s})" for m, s in t) + "]")
    lines.append("  | _ => []")
    lines.append("")
    o, r = awq_orders()
    lines.append("/-- `AWQ_ORDER` and `AWQ_REVERSE_ORDER` of qbits/awq/packed.py -/")
    lines.append("def awqOrder : List Nat := [" + ", ".join(map(str, o)) + "]")
    lines.append("def awqReverseOrder : List Nat := [" + ", ".join(map(str, r)) + "]")
    lines.append("")
    strl0 = lambda l: "[" + ", ".join("\"" + x.replace("\\", "").replace("\"", "'") + "\"" for x in l) + "]"
    ac = awq_create_conds()
    lines.append("/-- source text of the decisions of `QBitsTensor.create`, `QBitsTensor.optimize` and the QBitsTensor `_to_copy` -/")
    lines.append("def awqCreateConds : List String := " + strl0(ac["create"]))
    lines.append("def awqOptimizeConds : List String := " + strl0(ac["optimize"]))
    lines.append("def awqToCopyConds : List String := " + strl0(ac["to_copy"]))
    lines.append("")
    try:
        qb, qbi, fn, mods = dispatch_tables()
    except Exception as e:  # noqa
        qb, qbi, fn, mods = ["<import failed: %s>" % type(e).__name__], [], [], []
    strl = lambda l: "[" + ", ".join("\"" + x + "\"" for x in l) + "]"
    lines.append("/-- the live dispatch tables: aten ops intercepted for QBytesTensor / QBitsTensor, torch functions intercepted for QTensor, module registry -/")
    lines.append("def qbytesOps : List String := " + strl(qb))
    lines.append("def qbitsOps : List String := " + strl(qbi))
    lines.append("def qtensorFuncs : List String := " + strl(fn))
    lines.append("def qmoduleRegistry : List String := " + strl(mods))
    lines.append("")
    lines.append("/-- attribute writes / in-place calls found in the inference and quantization entry points (source text) -/")
    lines.append("def writeSets : List (String × List String) := [")
    ws = write_sets()
    lines.append(",\n".join("  (\"" + q + "\", [" + ", ".join("\"" + w.replace("\\", "").replace("\"", "'") + "\"" for w in w_) + "])" for q, w_, found in ws))
    lines.append("]")
    lines.append("def writeSetsMissing : List String := [" + ", ".join("\"" + q + "\"" for q, w_, found in ws if not found) + "]")
    lines.append("")
    lines.append("end Quanto.Generated")
    return "\n".join(lines) + "\n"


def main():
    path = os.path.join(LEAN, "Quanto", "Generated.lean")
    new = render()
    old = open(path).read() if os.path.exists(path) else None
    if new != old:
        open(path, "w").write(new)
        return True
    return False


if __name__ == "__main__":
    print("Generated.lean", "rewritten" if main() else "unchanged")

"""Regenerates /verif/MANIFEST.json from the table below (run by hand after adding a check)."""
import json
import os

VERIF = os.path.dirname(os.path.dirname(os.path.abspath(__file__)))

LEVEL_NOTE = ("Trusted: Lean 4.33 kernel (axioms propext, Classical.choice, Quot.sound only; audited by #print axioms every run; no sorry/native_decide/bv_decide/own axioms), "
              "the Lean compiler for the model driver, the Python correspondence harness and extractor. The theorems are about a hand-written executable model; "
              "the model is tied to /repo's working tree on every run by a bit-exact differential correspondence (and regenerated tables). "
              "torch's dispatcher/autograd/nn.Module/serializers/float kernels are modelled, not verified; CUDA/MPS cannot run here.")

CLAIMED = {
    "C01": dict(
        text="Lean theorems (all rationals x, all positive scales, float32/float16/bfloat16, qint8/qfloat8 e4m3/e5m2): the stored code is in the grid, saturates at the end points, "
             "the dequantized value is a nearest grid point up to an explicit rounding allowance, int8 idempotence; counter-example theorems for the two recorded defects. "
             "Model tied to the code by exhaustive bit-exact correspondence over all 2^16 float16/bfloat16 values x 3 qtypes x seeded scales, boundary-directed float32 values and per-axis tensor cases; "
             "the same executable predicate is evaluated on the implementation's outputs.",
        design="6/C01", technique="Lean 4 proof over an executable float model + bit-exact differential correspondence"),
    "C04": dict(
        text="Lean theorems for every row count, column and both bit widths: pack/unpack round trip, payload density ceil(R*bits/8), C++ and Python kernels equal on every byte tensor, every route of quanto::unpack equal, "
             "dispatch acts on the unpacked values of every packed operand (one or several; the payload alone does not determine the values). C++ masks/shifts regenerated from unpack.cpp each run and re-checked by decide. Correspondence against the real code incl. the really compiled C++ kernel.",
        design="6/C04", technique="Lean 4 proof (index-level model, per-byte decide lifted by omega) + regenerated tables + differential correspondence"),
    "C02": dict(
        text="Lean theorems per quantization group (all rationals, all three working formats, bits 2/4): scale bound (hi-lo)/(2^bits-1) up to rounding with the range extended to zero, zero-point in [0,2^bits-1] (no int8 wrap), "
             "half-step error bound with an explicit rounding allowance, all-zero groups dequantize to 0, idempotence for float32/float16; group/ungroup index bijection; counter-example theorems for the repaired defect (range not extended to zero) and the recorded overflow findings. "
             "Bit-exact correspondence (codes, scales, zero-points, dequantized values, re-quantized codes) on seeded tensors built from 8 degenerate row classes; the same predicate is evaluated on the implementation's outputs.",
        design="6/C02", technique="Lean 4 proof over an executable float model + bit-exact differential correspondence"),
    "C03": dict(
        text="Lean theorems: absmax scale is non-saturating and full-range up to explicit rounding terms, zero slice gives zero scale, scale shape = keepdim shape, locality of every slice reduction (value at a kept index depends only on that slice) for absmax and max optimizers, "
             "group index maps keep every grouped row/column inside one axis index. Bit-exact correspondence of scales for AbsmaxOptimizer, absmax_scale and MaxOptimizer; metamorphic locality checks (perturb/rescale/permute other slices) on the implementation.",
        design="6/C03", technique="Lean 4 proof + bit-exact differential correspondence + metamorphic equality on the implementation"),
    "C16": dict(
        text="Lean theorems: finiteness of the dequantized values of every finite slice/group under the explicit no-overflow guard, null slices give the clamped (positive) scale and dequantize to 0, all-zero affine groups dequantize to 0 whatever the stored codes, error bounds inherited from C01/C02; "
             "counter-example theorems for the repaired null-scale defect and the recorded overflow findings. Correspondence of the whole quantize_weight path on mixtures of 8 degenerate row classes, calibration on zero/constant batches then inference, zero-weight layers equal to bias.",
        design="6/C16", technique="Lean 4 proof (corollaries of C01-C03 + guards) + bit-exact differential correspondence"),
    "C14": dict(
        text="Lean theorems over all shapes/configurations: the validation ladders of quantize_weight, quantize_activation, SymmetricQuantizer and AffineQuantizer return ValueError or an accepted configuration that keeps the requested qtype, axis (size-1 axis of an 8-bit weight becomes per-tensor) and group size; accepted per-axis scales have exactly the keepdim shape; "
             "the automatic group size is, for every n, the largest of 128/96/64/32 dividing n (only for n > 128) and always groupable for Linear and Conv2d weights. Exhaustive correspondence of the decision (exception class or accepted configuration) on ~22k configurations of small shapes + C06 well-formedness of every accepted result.",
        design="6/C14", technique="Lean 4 proof of total decision tables + exhaustive differential correspondence on small shapes"),
    "C15": dict(
        text="Lean theorems for all admissible shapes: v1 pack/unpack round trip with and without column reordering (order lists regenerated from the source and checked inverse by decide), v2 pack equals the reference packer, v2 round trip, "
             "zero-point recovery and back conversion of AWQBitsTensor to the standard representation, bound between the AWQ and standard dequantization. Correspondence on CPU (modules run with asserts off): the complete position permutation of every shape N<=32, K<=512 recovered from index-encoding inputs, random matrices, bit identity with external/awq/pack_intweight.py, AWQBitsTensor construction/dequantize/qbits_tensor bit-exact. "
             "Selection of the optimised representation: the condition of QBitsTensor.create is re-extracted from the source text on every run and proved equal to the closed form the theorems use (off-CUDA results are standard, selected shapes with a multiple of 4 rows are admissible, counter-example for the others); create/optimize exercised on a stand-in CUDA device.",
        design="6/C15", technique="Lean 4 proof of index-map bijections + regenerated tables + differential correspondence (python -O on CPU)"),
    "C05": dict(
        text="Lean theorems: every data-movement op commutes with dequantization for per-tensor tensors (gather commutes with elementwise maps), lifted to movement programs of any length by induction; per-axis tensors dequantize first by definition; cat/stack/split commute under equal scales; neg/relu commute under explicit guards; "
             "scalar mul/div differ from the reference by a proved rounding allowance; softmax/where re-quantization is the symmetric quantizer (C01 nearest-point bound applies); integer mm is the exact sum and cannot overflow int32; no spurious raise for movement ops; counter-example theorems for repaired and recorded defects. "
             "Each dispatched function is transcribed in the model and compared with the implementation after every step of typed random programs (codes, scale bits, metadata, exception class); the relation with the float reference on the dequantized operands is evaluated on the implementation. "
             "In-place writes: a storage-cell model of payload / scale sharing with proved independence / view-following / change theorems, tied by reading the sharing off the storage pointers of every two-step aliasing program.",
        design="6/C05", technique="Lean 4 proof over a transcription of the dispatch table + per-step differential correspondence on random programs"),
    "C06": dict(
        text="Lean theorems: the well-formedness invariant (payload shape = reported size, scale shaped along the declared axis, storage dtype of the qtype, outer dtype = scale dtype) holds for the quantizers' outputs and is preserved by every intercepted op returning a quantized value, hence for all reachable values by induction over programs; "
             "moves keep codes, a dtype move changes only the scale; counter-example for the repaired split defect. The same decidable predicate is evaluated by the Lean driver on the flatten view of every quantized tensor met in the C05 programs, after moves, state_dict round trips and freeze.",
        design="6/C06", technique="Lean 4 invariant proof by induction over op programs + executable predicate evaluated on implementation values"),
    "C07": dict(
        text="Lean theorems: total route tables of the CPU/CUDA/MPS implementations with their preconditions, agreement of the integer, int8-packed and float kernels for every accumulator and scale, exact factorisation of the scales out of the contraction, explicit three-rounding error bound of one output element, "
             "output shape / batch flattening, int32 accumulator bound, counter-example for float8 x float8 in float16. Bit-exact correspondence of torch.nn.functional.linear on exact-arithmetic operand sets (all activation kinds x weight qtypes x dtypes x batch shapes x bias), kernels and route functions called directly with the route actually taken observed; realistic magnitudes against a float64 reference inside the accumulation envelope (validated, not proved); operands that are views (expanded, transposed storage, slices, odd offsets) run in a child process (layout is not modelled: validated only).",
        design="6/C07", technique="Lean 4 proof (decision tables + exact arithmetic + rounding bounds) + bit-exact correspondence on exact-arithmetic operand sets"),
    "C12": dict(
        text="Lean theorems over all batch histories and momenta: the code's update equals the exponential moving average initialised by the first batch whenever no intermediate value equals the sentinel 1 (counter-example theorem for the sentinel), adoption of a quantized input's scale, first-batch and momentum-0 laws, single-batch non-saturation from C03. "
             "The float arithmetic of the update (scalar cast to float32, 1-m in double) is modelled bit-exactly; per-batch ranges max|t|/qmax computed by the harness itself are folded by the model and compared with the module buffers bit for bit, for both scales, three dtypes and activation qtypes, chained modules, several contexts, streamline on/off. "
             "The streamline bookkeeping (which modules keep quantized activations) is modelled and proved (required iff some gated call returned a quantized tensor; monotone; order independent) and tied through a spy subclass.",
        design="6/C12", technique="Lean 4 proof by induction over histories + bit-exact correspondence of recorded histories"),
    "C13": dict(
        text="Lean theorems: for every well-nested trace of contexts (any depth and length, exits by exception included) the hook registries and the mode stack are restored to their previous content (induction on the trace with a freshness invariant on handle ids), nested exits keep the outer context installed, the event machine used by the harness equals the structural definition; "
             "write-set tables of the inference/quantization entry points are regenerated from the source text each run and checked empty by decide. Correspondence: torch's real global registries and mode stack after every enter/exit of random traces; bit-level snapshots of state_dict, qtypes and float sources around forwards (also with in-place steps between modules), quantize, freeze and library calls over qtype x axis x group size and subnormal scales; repeated evaluation bit-identical; the disable_extensions switch along nested traces against its model.",
        design="6/C13", technique="Lean 4 proof by induction on well-nested traces + regenerated write-set tables + state-snapshot differential checks"),
    "C08": dict(
        text="Lean theorems by structural induction over module trees: quantize() replaces exactly the selected eligible leaves (Linear, Conv2d, LayerNorm only with activations) by twins carrying the same identity and leaves everything else untouched, for every tree, filter and qtype; the branch trace of QModuleMixin.forward for the four input/activation cases; the loop quantize() actually runs (named_modules with its memo, set_module_by_name on dotted names) is modelled and proved equal to that structural map on every tree with distinct sibling names, every yielded name resolves to its module and no name is yielded twice. "
             "Correspondence on random trees (classes, names, filters) and on forward branch traces; float parameters, hyper-parameters, dtype and names compared bit for bit; each quantized module's output compared with the float module on the dequantized weight and (de)quantized input — bit-exact for Conv2d/LayerNorm (fallback ops), inside the accumulation envelope / one output step for Linear (torch is its own reference).",
        design="6/C08", technique="Lean 4 structural induction on module trees + differential correspondence; torch-vs-torch bit equality for numerics"),
    "C09": dict(
        text="Lean theorems over all histories of forward / freeze / optimizer step / copy events: the quantized weight used by every forward is the one derived from the current float version, freezing does not change it and is idempotent, a frozen weight ignores later events; storage formula of frozen weights from the packing density and grouping theorems. "
             "Real models under random histories: outputs bit-identical across freeze / refreeze / to(cpu) / deepcopy, non-weight state untouched, frozen payload and scale counts equal to the formula.",
        design="6/C09", technique="Lean 4 proof over a weight state machine (induction on histories) + torch-vs-torch bit equality on real histories"),
    "C10": dict(
        text="Lean theorems: Python str / literal_eval round trip for every int, None, list and tuple of ints (the metadata strings), flatten→unflatten identity for QBytes, Packed and QBits serial forms under any prefix, leaf types (only tensors and strings), module-level save→load identity including the choice of the weight class from weight_qtype, and the whole-model dict (per-module dicts under dotted prefixes): loading looks only at keys under its prefix, so every module of a model of any size is read back whenever no key under one prefix is a key under another. "
             "Real serializers (pickle, weights_only, safetensors) on real models: key sets and meta strings vs the model, the ordered key list of every saved model vs the modelled layout, every leaf bit for bit, qtypes, outputs bit-identical on same/default/requantize targets, re-saved dict equal.",
        design="6/C10", technique="Lean 4 proof of print/parse and flatten/unflatten round trips + differential correspondence with real serializers"),
    "C11": dict(
        text="Lean theorems: the explicit backward of the quantized linear is the adjoint of its bilinear forward for every batch size and feature sizes (so it equals the float backward at the dequantized operands), the bias gradient is the sum over the flattened leading positions, quantizer and dequantizer contribute the identity, "
             "and — from the weight state machine — every forward of an unfrozen module uses the quantization of the current float version after any sequence of optimizer steps, a frozen one never changes. "
             "Real autograd on QLinear/QConv2d (all weight qtypes, activations, ranks 2-4) against the float module at the dequantized weight and (de)quantized input: bit-exact on exact-arithmetic operand sets, rounding-level otherwise; frozen weights and scales receive no gradient.",
        design="6/C11", technique="Lean 4 proof (adjoint identity over rationals, state machine) + torch-autograd differential check"),
}

NOT_YET = "check not yet built in this round (build in progress; see DESIGN.md build order)"


def main():
    props = [json.loads(l) for l in open(os.path.join(VERIF, "properties.jsonl"))]
    checks, na = [], []
    for p in props:
        pid = p["id"]
        if pid in CLAIMED:
            c = CLAIMED[pid]
            checks.append({
                "property_id": pid,
                "quick_cmd": f"./vcheck {pid} --tier quick",
                "thorough_cmd": f"./vcheck {pid} --tier thorough",
                "evidence_file": f"/verif/evidence/{pid}.json",
                "replay_cmd_template": "./vcheck replay {path}",
                "engine": "lean4-model+correspondence",
                "level_claimed": {"category": "proof", "text": c["text"], "design_ref": c["design"]},
                "level_note": LEVEL_NOTE,
                "technique": c["technique"],
            })
        else:
            na.append({"property_id": pid, "reason": NOT_YET})
    m = {
        "version": 1,
        "setup_cmd": "./vcheck setup",
        "hooks": {
            "guard": "QUANTO_VERIF",
            "enable": "no source hooks are needed: checks observe public API, __tensor_flatten__, module attributes and torch's global tables; the C++ kernel is built by the repo's own loader with a redirected build directory",
            "baseline_off_cmd": "cd /repo && /venv/bin/python -m pytest -ra -q -p no:cacheprovider --timeout=900 --continue-on-collection-errors",
            "source_commits": [],
            "add_only": True,
        },
        "engines": [{"name": "lean4-model+correspondence", "path": "/verif/lean + /verif/harness", "serves_properties": sorted(CLAIMED),
                     "kind_free_text": "Lean 4 executable model with machine-checked theorems; Python differential harness driving the real code and the native model driver over a line protocol"}],
        "checks": checks,
        "not_applicable": na,
        "notes": "All checks: exit 0 held / exit 1 with VIOLATION line / exit 2 harness problem. known_findings.json lists genuine defects recorded rather than repaired.",
    }
    json.dump(m, open(os.path.join(VERIF, "MANIFEST.json"), "w"), indent=1)
    print("MANIFEST.json:", len(checks), "checks,", len(na), "not_applicable")


if __name__ == "__main__":
    main()

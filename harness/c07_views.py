"""C07 probe, run in a child process (the torch CPU kernels behind the integer / int8-pack routes may crash the
interpreter on operands that are views): quantized linear on operands whose payloads are expanded, transposed,
sliced or start at an odd storage offset must still be the scale-corrected product of the dequantized operands.

Prints one JSON object per line; `{"start": case}` is flushed before each case so that the parent can name the
case on which the child died."""
import json
import os
import random
import sys

import torch

sys.path.insert(0, os.path.dirname(os.path.abspath(__file__)))


def emit(o):
    sys.stdout.write(json.dumps(o) + "\n")
    sys.stdout.flush()


def envelope(out, xd, wd, dt):
    exact = xd @ wd.t()
    mag = xd.abs() @ wd.abs().t()
    K = xd.shape[-1]
    u = {torch.float32: 2.0 ** -24, torch.float16: 2.0 ** -11, torch.bfloat16: 2.0 ** -8}[dt]
    env = ((K + 4) * 2.0 ** -24 + 3 * u) * mag + 3 * u * exact.abs() + 2 * float(torch.finfo(dt).tiny) * u
    if out.shape != exact.shape:
        return f"shape {list(out.shape)} instead of {list(exact.shape)}"
    if not bool(torch.isfinite(out.float()).all()):
        return "non-finite"
    ex = ((out.double() - exact).abs() - env).max()
    return None if float(ex) <= 0 else f"outside the envelope by {float(ex):.4g}"


def view_of(t, mode, g):
    """a view holding the values of the 2-D tensor `t` with an unusual layout"""
    M, K = t.shape
    if mode == "dense":
        return t
    if mode == "transposed-storage":
        return t.t().contiguous().t()
    if mode == "lastdim-slice":      # rows start at odd offsets
        big = torch.zeros(M, K + 3, dtype=t.dtype)
        big[:, 1:K + 1] = t
        return big[:, 1:K + 1]
    if mode == "row-slice":
        big = torch.zeros(2 * M, K, dtype=t.dtype)
        big[::2] = t
        return big[::2]
    if mode == "odd-offset":
        flat = torch.zeros(M * K + 7, dtype=t.dtype)
        flat[3:3 + M * K] = t.reshape(-1)
        return flat[3:3 + M * K].reshape(M, K)
    raise ValueError(mode)


def main():
    seed, n = int(sys.argv[1]), int(sys.argv[2])
    import optimum.quanto as q
    from optimum.quanto import QBytesTensor
    rng = random.Random(seed)
    g = torch.Generator().manual_seed(seed)
    modes = ["dense", "transposed-storage", "lastdim-slice", "row-slice", "odd-offset"]
    dts = {"f32": torch.float32, "f16": torch.float16, "bf16": torch.bfloat16}
    for i in range(n):
        F = rng.choice(["bf16", "bf16", "f32", "f16"])
        dt = dts[F]
        M = rng.choice([1, 2, 3, 5, 8])
        K = rng.choice([2, 6, 16, 32, 48])
        N = rng.choice([1, 4, 5, 16])
        akind = rng.choice(["float", "qint8", "qfloat8_e4m3fn"])
        wkind = rng.choice(["qint8", "qint8", "qfloat8_e4m3fn"])
        xm, wm = rng.choice(modes + ["expanded"]), rng.choice(modes)
        case = {"F": F, "M": M, "K": K, "N": N, "act": akind, "w": wkind, "x_layout": xm, "w_layout": wm}
        emit({"start": case})
        xf = (torch.randn(M, K, generator=g) * 2).to(dt)
        wf = torch.randn(N, K, generator=g).to(dt)
        w0 = q.quantize_weight(wf, q.qtypes[wkind], 0)
        w = QBytesTensor(w0.qtype, w0.axis, w0.size(), w0.stride(), view_of(w0._data, wm, g), w0._scale)
        if xm == "expanded":
            xf = xf[:1].expand(M, K)
        if akind == "float":
            x = xf if xm == "expanded" else view_of(xf.contiguous(), xm, g)
        else:
            aq = q.qtypes[akind]
            s = (xf.abs().max().float() / float(torch.finfo(aq.dtype).max if aq.is_floating_point else 127)).to(dt)
            x0 = q.quantize_activation(xf.contiguous(), aq, s)
            data = x0._data[:1].expand(M, K) if xm == "expanded" else view_of(x0._data, xm, g)
            x = QBytesTensor(x0.qtype, None, x0.size(), x0.stride(), data, x0._scale)
        try:
            with torch.no_grad():
                out = torch.nn.functional.linear(x, w)
        except Exception as e:  # noqa
            emit({"case": case, "status": "raises:" + type(e).__name__, "message": str(e)[:150]})
            continue
        xd = (x.dequantize() if isinstance(x, QBytesTensor) else x).double()
        r = envelope(out, xd, w.dequantize().double(), dt)
        flags = {}
        if isinstance(x, QBytesTensor):
            # two defects known independently of the layout of the operands (see known_findings.json)
            flags["scale_product_subnormal"] = float(x._scale.double().abs().min() * w._scale.double().abs().min()) < float(torch.finfo(dt).tiny)
            flags["f8xf8_f16"] = bool(x.qtype.is_floating_point and w.qtype.is_floating_point and dt == torch.float16)
        emit({"case": case, "status": "ok" if r is None else "differs", "what": r, **flags})
    emit({"done": n})


if __name__ == "__main__":
    main()

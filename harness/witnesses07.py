"""witnesses of known findings for C07"""
import torch
from common import *


def case_f8xf8_f16_overflow():
    import optimum.quanto as q
    x = q.quantize_activation(torch.full((1, 4), 4.0, dtype=torch.float16), q.qfloat8_e4m3fn, torch.tensor(4.0 / 448, dtype=torch.float16))
    w = q.quantize_weight(torch.full((2, 4), 1.0, dtype=torch.float16), q.qfloat8_e4m3fn, 0)
    out = torch.nn.functional.linear(x, w)
    ref = x.dequantize().double() @ w.dequantize().double().t()
    return (not torch.isfinite(out.float()).all()) and bool((ref.abs() < 60000).all())


def case_scale_product_subnormal():
    import witnesses05
    return witnesses05.case_scale_product_underflow_f16() is not None


CASES = {"f8xf8-f16-overflow": case_f8xf8_f16_overflow, "scale-product-subnormal": case_scale_product_subnormal}


def reproduces(f):
    name = f.get("witness", {}).get("directed")
    try:
        with torch.no_grad():
            return bool(CASES[name]())
    except Exception:  # noqa
        return False

"""Self-test helper: confirm a seeded change delivered by an independent sub-agent and run the
property's check against it, all in a scratch worktree outside /repo and /verif.

usage: /venv/bin/python harness/seedconfirm.py <id> <src-dir-with-patch.diff,demo.py,meta.json> [--no-tests] [--checks C01,C02]
Copies the three files to /verif/seeded/<id>/, then:
  1. fresh worktree of /repo HEAD under /tmp/sv/<id>; demo must pass there;
  2. apply the patch; demo must fail; the test-suite must fail exactly the baseline set;
  3. run ./vcheck <property> with PYTHONPATH / VERIF_REPO pointing at the patched worktree;
  4. remove the worktree.  Results are written to seeded/<id>/confirm.json."""
import json
import os
import shutil
import subprocess
import sys

VERIF = os.path.dirname(os.path.dirname(os.path.abspath(__file__)))


def sh(cmd, cwd=None, env=None, timeout=7200):
    p = subprocess.run(cmd, cwd=cwd, env=env, shell=isinstance(cmd, str), capture_output=True, text=True, timeout=timeout)
    return p.returncode, p.stdout + p.stderr


def failed_set(out):
    return sorted(l.split()[1] for l in out.split("\n") if l.startswith("FAILED "))


def main():
    sid, src = sys.argv[1], sys.argv[2]
    run_tests = "--no-tests" not in sys.argv
    dst = os.path.join(VERIF, "seeded", sid)
    os.makedirs(dst, exist_ok=True)
    for f in ("patch.diff", "demo.py", "meta.json"):
        if os.path.abspath(src) == os.path.abspath(dst):
            break
        shutil.copy(os.path.join(src, f), os.path.join(dst, f))
    meta = json.load(open(os.path.join(dst, "meta.json")))
    checks = [meta["property"]]
    if "--checks" in sys.argv:
        checks = sys.argv[sys.argv.index("--checks") + 1].split(",")
    wt = f"/tmp/sv/{sid}"
    os.makedirs("/tmp/sv", exist_ok=True)
    sh(["git", "-C", "/repo", "worktree", "remove", "--force", wt])
    rc, out = sh(["git", "-C", "/repo", "worktree", "add", "--detach", wt, "HEAD"])
    if rc != 0:
        print(out)
        return 2
    res = {"id": sid, "property": meta["property"]}
    res["repo_head"] = sh(["git", "-C", "/repo", "rev-parse", "--short", "HEAD"])[1].strip()
    prev_path = os.path.join(dst, "confirm.json")
    if not run_tests and os.path.exists(prev_path):
        # keep the outcome of an earlier run of the test-suite against this change
        try:
            prev = json.load(open(prev_path))
            for k in ("tests_failed_set_equals_baseline", "tests_summary", "tests_diff", "tests_repo_head"):
                if k in prev:
                    res[k] = prev[k]
            if "tests_failed_set_equals_baseline" in prev and "tests_repo_head" not in prev:
                res["tests_repo_head"] = prev.get("repo_head", "earlier")
        except Exception:  # noqa
            pass
    env = dict(os.environ, PYTHONPATH=wt, VERIF_REPO=wt, VERIF_EVIDENCE_DIR="/tmp/sv/evidence")
    py = ["/venv/bin/python"] + (["-O"] if meta["property"] == "C15" else [])
    try:
        os.makedirs(os.path.join(wt, "_seed"), exist_ok=True)
        shutil.copy(os.path.join(dst, "demo.py"), os.path.join(wt, "_seed", "demo.py"))
        rc0, o0 = sh(py + ["_seed/demo.py"], cwd=wt, env=env)
        res["demo_without_change"] = rc0
        rc, out = sh(["git", "-C", wt, "apply", os.path.join(dst, "patch.diff")])
        if rc != 0:
            res["patch_applies"] = False
            print("patch does not apply:", out)
            return 2
        rc1, o1 = sh(py + ["_seed/demo.py"], cwd=wt, env=env)
        res["demo_with_change"] = rc1
        res["demo_message"] = o1.strip().split("\n")[-3:]
        if run_tests:
            rc, out = sh("/venv/bin/python -m pytest -q -p no:cacheprovider test 2>&1 | grep -E '^FAILED|passed|failed'", cwd=wt, env=env)
            base = json.load(open(os.path.join(VERIF, "seeded", "baseline_failed.json")))
            fs = failed_set(out)
            res["tests_failed_set_equals_baseline"] = (fs == base)
            res["tests_summary"] = [l for l in out.split("\n") if "passed" in l][-1:]
            res["tests_repo_head"] = res["repo_head"]
            if fs != base:
                res["tests_diff"] = {"extra": sorted(set(fs) - set(base)), "missing": sorted(set(base) - set(fs))}
        res["checks"] = {}
        for c in checks:
            rc, out = sh([os.path.join(VERIF, "vcheck"), c], cwd=VERIF, env=env)
            lines = [l for l in out.split("\n") if l.startswith("VIOLATION") or l.startswith("HARNESS-ERROR")]
            entry = {"exit": rc, "lines": lines, "replays": []}
            for l in lines[:3]:
                if "replay=" in l:
                    rp = l.split("replay=")[1].split()[0]
                    try:
                        rj = json.load(open(os.path.join(VERIF, rp)))
                        entry["replays"].append({"kind": rj.get("kind"), "signature": rj.get("signature"),
                                                 "case": json.dumps(rj.get("case") or (rj.get("correspondence_broken") or [{}])[0])[:600],
                                                 "proof_obligations_not_checked": rj.get("proof_obligations_not_checked")})
                    except Exception as e:  # noqa
                        entry["replays"].append({"error": str(e)})
            res["checks"][c] = entry
    finally:
        sh(["git", "-C", "/repo", "worktree", "remove", "--force", wt])
        shutil.rmtree(wt, ignore_errors=True)
    json.dump(res, open(os.path.join(dst, "confirm.json"), "w"), indent=1)
    print(json.dumps(res, indent=1)[:3000])
    return 0


if __name__ == "__main__":
    sys.exit(main())

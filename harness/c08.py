"""C08 — quantize() swaps exactly the eligible modules and each computes its float twin.

(a) random module trees (containers: Sequential / ModuleList / ModuleDict / custom blocks; leaves:
Linear, Conv2d, LayerNorm and other layers), random `modules=` filters and qtypes: the tree after
quantize() vs the Lean model (`quant08`); float parameters bit-identical, hyper-parameters, dtype,
names preserved.  (b) every quantized module kind over a hyper-parameter grid: output vs the float
module evaluated with the dequantized quantized weight on the (de)quantized input, re-quantized with
the output scale when activations are quantized (torch is its own reference: bit-exact for the
fallback ops, accumulation envelope / one output step for Linear); branch trace of forward vs
`fwd08`."""
import torch
from common import *

OTHERS = [("ReLU", lambda rng: torch.nn.ReLU()), ("Dropout", lambda rng: torch.nn.Dropout(0.1)), ("GELU", lambda rng: torch.nn.GELU()),
          ("Identity", lambda rng: torch.nn.Identity()), ("Embedding", lambda rng: torch.nn.Embedding(5, 4)), ("BatchNorm2d", lambda rng: torch.nn.BatchNorm2d(3)),
          ("Tanh", lambda rng: torch.nn.Tanh())]


class Block(torch.nn.Module):
    def __init__(self, **children):
        super().__init__()
        for k, v in children.items():
            setattr(self, k, v)


class SubLinear(torch.nn.Linear):
    """an instance of a subclass of Linear is a Linear module (so are torch's own NonDynamicallyQuantizableLinear)"""


class SubConv2d(torch.nn.Conv2d):
    pass


class SubLayerNorm(torch.nn.LayerNorm):
    pass


def subclass_tree(dt):
    from torch.nn.modules.linear import NonDynamicallyQuantizableLinear
    return torch.nn.Sequential(
        SubLinear(4, 3).to(dt), torch.nn.ReLU(),
        Block(a=NonDynamicallyQuantizableLinear(3, 3, bias=True).to(dt), b=SubConv2d(2, 2, 1).to(dt), c=SubLayerNorm(4).to(dt), d=torch.nn.Linear(3, 2).to(dt)))


def rand_leaf(rng, dt):
    r = rng.random()
    if r < 0.06:
        return rng.choice([lambda: SubLinear(4, 3), lambda: SubConv2d(2, 2, 1), lambda: SubLayerNorm(4)])().to(dt)
    if r < 0.3:
        return torch.nn.Linear(rng.choice([1, 4, 7, 160]), rng.choice([1, 3, 8]), bias=rng.random() < 0.7).to(dt)
    if r < 0.5:
        cin = rng.choice([2, 4])
        groups = rng.choice([1, 1, 2])
        padding = rng.choice([0, 1, "same", "valid"])
        stride = 1 if padding == "same" else rng.choice([1, 2])
        return torch.nn.Conv2d(cin, rng.choice([2, 4]), rng.choice([1, 3, (1, 2)]), stride=stride, padding=padding, dilation=1, groups=groups,
                               bias=rng.random() < 0.7, padding_mode=rng.choice(["zeros", "reflect", "replicate", "circular"])).to(dt)
    if r < 0.65:
        return torch.nn.LayerNorm(rng.choice([4, 8, (2, 4)]), elementwise_affine=True, bias=rng.random() < 0.8).to(dt)
    name, f = rng.choice(OTHERS)
    return f(rng).to(dt)


def rand_tree(rng, dt, depth=0):
    n = rng.randrange(1, 4)
    kind = rng.choice(["Sequential", "ModuleList", "ModuleDict", "Block"])
    children = []
    for i in range(n):
        if depth < 3 and rng.random() < 0.35:
            children.append(rand_tree(rng, dt, depth + 1))
        else:
            children.append(rand_leaf(rng, dt))
    if kind == "Sequential":
        return torch.nn.Sequential(*children)
    if kind == "ModuleList":
        return torch.nn.ModuleList(children)
    if kind == "ModuleDict":
        return torch.nn.ModuleDict({f"k{i}": c for i, c in enumerate(children)})
    return Block(**{f"c{i}": c for i, c in enumerate(children)})


def leaf_kind(m):
    from optimum.quanto.nn import QConv2d, QLayerNorm, QLinear, QModuleMixin
    q = None
    if isinstance(m, QModuleMixin):
        q = (("none" if m.weight_qtype is None else m.weight_qtype.name), ("none" if m.activation_qtype is None else m.activation_qtype.name))
    if isinstance(m, torch.nn.Linear):
        k = "lin"
    elif isinstance(m, torch.nn.Conv2d):
        k = "conv"
    elif isinstance(m, torch.nn.LayerNorm):
        k = "ln"
    else:
        k = "o-" + type(m).__name__
    return k, q


def tree_wire(m, ids, path=""):
    """wire string of a torch module tree; ids: path → small integer"""
    children = [(n, c) for n, c in m._modules.items() if c is not None]   # named_children() without its memo
    i = ids[path]
    if not children and not isinstance(m, (torch.nn.Sequential, torch.nn.ModuleList, torch.nn.ModuleDict, Block)):
        k, q = leaf_kind(m)
        return f"L{i}:{k}" + (f"~{q[0]}~{q[1]}" if q else "")
    cls = type(m).__name__
    return f"N{i}:{cls}(" + ",".join(f"{n}={tree_wire(c, ids, (path + '.' + n) if path else n)}" for n, c in children) + ")"


HPARAMS = {
    torch.nn.Linear: ["in_features", "out_features"],
    torch.nn.Conv2d: ["in_channels", "out_channels", "kernel_size", "stride", "padding", "dilation", "groups", "padding_mode"],
    torch.nn.LayerNorm: ["normalized_shape", "eps", "elementwise_affine"],
}


def hparams(m):
    for cls, names in HPARAMS.items():
        if isinstance(m, cls):
            return {n: getattr(m, n) for n in names} | {"has_bias": m.bias is not None}
    return {}


def tree_cases(ctx, lines, expect):
    import optimum.quanto as q
    rng = ctx.rng
    n = 150 if not ctx.thorough else 6000
    for _ in range(n):
        dt = rng.choice([torch.float32, torch.float16, torch.bfloat16])
        torch.manual_seed(rng.getrandbits(30))
        model = subclass_tree(dt) if _ < 4 else rand_tree(rng, dt)   # the first trees hold instances of subclasses of the eligible classes
        names = [n_ for n_, _ in model.named_modules()]
        ids = {p: i for i, p in enumerate(names)}
        before = tree_wire(model, ids)
        params_before = {k: (bits_of(v) if v.dtype in (torch.float32, torch.float16, torch.bfloat16) else v.tolist(), str(v.dtype), str(v.device)) for k, v in model.named_parameters()}
        hp_before = {n_: hparams(m) for n_, m in model.named_modules()}
        mods = dict(model.named_modules())
        filt = None
        if rng.random() < 0.5:
            cand = [p for p in names if p != ""]
            chosen = [p for p in cand if rng.random() < 0.5]
            filt = [mods[p] for p in chosen]
            fids = [ids[p] for p in chosen]
        wq = rng.choice(["qint8", "qint4", "qint2", "qfloat8", "qfloat8_e5m2"])
        aq = rng.choice([None, None, "qint8", "qfloat8_e4m3fn", "qfloat8_e5m2"])
        try:
            q.quantize(model, modules=filt, weights=q.qtypes[wq], activations=None if aq is None else q.qtypes[aq])
        except Exception as e:  # noqa
            ctx.spec_failures.append((f"C08:quantize-raises:{exc_name(e)}", {"tree": before, "weights": wq, "activations": aq, "message": str(e)[:200]}))
            continue
        ctx.evaluations += 1
        after = tree_wire(model, ids)
        lines.append(f"quant08 {before} {'none' if filt is None else (list_s(fids) if fids else '-')} {wq} {'none' if aq is None else aq}")
        expect.append(after)
        # the loop as written (named_modules + set_module_by_name) next to the structural map: same result,
        # and the names / identities in the order the implementation iterates them
        lines.append(f"flat08 {before} {'none' if filt is None else (list_s(fids) if fids else '-')} {wq} {'none' if aq is None else aq}")
        expect.append(after + " " + ";".join(names) + " " + ",".join(str(ids[p]) for p in names) + " true")
        ctx.count(f"tree:filter={'yes' if filt is not None else 'no'}:acts={'yes' if aq else 'no'}")
        ctx.nontriv((before, None if filt is None else tuple(fids), wq, aq))
        # the property, stated directly: a module is replaced iff it is eligible and selected; everything else is the same object
        from optimum.quanto.nn import QModuleMixin
        after_mods = dict(model.named_modules())
        for n_, m0 in mods.items():
            if n_ == "" or n_ not in after_mods:
                continue
            eligible = isinstance(m0, (torch.nn.Linear, torch.nn.Conv2d)) or (isinstance(m0, torch.nn.LayerNorm) and aq is not None)
            selected = filt is None or any(m0 is f for f in filt)
            m1 = after_mods[n_]
            swapped = isinstance(m1, QModuleMixin) and not isinstance(m0, QModuleMixin)
            if swapped and not (eligible and selected):
                ctx.spec_failures.append(("C08:module-replaced-although-" + ("not-selected" if eligible else "not-eligible"),
                                          {"tree": before, "module": n_, "filter": None if filt is None else chosen, "weights": wq, "activations": aq}))
            elif eligible and selected and not swapped:
                ctx.spec_failures.append(("C08:selected-eligible-module-not-replaced", {"tree": before, "module": n_, "filter": None if filt is None else chosen, "weights": wq, "activations": aq}))
            elif not swapped and m1 is not m0:
                ctx.spec_failures.append(("C08:untouched-module-is-another-object", {"tree": before, "module": n_}))
            if swapped and getattr(m1, "name", None) != n_:
                # the quantized twin keeps the name of the module it replaces (its dotted path in the model)
                ctx.spec_failures.append(("C08:quantized-module-records-another-name", {"tree": before, "module": n_, "recorded": getattr(m1, "name", None)}))
        # names, parameters, hyper-parameters, dtype, device
        if [n_ for n_, _ in model.named_modules()] != names:
            ctx.spec_failures.append(("C08:module-names-changed", {"tree": before}))
        params_after = {k: (bits_of(v) if v.dtype in (torch.float32, torch.float16, torch.bfloat16) else v.tolist(), str(v.dtype), str(v.device)) for k, v in model.named_parameters()}
        if params_after != params_before:
            changed = [k for k in set(params_before) | set(params_after) if params_before.get(k) != params_after.get(k)]
            ctx.spec_failures.append(("C08:float-parameters-not-preserved", {"tree": before, "changed": changed[:5]}))
        for n_, m in model.named_modules():
            if hparams(m) != hp_before[n_]:
                ctx.spec_failures.append(("C08:hyper-parameters-not-preserved", {"tree": before, "module": n_, "before": str(hp_before[n_]), "after": str(hparams(m))}))
        # set_module_by_name itself, on the quantized tree: replace one named module, compare with `Mod.setAt`
        from optimum.quanto.quantize import set_module_by_name
        cand = [p for p in names if p != ""]
        if cand:
            target = rng.choice(cand)
            try:
                set_module_by_name(model, target, torch.nn.Identity())
                lines.append(f"setat08 {after} {target} L{ids[target]}:o-Identity")
                expect.append(tree_wire(model, ids))
                ctx.count(f"setat:depth={target.count('.') + 1}")
                got = dict(model.named_modules()).get(target)
                if not isinstance(got, torch.nn.Identity):
                    ctx.spec_failures.append(("C08:set-module-by-name-misses-its-target", {"tree": after, "name": target}))
            except Exception as e:  # noqa
                ctx.spec_failures.append((f"C08:set-module-by-name-raises:{exc_name(e)}", {"tree": after, "name": target, "message": str(e)[:200]}))


class ActSpy:
    """log the calls of quantize_activation made by the quantized modules (branch trace of forward)"""

    def __init__(self):
        import optimum.quanto.nn.qconv2d as c
        import optimum.quanto.nn.qlinear as l
        import optimum.quanto.nn.qmodule as m
        self.mods = [(m, "module"), (l, "qforward"), (c, "qforward")]
        self.log = []

    def __enter__(self):
        self.mods = [(mod, where) for mod, where in self.mods if hasattr(mod, "quantize_activation")]
        self.orig = [(mod, mod.quantize_activation) for mod, _ in self.mods]
        for mod, where in self.mods:
            def wrap(t, qtype, scale, _w=where, _f=mod.quantize_activation):
                self.log.append(_w)
                return _f(t, qtype=qtype, scale=scale) if False else _f(t, qtype, scale)
            mod.quantize_activation = wrap
        return self

    def __exit__(self, *a):
        for mod, f in self.orig:
            mod.quantize_activation = f


def dag_cases(ctx, lines, expect):
    """Module objects reachable along two paths (shared / tied layers).  Outside the quantifier of C08 (module
    *trees*): nothing is judged here, the model of `named_modules()` with its memo (`loop08`) is only compared
    with what the implementation does.  Only shared *leaves*: a shared container is mutated in place, which every
    reference sees, and the model's trees are values (not modelled)."""
    import optimum.quanto as q
    rng = ctx.rng
    for _ in range(12 if not ctx.thorough else 300):
        shared_leaf = torch.nn.Linear(4, 4)
        shape = rng.randrange(3)
        if shape == 0:
            model = torch.nn.Sequential(shared_leaf, torch.nn.ReLU(), shared_leaf)
        elif shape == 1:
            model = torch.nn.Sequential(Block(a=shared_leaf, b=torch.nn.Linear(4, 4)), Block(c=torch.nn.LayerNorm(4), d=shared_leaf))
        else:
            model = Block(x=torch.nn.Sequential(torch.nn.Linear(4, 4), shared_leaf), y=shared_leaf, z=torch.nn.Conv2d(2, 2, 1), w=Block(inner=shared_leaf))
        ident = {}
        ids = {}
        for n_, m in model.named_modules(remove_duplicate=False):
            ids[n_] = ident.setdefault(id(m), len(ident))
        yielded = [n_ for n_, _ in model.named_modules()]
        before = tree_wire(model, ids)
        wq = rng.choice(["qint8", "qint4", "qfloat8"])
        aq = rng.choice([None, "qint8"])
        try:
            q.quantize(model, weights=q.qtypes[wq], activations=None if aq is None else q.qtypes[aq])
        except Exception as e:  # noqa
            ctx.count(f"dag:quantize-raises:{exc_name(e)}")
            continue
        lines.append(f"loop08 {before} none {wq} {'none' if aq is None else aq}")
        expect.append(tree_wire(model, ids) + " " + ";".join(yielded))
        ctx.count(f"dag:shape={shape}")


def forward_cases(ctx, lines, expect):
    import optimum.quanto as q
    from optimum.quanto import QBytesTensor
    rng = ctx.rng
    n = 120 if not ctx.thorough else 5000
    for _ in range(n):
        dt = rng.choice([torch.float32, torch.float16, torch.bfloat16])
        torch.manual_seed(rng.getrandbits(30))
        kind = rng.choice(["lin", "conv", "ln"])
        wq = rng.choice(["qint8", "qint4", "qint2", "qfloat8", "qfloat8_e5m2"])
        aq = rng.choice([None, "qint8", "qfloat8_e4m3fn", "qfloat8_e5m2"])
        if kind == "ln" and aq is None:
            aq = "qint8"
        if kind == "lin":
            fm = torch.nn.Linear(rng.choice([4, 7, 160]), rng.choice([1, 5]), bias=rng.random() < 0.7).to(dt)
            x = torch.randn(rng.choice([[3], [2, 3]]) + [fm.in_features]).to(dt)
        elif kind == "conv":
            groups = rng.choice([1, 2])
            pm = rng.choice(["zeros", "zeros", "reflect", "replicate", "circular"])
            padding = rng.choice([0, 1, (1, 0), "same", "valid"])
            stride = 1 if padding == "same" else rng.choice([1, 2, (2, 1)])
            fm = torch.nn.Conv2d(4, 4, rng.choice([1, 3, (3, 1)]), stride=stride, padding=padding, dilation=rng.choice([1, 1, 2]), groups=groups,
                                 bias=rng.random() < 0.7, padding_mode=pm)
            fm = fm.to(dt)
            x = torch.randn(2, 4, 7, 6).to(dt)
        else:
            shape = rng.choice([[6], [3, 6]])
            fm = torch.nn.LayerNorm(shape, bias=rng.random() < 0.8).to(dt)
            x = torch.randn([2, 3, 6]).to(dt)
        model = torch.nn.Sequential(fm)
        q.quantize(model, weights=q.qtypes[wq], activations=None if aq is None else q.qtypes[aq])
        model.to(dt)
        qm = model[0]
        from optimum.quanto.nn import QModuleMixin as _QM
        must_swap = kind in ("lin", "conv") or aq is not None
        if isinstance(qm, _QM) != must_swap:
            ctx.spec_failures.append(("C08:selected-eligible-module-not-replaced" if must_swap else "C08:module-replaced-although-not-eligible",
                                      {"module": type(fm).__name__, "weights": wq, "activations": aq, "note": "single-module model, after the earlier quantize() calls of this process"}))
            continue
        if not must_swap:
            continue
        if aq is not None:
            with torch.no_grad():
                qm.input_scale.fill_(float(x.abs().max()) / float(torch.finfo(q.qtypes[aq].dtype).max if q.qtypes[aq].is_floating_point else 127))
                qm.output_scale.fill_(rng.choice([0.05, 0.5, 2.0]) / (1 if aq == "qint8" else 3))
        inp_kind = "float"
        xin = x
        if aq is not None and rng.random() < 0.4:
            other = rng.random() < 0.5
            iq = q.qtypes[aq] if not other else (q.qint8 if aq != "qint8" else q.qfloat8_e4m3fn)
            xin = q.quantize_activation(x, iq, (x.abs().max() / (float(torch.finfo(iq.dtype).max) if iq.is_floating_point else 127)).to(dt))
            inp_kind = "other" if other else "same"
        sig_cfg = {"kind": kind, "weights": wq, "activations": aq, "dtype": str(dt), "input": inp_kind, "hparams": str(hparams(fm))}
        with ActSpy() as spy, torch.no_grad():
            try:
                out = qm(xin)
            except Exception as e:  # noqa
                circ = kind == "conv" and fm.padding_mode == "circular" and aq is not None
                ctx.spec_failures.append((("C08:forward-raises:conv-circular-padding-with-quantized-activations" if circ else f"C08:forward-raises:{kind}:{exc_name(e)}"),
                                          dict(sig_cfg, message=str(e)[:200])))
                continue
        ctx.evaluations += 1
        ctx.count(f"forward:{kind}:w={wq}:a={aq}:in={inp_kind}")
        ctx.nontriv((kind, wq, aq, str(dt), inp_kind, str(hparams(fm))))
        # branch trace
        outq = "none"
        tr = []
        if "module" in spy.log[:1] and inp_kind == "other":
            tr.append("requantInput")
        n_q = spy.log.count("qforward")
        if n_q:
            tr.append("quantizeInput")
        tr.append("qforward")
        post = len([w for w in spy.log if w == "module"]) - (1 if inp_kind == "other" and aq is not None else 0)
        if aq is not None and post > 0:
            tr.append("quantizeOutput")
        lines.append(f"fwd08 {kind} {'1' if aq else '0'} {inp_kind} {outq}")
        expect.append(",".join(tr))
        # reference: float module with the dequantized quantized weight on the (de)quantized input
        with torch.no_grad():
            if aq is None:
                xr = xin
            else:
                a = q.qtypes[aq]
                if isinstance(xin, QBytesTensor):
                    xq = xin if (xin.qtype == a and xin.axis is None) else q.quantize_activation(xin.dequantize(), a, qm.input_scale)
                elif kind in ("lin", "conv"):
                    xq = q.quantize_activation(xin, a, qm.input_scale)
                else:
                    xq = None
                xr = xq.dequantize() if xq is not None else xin
            wdeq = qm.qweight.dequantize() if qm.qweight is not None else None
            if kind == "lin":
                ref = torch.nn.functional.linear(xr, wdeq, qm.bias)
            elif kind == "conv":
                ref = qm._conv_forward(xr, wdeq, qm.bias)
            else:
                ref = torch.nn.functional.layer_norm(xr, qm.normalized_shape, qm.weight, qm.bias, qm.eps)
            if aq is not None:
                refq = q.quantize_activation(ref, q.qtypes[aq], qm.output_scale)
        if aq is None:
            if out.shape != ref.shape or out.dtype != ref.dtype:
                ctx.spec_failures.append((f"C08:output-shape-or-dtype:{kind}", dict(sig_cfg, got=[list(out.shape), str(out.dtype)], want=[list(ref.shape), str(ref.dtype)])))
            elif kind == "lin":
                u = {torch.float32: 2.0 ** -24, torch.float16: 2.0 ** -11, torch.bfloat16: 2.0 ** -8}[dt]
                mag = xr.double().abs() @ wdeq.double().abs().t() + (qm.bias.double().abs() if qm.bias is not None else 0)
                env = ((xr.shape[-1] + 4) * 2.0 ** -24 + 4 * u) * mag + 1e-30
                exact = xr.double() @ wdeq.double().t() + (qm.bias.double() if qm.bias is not None else 0)
                if bool(((out.double() - exact).abs() > env).any()):
                    ctx.spec_failures.append(("C08:linear-output-outside-envelope", dict(sig_cfg, max_excess=float(((out.double() - exact).abs() - env).max()))))
            elif bits_of(out) != bits_of(ref):
                ctx.spec_failures.append((f"C08:output-differs-from-float-twin:{kind}", dict(sig_cfg, max_diff=float((out.double() - ref.double()).abs().max()))))
        else:
            if not isinstance(out, QBytesTensor) or out.qtype != q.qtypes[aq] or out.axis is not None:
                ctx.spec_failures.append((f"C08:output-not-quantized-as-configured:{kind}", dict(sig_cfg, got=type(out).__name__)))
            elif kind == "lin":
                # one step of the output grid: the scale for int8, the float8 spacing at the largest magnitude otherwise
                step = float(qm.output_scale) if aq == "qint8" else float(max(out.dequantize().abs().max(), refq.dequantize().abs().max())) * (2.0 ** -2 if aq == "qfloat8_e5m2" else 2.0 ** -3) + 1e-30
                d = (out.dequantize().double() - refq.dequantize().double()).abs().max()
                # |fl(s c) - fl(s c')| <= s |c - c'| + u (|s c| + |s c'|): one step plus the rounding of the two dequantized values
                u_out = {torch.float32: 2.0 ** -24, torch.float16: 2.0 ** -11, torch.bfloat16: 2.0 ** -8}[dt]
                mag_out = float(max(out.dequantize().abs().max(), refq.dequantize().abs().max()))
                if float(d) > step * 1.001 + 2 * u_out * mag_out * 1.001 + 2.0 ** -23:
                    sig = "C08:linear-quantized-output-more-than-one-step-off"
                    if "float8" in wq and "float8" in aq and dt == torch.float16:
                        sig = "C08:linear-float8xfloat8-in-float16-overflow"
                    elif qm.qweight is not None and hasattr(qm.qweight, "_scale") and float(qm.input_scale.double() * qm.qweight._scale.double().abs().min()) < float(torch.finfo(dt).tiny):
                        sig = "C08:linear-scale-product-subnormal"
                    ctx.spec_failures.append((sig, dict(sig_cfg, diff=float(d), step=step)))
            elif bits_of(out._data.float()) != bits_of(refq._data.float()) or bits_of(out._scale) != bits_of(refq._scale):
                ctx.spec_failures.append((f"C08:quantized-output-differs-from-float-twin:{kind}", dict(sig_cfg)))


def directed(ctx):
    import optimum.quanto as q
    # bare eligible root
    lin = torch.nn.Linear(4, 3)
    w = lin.weight.detach().clone()
    try:
        q.quantize(lin, weights=q.qint8)
        ok = isinstance(lin, torch.nn.Linear) and lin.weight is not None and bits_of(lin.weight) == bits_of(w)
    except Exception:  # noqa
        ok = False
    ctx.evaluations += 1
    if not ok:
        ctx.spec_failures.append(("C08:directed:bare-eligible-root-destroyed", {"what": "quantize(nn.Linear) on a bare module sets its parameters to None instead of quantizing it (in place swap impossible at the root)"}))
    m = torch.nn.Sequential(torch.nn.LayerNorm(6, elementwise_affine=False))
    try:
        q.quantize(m, weights=q.qint8, activations=q.qint8)
        m(torch.randn(2, 6))
    except Exception as e:  # noqa
        ctx.spec_failures.append(("C08:directed:layernorm-without-affine-raises", {"what": f"quantize() of LayerNorm(elementwise_affine=False) with quantized activations raises {exc_name(e)}"}))
    ctx.evaluations += 1
    # uncalibrated float16 model with quantized activations: scale buffers are float32
    m = torch.nn.Sequential(torch.nn.Linear(6, 6), torch.nn.LayerNorm(6)).to(torch.float16)
    q.quantize(m, weights=q.qint8, activations=q.qint8)
    try:
        with torch.no_grad():
            out = m(torch.randn(2, 6).half())
        okd = out.dtype == torch.float16
    except Exception as e:  # noqa
        okd = False
    ctx.evaluations += 1
    if not okd:
        ctx.spec_failures.append(("C08:directed:float16-model-gets-float32-scale-buffers", {"what": "quantize() of a float16 model creates float32 input/output scale buffers: quantized activations report float32 and the next LayerNorm raises (mixed dtype)"}))


def run(ctx):
    import extract
    extract.main()
    lean_obligations(ctx)
    ctx.extra["rule"] = ("(a) seeded random module trees (depth <= 4, containers Sequential/ModuleList/ModuleDict/custom block, leaves Linear/Conv2d/LayerNorm/7 other layer classes), `modules=` filter absent or a random subset, 5 weight qtypes, activations None/qint8/qfloat8; "
                         "(b) Linear/Conv2d/LayerNorm over hyper-parameter grids (stride, padding ints/tuples/'same'/'valid', dilation, groups, padding_mode, bias; normalized_shape, bias), 5 weight qtypes, 4 activation settings, 3 dtypes, float or quantized inputs. "
                         "distinct = (tree, filter, qtypes) / (kind, hyper-parameters, qtypes, dtype, input kind); non-trivial = all")
    lines, expect = [], []
    tree_cases(ctx, lines, expect)
    dag_cases(ctx, lines, expect)
    forward_cases(ctx, lines, expect)
    directed(ctx)
    got = run_driver(lines)
    ctx.corr_cases += len(lines)
    for l, e, g in zip(lines, expect, got):
        if e != g and len(ctx.corr_disagreements) < 20:
            ctx.corr_disagreements.append({"case": l[:600], "impl": e[:600], "model": g[:600], "tag": l.split()[0]})
    ctx.sample({"line": lines[0][:400], "impl": expect[0][:400]})
    ctx.sample({"line": lines[-1], "impl": expect[-1]})
    # S4: directed witnesses of the listed findings that the random cases only meet by chance
    import optimum.quanto as q
    import witnesses07

    def w_circular():
        m = torch.nn.Sequential(torch.nn.Conv2d(2, 2, 3, padding=1, padding_mode="circular"))
        q.quantize(m, weights=q.qint8, activations=q.qint8)
        x = q.quantize_activation(torch.randn(1, 2, 5, 5), q.qint8, torch.tensor(0.05))
        try:
            m(x)
            return False
        except Exception:  # noqa
            return True

    wit = {"C08:forward-raises:conv-circular-padding-with-quantized-activations": w_circular,
           "C08:linear-float8xfloat8-in-float16-overflow": witnesses07.case_f8xf8_f16_overflow,
           "C08:linear-scale-product-subnormal": witnesses07.case_scale_product_subnormal}
    for sig, f in known_signatures("C08").items():
        if sig in wit:
            try:
                with torch.no_grad():
                    hit = bool(wit[sig]())
            except Exception:  # noqa
                hit = False
            if hit:
                if sig not in ctx.known_reproduced:
                    ctx.known_reproduced.append(sig)
            else:
                ctx.notes.append(f"known finding {sig} no longer reproduces on its witness")
    return finish(ctx, ["conv2d / layer_norm numerics are torch's own kernels on the dequantized weight (only the glue is modelled)", "module trees with aliased (shared) modules are outside the quantifier"])

"""C14 — configurations are either rejected with ValueError or fully honoured.

Exhaustive cross product on small shapes: quantize_weight (qtype x axis x group_size x optimizer family),
quantize_activation / SymmetricQuantizer (scale shapes), AffineQuantizer (qtype family); automatic group
size for every in_features 1..8192 and Conv2d shapes.  Model: `cfgw`, `cfga`, `cfgq`, `cfgs`, `autogroup`;
honoured-ness of accepted configurations through the C06 well-formedness predicate (`wfbytes`/`wfbits`)."""
import itertools

import torch
from common import *
import qmeta

QNAMES = ["qint2", "qint4", "qint8", "qfloat8", "qfloat8_e4m3fn", "qfloat8_e5m2"]


def shapes(ctx):
    out = [[1], [2], [5], [8], [1, 1], [1, 4], [4, 1], [2, 3], [4, 6], [3, 8], [2, 1, 3], [2, 2, 3], [1, 2, 2, 3], [2, 2, 2, 3]]
    if ctx.thorough:
        out += [[12], [24], [6, 4], [2, 12], [3, 2, 4], [4, 3, 2], [2, 3, 2, 2]]
    return out


def opt_of(name):
    import optimum.quanto as q
    return {"default": None, "symmetric": q.AbsmaxOptimizer(), "affine": q.MaxOptimizer()}[name]


def run(ctx):
    import optimum.quanto as q
    from optimum.quanto.tensor.quantizers import AffineQuantizer, SymmetricQuantizer
    lean_obligations(ctx)
    ctx.extra["rule"] = ("exhaustive cross product over small shapes (rank 1-4, <= 24 elements): qtype(6) x axis {None,-2..2} x group_size {None,1..2*numel} x optimizer family {default,symmetric,affine}; "
                         "SymmetricQuantizer: axis x every scale shape with entries in {1, dim}; quantize_activation: scale shapes; AffineQuantizer: qtype family; automatic group size for every in_features 1..8192 "
                         "(model) and module construction for a sample. distinct = configuration tuple; non-trivial = rejected, or grouped, or size-1 axis")
    ctx.extra["exhaustive"] = True
    lines, expect, meta = [], [], []
    wf_lines, wf_meta = [], []
    g = torch.Generator().manual_seed(ctx.seed + 1)
    # ---- quantize_weight
    for shape in shapes(ctx):
        numel = 1
        for d in shape:
            numel *= d
        x = torch.randn(shape, generator=g)
        # the same values in another memory layout (reversed dimension order in storage; a stride-2 vector for rank 1)
        if len(shape) == 1:
            xn = torch.stack([x, -x], 1)[:, 0]
        else:
            rev = list(range(len(shape)))[::-1]
            xn = x.permute(rev).contiguous().permute(rev)
        assert torch.equal(x, xn)
        for qn in QNAMES:
            qt = q.qtypes[qn]
            for axis in (None, -2, -1, 0, 1, 2):
                for gs in [None] + list(range(1, 2 * numel + 1)):
                    for opt in ("default", "symmetric", "affine"):
                        if gs is not None and gs > 8 and opt != "default" and not ctx.thorough:
                            continue
                        lines.append(f"cfgw {shape_s(shape)} {qn} {qmeta.axis_s(axis)} {'none' if gs is None else gs} {opt}")
                        try:
                            r = q.quantize_weight(x, qt, axis, gs, opt_of(opt))
                            e = f"ok {r.qtype.name} {qmeta.axis_s(r.axis)} {'none' if getattr(r, '_group_size', None) is None else r._group_size}"
                            wf_lines.append(qmeta.wf_line(r))
                            wf_meta.append(lines[-1])
                            probs = qmeta.consistent_with_dequantized(r)
                            if r.qtype != qt:
                                probs.append(f"qtype {r.qtype} instead of {qt}")
                            if probs:
                                ctx.spec_failures.append(("C14:accepted-but-not-honoured:quantize_weight", {"config": lines[-1], "problems": probs}))
                        except ValueError:
                            e = "err ValueError"
                        except Exception as ex:  # noqa
                            e = "err " + exc_name(ex)
                            ctx.spec_failures.append((f"C14:wrong-exception:quantize_weight:{exc_name(ex)}", {"config": lines[-1], "message": str(ex)[:200]}))
                        # the decision and the result must not depend on the memory layout of the float tensor
                        if opt == "default":
                            try:
                                r2 = q.quantize_weight(xn, qt, axis, gs, None)
                                e2 = f"ok {r2.qtype.name} {qmeta.axis_s(r2.axis)} {'none' if getattr(r2, '_group_size', None) is None else r2._group_size}"
                                if e2 == e and not torch.equal(r2.dequantize(), r.dequantize()):
                                    ctx.spec_failures.append(("C14:accepted-but-not-honoured:quantize_weight:layout-changes-values", {"config": lines[-1], "strides": list(xn.stride())}))
                            except ValueError:
                                e2 = "err ValueError"
                            except Exception as ex:  # noqa
                                e2 = "err " + exc_name(ex)
                            if e2 != e:
                                ctx.spec_failures.append((f"C14:layout-changes-the-decision:quantize_weight:{e2.split()[-1] if e2.startswith('err') else 'accepted'}",
                                                          {"config": lines[-1], "strides": list(xn.stride()), "contiguous": e, "this_layout": e2}))
                            ctx.count("quantize_weight:non-contiguous:" + e2.split()[0])
                        expect.append(e)
                        meta.append("quantize_weight")
                        ctx.evaluations += 1
                        ctx.count("quantize_weight:" + e.split()[0] + (":" + e.split()[1] if e.startswith("err") else ""))
                        if e.startswith("err") or gs is not None or 1 in shape:
                            ctx.nontriv(lines[-1])
    # ---- SymmetricQuantizer with explicit scales / quantize_activation
    for shape in shapes(ctx):
        x = torch.randn(shape, generator=g)
        rank = len(shape)
        cand = set()
        for r in range(0, rank + 2):
            for combo in itertools.product(*[[1, shape[i]] if i < rank else [1, 2] for i in range(r)]):
                cand.add(tuple(combo))
        for sshape in sorted(cand):
            scale = torch.rand(sshape) + 0.5
            for axis in (None, -2, -1, 0, 1, 2):
                for qn in ("qint8", "qfloat8_e4m3fn"):
                    lines.append(f"cfgs {shape_s(shape)} {qmeta.axis_s(axis)} {shape_s(sshape)}")
                    try:
                        r = SymmetricQuantizer.apply(x, q.qtypes[qn], axis, scale)
                        e = f"ok {qmeta.axis_s(r.axis)}"
                        wf_lines.append(qmeta.wf_line(r))
                        wf_meta.append(lines[-1] + " " + qn)
                        probs = []
                        try:
                            probs = qmeta.consistent_with_dequantized(r)
                        except Exception as ex:  # noqa
                            probs = ["dequantize raises " + exc_name(ex)]
                        if probs:
                            ctx.spec_failures.append(("C14:accepted-but-not-honoured:SymmetricQuantizer", {"config": lines[-1], "problems": probs}))
                    except ValueError:
                        e = "err ValueError"
                    except Exception as ex:  # noqa
                        e = "err " + exc_name(ex)
                        ctx.spec_failures.append((f"C14:wrong-exception:SymmetricQuantizer:{exc_name(ex)}", {"config": lines[-1], "message": str(ex)[:200]}))
                    expect.append(e)
                    meta.append("SymmetricQuantizer")
                    ctx.evaluations += 1
                    ctx.count("SymmetricQuantizer:" + e.split()[0])
                    ctx.nontriv(lines[-1] + qn)
            lines.append(f"cfga {shape_s(sshape)}")
            try:
                r = q.quantize_activation(x, q.qint8, scale)
                e = "ok"
                wf_lines.append(qmeta.wf_line(r))
                wf_meta.append(lines[-1])
            except ValueError:
                e = "err ValueError"
            except Exception as ex:  # noqa
                e = "err " + exc_name(ex)
                ctx.spec_failures.append((f"C14:wrong-exception:quantize_activation:{exc_name(ex)}", {"config": lines[-1], "message": str(ex)[:200]}))
            expect.append(e)
            meta.append("quantize_activation")
            ctx.evaluations += 1
            ctx.nontriv(lines[-1] + str(shape))
    # ---- accepted 8-bit requests are honoured on values too (C01 on the result): all three storage types, scales that
    # leave the tensor in range and scales that make part of it saturate — judged by the Lean predicate `spec01`
    import c01
    s1_lines, s1_meta = [], []
    for F, dt in (("f32", torch.float32), ("f16", torch.float16), ("bf16", torch.bfloat16)):
        for Q, qn in (("qint8", "qint8"), ("e4m3", "qfloat8_e4m3fn"), ("e5m2", "qfloat8_e5m2")):
            for sat in (1.0, 1e-3, 1e-6):
                x = (torch.randn(24, generator=g) * 50).to(dt)
                qmax = {"qint8": 127.0, "e4m3": 448.0, "e5m2": 57344.0}[Q]
                sc = (x.abs().max().float() / qmax * sat).to(dt)
                if float(sc) == 0 or not bool(torch.isfinite(sc)):
                    continue
                for site, fn in (("quantize_activation", lambda: q.quantize_activation(x, q.qtypes[qn], sc)),
                                 ("SymmetricQuantizer", lambda: SymmetricQuantizer.apply(x, q.qtypes[qn], None, sc))):
                    try:
                        r = fn()
                        d = r.dequantize()
                    except Exception as ex:  # noqa
                        ctx.spec_failures.append((f"C14:wrong-exception:{site}:{exc_name(ex)}", {"F": F, "qtype": qn, "saturating": sat != 1.0, "message": str(ex)[:150]}))
                        continue
                    s1_lines.append(f"spec01 {F} {Q} {list_s(bits_of(x, F))} {list_s(bits_of(r._scale, F))} {list_s(c01.codes_of(r._data, Q))} {list_s(bits_of(d, F))}")
                    s1_meta.append({"site": site, "F": F, "qtype": qn, "scale_factor": sat})
                    ctx.evaluations += 1
                    ctx.count(f"honoured-on-values:{site}:{Q}:{'saturating' if sat != 1.0 else 'in-range'}")
    s1_out = run_driver(s1_lines, weights=[len(l) * 60 for l in s1_lines])
    for l, o, m in zip(s1_lines, s1_out, s1_meta):
        if o != "ok":
            verdict = o.split()[1].split(":", 1)[1] if len(o.split()) > 1 and ":" in o.split()[1] else "fail"
            known_overflow = "overflow" in verdict
            ctx.spec_failures.append((f"C14:accepted-but-violates-C01:{m['site']}:{verdict}", dict(m, verdict=o[:200], replay=l[:1500])))
    # ---- AffineQuantizer: qtype family, axis, group
    for shape in ([4, 6], [2, 2, 3], [8]):
        x = torch.randn(shape, generator=g)
        for qn in QNAMES:
            for axis in (None, -2, -1, 0, 1):
                for gs in (None, 1, 2, 3, 4, 5, 6, 12, 24, 48):
                    lines.append(f"cfgq {shape_s(shape)} {qn} {qmeta.axis_s(axis)} {'none' if gs is None else gs}")
                    try:
                        sc, zp = q.MaxOptimizer()(x, 4, axis if axis in (0, -1) else 0, gs if (gs is None or (x.numel() // x.shape[axis if axis in (0, -1) else 0]) % gs == 0 and gs <= x.numel() // x.shape[axis if axis in (0, -1) else 0]) else None)
                    except Exception:  # noqa
                        sc, zp = torch.ones(1), torch.zeros(1, dtype=torch.int8)
                    try:
                        r = AffineQuantizer.apply(x, q.qtypes[qn], axis, gs, sc, zp)
                        e = "ok"
                    except ValueError:
                        e = "err ValueError"
                    except Exception as ex:  # noqa
                        e = "err " + exc_name(ex)
                        ctx.spec_failures.append((f"C14:wrong-exception:AffineQuantizer:{exc_name(ex)}", {"config": lines[-1], "message": str(ex)[:200]}))
                    expect.append(e)
                    meta.append("AffineQuantizer")
                    ctx.evaluations += 1
                    ctx.nontriv(lines[-1])
    # ---- automatic group size: every in_features 1..8192 on the model; implementation on a sample + conv shapes
    from optimum.quanto.nn import QConv2d, QLinear
    ns = list(range(1, 8193))
    model_auto = run_driver([f"autogroup {n}" for n in ns])
    for n, mg in zip(ns, model_auto):
        if mg != "none":
            gq = int(mg)
            if n % gq != 0 or gq not in (128, 96, 64, 32):
                ctx.spec_failures.append(("C14:autogroup-model", {"n": n, "group": gq}))
    sample = sorted(set(list(range(1, 300)) + [rng_n for rng_n in (ctx.rng.randrange(300, 8193) for _ in range(200 if not ctx.thorough else 3000))] + [384, 480, 512, 640, 1000, 1024, 4096, 8192, 160, 224, 288]))
    for n in sample:
        with torch.device("meta"):
            m = QLinear(n, 2, bias=False, weights=q.qint4)
        ig = "none" if m.weight_group_size is None else str(m.weight_group_size)
        lines.append(f"autogroup {n}")
        expect.append(ig)
        meta.append("autogroup-linear")
        ctx.evaluations += 1
        ctx.count("autogroup:" + ig)
        ctx.nontriv(("auto", n))
    # conv shapes: in_features = in_channels/groups * kh * kw ; run a real (small) subset
    for (cin, k, groups) in [(3, 3, 1), (16, 3, 1), (32, 3, 2), (64, 1, 1), (48, 2, 3), (130, 1, 1), (160, 1, 1), (40, 2, 1), (36, 3, 1), (20, 5, 4)]:
        n = cin // groups * k * k
        for wq in ("qint4", "qint2"):
            conv = torch.nn.Conv2d(cin, 4 * groups, k, groups=groups)
            model = torch.nn.Sequential(conv)
            q.quantize(model, weights=q.qtypes[wq])
            ig = "none" if model[0].weight_group_size is None else str(model[0].weight_group_size)
            lines.append(f"autogroup {n}")
            expect.append(ig)
            meta.append("autogroup-conv")
            try:
                out = model(torch.randn(1, cin, 6, 6))
                q.freeze(model)
                out2 = model(torch.randn(1, cin, 6, 6))
                if not torch.isfinite(out).all():
                    ctx.spec_failures.append(("C14:module-does-not-run", {"conv": [cin, k, groups], "weights": wq, "problem": "non-finite"}))
            except Exception as ex:  # noqa
                ctx.spec_failures.append((f"C14:module-does-not-run:{exc_name(ex)}", {"conv": [cin, k, groups], "weights": wq, "message": str(ex)[:200]}))
            ctx.evaluations += 1
            ctx.nontriv(("conv", cin, k, groups, wq))
    for n in (1, 7, 31, 32, 33, 96, 128, 129, 160, 192, 200, 256, 288, 384, 1000):
        for wq in ("qint4", "qint2", "qint8", "qfloat8"):
            model = torch.nn.Sequential(torch.nn.Linear(n, 3 if n % 2 else 1))
            q.quantize(model, weights=q.qtypes[wq])
            try:
                model(torch.randn(2, n))
                q.freeze(model)
                model(torch.randn(2, n))
            except Exception as ex:  # noqa
                ctx.spec_failures.append((f"C14:module-does-not-run:{exc_name(ex)}", {"linear_in_features": n, "weights": wq, "message": str(ex)[:200]}))
            ctx.evaluations += 1
    # ---- correspondence + WF oracle
    got = run_driver(lines)
    ctx.corr_cases += len(lines)
    for l, e, gg, m in zip(lines, expect, got, meta):
        if e != gg and len(ctx.corr_disagreements) < 30:
            ctx.corr_disagreements.append({"case": l, "impl": e, "model": gg, "tag": m})
        # the model's decision table is exactly the property's list of unsupported configurations (theorems C14_*):
        # a disagreement on accept/reject is a concrete configuration on which the property fails
        if m in ("quantize_weight", "SymmetricQuantizer", "quantize_activation", "AffineQuantizer") and e.split()[0] != gg.split()[0]:
            if e.startswith("err ValueError") and gg.startswith("ok"):
                ctx.spec_failures.append((f"C14:supported-configuration-rejected:{m}", {"config": l, "impl": e, "model": gg}))
            elif e.startswith("ok") and gg.startswith("err"):
                ctx.spec_failures.append((f"C14:unsupported-configuration-accepted:{m}", {"config": l, "impl": e, "model": gg}))
    ctx.sample({"line": lines[0], "impl": expect[0]})
    ctx.sample({"line": lines[len(lines) // 2], "impl": expect[len(lines) // 2]})
    wout = run_driver(wf_lines)
    for l, o, m in zip(wf_lines, wout, wf_meta):
        if o != "ok":
            site = "SymmetricQuantizer" if m.startswith("cfgs") else ("quantize_activation" if m.startswith("cfga") else "quantize_weight")
            ctx.spec_failures.append((f"C14:accepted-but-malformed:{site}:{o}", {"config": m, "observed": l}))
    ctx.count("wf_oracle_cases", len(wf_lines))
    return finish(ctx, ["group_size <= 0 is outside the stated domain (1..2*numel)"])

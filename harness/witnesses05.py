"""Directed corpus for C05 / C06: minimal operation sequences that the random programs do not reach
(or reach too irregularly).  Each case returns None when the property holds on it, or a short
description of how it fails.  Failing cases whose signature is listed in known_findings.json are
printed as KNOWN-FINDING; any other failing case is a VIOLATION."""
import torch
from common import *


def _qa(x, qt=None, scale=None):
    import optimum.quanto as q
    qt = qt or q.qint8
    scale = scale if scale is not None else (x.abs().max() / torch.finfo(qt.dtype).max if qt.is_floating_point else x.abs().max() / 127)
    return q.quantize_activation(x, qt, scale)


def _same(a, b):
    return isinstance(a, torch.Tensor) and isinstance(b, torch.Tensor) and a.shape == b.shape and a.dtype == b.dtype and bits_of(a) == bits_of(b)


def _deq(v):
    return v.dequantize() if hasattr(v, "dequantize") else v


def case_neg_code_minus_128():
    x = torch.tensor([-1.0, 0.5, 1.0])
    qx = _qa(x, scale=torch.tensor(1.0 / 128))
    return None if _same(_deq(-qx), -_deq(qx)) else "neg wraps the int8 code -128: -(-1.0) gives -1.0"


def case_t_1d():
    qx = _qa(torch.tensor([1.0, -2.0, 3.0]))
    try:
        r = qx.t()
    except Exception as e:  # noqa
        return f"t() on a 1-D quantized tensor raises {exc_name(e)} (valid for float tensors)"
    return None if _same(_deq(r), _deq(qx).t()) else "t() differs"


def case_copy_plain_source():
    qx = _qa(torch.tensor([[1.0, -2.0], [3.0, 0.5]]))
    src = torch.ones(2, 2)
    try:
        r = qx.clone().copy_(src)
    except Exception as e:  # noqa
        return f"copy_ of a plain tensor into a quantized tensor raises {exc_name(e)}"
    return None if torch.allclose(_deq(r), src, atol=0.02) else "copy_ did not copy"


def case_copy_other_qtype():
    import optimum.quanto as q
    a = _qa(torch.tensor([[1.0, -2.0], [3.0, 0.5]]))
    b = _qa(torch.tensor([[0.5, 1.0], [-1.0, 2.0]]), q.qfloat8_e4m3fn)
    try:
        r = a.clone().copy_(b)
    except Exception as e:  # noqa
        return f"copy_ between quantized tensors of different qtypes raises {exc_name(e)}"
    return None if torch.allclose(_deq(r), _deq(b), atol=0.05) else "copy_ did not copy"


def case_relu_negative_scale():
    qx = _qa(torch.tensor([1.0, -2.0, 3.0])) * -1.0
    return None if _same(_deq(torch.relu(qx)), torch.relu(_deq(qx))) else "relu on the codes is wrong when the scale is negative (after a multiplication by a negative scalar)"


def case_lt_negative_scale():
    a = _qa(torch.tensor([1.0, -2.0, 3.0]), scale=torch.tensor(0.05)) * -1.0
    b = _qa(torch.tensor([2.0, -3.0, 1.0]), scale=torch.tensor(0.05)) * -1.0
    r = a < b
    return None if torch.equal(r, _deq(a) < _deq(b)) else "lt on the codes is wrong when the (identical) scales are negative"


def case_where_quantized_other():
    a = _qa(torch.tensor([1.0, -2.0, 3.0]), scale=torch.tensor(0.05))
    b = _qa(torch.tensor([2.0, -3.0, 1.0]), scale=torch.tensor(0.05))
    cond = torch.tensor([True, False, True])
    try:
        r = torch.where(cond, a, b)
    except Exception as e:  # noqa
        return f"where(cond, q, q) with a quantized `other` raises {exc_name(e)} (only a quantized condition is a documented refusal)"
    return None if torch.allclose(_deq(r), torch.where(cond, _deq(a), _deq(b)), atol=0.06) else "where differs"


def case_where_quantized_condition_refused():
    # documented refusal: must raise (NotImplementedError), not return garbage
    a = _qa(torch.tensor([1.0, -2.0, 3.0]))
    try:
        torch.where(a, a, torch.zeros(3))
    except Exception:  # noqa
        return None
    return None


def case_inplace_fallback_is_noop():
    qx = _qa(torch.tensor([1.0, -2.0, 3.0]))
    before = _deq(qx).clone()
    try:
        qx.add_(1.0)
    except Exception as e:  # noqa
        return None    # raising is not a silent corruption
    after = _deq(qx)
    ref = before + 1.0
    return None if torch.allclose(after, ref, atol=0.05) else "in-place add_ on a quantized tensor silently leaves it unchanged (the fallback mutates a temporary)"


def case_div_float_by_quantized():
    qx = _qa(torch.tensor([1.0, -2.0, 4.0]))
    try:
        r = torch.ones(3) / qx
    except Exception as e:  # noqa
        return f"float / quantized raises {exc_name(e)}"
    return None if torch.allclose(_deq(r), torch.ones(3) / _deq(qx), rtol=1e-5) else "float / quantized differs"


def case_div_quantized_by_quantized():
    a = _qa(torch.tensor([1.0, -2.0, 4.0]))
    b = _qa(torch.tensor([2.0, 4.0, -1.0]))
    try:
        r = a / b
    except Exception as e:  # noqa
        return f"quantized / quantized raises {exc_name(e)}"
    return None if torch.allclose(_deq(r), _deq(a) / _deq(b), rtol=1e-5) else "quantized / quantized differs"


def case_stack_three():
    qs = [_qa(torch.tensor([1.0, -2.0, 3.0]), scale=torch.tensor(0.05)) for _ in range(3)]
    try:
        r = torch.stack(qs)
    except Exception as e:  # noqa
        return f"stack of three quantized tensors raises {exc_name(e)}"
    return None if _same(_deq(r), torch.stack([_deq(x) for x in qs])) else "stack differs"


def case_split_sizes():
    qx = _qa(torch.arange(24.0).reshape(4, 6))
    parts = torch.split(qx, 2)
    ref = torch.split(_deq(qx), 2)
    for p, r in zip(parts, ref):
        if tuple(p.shape) != tuple(r.shape) or not _same(_deq(p), r):
            return f"split chunk reports {tuple(p.shape)}, dequantizes to {tuple(_deq(p).shape)}, reference {tuple(r.shape)}"
    return None


def case_lt_float8():
    import optimum.quanto as q
    a = _qa(torch.tensor([1.0, -2.0, 3.0]), q.qfloat8_e4m3fn, torch.tensor(0.01))
    b = _qa(torch.tensor([2.0, -3.0, 1.0]), q.qfloat8_e4m3fn, torch.tensor(0.01))
    try:
        r = a < b
    except Exception as e:  # noqa
        return f"lt on float8 tensors raises {exc_name(e)}"
    return None if torch.equal(r, _deq(a) < _deq(b)) else "lt differs"


def case_mm_contracted_axis():
    import optimum.quanto as q
    torch.manual_seed(0)
    a = q.quantize_weight(torch.randn(24, 24), q.qint8, -1)     # scales along the contracted dimension
    b = _qa(torch.randn(24, 24))
    r = torch.mm(a, b)
    ref = torch.mm(_deq(a), _deq(b))
    return None if torch.allclose(_deq(r), ref, atol=1e-3, rtol=1e-3) else f"mm with scales along the contracted dimension is mis-broadcast (max error {float((_deq(r) - ref).abs().max()):.3g})"


def case_mm_contracted_axis_right():
    import optimum.quanto as q
    torch.manual_seed(1)
    worst = None
    for (n, m, p) in ((24, 24, 24), (32, 32, 48), (24, 16, 8)):
        a = _qa(torch.randn(n, m))
        rows = torch.randn(m, p) * torch.logspace(-2, 1, m).reshape(m, 1)      # rows of very different magnitude
        b = q.quantize_weight(rows, q.qint8, 0)                                # scales along the contracted dimension
        try:
            r = torch.mm(a, b)
        except Exception as e:  # noqa
            return f"mm with a right operand quantized along the contracted dimension raises {exc_name(e)} for {n}x{m} @ {m}x{p}"
        ref = torch.mm(_deq(a), _deq(b))
        if not torch.allclose(_deq(r), ref, atol=1e-2, rtol=1e-3):
            worst = f"mm with a right operand quantized along the contracted dimension is mis-broadcast for {n}x{m} @ {m}x{p} (max error {float((_deq(r) - ref).abs().max()):.3g})"
    return worst


def case_linear_1d_input():
    import optimum.quanto as q
    torch.manual_seed(0)
    w = q.quantize_weight(torch.randn(5, 1), q.qint8, 0)
    x = _qa(torch.randn(1))
    r = torch.nn.functional.linear(x, w)
    ref = torch.nn.functional.linear(_deq(x), _deq(w))
    return None if tuple(_deq(r).shape) == tuple(ref.shape) else f"linear with a 1-D input returns shape {tuple(_deq(r).shape)} instead of {tuple(ref.shape)}"


def case_linear_noncontiguous_activations():
    import optimum.quanto as q
    torch.manual_seed(0)
    x = _qa(torch.randn(1, 4, 3, 2)).permute(0, 2, 1, 3)
    w = q.quantize_weight(torch.randn(6, 2), q.qint8, 0)
    try:
        r = torch.nn.functional.linear(x, w)
    except Exception as e:  # noqa
        return f"linear with non-contiguous quantized activations raises {exc_name(e)}"
    ref = torch.nn.functional.linear(_deq(x), _deq(w))
    return None if torch.allclose(_deq(r), ref, atol=1e-4) else "linear with non-contiguous activations differs"


def case_linear_strided_int8_operands():
    """integer GEMM route with operands that are views: expanded (stride 0) activations / weights, a single-row
    transposed view, sliced rows — torch._int_mm ignores strides on CPU"""
    import optimum.quanto as q
    torch.manual_seed(0)
    w = q.quantize_weight(torch.randn(5, 6), q.qint8, 0)
    sc = torch.tensor(0.02)
    cands = {
        "expanded rows": q.quantize_activation(torch.randn(1, 6), q.qint8, sc).expand(4, 6),
        "expanded batch": q.quantize_activation(torch.randn(1, 3, 6), q.qint8, sc).expand(2, 3, 6),
        "single-row transposed": q.quantize_activation(torch.randn(6, 1), q.qint8, sc).t(),
        "transposed": q.quantize_activation(torch.randn(6, 3), q.qint8, sc).t(),
    }
    for name, x in cands.items():
        try:
            r = torch.nn.functional.linear(x, w)
        except Exception as e:  # noqa
            return f"linear with {name} int8 activations raises {exc_name(e)}"
        ref = torch.nn.functional.linear(_deq(x), _deq(w))
        if not torch.allclose(_deq(r), ref, atol=1e-4):
            return f"linear with {name} int8 activations differs by {float((_deq(r) - ref).abs().max()):.3g}"
    # expanded per-tensor weight (both operands int8)
    wt = q.quantize_activation(torch.randn(1, 6), q.qint8, sc).expand(5, 6)
    x = q.quantize_activation(torch.randn(4, 6), q.qint8, sc)
    r = torch.nn.functional.linear(x, wt)
    ref = torch.nn.functional.linear(_deq(x), _deq(wt))
    if not torch.allclose(_deq(r), ref, atol=1e-4):
        return f"linear with an expanded int8 weight differs by {float((_deq(r) - ref).abs().max()):.3g}"
    return None


def case_mm_expanded_operands():
    """aten.mm on the integer route (more than 16 rows, sizes multiples of 8) with an expanded (stride 0) operand"""
    import optimum.quanto as q
    torch.manual_seed(0)
    s = torch.tensor(0.02)
    b = q.quantize_activation(torch.randn(16, 8), q.qint8, s)
    a = q.quantize_activation(torch.randn(1, 16), q.qint8, s).expand(24, 16)
    a2 = q.quantize_activation(torch.randn(24, 16), q.qint8, s)
    b2 = q.quantize_activation(torch.randn(16, 1), q.qint8, s).expand(16, 8)
    for name, (x, y) in {"left": (a, b), "right": (a2, b2)}.items():
        r = torch.mm(x, y)
        ref = torch.mm(_deq(x), _deq(y))
        if not torch.allclose(_deq(r), ref, atol=1e-4):
            return f"mm with an expanded {name} operand differs by {float((_deq(r) - ref).abs().max()):.3g}"
    return None


def case_transposed_per_axis_operands():
    """`t()` of a tensor quantized along its first axis, used as a linear weight / as the left operand of mm"""
    import optimum.quanto as q
    torch.manual_seed(0)
    for k, n, rows in ((6, 6, 6), (6, 4, 6), (8, 8, 24), (6, 4, 1), (6, 4, 3)):
        w = q.quantize_weight(torch.randn(k, n), q.qint8, 0)      # scales indexed by k
        wt = w.t()                                                  # [n, k], scales indexed by the last axis
        for xq in (False, True):
            x = torch.randn(rows, k)
            x = _qa(x) if xq else x
            try:
                r = torch.nn.functional.linear(x, wt)
            except Exception as e:  # noqa
                return f"linear with a transposed first-axis weight [{n},{k}] raises {exc_name(e)}"
            ref = torch.nn.functional.linear(_deq(x), _deq(wt))
            if tuple(_deq(r).shape) != tuple(ref.shape) or not torch.allclose(_deq(r), ref, atol=1e-3, rtol=1e-3):
                return f"linear with a transposed first-axis weight [{n},{k}], {rows} rows, is mis-scaled"
        # mm: [n, k] @ [k, p] with the left operand's scales on the contracted dimension
        for p_ in (k, 8):
            y = _qa(torch.randn(k, p_))
            try:
                r = torch.mm(wt, y)
            except Exception as e:  # noqa
                return f"mm with a transposed first-axis left operand raises {exc_name(e)}"
            ref = torch.mm(_deq(wt), _deq(y))
            if tuple(_deq(r).shape) != tuple(ref.shape) or not torch.allclose(_deq(r), ref, atol=1e-3, rtol=1e-3):
                return "mm with a transposed first-axis left operand is mis-scaled"
    # the integer GEMM shapes: n > 16, multiples of 8
    w = q.quantize_weight(torch.randn(16, 24), q.qint8, 0)
    wt = w.t()
    y = _qa(torch.randn(16, 16))
    r = torch.mm(wt, y)
    ref = torch.mm(_deq(wt), _deq(y))
    if not torch.allclose(_deq(r), ref, atol=1e-3, rtol=1e-3):
        return "mm (integer GEMM shapes) with a transposed first-axis left operand is mis-scaled"
    return None


def case_ops_with_own_transpose():
    """a square tensor quantized per axis against its own transpose: the two scales live in the same storage"""
    import optimum.quanto as q
    torch.manual_seed(0)
    for n in (4, 7):
        for axis in (0, -1):
            w = torch.randn(n, n) * torch.logspace(-1, 1, n).reshape((n, 1) if axis == 0 else (1, n))
            x = q.quantize_weight(w, q.qint8, axis)
            y = x.t()
            for name, fn in (("lt", lambda a, b: torch.lt(a, b)), ("cat", lambda a, b: torch.cat([a, b])), ("stack", lambda a, b: torch.stack([a, b]))):
                try:
                    r = fn(x, y)
                except Exception as e:  # noqa
                    return f"{name}(x, x.t()) raises {exc_name(e)}"
                ref = fn(_deq(x), _deq(y))
                got = _deq(r) if hasattr(r, "dequantize") else r
                if tuple(got.shape) != tuple(ref.shape) or not torch.equal(got, ref):
                    return f"{name}(x, x.t()) on a per-axis tensor (axis {axis}, n={n}) differs from the float program"
    return None


def case_copy_into_module_output():
    """the quantized output of a module holds the module's `output_scale` buffer itself: writing it in place rescales the module"""
    import optimum.quanto as q
    torch.manual_seed(0)
    m = torch.nn.Sequential(torch.nn.Linear(4, 4))
    q.quantize(m, weights=q.qint8, activations=q.qint8)
    x = torch.randn(3, 4)
    with q.Calibration(streamline=False):
        m(x)
    q.freeze(m)
    y = m(x)
    before = bits_of(m[0].output_scale)
    other = q.quantize_activation(torch.randn(3, 4) * 100, q.qint8, torch.tensor(1.0))
    try:
        y.copy_(other)
    except Exception as e:  # noqa
        return f"copy_ into a module output raises {exc_name(e)}"
    if bits_of(m[0].output_scale) != before:
        return "copy_ into the quantized output of a module overwrote the module's output_scale buffer"
    s = torch.tensor(0.5)
    a = q.quantize_activation(torch.randn(2, 2), q.qint8, s)
    b = q.quantize_activation(torch.randn(2, 2), q.qint8, s)
    bd = bits_of(b.dequantize())
    a.copy_(other[0:2, 0:2] if False else q.quantize_activation(torch.randn(2, 2) * 50, q.qint8, torch.tensor(1.0)))
    if bits_of(b.dequantize()) != bd or float(s) != 0.5:
        return "copy_ into an activation changed another activation quantized with the same scale tensor (and the caller's scale)"
    return None


def case_linear_weight_last_axis():
    import optimum.quanto as q
    torch.manual_seed(0)
    w = q.quantize_weight(torch.randn(6, 6), q.qint8, -1)
    x = _qa(torch.randn(4, 6))
    try:
        r = torch.nn.functional.linear(x, w)
    except Exception as e:  # noqa
        return f"linear with a weight quantized along its last axis raises {exc_name(e)}"
    ref = torch.nn.functional.linear(_deq(x), _deq(w))
    return None if torch.allclose(_deq(r), ref, atol=1e-3, rtol=1e-3) else "linear with a weight quantized along its last axis is mis-broadcast"


def case_scale_product_underflow_f16():
    x = _qa(torch.tensor([[0.01, -0.02]], dtype=torch.float16))
    import optimum.quanto as q
    w = q.quantize_weight(torch.tensor([[0.004, -0.003]], dtype=torch.float16), q.qint8, 0)
    r = torch.nn.functional.linear(x, w)
    ref = _deq(x).double() @ _deq(w).double().t()
    err = float(((_deq(r).double() - ref).abs() / ref.abs()).max())
    return None if err < 4 * 2.0 ** -11 else f"float16 linear: the product of the activation and weight scales underflows into the subnormal range (relative error {err:.3g})"


def case_f8xf8_f16_overflow():
    import witnesses07
    return "float8 x float8 linear in float16 overflows before scaling" if witnesses07.case_f8xf8_f16_overflow() else None


CASES = {
    "f8xf8-f16-overflow": case_f8xf8_f16_overflow,
    "neg-int8-code-minus-128-wraps": case_neg_code_minus_128,
    "t-on-1d-raises": case_t_1d,
    "copy_-plain-source-raises": case_copy_plain_source,
    "copy_-other-qtype-raises": case_copy_other_qtype,
    "relu-negative-scale": case_relu_negative_scale,
    "lt-negative-scale": case_lt_negative_scale,
    "where-quantized-other-raises": case_where_quantized_other,
    "where-quantized-condition": case_where_quantized_condition_refused,
    "inplace-fallback-silent-noop": case_inplace_fallback_is_noop,
    "div-float-by-quantized-raises": case_div_float_by_quantized,
    "div-quantized-by-quantized-raises": case_div_quantized_by_quantized,
    "stack-three": case_stack_three,
    "split-sizes": case_split_sizes,
    "lt-float8": case_lt_float8,
    "linear-1d-input": case_linear_1d_input,
    "linear-noncontiguous-activations": case_linear_noncontiguous_activations,
    "linear-strided-int8-operands": case_linear_strided_int8_operands,
    "copy_-into-module-output": case_copy_into_module_output,
    "mm-expanded-operands": case_mm_expanded_operands,
    "transposed-per-axis-operands": case_transposed_per_axis_operands,
    "ops-with-own-transpose": case_ops_with_own_transpose,
    "mm-contracted-axis": case_mm_contracted_axis,
    "mm-contracted-axis-right": case_mm_contracted_axis_right,
    "linear-weight-last-axis": case_linear_weight_last_axis,
    "scale-product-underflow-f16": case_scale_product_underflow_f16,
}


def run_directed(ctx, pid="C05"):
    for name, fn in CASES.items():
        try:
            with torch.no_grad():
                r = fn()
        except Exception as e:  # noqa
            r = f"directed case crashed: {exc_name(e)} {str(e)[:120]}"
        ctx.evaluations += 1
        ctx.count("directed:" + ("ok" if r is None else "fails"))
        ctx.nontriv(("directed", name))
        if r is not None:
            ctx.spec_failures.append((f"{pid}:directed:{name}", {"case": name, "what": r, "replay": f"harness/witnesses05.py::{fn.__name__}"}))


def reproduces(f):
    name = f.get("witness", {}).get("directed")
    if name in CASES:
        try:
            with torch.no_grad():
                return CASES[name]() is not None
        except Exception:  # noqa
            return True
    return False

"""Shared machinery of the /verif checks: seeds, tiers, the Lean build + axiom audit,
the model driver (line protocol), canonical wire encoding of tensors, evidence files,
violation / known-finding reporting.

Run with /venv/bin/python (torch + quanto from /repo's working tree)."""
import hashlib
import json
import os
import random
import re
import subprocess
import sys
import time
from concurrent.futures import ThreadPoolExecutor

VERIF = os.path.dirname(os.path.dirname(os.path.abspath(__file__)))
LEAN = os.path.join(VERIF, "lean")
REPO = os.environ.get("VERIF_REPO", "/repo")
DRIVER = os.path.join(LEAN, ".lake", "build", "bin", "qdriver")
ALLOWED_AXIOMS = {"propext", "Classical.choice", "Quot.sound"}
NCPU = min(16, os.cpu_count() or 4)

TRUSTED_BASE = [
    "Lean 4.33 kernel; axioms limited to propext, Classical.choice, Quot.sound (audited by #print axioms each run)",
    "no sorry/admit/native_decide/bv_decide/own axioms (grep over lean/ each run)",
    "Lean compiler+runtime for the qdriver executable (model side of the correspondence)",
    "harness/*.py: generators, canonicalisation, diff; extract.py for Generated.lean",
    "modelled-not-verified: torch dispatcher, autograd, nn.Module, serializers, float kernels (elementwise ops modelled bit-exactly), strides; CUDA/MPS not executable here",
]


# ----------------------------------------------------------------------------- context


class Ctx:
    def __init__(self, pid, tier, seed):
        self.pid = pid
        self.tier = tier
        self.seed = seed
        self.rng = random.Random(f"{pid}-{seed}")
        self.t0 = float(os.environ.get("VCHECK_T0", time.time()))
        self.evaluations = 0
        self.nontrivial = set()
        self.samples = []
        self.hist = {}
        self.corr_cases = 0
        self.corr_disagreements = []   # (case, impl, model)
        self.spec_failures = []        # (signature, case dict)
        self.known_reproduced = []
        self.notes = []
        self.proof = None              # filled by lean_obligations
        self.extra = {}

    @property
    def thorough(self):
        return self.tier == "thorough"

    def count(self, key, n=1):
        self.hist[key] = self.hist.get(key, 0) + n

    def sample(self, s, limit=6):
        if len(self.samples) < limit:
            self.samples.append(s)

    def nontriv(self, key):
        self.nontrivial.add(key)


# ----------------------------------------------------------------------------- lean side


def sh(cmd, cwd=None, timeout=3600, env=None):
    p = subprocess.run(cmd, cwd=cwd, shell=isinstance(cmd, str), capture_output=True, text=True, timeout=timeout, env=env)
    return p.returncode, p.stdout, p.stderr


_GREP_BAD = re.compile(r"\bsorry\b|\badmit\b|^\s*axiom\s|native_decide|bv_decide|implemented_by|\bunsafe\s|maxHeartbeats\s+0")


def grep_forbidden():
    """Scan lean/ sources (outside comments) for forbidden constructs."""
    hits = []
    for root, _, files in os.walk(LEAN):
        if ".lake" in root:
            continue
        for fn in files:
            if not fn.endswith(".lean"):
                continue
            path = os.path.join(root, fn)
            txt = open(path).read()
            # strip block comments and line comments
            txt2 = re.sub(r"/-.*?-/", lambda m: "\n" * m.group(0).count("\n"), txt, flags=re.S)
            for i, line in enumerate(txt2.split("\n"), 1):
                line = line.split("--")[0]
                if _GREP_BAD.search(line):
                    hits.append(f"{os.path.relpath(path, LEAN)}:{i}: {line.strip()}")
    return hits


def lake_build(targets):
    """Build lake targets; returns (ok, log)."""
    rc, out, err = sh(["lake", "build"] + list(targets), cwd=LEAN, timeout=3000)
    return rc == 0, out + err


def build_driver():
    ok, log = lake_build(["qdriver"])
    return ok, log


def audit_axioms(pid):
    """Run #print axioms on every theorem of Proofs/Properties/<pid>.lean named <pid>_*.
    Returns dict name -> (ok, axioms list)."""
    path = os.path.join(LEAN, "Proofs", "Properties", f"{pid}.lean")
    if not os.path.exists(path):
        return {}
    src = open(path).read()
    names = re.findall(rf"^theorem\s+({pid}_[A-Za-z0-9_']+)", src, flags=re.M)
    ns = re.search(r"^namespace\s+(\S+)", src, flags=re.M)
    prefix = (ns.group(1) + ".") if ns else ""
    audit = f"import Proofs.Properties.{pid}\n" + "".join(f"#print axioms {prefix}{n}\n" for n in names)
    apath = os.path.join(LEAN, ".lake", f"Audit_{pid}.lean")
    os.makedirs(os.path.dirname(apath), exist_ok=True)
    open(apath, "w").write(audit)
    rc, out, err = sh(["lake", "env", "lean", apath], cwd=LEAN, timeout=1200)
    res = {}
    txt = out + err
    for n in names:
        m = re.search(rf"'{re.escape(prefix + n)}' depends on axioms: \[(.*?)\]", txt, flags=re.S)
        if m:
            ax = [a.strip() for a in m.group(1).replace("\n", " ").split(",") if a.strip()]
            res[n] = (set(ax) <= ALLOWED_AXIOMS, ax)
        elif re.search(rf"'{re.escape(prefix + n)}' does not depend on any axioms", txt):
            res[n] = (True, [])
        else:
            res[n] = (False, ["<not found in audit output>"])
    return res


def lean_obligations(ctx, extra_targets=()):
    """S1: build the property's proof module, audit axioms, grep. Fills ctx.proof."""
    pid = ctx.pid
    t0 = time.time()
    ok, log = lake_build([f"Proofs.Properties.{pid}"] + list(extra_targets))
    res = audit_axioms(pid) if ok else {}
    bad = grep_forbidden()
    recheck = None
    if ok and ctx.thorough:
        # thorough tier: independent re-check of the compiled property module by leanchecker
        rc, out, err = sh(["lake", "env", "leanchecker", f"Proofs.Properties.{pid}"], cwd=LEAN, timeout=1800)
        recheck = {"cmd": f"lake env leanchecker Proofs.Properties.{pid}", "rc": rc, "tail": (out + err)[-500:]}
        if rc != 0:
            ok = False
            log = (log or "") + "\nleanchecker failed: " + (out + err)[-1500:]
    src = open(os.path.join(LEAN, "Proofs", "Properties", f"{pid}.lean")).read()
    names = re.findall(rf"^theorem\s+({pid}_[A-Za-z0-9_']+)", src, flags=re.M)
    discharged = [n for n in names if res.get(n, (False,))[0]] if ok and not bad else []
    broken = []
    if not ok:
        # name the declarations the build errors fall in (the rest of the module is then unchecked, not refuted)
        for m in re.finditer(r"error: (?:\./)*(\S+?\.lean):(\d+):\d+", log or ""):
            rel, ln = m.group(1), int(m.group(2))
            try:
                decl = None
                for i, l in enumerate(open(os.path.join(LEAN, rel)).read().split("\n")[:ln], 1):
                    mm = re.match(r"\s*(?:private\s+|protected\s+)?(theorem|lemma|def|example|instance|abbrev)\s*([A-Za-z0-9_'.]*)", l)
                    if mm:
                        decl = f"{mm.group(1)} {mm.group(2)}".strip()
                entry = f"{rel}:{ln} in {decl}"
            except OSError:
                entry = f"{rel}:{ln}"
            if entry not in broken:
                broken.append(entry)
    ctx.proof = {
        "broken_declarations": broken[:10],
        "build_ok": ok,
        "obligations": names,
        "discharged": discharged,
        "failed": [n for n in names if n not in discharged],
        "axioms": {n: res[n][1] for n in res},
        "forbidden_hits": bad,
        "log_tail": "" if ok else log[-3000:],
        "leanchecker": recheck,
        "wall_s": round(time.time() - t0, 2),
    }
    return ok and not bad and len(discharged) == len(names)


_DRIVER_FRESH = False


def run_driver(lines, jobs=NCPU, weights=None):
    """Pipe protocol lines to the model driver (several processes), keep order."""
    if not lines:
        return []
    global _DRIVER_FRESH
    if not _DRIVER_FRESH or not os.path.exists(DRIVER):
        # once per run: the executable model must reflect this run's Generated.lean / model sources (no-op when unchanged)
        ok, log = build_driver()
        if not ok:
            raise RuntimeError("cannot build qdriver:\n" + log[-2000:])
        _DRIVER_FRESH = True
    n = len(lines)
    wt = weights if weights is not None else [len(l) for l in lines]
    total = sum(wt)
    jobs = max(1, min(jobs, n, total // 20000 + 1))
    # balance by size (longest first, into the lightest bin); order restored afterwards
    order = sorted(range(n), key=lambda i: -wt[i])
    bins = [[] for _ in range(jobs)]
    load = [0] * jobs
    for i in order:
        b = load.index(min(load))
        bins[b].append(i)
        load[b] += wt[i] + 50
    chunks = [[lines[i] for i in b] for b in bins]

    def work(chunk):
        p = subprocess.run([DRIVER], input="\n".join(chunk) + "\n", capture_output=True, text=True)
        if p.returncode != 0:
            raise RuntimeError(f"qdriver failed rc={p.returncode}: {p.stderr[-500:]}")
        out = p.stdout.split("\n")
        if out and out[-1] == "":
            out.pop()
        if len(out) != len(chunk):
            raise RuntimeError(f"qdriver returned {len(out)} lines for {len(chunk)} inputs; stderr={p.stderr[-300:]}")
        return out

    with ThreadPoolExecutor(jobs) as ex:
        outs = list(ex.map(work, chunks))
    res = [None] * n
    for b, o in zip(bins, outs):
        for i, v in zip(b, o):
            res[i] = v
    return res


# ----------------------------------------------------------------------------- wire encoding of tensors

_FMT = None


def fmts():
    global _FMT
    if _FMT is None:
        import torch

        _FMT = {
            "f32": (torch.float32, torch.int32, 32),
            "f16": (torch.float16, torch.int16, 16),
            "bf16": (torch.bfloat16, torch.int16, 16),
            "e4m3": (torch.float8_e4m3fn, torch.uint8, 8),
            "e5m2": (torch.float8_e5m2, torch.uint8, 8),
        }
    return _FMT


def fmt_of_dtype(dt):
    for k, v in fmts().items():
        if v[0] == dt:
            return k
    raise KeyError(dt)


NAN_BITS = {"f32": 0x7FC00000, "f16": 0x7E00, "bf16": 0x7FC0, "e4m3": 0x7F, "e5m2": 0x7E}


def bits_of(t, fmt=None):
    """Canonical bit patterns (python ints) of a float tensor: -0 → +0, every NaN → one pattern."""
    import torch

    fmt = fmt or fmt_of_dtype(t.dtype)
    dt, it, w = fmts()[fmt]
    t = t.detach().contiguous().reshape(-1)
    raw = t.view(it).to(torch.int64)
    if w < 64:
        raw = raw & ((1 << w) - 1)
    if w == 8:
        tf = t.to(torch.float32)
    else:
        tf = t
    isnan = torch.isnan(tf)
    raw = torch.where(isnan, torch.full_like(raw, NAN_BITS[fmt]), raw)
    raw = torch.where(raw == (1 << (w - 1)), torch.zeros_like(raw), raw)
    return raw.tolist()


def tensor_of_bits(bits, fmt, shape=None):
    import torch

    dt, it, w = fmts()[fmt]
    if w == 32:
        arr = [b - (1 << 32) if b >= (1 << 31) else b for b in bits]
    elif w == 16:
        arr = [b - (1 << 16) if b >= (1 << 15) else b for b in bits]
    else:
        arr = list(bits)
    t = torch.tensor(arr, dtype=it).view(dt)
    if shape is not None:
        t = t.reshape(shape)
    return t


def shape_s(shape):
    shape = list(shape)
    return "x".join(str(int(d)) for d in shape) if shape else "-"


def list_s(xs):
    xs = list(xs)
    return ",".join(str(int(x)) for x in xs) if xs else "-"


def exc_name(e):
    n = type(e).__name__
    if n in ("ValueError", "TypeError", "RuntimeError", "NotImplementedError", "AttributeError"):
        return n
    if isinstance(e, NotImplementedError):
        return "NotImplementedError"
    if isinstance(e, ValueError):
        return "ValueError"
    if isinstance(e, TypeError):
        return "TypeError"
    if isinstance(e, RuntimeError):
        return "RuntimeError"
    return "Other:" + n


# ----------------------------------------------------------------------------- findings / reporting


def load_known():
    path = os.path.join(VERIF, "known_findings.json")
    if not os.path.exists(path):
        return {"findings": [], "fixed": []}
    return json.load(open(path))


def known_signatures(pid):
    return {f["signature"]: f for f in load_known().get("findings", []) if f["property"] == pid}


def write_replay(ctx, kind, payload):
    os.makedirs(os.path.join(VERIF, "replays"), exist_ok=True)
    n = len([f for f in os.listdir(os.path.join(VERIF, "replays")) if f.startswith(f"{ctx.pid}-{ctx.seed}-")])
    path = os.path.join("replays", f"{ctx.pid}-{ctx.seed}-{n}.json")
    json.dump({"property": ctx.pid, "seed": ctx.seed, "tier": ctx.tier, "kind": kind, **payload},
              open(os.path.join(VERIF, path), "w"), indent=1, default=str)
    return path


def finish(ctx, level_extra=None):
    """S5: decide, write evidence, print lines, return exit code."""
    pid = ctx.pid
    known = known_signatures(pid)
    violations = []
    # group spec failures by signature
    by_sig = {}
    for sig, case in ctx.spec_failures:
        by_sig.setdefault(sig, []).append(case)
    for sig, cases in by_sig.items():
        if sig in known:
            if sig not in ctx.known_reproduced:
                ctx.known_reproduced.append(sig)
            continue
        path = write_replay(ctx, "property-violated-on-implementation", {"signature": sig, "case": cases[0], "more_cases": len(cases) - 1})
        violations.append((path, ""))
    proof_ok = ctx.proof is None or (ctx.proof["build_ok"] and not ctx.proof["failed"] and not ctx.proof["forbidden_hits"])
    unexplained = [d for d in ctx.corr_disagreements if not d.get("explained_by")]
    if not violations and (not proof_ok or unexplained):
        payload = {}
        if not proof_ok:
            payload["proof_obligations_not_checked"] = ctx.proof["failed"] or ["<build failed>"]
            payload["broken_declarations"] = ctx.proof.get("broken_declarations")
            payload["forbidden_hits"] = ctx.proof["forbidden_hits"]
            payload["log_tail"] = ctx.proof["log_tail"]
        if unexplained:
            payload["correspondence_broken"] = unexplained[:5]
            payload["n_disagreements"] = len(unexplained)
        payload["note"] = ("model/proof and implementation no longer agree; the property predicate evaluated on the "
                           "implementation found no failing input in this run's search")
        path = write_replay(ctx, "proof-or-correspondence-broken", payload)
        violations.append((path, " no-failing-input-found"))
    for sig in ctx.known_reproduced:
        print(f"KNOWN-FINDING: property={pid} {known[sig]['what']}")
    cov = {
        "evaluations": int(ctx.evaluations),
        "distinct_nontrivial": len(ctx.nontrivial),
        "rule": ctx.extra.pop("rule", ""),
        "samples": ctx.samples or ["<none>"],
        "traces_validated_against_impl": int(ctx.corr_cases),
        "disagreements_checked": len(ctx.corr_disagreements),
        "histogram": ctx.hist,
        "known_findings_reproduced": ctx.known_reproduced,
        "notes": ctx.notes,
    }
    if ctx.proof is not None:
        cov.update({
            "obligations": len(ctx.proof["obligations"]),
            "discharged": len(ctx.proof["discharged"]),
            "obligation_names": ctx.proof["obligations"],
            "axioms": ctx.proof["axioms"],
            "checker_cmd": f"cd lean && lake build Proofs.Properties.{pid} && lake env lean .lake/Audit_{pid}.lean  (#print axioms on every {pid}_* theorem) + grep for sorry/admit/axiom/native_decide/bv_decide",
            "trusted_base": TRUSTED_BASE,
            "proof_wall_s": ctx.proof["wall_s"],
            "leanchecker": ctx.proof.get("leanchecker"),
        })
    cov.update(ctx.extra)
    ev = {
        "property_id": pid,
        "tier": ctx.tier,
        "seed": int(ctx.seed),
        "level": "proof",
        "coverage": cov,
        "assumptions": level_extra or [],
        "wall_s": round(time.time() - ctx.t0, 2),
        "violations": len(violations),
    }
    # (the self-test helpers, which run the checks against deliberately modified copies of the repository, redirect the
    # evidence so that /verif/evidence always describes runs against /repo itself)
    evdir = os.environ.get("VERIF_EVIDENCE_DIR") or os.path.join(VERIF, "evidence")
    os.makedirs(evdir, exist_ok=True)
    json.dump(ev, open(os.path.join(evdir, f"{pid}.json"), "w"), indent=1, default=str)
    for path, suffix in violations:
        print(f"VIOLATION property={pid} replay={path}{suffix}")
    sys.stdout.flush()
    return 1 if violations else 0

"""C12 — calibration scales are the configured-momentum average of batch absmax ranges.

The harness records, through its own per-module hooks, what each batch contributes to every
calibrated module (absmax_scale of the float input — or the adopted scale of a quantized input —
and absmax_scale of the raw qforward output), folds these values with the Lean model
(`calib12`: the code's `_updated_scale`, and the property's pure exponential moving average) and
compares bit patterns with the module buffers after the context."""
from fractions import Fraction

import torch
from common import *


def build_model(rng, dt):
    kind = rng.choice(["linear", "linear-chain", "conv", "ln-linear", "mlp"])
    if kind == "linear":
        m = torch.nn.Sequential(torch.nn.Linear(6, 5))
        shape = [3, 6]
    elif kind == "linear-chain":
        m = torch.nn.Sequential(torch.nn.Linear(6, 8), torch.nn.Linear(8, 4))
        shape = [2, 6]
    elif kind == "conv":
        m = torch.nn.Sequential(torch.nn.Conv2d(2, 3, 3, padding=1), torch.nn.Conv2d(3, 2, 1))
        shape = [2, 2, 5, 5]
    elif kind == "ln-linear":
        m = torch.nn.Sequential(torch.nn.LayerNorm(6), torch.nn.Linear(6, 4))
        shape = [3, 6]
    else:
        m = torch.nn.Sequential(torch.nn.Linear(6, 8), torch.nn.ReLU(), torch.nn.Linear(8, 4))
        shape = [4, 6]
    return kind, m.to(dt), shape


def ref_range_scale(t, qtype):
    """the property's per-batch quantity, computed here and not by the library: max|t| / qmax in the dtype of `t`, never null
    (the smallest positive value of the dtype stands for a null range)"""
    qmax = float(torch.finfo(qtype.dtype).max) if qtype.is_floating_point else float(torch.iinfo(qtype.dtype).max)
    fi = torch.finfo(t.dtype)
    return torch.clamp(torch.max(torch.abs(t)) / qmax, min=fi.tiny * fi.eps)


def run_history(ctx, rng, cfg=None):
    import optimum.quanto as q
    from optimum.quanto import Calibration, QBytesTensor, absmax_scale, quantize
    from optimum.quanto.nn import QModuleMixin
    F = (cfg or {}).get("F") or rng.choice(["f32", "f16", "bf16"])
    dt = fmts()[F][0]
    torch.manual_seed(rng.getrandbits(30))
    kind, model, shape = build_model(rng, dt)
    act = (cfg or {}).get("act") or rng.choice(["qint8", "qfloat8_e4m3fn", "qfloat8_e5m2"])
    quantize(model, weights=q.qint8, activations=q.qtypes[act])
    momentum = (cfg or {}).get("momentum", rng.choice([0.0, 0.1, 0.5, 0.9, 0.99, round(rng.random(), 3)]))
    streamline = (cfg or {}).get("streamline", rng.random() < 0.5)
    nctx = rng.choice([1, 1, 2])
    events = {}     # module name → {"in": [...], "out": [...]}
    handles = []
    for name, mod in model.named_modules():
        if isinstance(mod, QModuleMixin):
            events[name] = {"in": [], "out": []}

            def pre(module, inp, _n=name):
                if module.activation_qtype is None:
                    return
                x = inp[0]
                if isinstance(x, QBytesTensor):
                    events[_n]["in"].append(("a", torch.max(x._scale)))
                else:
                    events[_n]["in"].append(("b", ref_range_scale(x, module.activation_qtype)))

            def post(module, inp, out, _n=name):
                if module.activation_qtype is None:
                    return
                # torch calls the module hooks after the global (Calibration) hooks: the scales are already updated
                raw = module.qforward(inp[0])
                if isinstance(raw, QBytesTensor):
                    raw = raw.dequantize()
                events[_n]["out"].append(("b", ref_range_scale(raw, module.activation_qtype)))

            handles.append(mod.register_forward_pre_hook(pre))
            handles.append(mod.register_forward_hook(post))
    nb_total = 0
    g = torch.Generator().manual_seed(rng.getrandbits(30))
    # how the batches reach the model: fresh tensors, or one input buffer refilled in place (same address, new contents)
    reuse = (cfg or {}).get("reuse")
    if reuse is None:
        reuse = rng.random() < 0.35
    inbuf = torch.empty(shape, dtype=dt)
    with torch.no_grad():
        for c in range(nctx):
            with Calibration(momentum=momentum, streamline=streamline):
                mags = (cfg or {}).get("mags") if c == 0 else None
                for b in range(len(mags) if mags else rng.randrange(1, 7 if c == 0 else 4)):
                    mag = mags[b] if mags else (10.0 ** rng.uniform(-4, 4) if rng.random() < 0.8 else rng.choice([127.0, 448.0, 57344.0, 1.0]))
                    x = (torch.randn(shape, generator=g) * mag).to(dt)
                    if rng.random() < 0.15:
                        x = x / x.abs().max() * torch.tensor(mag, dtype=dt)    # absmax exactly = mag (sentinel probes: scale exactly 1)
                    if reuse:
                        inbuf.copy_(x)
                        del x
                        model(inbuf)
                    else:
                        model(x)
                    nb_total += 1
    for h in handles:
        h.remove()
    return {"F": F, "kind": kind, "act": act, "momentum": momentum, "streamline": streamline, "contexts": nctx, "batches": nb_total,
            "events": events, "model": model, "reuse": reuse}


def sentinel_witness():
    """int8 activations, first batch with absmax exactly 127 (scale exactly 1.0), second batch with absmax 254:
    returns (input_scale of the implementation, EMA(0.9) of [1.0, 2.0]) as float32 bit patterns"""
    import optimum.quanto as q
    from optimum.quanto import Calibration, quantize
    torch.manual_seed(0)
    model = torch.nn.Sequential(torch.nn.Linear(4, 3))
    quantize(model, weights=q.qint8, activations=q.qint8)
    x1 = torch.tensor([[127.0, -3.0, 5.0, 1.0]])
    x2 = torch.tensor([[254.0, 7.0, -9.0, 2.0]])
    with torch.no_grad(), Calibration(momentum=0.9, streamline=False):
        model(x1)
        model(x2)
    impl = bits_of(model[0].input_scale.float(), "f32")[0]
    m = Fraction(0.9)
    o = run_driver([f"calib12 f32 {m.numerator} {m.denominator} b:{bits_of(torch.tensor(1.0), 'f32')[0]} b:{bits_of(torch.tensor(2.0), 'f32')[0]}"])[0].split()
    return str(impl), o[1]


def ev_tokens(evs, F):
    return [f"{k}:{bits_of(v.to(fmts()[F][0]) if v.dtype != fmts()[F][0] else v, F)[0]}" for k, v in evs]


class StreamBlock(torch.nn.Module):
    """a non-quantized parent whose direct children are quantized modules, with functions of several kinds between them"""

    def __init__(self, ops):
        super().__init__()
        self.fc0 = torch.nn.Linear(6, 6)
        self.fc1 = torch.nn.Linear(6, 6)
        self.fc2 = torch.nn.Linear(6, 6)
        self.ln = torch.nn.LayerNorm(6)
        self.ops = ops

    def apply_op(self, name, h, other):
        if name == "relu":
            return torch.relu(h)
        if name == "gelu":
            return torch.nn.functional.gelu(h)
        if name == "view":
            return h.view(-1, 6).view(h.shape)
        if name == "add":
            return h + other
        if name == "mul2":
            return h * 2
        if name == "softmax":
            return torch.softmax(h, dim=-1)
        if name == "transpose":
            return h.transpose(0, 1).transpose(0, 1)
        return h

    def forward(self, x):
        h0 = self.fc0(x)
        h = self.apply_op(self.ops[0], h0, h0)
        h1 = self.fc1(h)
        h = self.apply_op(self.ops[1], h1, h0)
        h = self.ln(h)
        h = self.apply_op(self.ops[2], h, h1)
        return self.fc2(h)


def streamline_cases(ctx):
    """the bookkeeping of `Calibration(streamline=True)`: a spy logs every intercepted call (the source modules of its
    positional arguments, the class names in `types`, whether a QBytesTensor came back); the model (`stream12`) predicts
    from that log which children lose their quantized activations"""
    import optimum.quanto as q
    from optimum.quanto import Calibration, QBytesTensor
    rng = ctx.rng

    class Spy(Calibration):
        def __init__(self, *a, **k):
            super().__init__(*a, **k)
            self.calls = []

        def __torch_function__(self, func, types, args=(), kwargs=None):
            out = super().__torch_function__(func, types, args, kwargs)
            srcs = [getattr(a_, "src_module", None) for a_ in args]
            srcs = [m for m in srcs if m is not None]
            if isinstance(out, torch.Tensor) and (srcs or any(issubclass(t, q.QTensor) for t in types)):
                self.calls.append((srcs, isinstance(out, QBytesTensor), [t.__name__ for t in types]))
            return out

    lines, expect = [], []
    opsl = ["relu", "gelu", "view", "add", "mul2", "softmax", "transpose", "none"]
    n = 40 if not ctx.thorough else 400
    for i in range(n):
        dt = rng.choice([torch.float32, torch.float16, torch.bfloat16])
        act = rng.choice(["qint8", "qfloat8_e4m3fn"])
        ops = [rng.choice(opsl) for _ in range(3)]
        torch.manual_seed(rng.getrandbits(30))
        model = StreamBlock(ops).to(dt)
        q.quantize(model, weights=q.qint8, activations=q.qtypes[act])
        children = [c for _, c in model.named_children() if hasattr(c, "activation_qtype")]
        ids = {id(c): k for k, c in enumerate(children)}
        spy = Spy(streamline=True)
        try:
            with torch.no_grad(), spy:
                model(torch.randn(3, 6).to(dt))
        except Exception as e:  # noqa
            ctx.spec_failures.append((f"C12:calibration-forward-raises:{exc_name(e)}", {"ops": ops, "act": act, "dtype": str(dt), "message": str(e)[:150]}))
            continue
        disabled = [k for k, c in enumerate(children) if c.activation_qtype is None]
        calls = []
        for srcs, qout, tys in spy.calls:
            ks = [ids[id(m)] for m in srcs if id(m) in ids]
            calls.append(("+".join(map(str, ks)) if ks else "-") + ":" + ("q" if qout else "p") + ":" + "+".join(tys))
        lines.append("stream12 " + ",".join(str(k) for k in range(len(children))) + " " + " ".join(calls))
        expect.append(",".join(map(str, disabled)) if disabled else "")
        ctx.evaluations += 1
        ctx.count(f"streamline:disabled={len(disabled)}of{len(children)}")
        ctx.nontriv(("streamline", tuple(ops), act, str(dt)))
    got = run_driver(lines)
    ctx.corr_cases += len(lines)
    for l, e, g in zip(lines, expect, got):
        if e != g.strip() and len(ctx.corr_disagreements) < 20:
            ctx.corr_disagreements.append({"case": l[:600], "impl": e, "model": g, "tag": "streamline: children that lose their quantized activations"})
    if lines:
        ctx.sample({"line": lines[0][:300], "impl": expect[0]})


def run(ctx, directed=True):
    from optimum.quanto.nn import QModuleMixin
    lean_obligations(ctx)
    rng = ctx.rng
    ctx.extra["rule"] = ("seeded histories of 1-9 batches (magnitudes over 8 decades, some batches with absmax exactly qmax so that a scale equals 1), momentum in {0, 0.1, 0.5, 0.9, 0.99, random}, 3 activation qtypes, "
                         "Linear / Conv2d / LayerNorm alone or chained, one or two successive contexts, streamline on/off, dtype float32/float16/bfloat16; distinct = (model kind, dtype, qtype, momentum, streamline, history hash); "
                         "non-trivial = more than one batch or momentum != 0.9; plus the streamline bookkeeping on parents with 4 quantized children and 8 kinds of functions between them")
    n = 150 if not ctx.thorough else 2000
    lines, meta = [], []
    cfgs = [None] * n
    if directed:
        cfgs = [{"momentum": 0.0}, {"momentum": 0.5}, {"momentum": 0.5, "F": "f32", "act": "qint8"}] + cfgs
        # every run: slowly varying histories of small (and large) magnitudes for every activation qtype and dtype — the scales
        # are then of the order of 1e-8 … 1e-5 (resp. large), where an update of one step is small in absolute terms
        for F_ in ("f32", "f16", "bf16"):
            for act_ in ("qint8", "qfloat8_e4m3fn", "qfloat8_e5m2"):
                for mom_, mags_ in ((0.9, [1e-3, 3e-3, 3e-3, 3e-3, 3e-3, 3e-3]), (0.5, [1e-5, 2e-5, 4e-5, 4e-5]), (0.9, [300.0, 900.0, 900.0])):
                    cfgs.insert(0, {"momentum": mom_, "F": F_, "act": act_, "mags": mags_, "streamline": False, "reuse": mags_[0] == 1e-5})
    for cfg in cfgs:
        h = run_history(ctx, rng, cfg)
        ctx.evaluations += 1
        ctx.count(f"{h['kind']}:{h['F']}:{h['act']}:streamline={h['streamline']}:contexts={h['contexts']}")
        ctx.count(f"input-buffer-reused={h['reuse']}")
        for name, mod in h["model"].named_modules():
            if not isinstance(mod, QModuleMixin):
                continue
            for which, buf in (("in", mod.input_scale), ("out", mod.output_scale)):
                evs = h["events"][name][which]
                if not evs:
                    continue
                dts = {v.dtype for _, v in evs}
                if len(dts) != 1:
                    ctx.count("skipped:mixed-dtype-history")
                    continue
                F = fmt_of_dtype(evs[0][1].dtype)
                m = Fraction(h["momentum"])
                lines.append(f"calib12 {F} {m.numerator} {m.denominator} " + " ".join(ev_tokens(evs, F)))
                final = buf.to(evs[0][1].dtype) if buf.dtype != evs[0][1].dtype else buf
                meta.append({"impl": str(bits_of(final, F)[0]), "module": name, "which": which, "momentum": h["momentum"], "kind": h["kind"], "F": F, "act": h["act"],
                             "n_events": len(evs), "buf_dtype": str(buf.dtype), "streamline": h["streamline"]})
                if len(evs) > 1 or h["momentum"] != 0.9:
                    ctx.nontriv((h["kind"], F, h["act"], h["momentum"], h["streamline"], name, which, hashlib.md5(lines[-1].encode()).hexdigest()))
                ctx.count(f"history-length:{min(len(evs), 9)}")
    got = run_driver(lines)
    ctx.corr_cases += len(lines)
    for l, mt, gg in zip(lines, meta, got):
        model_final, spec_final = gg.split()
        if mt["impl"] != model_final and len(ctx.corr_disagreements) < 20:
            ctx.corr_disagreements.append({"case": l, "impl": mt["impl"], "model": model_final, "tag": f"{mt['which']}-scale", "module": mt["module"], "momentum": mt["momentum"]})
        if spec_final != "none" and mt["impl"] != spec_final:
            # the property: pure EMA with the configured momentum
            kind = "input" if mt["which"] == "in" else "output"
            sig = f"C12:{kind}-scale-is-not-the-ema"
            if model_final == mt["impl"] and model_final != spec_final:
                # explained by the model: the only modelled deviation from the pure EMA is the sentinel
                sig = f"C12:{kind}-scale-sentinel-restart"
            ctx.spec_failures.append((sig, {"module": mt["module"], "which": mt["which"], "momentum": mt["momentum"], "kind": mt["kind"], "F": mt["F"], "act": mt["act"],
                                            "impl_bits": mt["impl"], "ema_bits": spec_final, "replay": l}))
    streamline_cases(ctx)
    ctx.sample({"line": lines[0], "impl": meta[0]["impl"], "model+spec": got[0]})
    ctx.sample({"line": lines[-1], "impl": meta[-1]["impl"], "model+spec": got[-1]})
    # S4: the sentinel witness is replayed on the implementation
    for sig, f in known_signatures("C12").items():
        impl, ema = sentinel_witness()
        if impl != ema:
            if sig not in ctx.known_reproduced:
                ctx.known_reproduced.append(sig)
        else:
            ctx.notes.append(f"known finding {sig} no longer reproduces on its witness")
    return finish(ctx, ["the per-batch ranges are recorded by harness hooks that call absmax_scale / qforward themselves (same computation as the property describes)",
                        "torch's hook ordering (global hooks before module hooks) is trusted"])

"""Self-test helper for behaviour-preserving changes: apply a refactor delivered by an independent sub-agent in a scratch
worktree and run the quick checks against it — every one of them must stay silent (exit 0, no VIOLATION line).

usage: /venv/bin/python harness/refconfirm.py <id> <src-dir-with-patch.diff,meta.json[,diff.py]> [--no-tests] [--checks C01,C02,…]
Results: seeded/<id>/confirm.json  (kind = harmless-refactor)"""
import json
import os
import shutil
import subprocess
import sys

VERIF = os.path.dirname(os.path.dirname(os.path.abspath(__file__)))
ALL = [f"C{i:02d}" for i in range(1, 17)]


def sh(cmd, cwd=None, env=None, timeout=7200):
    p = subprocess.run(cmd, cwd=cwd, env=env, shell=isinstance(cmd, str), capture_output=True, text=True, timeout=timeout)
    return p.returncode, p.stdout + p.stderr


def main():
    sid, src = sys.argv[1], sys.argv[2]
    run_tests = "--no-tests" not in sys.argv
    dst = os.path.join(VERIF, "seeded", sid)
    os.makedirs(dst, exist_ok=True)
    for f in ("patch.diff", "meta.json", "diff.py"):
        if os.path.abspath(src) != os.path.abspath(dst) and os.path.exists(os.path.join(src, f)):
            shutil.copy(os.path.join(src, f), os.path.join(dst, f))
    meta = json.load(open(os.path.join(dst, "meta.json")))
    checks = ALL
    if "--checks" in sys.argv:
        checks = sys.argv[sys.argv.index("--checks") + 1].split(",")
    wt = f"/tmp/sv/{sid}"
    os.makedirs("/tmp/sv", exist_ok=True)
    sh(["git", "-C", "/repo", "worktree", "remove", "--force", wt])
    rc, out = sh(["git", "-C", "/repo", "worktree", "add", "--detach", wt, "HEAD"])
    if rc != 0:
        print(out)
        return 2
    res = {"id": sid, "property": meta.get("property"), "kind": "harmless-refactor",
           "repo_head": sh(["git", "-C", "/repo", "rev-parse", "--short", "HEAD"])[1].strip()}
    env = dict(os.environ, PYTHONPATH=wt, VERIF_REPO=wt, VERIF_EVIDENCE_DIR="/tmp/sv/evidence")
    try:
        rc, out = sh(["git", "-C", wt, "apply", os.path.join(dst, "patch.diff")])
        if rc != 0:
            res["patch_applies"] = False
            print("patch does not apply:", out)
            json.dump(res, open(os.path.join(dst, "confirm.json"), "w"), indent=1)
            return 2
        rc, out = sh(["git", "-C", wt, "diff", "--shortstat"])
        res["shortstat"] = out.strip()
        if run_tests:
            rc, out = sh("/venv/bin/python -m pytest -q -p no:cacheprovider test 2>&1 | grep -E '^FAILED|passed|failed'", cwd=wt, env=env)
            base = json.load(open(os.path.join(VERIF, "seeded", "baseline_failed.json")))
            fs = sorted(l.split()[1] for l in out.split("\n") if l.startswith("FAILED "))
            res["tests_failed_set_equals_baseline"] = (fs == base)
            res["tests_summary"] = [l for l in out.split("\n") if "passed" in l][-1:]
        res["checks"] = {}
        for c in checks:
            rc, out = sh([os.path.join(VERIF, "vcheck"), c], cwd=VERIF, env=env)
            lines = [l for l in out.split("\n") if l.startswith("VIOLATION") or l.startswith("HARNESS-ERROR")]
            entry = {"exit": rc, "lines": lines, "replays": []}
            for l in lines[:3]:
                if "replay=" in l:
                    rp = l.split("replay=")[1].split()[0]
                    try:
                        rj = json.load(open(os.path.join(VERIF, rp)))
                        entry["replays"].append({"kind": rj.get("kind"), "signature": rj.get("signature"),
                                                 "case": json.dumps(rj.get("case") or (rj.get("correspondence_broken") or [{}])[0])[:600],
                                                 "broken_declarations": rj.get("broken_declarations")})
                    except Exception as e:  # noqa
                        entry["replays"].append({"error": str(e)})
            res["checks"][c] = entry
        res["silent"] = all(e["exit"] == 0 for e in res["checks"].values())
    finally:
        sh(["git", "-C", "/repo", "worktree", "remove", "--force", wt])
        shutil.rmtree(wt, ignore_errors=True)
    json.dump(res, open(os.path.join(dst, "confirm.json"), "w"), indent=1)
    print(sid, "silent" if res.get("silent") else "ALARMS", {c: e["exit"] for c, e in res["checks"].items() if e["exit"] != 0})
    return 0


if __name__ == "__main__":
    sys.exit(main())

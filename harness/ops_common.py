"""Typed random programs over quantized tensors for C05 / C06: value pool, op catalogue, wire
encoding (`op05` driver command), per-step float reference on the dequantized operands."""
from fractions import Fraction

import torch
from common import *
import c01
import qmeta

# current state of the two repaired dispatch functions (see known_findings.json "fixed")
STACK_FALLBACK_FIXED = 1
SPLIT_SIZE_FIXED = 1

QNAME = {"qint8": "qint8", "qfloat8_e4m3fn": "e4m3", "qfloat8_e5m2": "e5m2", "qfloat8": "e4m3"}
# positive, exactly representable scalars (negative scalars give negative scales: recorded finding, replayed by witness only)
SCALARS = [Fraction(2), Fraction(1, 2), Fraction(3), Fraction(3, 2), Fraction(1, 4), Fraction(5), Fraction(1), Fraction(1, 8)]


def is_qb(v):
    from optimum.quanto import QBytesTensor
    return isinstance(v, QBytesTensor)


def is_qbits(v):
    from optimum.quanto import QBitsTensor
    return isinstance(v, QBitsTensor)


def is_q(v):
    from optimum.quanto import QTensor
    return isinstance(v, QTensor)


def enc(v):
    """wire token(s) of a value"""
    if isinstance(v, BaseException):
        return "e;" + exc_name(v)
    if is_qb(v):
        F = fmt_of_dtype(v.dtype)
        Q = QNAME[v.qtype.name]
        return (f"q;{F};{Q};{qmeta.axis_s(v.axis)};{shape_s(v.shape)};{shape_s(v._data.shape)};{list_s(c01.codes_of(v._data, Q))};"
                f"{shape_s(v._scale.shape)};{list_s(bits_of(v._scale, F))}")
    if isinstance(v, torch.Tensor):
        if v.dtype == torch.bool:
            return f"b;{shape_s(v.shape)};{list_s(v.reshape(-1).to(torch.int64).tolist())}"
        F = fmt_of_dtype(v.dtype)
        return f"p;{F};{shape_s(v.shape)};{list_s(bits_of(v, F))}"
    if isinstance(v, Fraction):
        return f"s;{v.numerator};{v.denominator}"
    if isinstance(v, (list, tuple)):
        return f"l;{len(v)}" + "".join(" " + enc(x) for x in v)
    raise TypeError(type(v))


def deq(v):
    """dequantized twin with the same reported strides (so that stride-dependent validity is the same)"""
    if is_q(v):
        d = v.dequantize()
        # validity of stride-dependent ops (view) is decided by the payload the handler applies the op to:
        # per-tensor QBytes → the strides of `_data`; per-axis / low-bit tensors are dequantized first (contiguous)
        if is_qb(v) and v.axis is None and tuple(v._data.shape) == tuple(v.shape) and 0 not in v._data.stride():
            try:
                r = torch.empty_strided(tuple(v.shape), tuple(v._data.stride()), dtype=d.dtype)
                r.copy_(d)
                return r
            except Exception:  # noqa
                return d
        if is_qb(v) and v.axis is None and 0 in v._data.stride():
            # expanded payload (stride 0): reproduce the expansion on the float side
            try:
                base_idx = tuple(slice(0, 1) if st == 0 else slice(None) for st in v._data.stride())
                return d[base_idx].contiguous().expand(tuple(v.shape))
            except Exception:  # noqa
                return d
        return d
    if isinstance(v, (list, tuple)):
        return [deq(x) for x in v]
    if isinstance(v, Fraction):
        return float(v)
    return v


def make_qb(rng, F, Q, shape, axis=None, scale=None, mag=None):
    import optimum.quanto as q
    from optimum.quanto.tensor.quantizers import SymmetricQuantizer
    dt = fmts()[F][0]
    g = torch.Generator().manual_seed(rng.getrandbits(40))
    mag = mag or 10.0 ** rng.uniform(-2, 2)
    x = (torch.randn(shape, generator=g) * mag).to(dt)
    qt = q.qtypes[c01.QT[Q]]
    if axis is None:
        if scale is None:
            scale = (x.abs().max().float() / {"qint8": 127, "e4m3": 448, "e5m2": 57344}[Q] * rng.choice([1.0, 1.0, 0.5])).to(dt)
            if float(scale) == 0:
                scale = torch.tensor(1.0, dtype=dt)
        return SymmetricQuantizer.apply(x, qt, None, scale)
    return q.quantize_weight(x, qt, axis)


def make_qbits(rng, F, bits, shape, gs=None):
    import optimum.quanto as q
    dt = fmts()[F][0]
    g = torch.Generator().manual_seed(rng.getrandbits(40))
    x = (torch.randn(shape, generator=g) * 10.0 ** rng.uniform(-2, 1)).to(dt)
    return q.quantize_weight(x, q.qint4 if bits == 4 else q.qint2, 0, gs)


def rand_shape(rng, rank=None, maxd=5):
    rank = rank or rng.randrange(1, 5)
    return [rng.randrange(1, maxd + 1) for _ in range(rank)]


def kind_of(v):
    if is_qb(v):
        return ("qb-f8" if v.qtype.is_floating_point else "qb-i8") + ("-pt" if v.axis is None else "-pa")
    if is_qbits(v):
        return "qbits"
    if isinstance(v, torch.Tensor):
        return "bool" if v.dtype == torch.bool else "plain"
    if isinstance(v, Fraction):
        return "scalar"
    if isinstance(v, (list, tuple)):
        return "list"
    return type(v).__name__


class Step:
    """one operation applied to operands: how to run it on (quantized or float) operands, the
    model line, and the relation its result must have with the float reference"""

    def __init__(self, name, params, operands, fn, rel, model=True, oracle=None, note=None):
        self.name, self.params, self.operands, self.fn, self.rel = name, params, operands, fn, rel
        self.model = model          # does the Lean model have a transcription of this op?
        self.oracle = oracle        # "ref" → the float reference result is passed to the model as oracle
        self.note = note

    def line(self, ref):
        vals = list(self.operands)
        toks = [enc(v) for v in vals]
        n = len(vals)
        if self.oracle == "ref":
            toks.append(enc(ref))
            n += 1
        return f"op05 {self.name} {list_s(self.params)} {n} " + " ".join(toks)


def gen_step(rng, pool):
    """choose an op and operands from the pool; returns a Step or None"""
    qbs = [v for v in pool if is_qb(v)]
    if not qbs:
        return None
    qbits = [v for v in pool if is_qbits(v)]
    if qbits and rng.random() < 0.08:
        # packed low-bit operand: only detach / moves are intercepted, every other op dequantizes
        v = rng.choice(qbits)
        r = v.ndim
        name, fn, rel = rng.choice([
            ("qbits-detach", lambda x: x.detach(), "exact"),
            ("qbits-neg", lambda x: -x, "exact"),
            ("qbits-mul", lambda x: x * 2.0, "exact"),
            ("qbits-transpose", lambda x: x.transpose(0, 1), "exact"),
            ("qbits-t", lambda x: x.t(), "exact"),
            ("qbits-view", lambda x: x.reshape(-1), "exact"),
            ("qbits-select", lambda x: x[0], "exact"),
            ("qbits-relu", lambda x: torch.relu(x), "exact"),
            ("qbits-sum", lambda x: x.sum(), "exact"),
            ("qbits-to-dtype", lambda x: x.to(torch.float32 if x.dtype != torch.float32 else torch.float16), "refusal"),
            ("qbits-to-cpu", lambda x: x.to("cpu"), "exact"),
            ("qbits-matmul", lambda x: torch.matmul(torch.ones(2, x.shape[0], dtype=x.dtype), x), "exact"),
        ])
        return Step(name, [], [v], fn, rel, model=False)
    v = rng.choice(qbs)
    r = v.ndim
    shape = list(v.shape)
    numel = v.numel()
    choice = rng.choice(["view", "permute", "transpose", "select", "slice", "unsqueeze", "expand", "t", "neg", "relu", "detach", "clone", "to",
                         "mul", "div", "cat", "stack", "split", "lt", "softmax", "where", "mm", "fallback", "reshape", "rmul", "bmm", "linear", "copy_"])
    if choice in ("view", "reshape"):
        cands = [[numel], shape]
        for d in (2, 3, 4, 5, 6):
            if numel % d == 0:
                cands += [[d, numel // d], [numel // d, d]]
                if r >= 1:
                    cands.append([1, d, numel // d])
        s = rng.choice(cands)
        if choice == "view":
            return Step("view", s, [v], lambda x, s=s: x.view(s), "exact")
        return Step("view", s, [v], lambda x, s=s: x.reshape(s), "exact", note="reshape")
    if choice == "permute" and r >= 2:
        p = list(range(r))
        rng.shuffle(p)
        return Step("permute", p, [v], lambda x, p=p: x.permute(p), "exact")
    if choice == "transpose" and r >= 1:
        a, b = rng.randrange(-r, r), rng.randrange(-r, r)
        return Step("transpose", [a, b], [v], lambda x, a=a, b=b: x.transpose(a, b), "exact")
    if choice == "select" and r >= 1:
        d = rng.randrange(-r, r)
        i = rng.randrange(-shape[d], shape[d])
        return Step("select", [d, i], [v], lambda x, d=d, i=i: x.select(d, i), "exact")
    if choice == "slice" and r >= 1:
        d = rng.randrange(-r, r)   # aten passes dims as written: negative ones included
        a = rng.randrange(-shape[d] - 1, shape[d] + 1)
        b = rng.randrange(-shape[d] - 1, shape[d] + 2)
        st = rng.choice([1, 1, 2, 3])
        if rng.random() < 0.3:   # python indexing: torch decides itself whether a slice op is dispatched or an alias is taken (not modelled)
            idx = [slice(None)] * (d % r) + [slice(a, b, st)]
            return Step("getitem", [d, a, b, st], [v], lambda x, idx=tuple(idx): x[idx], "exact", model=False)
        return Step("slice", [d, a, b, st], [v], lambda x, d=d, a=a, b=b, st=st: torch.ops.aten.slice.Tensor(x, d, a, b, st), "exact")
    if choice == "unsqueeze":
        d = rng.randrange(-r - 1, r + 1)
        return Step("unsqueeze", [d], [v], lambda x, d=d: x.unsqueeze(d), "exact")
    if choice == "expand":
        tgt = [rng.randrange(2, 4) if s == 1 else s for s in shape]
        tgt = [rng.randrange(1, 3)] * rng.randrange(0, 2) + tgt
        return Step("expand", tgt, [v], lambda x, t=tgt: x.expand(t), "exact")
    if choice == "t" and r <= 2:
        return Step("t", [], [v], lambda x: x.t(), "exact")
    if choice == "neg":
        return Step("neg", [], [v], lambda x: -x, "exact")
    if choice == "relu":
        return Step("relu", [], [v], lambda x: torch.relu(x), "exact")
    if choice == "detach":
        return Step("detach", [], [v], lambda x: x.detach(), "exact")
    if choice == "clone":
        return Step("clone", [], [v], lambda x: x.clone(), "exact")
    if choice == "to":
        tgt = rng.choice([32, 16, 8])
        dt = {32: torch.float32, 16: torch.float16, 8: torch.bfloat16}[tgt]
        return Step("to", [tgt], [v], lambda x, dt=dt: x.to(dt), "rescale")
    if choice in ("mul", "rmul", "div") and rng.random() < 0.35:
        # a tensor factor: 0-dimensional (a scalar for quanto) or a one-element tensor with dimensions (not a scalar)
        kv = float(rng.choice(SCALARS))
        kshape = rng.choice([[], [], [1], [1, 1], [1] * max(r, 1)])
        kt = torch.full(kshape, kv, dtype=v.dtype)
        rel = "rescale" if kshape == [] else "fallback"
        if choice == "mul":
            return Step("mul", [], [v, kt], lambda x, kk: x * kk, rel, oracle="ref", note="mul-tensor-factor")
        if choice == "rmul":
            return Step("mul", [], [kt, v], lambda kk, x: kk * x, rel, oracle="ref", note="mul-tensor-factor")
        return Step("div", [], [v, kt], lambda x, kk: x / kk, rel, oracle="ref", note="div-tensor-factor")
    if choice in ("mul", "rmul", "div"):
        k = rng.choice(SCALARS)
        if choice == "mul":
            return Step("mul", [], [v, k], lambda x, kk: x * (float(kk) if isinstance(kk, Fraction) else kk), "rescale")
        if choice == "rmul":
            return Step("mul", [], [k, v], lambda kk, x: (float(kk) if isinstance(kk, Fraction) else kk) * x, "rescale")
        return Step("div", [], [v, k], lambda x, kk: x / (float(kk) if isinstance(kk, Fraction) else kk), "rescale")
    if choice == "cat" and r == 0:
        return None     # zero-dimensional tensors cannot be concatenated
    if choice in ("cat", "stack"):
        others = [w for w in pool if isinstance(w, torch.Tensor) and not is_qbits(w) and w.dtype == v.dtype and w.ndim == r and w.ndim >= 1]
        cands = [w for w in others if list(w.shape) == shape] if choice == "stack" else others
        n = rng.choice([2, 2, 2, 3])
        ws = [v] + [rng.choice(cands) for _ in range(n - 1)] if cands else [v, v]
        d = rng.randrange(-r, r) if choice == "cat" else rng.randrange(-r - 1, r + 1)
        if choice == "cat":
            return Step("cat", [d], [ws], lambda l, d=d: torch.cat(l, d), "exact")
        return Step("stack", [d, STACK_FALLBACK_FIXED], [ws], lambda l, d=d: torch.stack(l, d), "exact")
    if choice == "split" and r >= 1:
        d = rng.randrange(-r, r)
        sz = rng.randrange(1, shape[d] + 1)
        return Step("split", [sz, d, SPLIT_SIZE_FIXED], [v], lambda x, sz=sz, d=d: list(torch.split(x, sz, d)), "exact")
    if choice == "lt":
        cands = [w for w in qbs if list(w.shape) == shape and w.dtype == v.dtype]
        w = rng.choice(cands)
        return Step("lt", [], [v, w], lambda a, b: a < b, "exact")
    if choice == "softmax" and r >= 1:
        d = rng.randrange(-r, r)
        return Step("softmax", [d], [v], lambda x, d=d: torch.softmax(x, d), "requant", oracle="ref")
    if choice == "where":
        g = torch.Generator().manual_seed(rng.getrandbits(30))
        cond = torch.rand(shape, generator=g) < 0.5
        other = rng.choice([0.0, "zeros"])
        if other == "zeros":
            other = torch.zeros(shape, dtype=v.dtype)
            return Step("where", [], [v], lambda x, c=cond, o=other: torch.where(c, x, o), "requant", oracle="ref")
        return Step("where", [], [v], lambda x, c=cond: torch.where(c, x, torch.zeros((), dtype=x.dtype)), "requant", oracle="ref")
    if choice == "mm" and r == 2:
        cands = [w for w in qbs if w.ndim == 2 and w.shape[0] == shape[1] and w.dtype == v.dtype]
        if cands:
            w = rng.choice(cands)
            return Step("mm", [], [v, w], lambda a, b: torch.mm(a, b), "contraction", model=False)
    if choice == "bmm" and r == 3:
        cands = [w for w in pool if isinstance(w, torch.Tensor) and not is_qbits(w) and w.ndim == 3 and w.shape[0] == shape[0] and w.shape[1] == shape[2] and w.dtype == v.dtype]
        if cands:
            w = rng.choice(cands)
            return Step("bmm", [], [v, w], lambda a, b: torch.bmm(a, b), "contraction", model=False)
    if choice == "linear" and r >= 1:
        ws = [w for w in pool if isinstance(w, torch.Tensor) and w.ndim == 2 and w.shape[1] == shape[-1] and w.dtype == v.dtype and w.dtype != torch.bool]
        if ws:
            w = rng.choice(ws)
            return Step("linear", [], [v, w], lambda a, b: torch.nn.functional.linear(a, b), "contraction", model=False)
    if choice == "copy_":
        cands = [w for w in pool if isinstance(w, torch.Tensor) and not is_qbits(w) and list(w.shape) == shape and w.dtype == v.dtype]
        w = rng.choice(cands)
        return Step("copy_", [], [v, w], lambda a, b: a.clone().copy_(b), "copy", model=False)
    if choice == "fallback":
        name, fn = rng.choice(FALLBACKS)
        return Step("fallback", [], [v], fn, "fallback", oracle="ref", note=name)
    return None


FALLBACKS = [
    ("add1", lambda x: x + 1),
    ("abs", lambda x: torch.abs(x)),
    ("sum", lambda x: x.sum()),
    ("mean", lambda x: x.mean()),
    ("exp", lambda x: torch.exp(x)),
    ("tanh", lambda x: torch.tanh(x)),
    ("square", lambda x: x * x),
    ("maximum", lambda x: torch.maximum(x, torch.zeros_like(x))),
    ("gelu", lambda x: torch.nn.functional.gelu(x)),
    ("add_self", lambda x: x + x),
    ("sub1", lambda x: x - 0.5),
    ("sigmoid", lambda x: torch.sigmoid(x)),
    ("amax", lambda x: x.amax()),
    ("log_softmax", lambda x: torch.nn.functional.log_softmax(x, -1) if x.ndim else x),
    ("layer_norm", lambda x: torch.nn.functional.layer_norm(x, x.shape[-1:]) if x.ndim else x),
    ("cumsum", lambda x: torch.cumsum(x, 0) if x.ndim else x),
]


def initial_pool(rng, F):
    pool = []
    base_shape = rand_shape(rng, rng.randrange(2, 4), 4)
    for Q in ("qint8", "e4m3", "e5m2"):
        a = make_qb(rng, F, Q, base_shape)
        pool.append(a)
        # a second tensor with the very same scale (quantized paths of cat/stack/lt)
        pool.append(make_qb(rng, F, Q, base_shape, scale=a._scale.clone()))
    pool.append(make_qb(rng, F, "qint8", rand_shape(rng)))
    pool.append(make_qb(rng, F, rng.choice(["qint8", "e4m3"]), [rng.randrange(2, 5), rng.randrange(2, 6)], axis=rng.choice([0, -1])))
    pool.append(make_qb(rng, F, "qint8", [rng.randrange(2, 4), rng.randrange(2, 4), rng.randrange(2, 5)], axis=rng.choice([0, -1])))
    # per-axis tensors with a dimension of size 1 (the weight of Linear(1, N), a single row …)
    n1 = rng.randrange(2, 7)
    pool.append(make_qb(rng, F, rng.choice(["qint8", "e4m3"]), [n1, 1], axis=0))
    pool.append(make_qb(rng, F, "qint8", [1, n1], axis=-1))
    k = rng.choice([4, 6, 8])
    pool.append(make_qb(rng, F, "qint8", [rng.randrange(2, 5), k]))
    pool.append(make_qb(rng, F, "qint8", [k, rng.randrange(2, 5)]))
    pool.append(make_qb(rng, F, "qint8", [2, 3, k]))
    pool.append(make_qb(rng, F, "qint8", [2, k, 3]))
    pool.append(make_qbits(rng, F, rng.choice([2, 4]), [rng.randrange(2, 5), k]))
    dt = fmts()[F][0]
    g = torch.Generator().manual_seed(rng.getrandbits(30))
    pool.append(torch.randn(base_shape, generator=g).to(dt))
    pool.append(torch.randn([3, k], generator=g).to(dt))
    return pool

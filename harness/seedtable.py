"""markdown table of the seeded changes (DESIGN.md 10.7): one row per seeded/<id>/ with meta.json and confirm.json"""
import glob
import json
import os

V = os.path.dirname(os.path.dirname(os.path.abspath(__file__)))
rows = []
for d in sorted(glob.glob(os.path.join(V, "seeded", "C*"))):
    try:
        m = json.load(open(d + "/meta.json"))
        c = json.load(open(d + "/confirm.json"))
    except Exception:
        continue
    sid = os.path.basename(d)
    desc = (m.get("description") or "").replace("\n", " ").replace("|", "/")
    desc = desc[:150] + ("…" if len(desc) > 150 else "")
    need = (m.get("needs_to_manifest") or "").replace("\n", " ").replace("|", "/")
    need = need[:110] + ("…" if len(need) > 110 else "")
    tests = {True: "same failing set as the baseline", False: "DIFFERS", None: "not run"}[c.get("tests_failed_set_equals_baseline")]
    if c.get("kind") == "harmless-refactor":
        n = len(c.get("checks", {}))
        loud = [k for k, e in c.get("checks", {}).items() if e["exit"] != 0]
        outcome = f"behaviour-preserving: all {n} quick checks silent" if not loud else "ALARMS: " + ", ".join(loud)
        rows.append(f"| {sid} | {m.get('property')} | (refactor, {c.get('shortstat', '')}) {desc} | — | {outcome} | {tests} |")
        continue
    outs = []
    for chk, e in c["checks"].items():
        sig = "-"
        if e["replays"]:
            r = e["replays"][0]
            sig = r.get("signature") or ("no-failing-input-found: " + ",".join((r.get("proof_obligations_not_checked") or ["correspondence"])[:2]))
        outs.append(f"{chk}: exit {e['exit']} `{sig}`")
    rows.append(f"| {sid} | {m.get('property')} | {desc} | {need} | {'; '.join(outs)} | {tests} |")
print("| id | property | change | needs | quick check of the property (final harness, seed 0) | unedited test-suite |\n|----|----------|--------|-------|---------------------------|---|")
print("\n".join(rows))

import json,glob,os
rows=[]
for d in sorted(glob.glob('/verif/seeded/C*')):
    try:
        m=json.load(open(d+'/meta.json')); c=json.load(open(d+'/confirm.json'))
    except Exception:
        continue
    sid=os.path.basename(d)
    desc=(m.get('description') or '').replace('\n',' ').replace('|','/')
    desc=desc[:150]+('…' if len(desc)>150 else '')
    need=(m.get('needs_to_manifest') or '').replace('\n',' ').replace('|','/')
    need=need[:110]+('…' if len(need)>110 else '')
    outs=[]
    for chk,e in c['checks'].items():
        sig='-'
        if e['replays']:
            r=e['replays'][0]; sig=r.get('signature') or ('no-failing-input-found: '+','.join((r.get('proof_obligations_not_checked') or ['correspondence'])[:2]))
        outs.append(f"{chk}: exit {e['exit']} `{sig}`")
    extra=''
    xr=os.path.join(d,'cross.json')
    if os.path.exists(xr):
        x=json.load(open(xr)); extra=' also: '+', '.join(k for k,v in x.items() if v==1 and k not in c['checks'])
    rows.append(f"| {sid} | {m.get('property')} | {desc} | {need} | {'; '.join(outs)}{extra} |")
print("| id | property | change | needs | detected by (quick check) |\n|----|----------|--------|-------|---------------------------|")
print("\n".join(rows))

"""Self-test: is the detection of the seeded changes robust to the seed?  For every seeded/<id>/ with a demo (property-breaking
change) apply the patch in a scratch worktree and run the property's quick check with several seeds; record exit codes and
signatures in seeded/robustness.json.

usage: /venv/bin/python harness/seedrobust.py [--seeds 1,2,3] [ids…]"""
import json
import os
import shutil
import subprocess
import sys

VERIF = os.path.dirname(os.path.dirname(os.path.abspath(__file__)))


def sh(cmd, cwd=None, env=None, timeout=7200):
    p = subprocess.run(cmd, cwd=cwd, env=env, capture_output=True, text=True, timeout=timeout)
    return p.returncode, p.stdout + p.stderr


def main():
    args = sys.argv[1:]
    seeds = [1, 2, 3]
    if "--seeds" in args:
        i = args.index("--seeds")
        seeds = [int(x) for x in args[i + 1].split(",")]
        args = args[:i] + args[i + 2:]
    ids = args or sorted(d for d in os.listdir(os.path.join(VERIF, "seeded")) if os.path.exists(os.path.join(VERIF, "seeded", d, "demo.py")))
    out_path = os.path.join(VERIF, "seeded", "robustness.json")
    res = json.load(open(out_path)) if os.path.exists(out_path) else {}
    for sid in ids:
        d = os.path.join(VERIF, "seeded", sid)
        prop = json.load(open(os.path.join(d, "meta.json")))["property"]
        wt = f"/tmp/sv/rb_{sid}"
        os.makedirs("/tmp/sv", exist_ok=True)
        sh(["git", "-C", "/repo", "worktree", "remove", "--force", wt])
        sh(["git", "-C", "/repo", "worktree", "add", "--detach", wt, "HEAD"])
        try:
            rc, o = sh(["git", "-C", wt, "apply", os.path.join(d, "patch.diff")])
            if rc != 0:
                res[sid] = {"patch_applies": False}
                continue
            entry = {}
            for s in seeds:
                env = dict(os.environ, PYTHONPATH=wt, VERIF_REPO=wt, VERIF_EVIDENCE_DIR="/tmp/sv/evidence", VERIF_SEED=str(s))
                rc, o = sh([os.path.join(VERIF, "vcheck"), prop], cwd=VERIF, env=env)
                lines = [l for l in o.split("\n") if l.startswith("VIOLATION")]
                entry[str(s)] = {"exit": rc, "concrete": any("no-failing-input-found" not in l for l in lines), "n": len(lines)}
            res[sid] = entry
            print(sid, {k: (v["exit"], "concrete" if v["concrete"] else "-") for k, v in entry.items()}, flush=True)
        finally:
            sh(["git", "-C", "/repo", "worktree", "remove", "--force", wt])
            shutil.rmtree(wt, ignore_errors=True)
        json.dump(res, open(out_path, "w"), indent=1)
    bad = {k: v for k, v in res.items() if isinstance(v, dict) and any(isinstance(x, dict) and x.get("exit") != 1 for x in v.values())}
    print("not detected for some seed:", sorted(bad))
    return 0


if __name__ == "__main__":
    sys.exit(main())

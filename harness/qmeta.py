"""Observation of quantized tensors through their public / flatten interface → `wfbytes` / `wfbits`
driver lines (the C06 well-formedness predicate evaluated by the Lean side)."""
import torch
from common import *


def dn(dt):
    return str(dt).replace("torch.", "")


def axis_s(a):
    return "none" if a is None else str(a)


def wf_line(t):
    """driver line for the well-formedness verdict of a quantized tensor `t` (QBytesTensor or QBitsTensor)"""
    from optimum.quanto import QBitsTensor, QBytesTensor
    from optimum.quanto.tensor.qbits.packed import PackedTensor
    if isinstance(t, QBitsTensor):
        p = t._data
        payload = p._data if isinstance(p, PackedTensor) else p
        pbits = p._bits if isinstance(p, PackedTensor) else 0
        psize = list(p.shape)
        return (f"wfbits {t.qtype.name} {axis_s(t.axis)} {'none' if t._group_size is None else t._group_size} {shape_s(t.shape)} {dn(t.dtype)} "
                f"{pbits} {shape_s(psize)} {shape_s(payload.shape)} {dn(payload.dtype)} {shape_s(t._scale.shape)} {dn(t._scale.dtype)} "
                f"{shape_s(t._zeropoint.shape)} {dn(t._zeropoint.dtype)}")
    if isinstance(t, QBytesTensor):
        return (f"wfbytes {t.qtype.name} {axis_s(t.axis)} {shape_s(t.shape)} {dn(t.dtype)} {shape_s(t._data.shape)} {dn(t._data.dtype)} "
                f"{shape_s(t._scale.shape)} {dn(t._scale.dtype)}")
    raise TypeError(type(t))


def consistent_with_dequantized(t):
    """reported shape/dtype/device equal those of the dequantized value (Python side of C06)"""
    d = t.dequantize()
    probs = []
    if tuple(d.shape) != tuple(t.shape):
        probs.append(f"shape {tuple(t.shape)} vs dequantized {tuple(d.shape)}")
    if d.dtype != t.dtype:
        probs.append(f"dtype {t.dtype} vs dequantized {d.dtype}")
    if d.device != t.device:
        probs.append(f"device {t.device} vs dequantized {d.device}")
    return probs

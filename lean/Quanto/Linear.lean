/-
L5 — quantized matmul routes (`library/qbytes_mm.py`) and `QTensorLinear.forward`
(`qtensor_func.py`) in exact arithmetic: the contraction is an exact rational sum, every
elementwise step (cast of the accumulator, multiplication by the scales, output cast, bias
addition) is rounded as torch rounds it.  Valid for operand sets on which the float accumulation
is exact (the harness generates those for the bit-exact tie) and used as the reference of the
error envelope otherwise.
-/
import Quanto.Ops
namespace Quanto

/-- the three kernels behind `quanto::qbytes_mm` -/
inductive MmKernel where
  | floatMm        -- qbytes_mm: cast both operands to mm_dtype, float matmul, multiply by the scales
  | intMm          -- qbytes_int_mm: torch._int_mm, int32 accumulator
  | int8packMm     -- qbytes_int8pack_mm: torch._weight_int8pack_mm (bfloat16 activations)
  deriving DecidableEq, Repr

/-- dtype tags of the payloads reaching `qbytes_mm` -/
inductive Payload where
  | int8 | float8 | f32 | f16 | bf16
  deriving DecidableEq, Repr

structure MmConfig where
  act : Payload
  weight : Payload
  rows : Nat            -- tokens
  inF : Nat
  outF : Nat
  torchGe24 : Bool
  deriving Repr

/-- `qbytes_mm_impl_cpu` -/
def routeCPU (c : MmConfig) : MmKernel :=
  if c.torchGe24 && c.act == .int8 && c.weight == .int8 && c.inF > 1 then .intMm   -- inF > 1: repaired precondition
  else if c.act == .bf16 && c.weight == .int8 && c.inF % 16 == 0 then .int8packMm   -- blocks of 16 (repaired precondition)
  else .floatMm

/-- `qbytes_mm_impl_cuda` -/
def routeCUDA (c : MmConfig) : MmKernel :=
  if c.act == .int8 && c.weight == .int8 && c.rows > 16 && c.rows % 8 == 0 && c.inF % 8 == 0 && c.outF % 8 == 0 then .intMm
  else .floatMm

/-- `qbytes_mm_impl_mps` -/
def routeMPS (c : MmConfig) : MmKernel :=
  if c.torchGe24 && c.act == .bf16 && c.weight == .int8 && c.inF % 32 == 0 && c.outF % 32 == 0 then .int8packMm
  else .floatMm

/-- dtype in which `qbytes_mm` performs the float matmul -/
def mmDtype (outF : Fmt) (act weight : Payload) : Fmt :=
  if act == .int8 || weight == .int8 then f32 else outF

/-- torch type promotion of two float tensors -/
def promote (a b : Fmt) : Fmt := if a.p ≥ b.p then a else b

/-- one output element of a kernel given the exact accumulator `acc = Σ_k a_k w_k` (over payload
values) and the output scale `s` (dtype `outF`) -/
def mmElement (k : MmKernel) (outF : Fmt) (act weight : Payload) (acc : Rat) (s : FV) : FV :=
  match k with
  | .floatMm =>
    let mmF := mmDtype outF act weight
    let m := mmF.fl (.fin acc)                         -- matmul output (float32 accumulation assumed exact; half outputs are rounded from it)
    outF.rndV ((promote mmF outF).fl (m.mulX s))       -- `* output_scales.t()` then `.to(scales dtype)`
  | .intMm =>
    outF.rndV (f32.fl ((f32.rnd acc).mulX s))          -- int32 → float32, times scales, cast
  | .int8packMm =>
    outF.rndV (f32.fl ((f32.rnd acc).mulX s))          -- float accumulator times scale, cast to bfloat16

/-- exact dot product of row `i` of `a` ([rows, K]) with row `j` of `w` ([out, K]) -/
def dotRows (a w : T FV) (K i j : Nat) : Rat :=
  (List.range K).foldl (fun acc k =>
    match a.get (i * K + k), w.get (j * K + k) with
    | .fin x, .fin y => acc + x * y
    | _, _ => acc) 0

/-- activation operand of `QTensorLinear` -/
inductive ActOperand where
  | plain (t : T FV)
  | quant (q : QB)         -- per-tensor QBytes

/-- `QTensorLinear.forward` with a QBytes weight (per-tensor or per-axis 0), any batch shape:
returns the output of shape `batch ++ [out]` -/
def linearQBytes (kernel : MmKernel) (F : Fmt) (x : ActOperand) (w : QB) (bias : Option (T FV)) : T FV :=
  let out := w.size.headD 0
  let K := w.size.getD 1 0
  let (xt, xPayload, xscale) : T FV × Payload × Option FV := match x with
    | .plain t => (t, (if F == f32 then Payload.f32 else if F == f16 then .f16 else .bf16), none)
    | .quant q => (q.data, (if q.Q.isFloat then Payload.float8 else .int8), some (q.scale.get 0))
  let wPayload : Payload := if w.Q.isFloat then .float8 else .int8
  let rows := prod xt.shape / K
  let batch := xt.shape.dropLast
  T.ofFn (batch ++ [out]) fun n =>
    let i := n / out
    let j := n % out
    let sw := w.scale.get (if w.scale.data.size = 1 then 0 else j)
    -- `input._scale * other._scale` is formed in the working dtype
    let s := match xscale with
      | some sa => F.mul sa sw
      | none => sw
    let y := mmElement kernel F xPayload wPayload (dotRows xt w.data K i j) s
    let _ := rows
    match bias with
    | none => y
    | some b => F.add y (b.get j)

/-- float linear on dequantized operands (what `torch.matmul(input, other.t())` computes after the
fallback dequantization, e.g. for QBits weights), exact accumulation assumed -/
def linearFloat (F : Fmt) (x w : T FV) (bias : Option (T FV)) : T FV :=
  let out := w.shape.headD 0
  let K := w.shape.getD 1 0
  let batch := x.shape.dropLast
  T.ofFn (batch ++ [out]) fun n =>
    let i := n / out
    let j := n % out
    let y := F.fl (.fin (dotRows x w K i j))
    match bias with
    | none => y
    | some b => F.add y (b.get j)

end Quanto

/-
L2 — sub-byte packing: `pack_weights`, the Python and C++ `unpack` kernels, the routing
of `torch.ops.quanto.unpack`, `PackedTensor.unpack` and the dispatch rule of `PackedTensor`.
Bytes are modelled as naturals < 256 (uint8 arithmetic wraps modulo 256).
-/
import Quanto.Tensor
import Quanto.Generated
namespace Quanto

/-- values per byte -/
def vpi (bits : Nat) : Nat := 8 / bits

/-- `row_dim = (R + values_per_item - 1) // values_per_item` -/
def rowDim (bits R : Nat) : Nat := (R + vpi bits - 1) / vpi bits

/-- loop bound `it = min(values_per_item, R // row_dim + 1)` -/
def packIt (bits R : Nat) : Nat := min (vpi bits) (R / rowDim bits R + 1)

/-- contribution of loop iteration `i` to the packed byte at row `r` of one column `col` -/
def packTerm (bits R : Nat) (col : Nat → Nat) (r i : Nat) : Nat :=
  let start := i * rowDim bits R
  let stop := min (start + rowDim bits R) R
  if start + r < stop then (col (start + r) <<< (bits * i)) % 256 else 0

/-- packed byte at row `r` of one column: the `|=` accumulation over the loop -/
def packByte (bits R : Nat) (col : Nat → Nat) (r : Nat) : Nat :=
  (List.range (packIt bits R)).foldl (fun acc i => acc ||| packTerm bits R col r i) 0

/-- `pack_weights(intweights, bits)`; leading dimension `R`, `K` trailing positions -/
def packWeights (bits : Nat) (t : T Nat) : T Nat :=
  let R := t.shape.headD 0
  let trail := t.shape.tail
  let K := prod trail
  T.ofFn (rowDim bits R :: trail) fun n =>
    packByte bits R (fun j => t.get (j * K + n % K)) (n / K)

/-- mask of the Python kernel for field `i` -/
def pyMask (bits i : Nat) : Nat := 2 ^ (bits * (i + 1)) - 1

/-- `quanto_py::unpack`: `cat([ (packed & mask_i) >> bits*i  for i in range(8//bits) ])` -/
def unpackPy (bits : Nat) (p : T Nat) : T Nat :=
  let rd := p.shape.headD 0
  let trail := p.shape.tail
  let K := prod trail
  T.ofFn (vpi bits * rd :: trail) fun n =>
    let row := n / K
    (p.get ((row % rd) * K + n % K) &&& pyMask bits (row / rd)) >>> (bits * (row / rd))

/-- `quanto_ext::unpack` (unpack.cpp): literal masks and shifts, extracted from the source -/
def unpackCpp (bits : Nat) (p : T Nat) : T Nat :=
  let rd := p.shape.headD 0
  let trail := p.shape.tail
  let K := prod trail
  let tbl := Generated.cppUnpackTable bits
  T.ofFn (tbl.length * rd :: trail) fun n =>
    let row := n / K
    let ms := tbl.getD (row / rd) (0, 0)
    (p.get ((row % rd) * K + n % K) &&& ms.1) >>> ms.2

/-- what the optimized kernel does when called through `quanto::unpack` -/
inductive ExtOutcome where
  | returns        -- compiled kernel available
  | raises         -- NotImplementedError / build failure: warning + fallback
  deriving DecidableEq, Repr

/-- `torch.ops.quanto.unpack` : the routing implemented in `library/ops.py` -/
def quantoUnpack (extEnabled : Bool) (ext : ExtOutcome) (bits : Nat) (p : T Nat) : T Nat :=
  if extEnabled then
    match ext with
    | .returns => unpackCpp bits p
    | .raises => unpackPy bits p
  else unpackPy bits p

/-- a `PackedTensor`: packed payload + bits + the reported (unpacked) size -/
structure Packed where
  bits : Nat
  size : List Nat
  data : T Nat
  deriving Repr

def Packed.pack (bits : Nat) (t : T Nat) : Packed := ⟨bits, t.shape, packWeights bits t⟩

/-- keep the first `rows` rows -/
def narrowRows (rows : Nat) (t : T Nat) : T Nat :=
  T.ofFn (rows :: t.shape.tail) fun n => t.get n

/-- `PackedTensor.unpack`: route, then drop the padding rows -/
def Packed.unpack (p : Packed) (extEnabled : Bool := true) (ext : ExtOutcome := .raises) : T Nat :=
  narrowRows (p.size.headD 0) (quantoUnpack extEnabled ext p.bits p.data)

/-- operations reaching `PackedTensor.__torch_dispatch__` -/
inductive PackedOp where
  | detach
  | toCopy (dtypeIsUint8 : Bool)
  | other (f : T Nat → T Nat)       -- any other aten op, as a function of the plain tensor

inductive PackedResult where
  | packed (p : Packed)
  | plain (t : T Nat)
  | valueError

/-- `PackedTensor.__torch_dispatch__` -/
def Packed.dispatch (p : Packed) : PackedOp → PackedResult
  | .detach => .packed ⟨p.bits, p.size, p.data⟩
  | .toCopy true => .packed ⟨p.bits, p.size, p.data⟩
  | .toCopy false => .valueError
  | .other f => .plain (f p.unpack)

/-- an aten op with several `PackedTensor` operands: `tree_map_only(PackedTensor, unpack, (args, kwargs))`
replaces every one of them by its unpacked values before the op runs -/
def Packed.dispatchN (ps : List Packed) (f : List (T Nat) → T Nat) : PackedResult :=
  .plain (f (ps.map fun p => p.unpack))

end Quanto

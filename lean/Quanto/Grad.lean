/-
L5b — the explicit backward of the quantized linear (`QTensorLinear.backward`) and the
straight-through backward of the quantizers / dequantizers, over exact rationals.
Matrices are index functions with explicit sizes; a batch of any rank is flattened to `N` rows
(`view(-1, features)`).
-/
namespace Quanto

def sumTo (n : Nat) (f : Nat → Rat) : Rat := (List.range n).foldl (fun a k => a + f k) 0

/-- forward: `y[i,j] = Σ_k x[i,k] * w[j,k] + b[j]` (input @ weight.t() + bias) -/
def linFwd (K : Nat) (x w : Nat → Nat → Rat) (b : Nat → Rat) (i j : Nat) : Rat :=
  sumTo K (fun k => x i k * w j k) + b j

/-- `input_gO = gO @ other` -/
def gradInput (O : Nat) (gO w : Nat → Nat → Rat) (i k : Nat) : Rat := sumTo O (fun j => gO i j * w j k)

/-- `other_gO = gO.view(-1, out).t() @ input.view(-1, in)` -/
def gradWeight (N : Nat) (gO x : Nat → Nat → Rat) (j k : Nat) : Rat := sumTo N (fun i => gO i j * x i k)

/-- `bias_gO = gO.sum(all dims but the last)` -/
def gradBias (N : Nat) (gO : Nat → Nat → Rat) (j : Nat) : Rat := sumTo N (fun i => gO i j)

/-- Frobenius inner product of two `N × M` matrices -/
def inner2 (N M : Nat) (a b : Nat → Nat → Rat) : Rat := sumTo N fun i => sumTo M fun j => a i j * b i j

def inner1 (M : Nat) (a b : Nat → Rat) : Rat := sumTo M fun j => a j * b j

/-- backward of `SymmetricQuantizer`, `AffineQuantizer`, `QBytesDequantizer`, `QBitsDequantizer`:
the upstream gradient is returned unchanged (straight-through estimator); the other arguments
(qtype, axis, scale, zero-point) receive no gradient -/
def steBackward (gO : Nat → Nat → Rat) : Nat → Nat → Rat := gO

end Quanto

/-
L3 — configuration validation of `quantize_weight`, `quantize_activation`, both quantizers,
and the automatic group size of quantized modules (`QModuleMixin.__init__`).
-/
import Quanto.Affine
namespace Quanto

/-- the six public qtypes -/
inductive QType where
  | qint2 | qint4 | qint8 | qfloat8 | qfloat8_e4m3fn | qfloat8_e5m2
  deriving DecidableEq, Repr, Inhabited

def QType.bits : QType → Nat
  | .qint2 => 2 | .qint4 => 4 | _ => 8

def QType.name : QType → String
  | .qint2 => "qint2" | .qint4 => "qint4" | .qint8 => "qint8" | .qfloat8 => "qfloat8"
  | .qfloat8_e4m3fn => "qfloat8_e4m3fn" | .qfloat8_e5m2 => "qfloat8_e5m2"

def QType.ofName : String → Option QType
  | "qint2" => some .qint2 | "qint4" => some .qint4 | "qint8" => some .qint8 | "qfloat8" => some .qfloat8
  | "qfloat8_e4m3fn" => some .qfloat8_e4m3fn | "qfloat8_e5m2" => some .qfloat8_e5m2 | _ => none

/-- storage dtype name -/
def QType.storage : QType → String
  | .qint2 | .qint4 | .qint8 => "int8"
  | .qfloat8 | .qfloat8_e4m3fn => "float8_e4m3fn"
  | .qfloat8_e5m2 => "float8_e5m2"

/-- the 8-bit code type of an 8-bit qtype -/
def QType.qt : QType → QT
  | .qfloat8 | .qfloat8_e4m3fn => .e4m3
  | .qfloat8_e5m2 => .e5m2
  | _ => .qint8

inductive OptFamily where
  | default | symmetric | affine
  deriving DecidableEq, Repr

/-- what a successful `quantize_weight` honours -/
structure WeightCfg where
  qtype : QType
  axis : Axis                 -- effective axis (a size-1 axis of an 8-bit weight becomes per-tensor)
  groupSize : Option Nat
  deriving DecidableEq, Repr

/-- Python indexing `shape[axis]` for axis ∈ {0,-1} -/
def dimAt (shape : List Nat) (axis : Int) : Nat := if axis = 0 then shape.headD 0 else shape.getLastD 0

/-- the decision ladder of `quantize_weight` (qweight.py) followed by the optimizers' and
quantizers' own checks; `shape` has rank ≥ 1. -/
def validateWeight (shape : List Nat) (q : QType) (axis : Option Int) (gs : Option Nat) (opt : OptFamily) :
    Except Err WeightCfg :=
  match axis with
  | none => .error .valueError
  | some a =>
    if a ≠ 0 ∧ a ≠ -1 then .error .valueError else
    if q.bits = 8 then
      if opt = .affine then .error .valueError else
      if gs.isSome then .error .valueError else
      if dimAt shape a = 1 then .ok ⟨q, none, none⟩ else
      -- SymmetricQuantizer ladder with the optimizer's keepdim scale
      if shape.length = 1 then .error .valueError else
      .ok ⟨q, some (a = 0), none⟩
    else
      if opt = .symmetric then .error .valueError else
      match gs with
      | none => .ok ⟨q, some (a = 0), none⟩
      | some g =>
        match groupShape shape (a = 0) g with
        | none => .error .valueError
        | some _ => .ok ⟨q, some (a = 0), some g⟩

/-- `quantize_activation(t, qtype, scale)`: scale must have exactly one element and rank 0 -/
def validateActivation (sshape : List Nat) : Except Err Unit :=
  if prod sshape ≠ 1 then .error .valueError else
  if sshape.length > 0 then .error .valueError else .ok ()

/-- `AffineQuantizer.forward` checks (given scale and zero-point) -/
def validateAffine (shape : List Nat) (q : QType) (axis : Option Int) (gs : Option Nat) : Except Err Unit :=
  if q ≠ .qint2 ∧ q ≠ .qint4 then .error .valueError else
  match axis with
  | none => .error .valueError
  | some a =>
    if a ≠ 0 ∧ a ≠ -1 then .error .valueError else
    match gs with
    | none => .ok ()
    | some g => match groupShape shape (a = 0) g with
      | none => .error .valueError
      | some _ => .ok ()

/-- automatic group size of `QModuleMixin.__init__` for qint2/qint4 weights with `n` input
features per output: 128, 96, 64, 32 — the first that divides `n` — only when `n > 128`. -/
def autoGroupLoop (n : Nat) : Nat → Nat → Nat
  | 0, g => g
  | fuel + 1, g => if n % g ≠ 0 ∧ g > 32 then autoGroupLoop n fuel (g - 32) else g

def autoGroup (n : Nat) : Option Nat :=
  if n > 128 then
    let g := autoGroupLoop n 4 128
    if n % g = 0 then some g else none
  else none

end Quanto

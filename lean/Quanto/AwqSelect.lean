/-
L3 — selection of the AWQ-optimised representation (`QBitsTensor.create`, `QBitsTensor.optimize`,
the QBitsTensor `_to_copy`): qbits/qbits.py, qbits/qbits_ops.py.

The decision of `create` is *regenerated from the source text*: `Generated.awqCreateConds` holds the
conjuncts of the `if` as the extractor read them, `evalCreateCond` gives each known conjunct its
meaning, and `awqSelectedGen` is their conjunction.  `awqSelected` is the hand-written closed form;
`C15_create_decision_regenerated` proves the two equal, so an edit of the condition in the source
breaks that theorem.
-/
import Quanto.Generated
namespace Quanto

/-- what `QBitsTensor.create` looks at -/
structure CreateCfg where
  qtype : String        -- qtype name
  dtype : String        -- dtype of the scale: "f16" | "f32" | "bf16"
  axis : Int
  groupSize : Nat
  size : List Nat
  devType : String      -- device type of the data: "cpu" | "cuda" | "mps" | …
  capMajor : Nat        -- major compute capability of that device (read only when it is cuda)
  deriving Repr, DecidableEq

/-- meaning of one conjunct of the source condition; `none` = not understood -/
def evalCreateCond (c : CreateCfg) (s : String) : Option Bool :=
  if s = "qtype == qint4" then some (c.qtype == "qint4")
  else if s = "scale.dtype == torch.float16" then some (c.dtype == "f16")
  else if s = "axis == 0" then some (c.axis == 0)
  else if s = "group_size == 128" then some (c.groupSize == 128)
  else if s = "len(size) == 2" then some (c.size.length == 2)
  else if s = "data.device.type == 'cuda'" then some (c.devType == "cuda")
  else if s = "torch.cuda.get_device_capability(data.device)[0] >= 8" then some (decide (8 ≤ c.capMajor))
  else none

/-- conjunction of the extracted conjuncts (the last two entries of the list name the two outcomes) -/
def awqSelectedGen (c : CreateCfg) : Option Bool :=
  let conds := Generated.awqCreateConds
  if conds.drop (conds.length - 2) ≠ ["=> AWQBitsTensor", "else QBitsTensor"] then none
  else (conds.take (conds.length - 2)).foldl
    (fun acc s => match acc, evalCreateCond c s with
      | some a, some b => some (a && b)
      | _, _ => none) (some true)

/-- closed form of the decision -/
def awqSelected (c : CreateCfg) : Bool :=
  c.qtype == "qint4" && c.dtype == "f16" && c.axis == 0 && c.groupSize == 128 && c.size.length == 2
    && c.devType == "cuda" && decide (8 ≤ c.capMajor)

/-- shapes `pack_v2` accepts: rows interleaved by 4, columns in strides of 64 -/
def v2Admissible (size : List Nat) : Bool :=
  match size with
  | [N, K] => N % 4 == 0 && K % 64 == 0 && decide (0 < N) && decide (0 < K)
  | _ => false

inductive QCls | qbits | awq
  deriving DecidableEq, Repr

inductive CreateOut | ok (c : QCls) | raises
  deriving DecidableEq, Repr

/-- `QBitsTensor.create`: the class of the result, or an exception from the AWQ packer -/
def createOutcome (c : CreateCfg) : CreateOut :=
  if awqSelected c then (if v2Admissible c.size then .ok .awq else .raises) else .ok .qbits

/-- `QBitsTensor.optimize`: a subclass instance is returned as is -/
def optimizeOutcome (cls : QCls) (c : CreateCfg) : CreateOut :=
  if cls ≠ .qbits then .ok cls else createOutcome c

/-- does `_to_copy` convert back to the standard representation before moving? -/
def toCopyConvertsBack (cls : QCls) (c : CreateCfg) (target : String) : Bool :=
  cls ≠ .qbits && c.devType != target

/-- `_to_copy` to a device of type `target` with capability `cap`: the class of the result -/
def toCopyOutcome (c : CreateCfg) (target : String) (cap : Nat) : CreateOut :=
  createOutcome { c with devType := target, capMajor := cap }

def CreateOut.show : CreateOut → String
  | .ok .qbits => "QBitsTensor"
  | .ok .awq => "AWQBitsTensor"
  | .raises => "raises"

end Quanto

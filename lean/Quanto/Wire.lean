/-
Wire format helpers for the line protocol (see DESIGN §4.4): space separated tokens,
lists are comma separated decimal integers, shapes are `AxBxC` (`-` for rank 0).
-/
import Quanto.Float
import Quanto.Tensor
import Quanto.Symmetric
namespace Quanto

def parseNatList (s : String) : List Nat :=
  if s = "-" || s = "" then [] else (s.splitOn ",").map fun t => t.toNat!

def parseIntList (s : String) : List Int :=
  if s = "-" || s = "" then [] else (s.splitOn ",").map fun t => t.toInt!

def parseShape (s : String) : List Nat :=
  if s = "-" || s = "" then [] else (s.splitOn "x").map fun t => t.toNat!

def showNatList (l : List Nat) : String :=
  if l.isEmpty then "-" else ",".intercalate (l.map toString)

def showIntList (l : List Int) : String :=
  if l.isEmpty then "-" else ",".intercalate (l.map toString)

def showShape (l : List Nat) : String :=
  if l.isEmpty then "-" else "x".intercalate (l.map toString)

def fmtOfName : String → Fmt
  | "f32" => f32 | "f16" => f16 | "bf16" => bf16 | "e4m3" => e4m3 | "e5m2" => e5m2 | _ => f32

def qtOfName : String → QT
  | "qint8" => .qint8 | "e4m3" => .e4m3 | "e5m2" => .e5m2 | _ => .qint8

def parseAxis (s : String) : Option Int := if s = "none" then none else some s.toInt!

def showAxis : Axis → String
  | none => "none" | some true => "0" | some false => "-1"

/-- float tensor from bit patterns -/
def parseFT (F : Fmt) (shape : String) (bits : String) : T FV :=
  ⟨parseShape shape, ((parseNatList bits).map F.decode).toArray⟩

def showFT (F : Fmt) (t : T FV) : String :=
  showNatList (t.data.toList.map F.encode)

/-- code of an 8-bit qtype as an integer on the wire: int8 → the integer, float8 → bit pattern -/
def showCode (Q : QT) (c : FV) : Int :=
  match Q with
  | .qint8 => (match c with | .fin q => q.floor | _ => 0)
  | _ => (Q.fmt.encode c : Nat)

def parseCode (Q : QT) (c : Int) : FV :=
  match Q with
  | .qint8 => .fin c
  | _ => Q.fmt.decode c.toNat

end Quanto

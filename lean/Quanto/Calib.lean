/-
L6 — calibration (calibrate.py): the momentum update of the activation scales and the scoping of
the global hooks / torch-function mode.
-/
import Quanto.Float
import Quanto.Ops
namespace Quanto

/-- `momentum * scale + new_scale * (1.0 - momentum)` on 0-dim tensors of format `F` with a Python
float momentum `m` (a double): the scalar operands are cast to float32 (opmath) before entering the
tensor arithmetic; `1.0 - momentum` is formed in double precision. -/
def emaStep (F : Fmt) (m : Rat) (scale new : FV) : FV :=
  F.add (F.mul (.fin (f32.rndFin m)) scale) (F.mul new (.fin (f32.rndFin (f64.rndFin (1 - m)))))

/-- `_updated_scale`: the value 1 is the "not yet calibrated" sentinel -/
def updatedScale (F : Fmt) (m : Rat) (scale new : FV) : FV :=
  if scale == .fin 1 then new else emaStep F m scale new

/-- what one batch contributes to the input scale of a module -/
inductive ScaleEvent where
  | batch (new : FV)       -- float input (or raw output): absmax range / qmax of this batch
  | adopt (s : FV)         -- already quantized input: adopt its (maximum) scale
  deriving Repr

def applyEvent (F : Fmt) (m : Rat) (scale : FV) : ScaleEvent → FV
  | .batch new => updatedScale F m scale new
  | .adopt s => s

/-- the scale after a history of batches, starting from the buffer's initial value 1 -/
def calibFold (F : Fmt) (m : Rat) (events : List ScaleEvent) (init : FV := .fin 1) : FV :=
  events.foldl (applyEvent F m) init

/-- the property: exponential moving average with momentum `m`, initialised by the first batch
(an adopted scale restarts the average at that value) -/
def emaSpec (F : Fmt) (m : Rat) : List ScaleEvent → Option FV → Option FV
  | [], acc => acc
  | .batch new :: rest, none => emaSpec F m rest (some new)
  | .batch new :: rest, some s => emaSpec F m rest (some (emaStep F m s new))
  | .adopt s :: rest, _ => emaSpec F m rest (some s)

/-! ### scoping of `Calibration.__enter__/__exit__` (C13) -/

/-- global state touched by the context manager: the two global module-hook registries
(ordered dicts id ↦ hook; the hooks are identified by the context that installed them),
the id counter of `RemovableHandle`, and the torch-function mode stack -/
structure HookState where
  preHooks : List (Nat × Nat)      -- (handle id, owner context)
  postHooks : List (Nat × Nat)
  nextId : Nat
  modeStack : List Nat             -- owner contexts, innermost first
  deriving DecidableEq, Repr

/-- `__enter__`: push the mode, register the pre hook, then the post hook -/
def HookState.enter (g : HookState) (ctx : Nat) : HookState × (Nat × Nat) :=
  let pre := g.nextId
  let post := g.nextId + 1
  ({ preHooks := g.preHooks ++ [(pre, ctx)], postHooks := g.postHooks ++ [(post, ctx)],
     nextId := g.nextId + 2, modeStack := ctx :: g.modeStack }, (pre, post))

/-- `__exit__` (also run when an exception propagates): pop the mode, remove both handles -/
def HookState.exit (g : HookState) (handles : Nat × Nat) : HookState :=
  { g with preHooks := g.preHooks.filter (·.1 ≠ handles.1),
           postHooks := g.postHooks.filter (·.1 ≠ handles.2),
           modeStack := g.modeStack.tail }

/-- well-nested traces: what happens between an enter and its exit is itself well nested;
`body` stands for any forwards / library calls (they do not touch the registries), and an
exception raised anywhere inside unwinds through the enclosing exits. -/
inductive Trace where
  | nil
  | ctx (id : Nat) (inner : Trace) (next : Trace)     -- with Calibration(): inner ; then next
  deriving Repr

def runTrace (g : HookState) : Trace → HookState
  | .nil => g
  | .ctx id inner next =>
    let (g1, h) := g.enter id
    let g2 := runTrace g1 inner
    runTrace (g2.exit h) next

end Quanto

namespace Quanto

/-- event view of the same state machine, for the correspondence: `enter id` / `exit` of the
innermost open context (a propagating exception performs the exits of every enclosing context,
innermost first, exactly like normal exits) -/
inductive HookEvent where
  | enter (id : Nat)
  | exit
  deriving Repr

structure HookRun where
  g : HookState
  open_ : List (Nat × Nat)     -- handles of the open contexts, innermost first
  deriving Repr

def HookRun.step (r : HookRun) : HookEvent → HookRun
  | .enter id => let (g', h) := r.g.enter id; ⟨g', h :: r.open_⟩
  | .exit => match r.open_ with
    | [] => r
    | h :: rest => ⟨r.g.exit h, rest⟩

/-! ### `disable_extensions` (library/ops.py): a global switch, set to False on entry and to True in the
`finally` block — not to its previous value -/

/-- the switch after a sequence of events (`true` = a context is entered, `false` = the innermost open
context is left, normally or through an exception), with the number of contexts still open -/
def extSwitch (events : List Bool) (enabled : Bool := true) (depth : Nat := 0) : Bool × Nat :=
  events.foldl (fun (st : Bool × Nat) e => if e then (false, st.2 + 1) else (true, st.2 - 1)) (enabled, depth)

end Quanto

/-
L0 — float model.  IEEE-style binary formats over core `Rat`, explicit
round-to-nearest-even, ±inf and NaN.  Signed zeros are not modelled: both sides
of the correspondence canonicalise -0 to +0.

No imports: this file is part of the executable model linked into `qdriver`.
-/
namespace Quanto

/-- 2^e for an integer exponent, as a rational. -/
def pow2 (e : Int) : Rat :=
  if e ≥ 0 then (2 : Rat) ^ e.toNat else 1 / (2 : Rat) ^ (-e).toNat

/-- absolute value on `Rat` without any import -/
def rabs (q : Rat) : Rat := if q < 0 then -q else q

/-- round half to even (= `torch.round`) -/
def rhe (q : Rat) : Int :=
  let f := q.floor
  let r := q - f
  if r < 1/2 then f else if r > 1/2 then f + 1 else if f % 2 = 0 then f else f + 1

/-- floor(log2 q) for q > 0 (garbage for q ≤ 0; callers guard) -/
def ilog2 (q : Rat) : Int :=
  let e0 : Int := (Nat.log2 q.num.natAbs : Int) - (Nat.log2 q.den : Int) - 1
  if pow2 (e0 + 1) ≤ q then e0 + 1 else e0

/-- value of a float: finite rational, infinities, NaN -/
inductive FV where
  | fin (q : Rat)
  | pinf
  | ninf
  | nan
  deriving DecidableEq, Repr, Inhabited

/-- A binary floating point format.
`p` = precision (with hidden bit), `emin` = exponent of the smallest normal,
`emax` = exponent of the largest binade, `mbits/ebits` = field widths,
`ieee = true`: has infinities; `false`: the `fn` flavour (e4m3fn: no inf, one NaN,
top binade loses its last mantissa pattern). -/
structure Fmt where
  p : Nat
  emin : Int
  emax : Int
  ebits : Nat
  ieee : Bool
  deriving DecidableEq, Repr

def Fmt.mbits (F : Fmt) : Nat := F.p - 1
def Fmt.bias (F : Fmt) : Int := 1 - F.emin

def f32 : Fmt := ⟨24, -126, 127, 8, true⟩
def f16 : Fmt := ⟨11, -14, 15, 5, true⟩
def bf16 : Fmt := ⟨8, -126, 127, 8, true⟩
def e4m3 : Fmt := ⟨4, -6, 8, 4, false⟩
def e5m2 : Fmt := ⟨3, -14, 15, 5, true⟩

/-- largest finite value -/
def Fmt.maxFin (F : Fmt) : Rat :=
  if F.ieee then (2 - pow2 (1 - (F.p : Int))) * pow2 F.emax
  else (2 - 2 * pow2 (1 - (F.p : Int))) * pow2 F.emax

/-- unit of least precision used to round `q` (q ≠ 0) -/
def Fmt.ulpOf (F : Fmt) (q : Rat) : Rat :=
  pow2 (max (ilog2 (rabs q)) F.emin - (F.p : Int) + 1)

/-- round to nearest even with unbounded exponent range above (subnormals below) -/
def Fmt.rndFin (F : Fmt) (q : Rat) : Rat :=
  if q = 0 then 0 else (rhe (q / F.ulpOf q) : Rat) * F.ulpOf q

/-- round a rational into the format (overflow → inf, or NaN for `fn` formats) -/
def Fmt.rnd (F : Fmt) (q : Rat) : FV :=
  let r := F.rndFin q
  if r > F.maxFin then (if F.ieee then .pinf else .nan)
  else if r < -F.maxFin then (if F.ieee then .ninf else .nan)
  else .fin r

/-- round an `FV` (used for the second rounding of half types and for casts) -/
def Fmt.rndV (F : Fmt) : FV → FV
  | .fin q => F.rnd q
  | .pinf => if F.ieee then .pinf else .nan
  | .ninf => if F.ieee then .ninf else .nan
  | .nan => .nan

/-! ### exact (unrounded) extended-real arithmetic, IEEE special cases, no signed zero
(a zero divisor counts as +0, which is what `amax(|x|)/qmax` and `x - x` produce). -/

def FV.neg : FV → FV
  | .fin q => .fin (-q) | .pinf => .ninf | .ninf => .pinf | .nan => .nan

def FV.abs : FV → FV
  | .fin q => .fin (rabs q) | .pinf => .pinf | .ninf => .pinf | .nan => .nan

def FV.isFinite : FV → Bool
  | .fin _ => true | _ => false

def FV.isNan : FV → Bool
  | .nan => true | _ => false

/-- sign: 1, 0, -1 (nan → 0) -/
def FV.sgn : FV → Int
  | .fin q => if q > 0 then 1 else if q < 0 then -1 else 0
  | .pinf => 1 | .ninf => -1 | .nan => 0

def FV.ofSign (s : Int) : FV := if s > 0 then .pinf else if s < 0 then .ninf else .nan

def FV.mulX : FV → FV → FV
  | .fin a, .fin b => .fin (a * b)
  | .nan, _ => .nan
  | _, .nan => .nan
  | a, b => FV.ofSign (a.sgn * b.sgn)        -- inf * 0 = nan (sign 0)

def FV.divX : FV → FV → FV
  | .nan, _ => .nan
  | _, .nan => .nan
  | .fin a, .fin b => if b = 0 then FV.ofSign (FV.sgn (.fin a)) else .fin (a / b)
  | .fin _, _ => .fin 0
  | a, .fin b => if b < 0 then FV.ofSign (-a.sgn) else a
  | _, _ => .nan                              -- inf / inf

def FV.addX : FV → FV → FV
  | .fin a, .fin b => .fin (a + b)
  | .nan, _ => .nan
  | _, .nan => .nan
  | .pinf, .ninf => .nan
  | .ninf, .pinf => .nan
  | .pinf, _ => .pinf
  | _, .pinf => .pinf
  | .ninf, _ => .ninf
  | _, .ninf => .ninf

def FV.subX (a b : FV) : FV := a.addX b.neg

/-- `a ≤ b` on extended reals (false if either is NaN) -/
def FV.le : FV → FV → Bool
  | .nan, _ => false
  | _, .nan => false
  | .ninf, _ => true
  | _, .pinf => true
  | .fin a, .fin b => a ≤ b
  | _, _ => false

/-- torch.maximum-style max: NaN propagates -/
def FV.max (a b : FV) : FV :=
  if a.isNan then a else if b.isNan then b else if a.le b then b else a
def FV.min (a b : FV) : FV :=
  if a.isNan then a else if b.isNan then b else if a.le b then a else b

/-- torch.clamp(x, lo, hi) with finite rational bounds: NaN stays NaN -/
def FV.clamp (lo hi : Rat) : FV → FV
  | .nan => .nan
  | .pinf => .fin hi
  | .ninf => .fin lo
  | .fin q => .fin (if q < lo then lo else if q > hi then hi else q)

/-- torch.round -/
def FV.round : FV → FV
  | .fin q => .fin (rhe q)
  | v => v

/-! ### arithmetic as torch's CPU kernels perform it
float32: one rounding.  float16 / bfloat16: computed in float32, then rounded
(validated against torch; see DESIGN §4.1). -/

def Fmt.isHalf (F : Fmt) : Bool := F.p < 24

def Fmt.fl (F : Fmt) (v : FV) : FV :=
  if F.isHalf then F.rndV (f32.rndV v) else F.rndV v

def Fmt.div (F : Fmt) (a b : FV) : FV := F.fl (a.divX b)
def Fmt.mul (F : Fmt) (a b : FV) : FV := F.fl (a.mulX b)
def Fmt.add (F : Fmt) (a b : FV) : FV := F.fl (a.addX b)
def Fmt.sub (F : Fmt) (a b : FV) : FV := F.fl (a.subX b)

/-! ### error constants of `fl` (relative `u`, absolute `eta`): `|fl z - z| ≤ u·|z| + eta`
whenever the result is finite (proved in `Proofs/Float`). -/

def Fmt.u1 (F : Fmt) : Rat := pow2 (-(F.p : Int))
def Fmt.eta1 (F : Fmt) : Rat := pow2 (F.emin - (F.p : Int))
def Fmt.u (F : Fmt) : Rat :=
  if F.isHalf then F.u1 + f32.u1 + F.u1 * f32.u1 else F.u1
def Fmt.eta (F : Fmt) : Rat :=
  if F.isHalf then F.eta1 + (1 + F.u1) * f32.eta1 else F.eta1

/-! ### bit patterns -/

def Fmt.width (F : Fmt) : Nat := 1 + F.ebits + F.mbits

/-- decode a bit pattern (as a natural number) -/
def Fmt.decode (F : Fmt) (bits : Nat) : FV :=
  let m := F.mbits
  let M := bits % 2 ^ m
  let E := (bits / 2 ^ m) % 2 ^ F.ebits
  let neg := (bits / 2 ^ (m + F.ebits)) % 2 = 1
  let sgn : Rat := if neg then -1 else 1
  let emaxField := 2 ^ F.ebits - 1
  if F.ieee && E = emaxField then
    (if M = 0 then (if neg then .ninf else .pinf) else .nan)
  else if !F.ieee && E = emaxField && M = 2 ^ m - 1 then .nan
  else if E = 0 then .fin (sgn * (M : Rat) * pow2 (F.emin - (m : Int)))
  else .fin (sgn * ((2 ^ m + M : Nat) : Rat) * pow2 ((E : Int) - F.bias - (m : Int)))

/-- canonical NaN pattern (what torch produces for a freshly computed NaN is
format dependent; the harness canonicalises all NaNs to this pattern) -/
def Fmt.nanBits (F : Fmt) : Nat :=
  if F.ieee then (2 ^ F.ebits - 1) * 2 ^ F.mbits + 2 ^ (F.mbits - 1)
  else 2 ^ (F.ebits + F.mbits) - 1

/-- encode a value that is representable in the format (result of `rnd`) -/
def Fmt.encode (F : Fmt) : FV → Nat
  | .nan => F.nanBits
  | .pinf => (2 ^ F.ebits - 1) * 2 ^ F.mbits
  | .ninf => 2 ^ (F.ebits + F.mbits) + (2 ^ F.ebits - 1) * 2 ^ F.mbits
  | .fin q =>
    if q = 0 then 0 else
    let a := rabs q
    let s : Nat := if q < 0 then 2 ^ (F.ebits + F.mbits) else 0
    let e := max (ilog2 a) F.emin
    let sig : Nat := (a / pow2 (e - (F.mbits : Int))).floor.toNat   -- integer significand
    if sig < 2 ^ F.mbits then s + sig                                -- subnormal
    else s + ((e + F.bias).toNat) * 2 ^ F.mbits + (sig - 2 ^ F.mbits)

/-- is this rational exactly representable (finite) in the format? -/
def Fmt.representable (F : Fmt) (q : Rat) : Bool :=
  F.rnd q == .fin q

end Quanto

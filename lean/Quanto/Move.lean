/-
L1b — data-movement operations on logical tensors, as torch's aten ops define them on
contiguous logical contents: view, permute, transpose, select, slice, unsqueeze, expand,
cat, stack, split.  Each is a `gather` over a source-index map, so it commutes with every
elementwise map (`Proofs/Move`).  `none` = the op raises (RuntimeError / IndexError) in torch.
-/
import Quanto.Tensor
namespace Quanto

/-- normalise a possibly negative dim for a tensor of rank `r` (`extra` = 1 for unsqueeze/stack) -/
def normDim (r : Nat) (d : Int) (extra : Nat := 0) : Option Nat :=
  let n : Int := r + extra
  if d < -n ∨ d ≥ n then none else some (if d < 0 then (d + n).toNat else d.toNat)

def listSet {α : Type} (l : List α) (i : Nat) (v : α) : List α := l.set i v
def listRemove {α : Type} (l : List α) (i : Nat) : List α := l.eraseIdx i
def listInsert {α : Type} (l : List α) (i : Nat) (v : α) : List α := l.take i ++ [v] ++ l.drop i

namespace T
variable {α : Type} [Inhabited α]

/-- `view` / `reshape` to an explicit shape of the same number of elements -/
def view? (t : T α) (s : List Nat) : Option (T α) :=
  if prod s = prod t.shape then some ⟨s, t.data⟩ else none

def permute? (t : T α) (perm : List Nat) : Option (T α) :=
  if perm.length = t.shape.length ∧ (List.range t.shape.length).all (fun a => perm.contains a) then
    some (t.permute perm) else none

def transpose? (t : T α) (d0 d1 : Int) : Option (T α) :=
  match normDim t.shape.length d0, normDim t.shape.length d1 with
  | some a, some b =>
    let perm := (List.range t.shape.length).map fun k => if k = a then b else if k = b then a else k
    some (t.permute perm)
  | _, _ => if t.shape.length = 0 ∧ (d0 = 0 ∨ d0 = -1) ∧ (d1 = 0 ∨ d1 = -1) then some t else none

/-- `select(dim, index)` -/
def select? (t : T α) (dim idx : Int) : Option (T α) :=
  match normDim t.shape.length dim with
  | none => none
  | some d =>
    let n := t.shape.getD d 0
    if idx < -(n : Int) ∨ idx ≥ n then none else
    let i := if idx < 0 then (idx + n).toNat else idx.toNat
    let out := listRemove t.shape d
    some (t.gather out fun m => flat t.shape (listInsert (unflat out m) d i))

/-- python slice bounds clamping as `aten.slice` does (step ≥ 1) -/
def sliceBounds (n : Nat) (start stop : Int) : Nat × Nat :=
  let clampI (v : Int) : Nat :=
    let w := if v < 0 then v + n else v
    if w < 0 then 0 else if w > n then n else w.toNat
  let a := clampI start
  let b := clampI stop
  (a, if b < a then a else b)

/-- `slice(dim, start, end, step)` -/
def slice? (t : T α) (dim start stop : Int) (step : Nat) : Option (T α) :=
  match normDim t.shape.length dim with
  | none => none
  | some d =>
    if step = 0 then none else
    let n := t.shape.getD d 0
    let (a, b) := sliceBounds n start stop
    let len := (b - a + step - 1) / step
    let out := listSet t.shape d len
    some (t.gather out fun m =>
      let oi := unflat out m
      flat t.shape (listSet oi d (a + oi.getD d 0 * step)))

def unsqueeze? (t : T α) (dim : Int) : Option (T α) :=
  match normDim t.shape.length dim 1 with
  | none => none
  | some d => some ⟨listInsert t.shape d 1, t.data⟩

/-- `expand(shape)` with explicit sizes (`-1` not supported here; the harness passes explicit sizes) -/
def expand? (t : T α) (s : List Nat) : Option (T α) :=
  if s.length < t.shape.length then none else
  let ps := padShape s.length t.shape
  if (ps.zip s).all (fun p => p.1 = p.2 ∨ p.1 = 1) then
    some (t.gather s (bcastSrc s t.shape)) else none

/-- `cat([a, b, …], dim)` of tensors of equal rank -/
def cat? (ts : List (T α)) (dim : Int) : Option (T α) :=
  match ts with
  | [] => none
  | t0 :: _ =>
    match normDim t0.shape.length dim with
    | none => none
    | some d =>
      if !(ts.all fun t => t.shape.length = t0.shape.length ∧ listSet t.shape d 0 = listSet t0.shape d 0) then none else
      let sizes := ts.map fun t => t.shape.getD d 0
      let total := sizes.foldl (· + ·) 0
      let out := listSet t0.shape d total
      let arr := ts.toArray
      some (T.ofFn out fun m =>
        let oi := unflat out m
        let c := oi.getD d 0
        -- find the input holding coordinate c
        let rec find (k : Nat) (off : Nat) (rest : List Nat) : Nat × Nat :=
          match rest with
          | [] => (k, off)
          | sz :: rs => if c < off + sz then (k, off) else find (k + 1) (off + sz) rs
        let (k, off) := find 0 0 sizes
        let src := arr.getD k t0
        src.get (flat src.shape (listSet oi d (c - off))))

/-- `stack([…], dim)` = cat of unsqueezed inputs -/
def stack? (ts : List (T α)) (dim : Int) : Option (T α) :=
  match ts with
  | [] => none
  | t0 :: _ =>
    if !(ts.all fun t => t.shape = t0.shape) then none else
    match ts.mapM (fun t => t.unsqueeze? dim) with
    | none => none
    | some us => cat? us (match normDim t0.shape.length dim 1 with | some d => (d : Int) | none => 0)

/-- `split(split_size, dim)` : chunks of `sz` along `dim` (last one smaller) -/
def split? (t : T α) (sz : Nat) (dim : Int) : Option (List (T α)) :=
  match normDim t.shape.length dim with
  | none => none
  | some d =>
    if sz = 0 then none else
    let n := t.shape.getD d 0
    let k := (n + sz - 1) / sz
    (List.range (max k 1)).mapM fun (i : Nat) => t.slice? (d : Int) ((i * sz : Nat) : Int) (((i + 1) * sz : Nat) : Int) 1

end T
end Quanto

/-
L6b — the loop `quantize()` really runs (quantize.py): it walks `model.named_modules()` (preorder,
dotted names) and replaces every module `quantize_module` accepts through
`set_module_by_name(model, name, qmodule)` (split the name, `get_submodule` of the parent, `setattr`).
`Quanto.quantizeTree` (Module.lean) is the structural map the other C08 theorems speak about;
`Proofs/C08/Flat.lean` proves the loop equal to it on every tree whose sibling names are distinct
(Python attribute names always are).
-/
import Quanto.Module
namespace Quanto

mutual
/-- `named_modules()` with paths relative to the module itself (a dotted name is the path joined by '.') -/
def Mod.named : Mod → List (List String × Mod)
  | .leaf id k q => [([], .leaf id k q)]
  | .node id cls cs => ([], .node id cls cs) :: namedChildren cs
def namedChildren : List (String × Mod) → List (List String × Mod)
  | [] => []
  | (n, c) :: rest => (c.named.map fun pm => (n :: pm.1, pm.2)) ++ namedChildren rest
end

mutual
/-- `set_module_by_name(parent, name, child)`: descend along all but the last component
(`get_submodule`), then `setattr`.  The empty path stands for the module itself. -/
def Mod.setAt : Mod → List String → Mod → Mod
  | _, [], x => x
  | .leaf id k q, _ :: _, _ => .leaf id k q
  | .node id cls cs, n :: rest, x => .node id cls (setAtChildren cs n rest x)
def setAtChildren : List (String × Mod) → String → List String → Mod → List (String × Mod)
  | [], _, _, _ => []
  | (m, c) :: cs, n, rest, x =>
    if m = n then (m, c.setAt rest x) :: cs else (m, c) :: setAtChildren cs n rest x
end

/-- one iteration of the loop of `quantize()` -/
def flatStep (a : QuantizeArgs) (cur : Mod) (pm : List String × Mod) : Mod :=
  match pm.2 with
  | .leaf id k _ =>
    if selected a id && eligible a k then cur.setAt pm.1 (.leaf id k (some (twinCfg a k))) else cur
  | .node .. => cur

/-- `quantize(model, …)` as written: a fold over `named_modules()` -/
def quantizeFlat (a : QuantizeArgs) (t : Mod) : Mod := t.named.foldl (flatStep a) t

mutual
/-- sibling names are pairwise distinct, everywhere in the tree -/
def Mod.namesOk : Mod → Bool
  | .leaf .. => true
  | .node _ _ cs => namesOkChildren cs
def namesOkChildren : List (String × Mod) → Bool
  | [] => true
  | (n, c) :: rest => c.namesOk && !(rest.any fun p => p.1 == n) && namesOkChildren rest
end

/-- the dotted names `named_modules()` yields -/
def Mod.dottedNames (t : Mod) : List String := t.named.map fun pm => ".".intercalate pm.1

/-! ### `named_modules()` has a memo: a module object reachable along two paths is yielded once, under
the first path (and its sub-modules are not visited again).  Identities stand for objects. -/

def Mod.rootId : Mod → Nat
  | .leaf id _ _ => id
  | .node id _ _ => id

def dedupFirst : List (List String × Mod) → List Nat → List (List String × Mod)
  | [], _ => []
  | pm :: rest, seen =>
    if seen.contains pm.2.rootId then dedupFirst rest seen else pm :: dedupFirst rest (pm.2.rootId :: seen)

/-- `named_modules()` (default `remove_duplicate=True`) -/
def Mod.namedMemo (t : Mod) : List (List String × Mod) := dedupFirst t.named []

/-- the loop of `quantize()` over what `named_modules()` really yields -/
def quantizeLoop (a : QuantizeArgs) (t : Mod) : Mod := t.namedMemo.foldl (flatStep a) t

end Quanto

/-
The dispatch tables as the model understands them.  `Generated.lean` holds the live tables,
re-extracted on every run; `C05_dispatch_table_pinned` / `C08_registry_pinned` compare them.
-/
namespace Quanto

/-- aten ops with a QBytesTensor handler: every one is transcribed in `Quanto/Ops.lean`
(`copy_`, `bmm`, `is_same_size` are checked against the float reference only) -/
def modelQbytesOps : List String :=
  ["_softmax", "_to_copy", "_unsafe_view", "bmm", "cat", "clone", "copy_", "detach", "div", "expand",
   "is_same_size", "lt", "mm", "mul", "neg", "permute", "relu", "select", "slice", "split", "stack", "t",
   "to", "transpose", "unsqueeze", "view", "where"]

/-- aten ops with a QBitsTensor handler; everything else dequantizes -/
def modelQbitsOps : List String := ["_to_copy", "detach"]

/-- torch functions intercepted at the `__torch_function__` level: `linear` has a quantized
implementation, the others are explicit fallbacks -/
def modelQtensorFuncs : List String :=
  ["_has_compatible_shallow_copy_type", "cosine_similarity", "cross_entropy", "layer_norm", "linear", "log_softmax", "topk"]

/-- module classes with a quantized twin -/
def modelQmoduleRegistry : List String := ["Conv2d->QConv2d", "LayerNorm->QLayerNorm", "Linear->QLinear"]

end Quanto

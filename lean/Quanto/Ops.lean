/-
L4 — semantics of the aten ops intercepted for `QBytesTensor` (qbytes_ops.py), transcribed
function by function, and of the fallback rule (`qfallback`: dequantize every quantized
argument, then run the float op).  Float ops that the model cannot compute bit-exactly
(softmax, float matmul, arbitrary pass-through functions) are parameters ("oracles"): the
harness supplies the float result computed by torch on the dequantized operands.
-/
import Quanto.Move
import Quanto.Symmetric
import Quanto.Affine
import Quanto.Config
namespace Quanto

/-- a `QBytesTensor` value -/
structure QB where
  F : Fmt               -- outer dtype = dtype of the scale
  Q : QT
  axis : Axis
  size : List Nat       -- reported size
  data : T FV           -- codes, as values
  scale : T FV
  deriving Repr

inductive Val where
  | plain (F : Fmt) (t : T FV)
  | qb (q : QB)
  | boolT (t : T Bool)
  | scalar (q : Rat)
  | listV (l : List Val)
  | fail (e : Err)

/-- `QBytesTensor.dequantize` : `scale * data` with broadcasting -/
def QB.deq (q : QB) : Except Err (T FV) :=
  match bcastShape q.scale.shape q.data.shape with
  | none => .error .runtimeError
  | some out =>
    .ok (T.ofFn out fun n =>
      symDeq q.F (q.data.get (bcastSrc out q.data.shape n)) (q.scale.get (bcastSrc out q.scale.shape n)))

def QB.isPerTensor (q : QB) : Bool := q.axis.isNone

/-- `torch.equal(a, b)` on scales: same shape and same values -/
def scaleEqual (a b : T FV) : Bool := a.shape == b.shape && a.data.toList == b.data.toList

def optToVal (F : Fmt) : Option (T FV) → Val
  | some t => .plain F t
  | none => .fail .runtimeError

/-- data-movement ops handled by `unary_type_agnostic_op`, `view`, `transpose` -/
inductive MoveOp where
  | view (s : List Nat)
  | permute (p : List Nat)
  | transpose (a b : Int)
  | select (d i : Int)
  | slice (d a b : Int) (step : Nat)
  | unsqueeze (d : Int)
  | expand (s : List Nat)
  deriving Repr

def MoveOp.apply {α : Type} [Inhabited α] (m : MoveOp) (t : T α) : Option (T α) :=
  match m with
  | .view s => t.view? s
  | .permute p => t.permute? p
  | .transpose a b => t.transpose? a b
  | .select d i => t.select? d i
  | .slice d a b st => t.slice? d a b st
  | .unsqueeze d => t.unsqueeze? d
  | .expand s => t.expand? s

/-- quantized implementation of a movement op: per-tensor → move the codes, keep the scale;
per-axis → dequantize first (for `view` through `qfallback`, same thing) -/
def qbMove (m : MoveOp) (q : QB) : Val :=
  if q.isPerTensor then
    match m.apply q.data with
    | some d => .qb { q with axis := none, size := d.shape, data := d }
    | none => .fail .runtimeError
  else
    match q.deq with
    | .error e => .fail e
    | .ok d => optToVal q.F (m.apply d)

/-- `aten.t` (`transpose2d`): `dim0, dim1 = input.size()` requires rank 2 -/
def qbT (q : QB) : Val :=
  match q.size with
  | [d0, d1] =>
    match q.data.transpose? 0 1 with
    | none => .fail .runtimeError
    | some d =>
      match q.axis with
      | none => .qb { q with size := [d1, d0], data := d }
      | some af =>
        match q.scale.transpose? 0 1 with
        | none => .fail .runtimeError
        | some s => .qb { q with axis := some (!af), size := [d1, d0], data := d, scale := s }
  -- fewer than two dimensions: a no-op, as for a torch.Tensor (as repaired; the original raised ValueError)
  | [_] => .qb q
  | [] => .qb q
  | _ => .fail .valueError

/-- `aten.neg`: int8 codes are negated with two's complement wrap-around; float8 → dequantize -/
def negCode (c : FV) : FV :=
  match c with
  | .fin q => .fin (wrapInt8 (-(q.floor)))
  | v => v

def qbNeg (q : QB) : Val :=
  if q.Q.isFloat then
    match q.deq with
    | .error e => .fail e
    | .ok d => .plain q.F (d.map FV.neg)
  else .qb { q with data := q.data.map negCode }

def reluCode (c : FV) : FV :=
  match c with
  | .fin q => .fin (if q < 0 then 0 else q)
  | v => v

/-- `aten.relu`: int8 → relu on codes; float8 → fallback (float relu of the dequantized tensor) -/
def qbRelu (q : QB) : Val :=
  if q.Q.isFloat then
    match q.deq with
    | .error e => .fail e
    | .ok d => .plain q.F (d.map fun v => match v with
        | .fin x => .fin (if x < 0 then 0 else x) | .ninf => .fin 0 | w => w)
  else .qb { q with data := q.data.map reluCode }

/-- a Python scalar `k` entering tensor arithmetic with a tensor of format `F` (exactly
representable scalars only: the harness draws small dyadic values) -/
def qbMulScalar (q : QB) (k : Rat) : Val :=
  .qb { q with scale := q.scale.map fun s => q.F.mul (.fin k) s }

def qbDivScalar (q : QB) (k : Rat) : Val :=
  .qb { q with scale := q.scale.map fun s => q.F.div s (.fin k) }

/-- `_to_copy` / `to(dtype)`: codes untouched, scale converted -/
def qbToDtype (q : QB) (F' : Fmt) : Val :=
  .qb { q with F := F', scale := q.scale.map F'.rndV }

def qbDetach (q : QB) : Val := .qb q
def qbClone (q : QB) : Val := .qb q

/-- `aten.cat([t1, t2], dim)` : quantized path only for two per-tensor int8 tensors with
identical scales and qtypes; everything else dequantizes -/
def catQuantizedPath (a b : QB) : Bool :=
  a.isPerTensor && b.isPerTensor && scaleEqual a.scale b.scale && a.Q == b.Q

def deqAll (vs : List Val) : Except Err (List (Fmt × T FV)) :=
  vs.mapM fun v => match v with
    | .plain F t => .ok (F, t)
    | .qb q => match q.deq with
      | .ok d => .ok (q.F, d)
      | .error e => .error e
    | _ => .error .typeError

def qbCat (vs : List Val) (dim : Int) : Val :=
  match vs with
  | [.qb a, .qb b] =>
    if catQuantizedPath a b && !a.Q.isFloat then
      match T.cat? [a.data, b.data] dim with
      | some d => .qb { a with size := d.shape, data := d }
      | none => .fail .runtimeError
    else
      match deqAll vs with
      | .error e => .fail e
      | .ok ts => optToVal a.F (T.cat? (ts.map (·.2)) dim)
  | _ =>
    match deqAll vs with
    | .error e => .fail e
    | .ok ts => match ts with
      | [] => .fail .runtimeError
      | (F, _) :: _ => optToVal F (T.cat? (ts.map (·.2)) dim)

/-- `aten.stack`: quantized path like `cat` (float8 included); `fallbackFixed = false` is the
original code whose fallback call omits the op (TypeError) -/
def qbStack (fallbackFixed : Bool) (vs : List Val) (dim : Int) : Val :=
  let fb : Val :=
    if !fallbackFixed then .fail .typeError else
    match deqAll vs with
    | .error e => .fail e
    | .ok ts => match ts with
      | [] => .fail .runtimeError
      | (F, _) :: _ => optToVal F (T.stack? (ts.map (·.2)) dim)
  match vs with
  | [.qb a, .qb b] =>
    if catQuantizedPath a b then
      match T.stack? [a.data, b.data] dim with
      | some d => .qb { a with size := d.shape, data := d }
      | none => .fail .runtimeError
    else fb
  | _ => fb

/-- `aten.split`: per-tensor → chunks of the codes; `sizeFixed = false` is the original code,
which re-wraps every chunk with the size of the un-split input -/
def qbSplit (sizeFixed : Bool) (q : QB) (sz : Nat) (dim : Int) : Val :=
  if q.isPerTensor then
    match q.data.split? sz dim with
    | none => .fail .runtimeError
    | some cs => .listV (cs.map fun d => .qb { q with size := (if sizeFixed then d.shape else q.size), data := d })
  else
    match q.deq with
    | .error e => .fail e
    | .ok d => match d.split? sz dim with
      | none => .fail .runtimeError
      | some cs => .listV (cs.map fun c => .plain q.F c)

def ltCodes (a b : FV) : Bool :=
  match a, b with
  | .fin x, .fin y => x < y
  | _, _ => false

/-- `aten.lt`: identical scales and int8 payloads → compare the codes; otherwise (different
scales, or float8 payloads for which `lt` is not implemented on CPU) dequantize both -/
def qbLt (a b : QB) : Val :=
  if scaleEqual a.scale b.scale && !a.Q.isFloat && !b.Q.isFloat then
    match bcastShape a.data.shape b.data.shape with
    | none => .fail .runtimeError
    | some out => .boolT (T.ofFn out fun n =>
        ltCodes (a.data.get (bcastSrc out a.data.shape n)) (b.data.get (bcastSrc out b.data.shape n)))
  else
    match a.deq, b.deq with
    | .ok x, .ok y =>
      match bcastShape x.shape y.shape with
      | none => .fail .runtimeError
      | some out => .boolT (T.ofFn out fun n => ltCodes (x.get (bcastSrc out x.shape n)) (y.get (bcastSrc out y.shape n)))
    | _, _ => .fail .runtimeError

/-- re-quantization of a float result with a scalar scale (`quantize_activation`) -/
def requant (F : Fmt) (Q : QT) (x : T FV) (scale : FV) : Val :=
  match symQuantize F Q x none ⟨[], #[scale]⟩ with
  | .error e => .fail e
  | .ok r => .qb ⟨F, Q, none, r.size, r.data, r.scale⟩

/-- `aten._softmax`: float softmax of the dequantized input (oracle), re-quantized with the scale
`tensor(1 / qmax, dtype=scale dtype)` — `1 / qmax` is a Python float (double), then cast -/
def f64 : Fmt := ⟨53, -1022, 1023, 11, true⟩

def softmaxScale (F : Fmt) (Q : QT) : FV := F.rndV (f64.rnd (1 / Q.qmax))

def qbSoftmax (q : QB) (oracle : T FV) : Val := requant q.F q.Q oracle (softmaxScale q.F q.Q)

/-- `aten.where(cond, input, other)` with a plain condition and a plain/scalar `other`:
float `where` of the dequantized input (oracle), re-quantized with the input scale when per-tensor -/
def qbWhere (q : QB) (oracle : T FV) : Val :=
  match q.axis with
  | none => requant q.F q.Q oracle (q.scale.get 0)
  | some _ => .plain q.F oracle

/-- integer matrix product of the codes (exact) -/
def intMm (a b : T FV) : Option (T Int) :=
  match a.shape, b.shape with
  | [n, m], [m', p] =>
    if m ≠ m' then none else
    some (T.ofFn [n, p] fun idx =>
      let i := idx / p
      let j := idx % p
      (List.range m).foldl (fun acc k =>
        match a.get (i * m + k), b.get (k * p + j) with
        | .fin x, .fin y => acc + x.floor * y.floor
        | _, _ => acc) 0)
  | _, _ => none

/-- the route condition of `aten.mm` for `torch._int_mm` on CPU with torch ≥ 2.4 -/
def mmIntRoute (a b : QB) : Bool :=
  match a.size, b.size with
  | [n, m], [_, p] =>
    a.Q == .qint8 && b.Q == .qint8
      -- scales indexed by the contracted dimension cannot be factorized (guard added by the repair)
      && a.axis != some false && b.axis != some true
      && n > 16 && n % 8 == 0 && m % 8 == 0 && p % 8 == 0
  | _, _ => false

/-- `aten.mm` on two QBytes tensors through the integer GEMM: `(sa * sb).to(f32) * out`, cast to the
input dtype.  The scale product is broadcast against the [n, p] output as torch does. -/
def qbMmInt (a b : QB) : Val :=
  match intMm a.data b.data with
  | none => .fail .runtimeError
  | some o =>
    match bcastShape a.scale.shape b.scale.shape with
    | none => .fail .runtimeError
    | some ss =>
      let sprod : T FV := T.ofFn ss fun n =>
        f32.rndV (a.F.mul (a.scale.get (bcastSrc ss a.scale.shape n)) (b.scale.get (bcastSrc ss b.scale.shape n)))
      match bcastShape ss o.shape with
      | none => .fail .runtimeError
      | some out =>
        .plain a.F (T.ofFn out fun n =>
          a.F.rndV (f32.mul (sprod.get (bcastSrc out ss n)) (f32.rndV (.fin (o.get (bcastSrc out o.shape n))))))

end Quanto

/-
L6 — module trees, `quantize()` (quantize.py, nn/qmodule.py), the decision logic of
`QModuleMixin.forward`, `freeze()` and the weight state machine.
-/
import Quanto.Config
namespace Quanto

/-- leaf module kinds as far as `quantize()` distinguishes them (the registry of `register_qmodule`,
regenerated into `Generated.qmoduleRegistry`) -/
inductive LeafKind where
  | linear | conv2d | layerNorm | other (cls : String)
  deriving DecidableEq, Repr, Inhabited

/-- what a quantized leaf remembers -/
structure QCfg where
  weights : Option QType
  activations : Option QType
  deriving DecidableEq, Repr

/-- a module tree: every node has an identity (used by the `modules=` filter and to state that
parameters are carried over), a kind, and named children -/
inductive Mod where
  | leaf (id : Nat) (kind : LeafKind) (q : Option QCfg)
  | node (id : Nat) (cls : String) (children : List (String × Mod))
  deriving Repr

/-- keyword arguments of `quantize(model, modules=None, weights=…, activations=…)` -/
structure QuantizeArgs where
  filter : Option (List Nat)        -- `modules=`: identities of the selected modules; none = all
  weights : Option QType
  activations : Option QType
  deriving Repr

/-- `qcreate` of the registered class accepts the module (QLayerNorm declines without activations) -/
def eligible (a : QuantizeArgs) : LeafKind → Bool
  | .linear => true
  | .conv2d => true
  | .layerNorm => a.activations.isSome
  | .other _ => false

def selected (a : QuantizeArgs) (id : Nat) : Bool :=
  match a.filter with
  | none => true
  | some l => l.contains id

/-- the configuration the quantized twin is created with: LayerNorm never quantizes its weights -/
def twinCfg (a : QuantizeArgs) : LeafKind → QCfg
  | .layerNorm => ⟨none, a.activations⟩
  | _ => ⟨a.weights, a.activations⟩

mutual
/-- `quantize()` applied to a (non-root) subtree: every selected eligible leaf is replaced by its
quantized twin (same identity: the float parameters are copied into it), everything else is kept.
An already quantized leaf is an instance of its float class and is quantized again from scratch. -/
def quantizeTree (a : QuantizeArgs) : Mod → Mod
  | .leaf id kind q =>
    if selected a id && eligible a kind then .leaf id kind (some (twinCfg a kind)) else .leaf id kind q
  | .node id cls cs => .node id cls (quantizeChildren a cs)
def quantizeChildren (a : QuantizeArgs) : List (String × Mod) → List (String × Mod)
  | [] => []
  | (n, m) :: rest => (n, quantizeTree a m) :: quantizeChildren a rest
end

/-! ### `QModuleMixin.forward`: the four cases -/

inductive InKind where
  | float | quantSameQtype | quantOther      -- plain tensor / QBytes per-tensor of the module's activation qtype / other QBytes
  deriving DecidableEq, Repr

inductive Step where
  | requantInput        -- maybe_requantize(input, input_scale)
  | quantizeInput       -- qforward: quantize_activation(input, input_scale)   (Linear / Conv2d only)
  | qforward
  | requantOutput       -- output is QBytes of another qtype / per-axis
  | quantizeOutput      -- quantize_activation(output, output_scale)
  deriving DecidableEq, Repr

/-- branch trace of `forward` for a module with / without quantized activations; `outQuant` says
whether `qforward` returned a QBytes tensor of the right qtype already -/
def forwardTrace (kind : LeafKind) (acts : Bool) (inp : InKind) (outQuantSame : Option Bool) : List Step :=
  let pre := if acts && inp == .quantOther then [Step.requantInput] else []
  let qin := if acts && inp == .float && (kind == .linear || kind == .conv2d) then [Step.quantizeInput] else []
  let post := if !acts then [] else
    match outQuantSame with
    | some true => []
    | some false => [Step.requantOutput]
    | none => [Step.quantizeOutput]
  pre ++ qin ++ [Step.qforward] ++ post

/-! ### weight state machine (C09 / C11) -/

/-- abstract weight state of a quantized module: the float parameter (by version: every optimizer
step produces a new version), or the frozen quantized tensor derived from some version -/
inductive WState where
  | float (version : Nat)
  | frozen (fromVersion : Nat)
  deriving DecidableEq, Repr

/-- `qweight`: re-quantize the current float weight, or return the stored one -/
def WState.qweightVersion : WState → Nat
  | .float v => v
  | .frozen v => v

def WState.freeze : WState → WState
  | .float v => .frozen v
  | .frozen v => .frozen v

/-- events of a module's life -/
inductive LifeEvent where
  | forward | freeze | optimizerStep | deepcopy | toDevice
  deriving DecidableEq, Repr

/-- state after an event; an optimizer step on a frozen weight does not change the stored codes -/
def WState.step (s : WState) : LifeEvent → WState
  | .freeze => s.freeze
  | .optimizerStep => match s with | .float v => .float (v + 1) | .frozen v => .frozen v
  | _ => s

/-- the quantized weight used by each forward of a history (as the version it was derived from) -/
def forwardVersions (s : WState) : List LifeEvent → List Nat
  | [] => []
  | .forward :: rest => s.qweightVersion :: forwardVersions s rest
  | e :: rest => forwardVersions (s.step e) rest

/-- storage of a frozen weight of `rows × cols` elements: payload bytes and number of scales -/
def frozenPayloadBytes (q : QType) (rows cols : Nat) (gs : Option Nat) : Nat :=
  match q.bits with
  | 8 => rows * cols
  | b => match gs with
    | none => ((rows * b + 7) / 8) * cols
    | some g => ((rows * cols / g * b + 7) / 8) * g

def frozenScaleCount (q : QType) (rows cols : Nat) (gs : Option Nat) : Nat :=
  match q.bits, gs with
  | 8, _ => rows
  | _, none => rows
  | _, some g => rows * cols / g

end Quanto

/-
L2 — AWQ layouts (qbits/awq/packed.py): v1 int32 packing with optional column reordering,
v2 int16 packing (row permutation + interleave), their inverses, and the reference packer
`external/awq/pack_intweight.py`.  Integer words are modelled by their bit patterns
(naturals below 2^32 / 2^16); the wire shows them as signed values.
-/
import Quanto.Tensor
import Quanto.Generated
namespace Quanto

def identityOrder : List Nat := [0, 1, 2, 3, 4, 5, 6, 7]

/-- `pack(unpacked, reorder)` : [N, K] uint4 → [N, K/8] int32 bit patterns -/
def awqPackV1 (reorder : Bool) (t : T Nat) : T Nat :=
  let N := t.shape.headD 0
  let K := t.shape.getD 1 0
  let order := if reorder then Generated.awqOrder else identityOrder
  T.ofFn [N, K / 8] fun n =>
    let r := n / (K / 8)
    let col := n % (K / 8)
    (List.range 8).foldl (fun acc i =>
      acc ||| ((t.get (r * K + col * 8 + order.getD i 0) <<< (4 * i)) % 2 ^ 32)) 0

/-- arithmetic right shift of an int32 bit pattern followed by truncation to int8 then `& 15`:
only the low nibble after the shift survives, so the logical shift on the pattern suffices. -/
def awqField (w i : Nat) : Nat := (w >>> (4 * i)) % 16

/-- `unpack(packed, reorder)` : [N, K/8] → [N, K] -/
def awqUnpackV1 (reorder : Bool) (p : T Nat) : T Nat :=
  let N := p.shape.headD 0
  let C := p.shape.getD 1 0
  let K := C * 8
  T.ofFn [N, K] fun n =>
    let r := n / K
    let j := n % K
    -- after `view(N, -1)`: position j holds field j%8 of word j/8; `reverse_awq_order` then
    -- reads position 8*(j/8) + REVERSE[j%8]
    let jj := if reorder then 8 * (j / 8) + Generated.awqReverseOrder.getD (j % 8) 0 else j
    awqField (p.get (r * C + jj / 8)) (jj % 8)

/-- the position permutation shared by `pack_v2` and the reference packer, before the 4-way
interleave: [N,K] → reshape (N,K/32,4,4,2) → permute(0,1,3,2,4) → permute(0,1,2,4,3) → (N,K) -/
def awqV2Reorder (t : T Nat) : T Nat :=
  let N := t.shape.headD 0
  let K := t.shape.getD 1 0
  let a := (t.reshape [N, K / 32, 4, 4, 2]).permute [0, 1, 3, 2, 4]
  let b := a.permute [0, 1, 2, 4, 3]
  b.reshape [N, K]

/-- reference: transpose(0,1,3,2,4), flatten to 32, view as (4,8)/(4,4,2), transpose(0,1,2,4,3) -/
def awqRefReorder (t : T Nat) : T Nat :=
  let N := t.shape.headD 0
  let K := t.shape.getD 1 0
  let a := ((t.reshape [N, K / 32, 4, 4, 2]).permute [0, 1, 3, 2, 4]).reshape [N, K / 32, 32]
  let b := ((a.reshape [N, K / 32, 4, 8]).reshape [N, K / 32, 4, 4, 2]).permute [0, 1, 2, 4, 3]
  b.reshape [N, K]

/-- interleave: (N,K) → (N/I, I, K/S, S) → permute(0,2,1,3) → viewed as (N/I, K/S, S, I) -/
def awqInterleave (t : T Nat) : T Nat :=
  let N := t.shape.headD 0
  let K := t.shape.getD 1 0
  ((t.reshape [N / 4, 4, K / 64, 64]).permute [0, 2, 1, 3]).reshape [N / 4, K / 64, 64, 4]

/-- combine the last axis of 4 nibbles into a 16-bit word -/
def awqCombine16 (t : T Nat) : T Nat :=
  let N4 := t.shape.headD 0
  let K := t.shape.getD 1 0 * t.shape.getD 2 0
  T.ofFn [N4, K] fun m =>
    (t.get (4 * m) ||| (t.get (4 * m + 1) <<< 4) ||| (t.get (4 * m + 2) <<< 8) ||| (t.get (4 * m + 3) <<< 12)) % 2 ^ 16

/-- `pack_v2` -/
def awqPackV2 (t : T Nat) : T Nat := awqCombine16 (awqInterleave (awqV2Reorder t))

/-- `external/awq/pack_intweight.py` with interleave = 4, kstride = 64 -/
def awqPackRef (t : T Nat) : T Nat := awqCombine16 (awqInterleave (awqRefReorder t))

/-- `unpack_v2` : [N/4, K] int16 patterns → [N, K] -/
def awqUnpackV2 (p : T Nat) : T Nat :=
  let N4 := p.shape.headD 0
  let K := p.shape.getD 1 0
  let N := N4 * 4
  -- (N/4, K/S, S, 1) → cat of the four nibbles on the last axis → (N/4, K/S, S, 4)
  let u : T Nat := T.ofFn [N4, K / 64, 64, 4] fun n => (p.get (n / 4) >>> (4 * (n % 4))) % 16
  -- reshape (N/4, K/S, I, S) → permute(0,2,1,3) → (N, K)
  let v := ((u.reshape [N4, K / 64, 4, 64]).permute [0, 2, 1, 3]).reshape [N, K]
  -- (N, K/32, 4, 2, 4).permute(0,1,2,4,3) → .permute(0,1,3,2,4) → (N, K)
  let w := ((v.reshape [N, K / 32, 4, 2, 4]).permute [0, 1, 2, 4, 3]).permute [0, 1, 3, 2, 4]
  w.reshape [N, K]

end Quanto

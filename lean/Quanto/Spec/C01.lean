/-
Executable property predicate for C01 (nearest grid point, saturation, idempotence),
evaluated in exact rational arithmetic.  It is applied to the model's outputs in the
theorems of `Proofs/Properties/C01.lean` and to the implementation's outputs by the
harness (`spec01 …` driver command).
-/
import Quanto.Symmetric
namespace Quanto

/-- all finite values of a float8 format, from its 256 bit patterns -/
def Fmt.finiteValues (F : Fmt) : List Rat :=
  (List.range (2 ^ F.width)).filterMap fun b =>
    match F.decode b with
    | .fin q => some q
    | _ => none

/-- the value set V_Q of an 8-bit qtype -/
def QT.grid : QT → List Rat
  | .qint8 => (List.range 256).map fun (n : Nat) => (((n : Int) - 128 : Int) : Rat)
  | .e4m3 => Quanto.e4m3.finiteValues
  | .e5m2 => Quanto.e5m2.finiteValues

/-- rounding allowance of C01: divide, (round), multiply — each `u`-relative plus the
subnormal absolute term. -/
def epsC01 (F : Fmt) (x s c : Rat) : Rat :=
  2 * F.u * rabs x + F.u * (s * rabs c) + (2 * s + 1) * F.eta

inductive C01Verdict where
  | ok
  | badInput          -- outside the property's domain (non-finite x, s ≤ 0 …)
  | codeNotInGrid
  | deqOverflow       -- s·|c| exceeds the largest finite value of F : dequantized value is not finite
  | deqNotFinite
  | deqNotGridPoint   -- y is not fl(s·c)
  | notNearest
  | notSaturated
  deriving DecidableEq, Repr

def C01Verdict.name : C01Verdict → String
  | .ok => "ok" | .badInput => "bad-input" | .codeNotInGrid => "code-not-in-grid"
  | .deqOverflow => "deq-overflow" | .deqNotFinite => "deq-not-finite"
  | .deqNotGridPoint => "deq-not-grid-point" | .notNearest => "not-nearest"
  | .notSaturated => "not-saturated"

/-- the property for one element: `x` source, `s` scale, `c` stored code, `y` dequantized value -/
def specC01G (F : Fmt) (Q : QT) (grid : List Rat) (x s c y : FV) : C01Verdict :=
  match x, s, c with
  | .fin xq, .fin sq, .fin cq =>
    if sq ≤ 0 then .badInput else
    if !(grid.contains cq) then .codeNotInGrid else
    -- saturation instead of wrapping
    if xq / sq ≥ Q.qmax ∧ cq ≠ Q.qmax then .notSaturated else
    if xq / sq ≤ Q.qmin ∧ cq ≠ Q.qmin then .notSaturated else
    match y with
    | .fin yq =>
      if rabs (yq - sq * cq) > F.u * (sq * rabs cq) + F.eta then .deqNotGridPoint else
      let e := epsC01 F xq sq cq
      if grid.all fun v => rabs (yq - xq) ≤ rabs (sq * v - xq) + e then .ok else .notNearest
    | _ => if sq * rabs cq > F.maxFin then .deqOverflow else .deqNotFinite
  | .fin _, .fin sq, _ => if sq ≤ 0 then .badInput else .codeNotInGrid
  | _, _, _ => .badInput

/-- the property for one element (the grid is a parameter of `specC01G` only so that the
driver can evaluate it once per line) -/
def specC01 (F : Fmt) (Q : QT) (x s c y : FV) : C01Verdict := specC01G F Q Q.grid x s c y

/-- idempotence: the code obtained by quantizing `y` again with the same scale -/
inductive C01Idem where
  | same | differs | differsSubnormalProduct | differsOverflow
  deriving DecidableEq, Repr

def C01Idem.name : C01Idem → String
  | .same => "same" | .differs => "idem-differs"
  | .differsSubnormalProduct => "idem-differs-subnormal-product"
  | .differsOverflow => "idem-differs-overflow"

/-- classify a re-quantization result `c2` of the dequantized value against the first code `c` -/
def specC01Idem (F : Fmt) (s c c2 : FV) : C01Idem :=
  if c2 = c then .same else
  match s, c with
  | .fin sq, .fin cq =>
    if sq * rabs cq > F.maxFin then .differsOverflow
    else if rabs (sq * cq) < pow2 F.emin then .differsSubnormalProduct
    else .differs
  | _, _ => .differs

end Quanto

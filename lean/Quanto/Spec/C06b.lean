/-
Model-level view of C06: the metadata a model value would report, and the invariant `QB.wf`.
-/
import Quanto.Spec.C06
import Quanto.Ops
namespace Quanto

/-- what a model `QB` reports through the flatten interface -/
def QB.meta (q : QB) : QBytesMeta :=
  ⟨q.Q.qtypeName, q.axis, q.size, fmtDtype q.F, q.data.shape, q.Q.storageName, q.scale.shape, fmtDtype q.F⟩

/-- the C06 invariant on model values: metadata well-formed and payload/scale arrays of the right size -/
def QB.wf (q : QB) : Bool := wfQBytes q.meta == .ok && q.data.wf && q.scale.wf

/-- every quantized value inside a `Val` is well-formed -/
def Val.wf : Val → Bool
  | .qb q => q.wf
  | .listV l => l.attach.all fun ⟨v, _⟩ => v.wf
  | _ => true
decreasing_by
  all_goals simp_wf
  all_goals (have := List.sizeOf_lt_of_mem ‹_›; omega)

end Quanto

/-
Executable relation predicates for C05: the rescaling relation (results that differ only by the
order of a few float roundings).  Data movement is bit equality (checked on the bit patterns),
re-quantization reuses `specC01` (nearest grid point of the output scale).
-/
import Quanto.Ops
namespace Quanto

/-- `y` (scale rescaled, then multiplied by the code) vs `r` (dequantized, then rescaled by `k`):
both are two roundings away from the exact value `k·s·c` -/
def specRescale2 (Fu Feta : Fmt) (qmax : Rat) (k : Rat) (y r : FV) : Bool :=
  match y, r with
  | .fin yq, .fin rq =>
    let ak := rabs k
    -- the absolute rounding of a (possibly subnormal) scale is amplified by the code, at most `qmax`
    rabs (yq - rq) ≤ 5 * Fu.u * rabs rq + (qmax + 4 + ak + (if ak = 0 then 0 else 1 / ak)) * Feta.eta
  | .nan, .nan => true
  | .pinf, .pinf => true
  | .ninf, .ninf => true
  | _, _ => false

/-- single-format version (mul / div by a scalar) -/
def specRescale (F : Fmt) (qmax : Rat) (k : Rat) (y r : FV) : Bool := specRescale2 F F qmax k y r

end Quanto

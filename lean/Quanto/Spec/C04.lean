/-
Executable property predicate for C04 (lossless, dense, identical across kernels).
-/
import Quanto.Pack
namespace Quanto

def ceilDiv (a b : Nat) : Nat := (a + b - 1) / b

inductive C04Verdict where
  | ok | badInput | notDense | lossy | kernelsDiffer
  deriving DecidableEq, Repr

def C04Verdict.name : C04Verdict → String
  | .ok => "ok" | .badInput => "bad-input" | .notDense => "not-dense" | .lossy => "lossy"
  | .kernelsDiffer => "kernels-differ"

/-- `orig` the uint8 tensor that was packed, `payload` the stored bytes, `unpacked` what
`PackedTensor.unpack` returned, `routes` the results of every unpack kernel route on `payload`. -/
def specC04 (bits : Nat) (orig payload unpacked : T Nat) (routes : List (T Nat)) : C04Verdict :=
  if !(bits == 2 || bits == 4) || !orig.wf || orig.data.any (· ≥ 2 ^ bits) || orig.shape.isEmpty then .badInput else
  let R := orig.shape.headD 0
  if payload.shape ≠ ceilDiv (R * bits) 8 :: orig.shape.tail || !payload.wf then .notDense else
  if unpacked.shape ≠ orig.shape || unpacked.data ≠ orig.data then .lossy else
  match routes with
  | [] => .ok
  | r :: rs => if rs.all (fun t => t.shape == r.shape && t.data == r.data) then .ok else .kernelsDiffer

end Quanto

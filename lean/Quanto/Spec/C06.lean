/-
Executable well-formedness predicate of quantized tensors (C06), evaluated on the
`__tensor_flatten__` view of implementation results and on model values.
-/
import Quanto.Config
import Quanto.Spec.C04
namespace Quanto

/-- metadata of a QBytesTensor as observed -/
structure QBytesMeta where
  qtype : String
  axis : Axis
  size : List Nat
  outerDtype : String
  dataShape : List Nat
  dataDtype : String
  scaleShape : List Nat
  scaleDtype : String
  deriving Repr

/-- expected scale shape for a declared axis -/
def scaleShapeFor (size : List Nat) : Axis → List (List Nat)
  | none => [[]]    -- per-tensor: a scalar
  | some true => [size.headD 0 :: List.replicate (size.length - 1) 1]
  | some false => [List.replicate (size.length - 1) 1 ++ [size.getLastD 0]]

inductive WFVerdict where
  | ok | unknownQtype | payloadDtype | outerDtype | payloadShape | scaleShape | zeroShape | packedShape | axisInvalid | groupInvalid
  deriving DecidableEq, Repr

def WFVerdict.name : WFVerdict → String
  | .ok => "ok" | .unknownQtype => "unknown-qtype" | .payloadDtype => "payload-dtype" | .outerDtype => "outer-dtype"
  | .payloadShape => "payload-shape" | .scaleShape => "scale-shape" | .zeroShape => "zeropoint-shape"
  | .packedShape => "packed-shape" | .axisInvalid => "axis-invalid" | .groupInvalid => "group-invalid"

def wfQBytes (m : QBytesMeta) : WFVerdict :=
  match QType.ofName m.qtype with
  | none => .unknownQtype
  | some q =>
    if q.bits ≠ 8 then .unknownQtype else
    if m.dataDtype ≠ q.storage then .payloadDtype else
    if m.outerDtype ≠ m.scaleDtype then .outerDtype else
    if m.dataShape ≠ m.size then .payloadShape else
    if m.axis.isSome ∧ m.size.length < 2 then .axisInvalid else
    if !(scaleShapeFor m.size m.axis).contains m.scaleShape then .scaleShape else .ok

structure QBitsMeta where
  qtype : String
  axis : Axis
  groupSize : Option Nat
  size : List Nat
  outerDtype : String
  packedBits : Nat
  packedSize : List Nat       -- reported (unpacked) shape of the PackedTensor
  payloadShape : List Nat
  payloadDtype : String
  scaleShape : List Nat
  scaleDtype : String
  zeroShape : List Nat
  zeroDtype : String
  deriving Repr

def wfQBits (m : QBitsMeta) : WFVerdict :=
  match QType.ofName m.qtype with
  | none => .unknownQtype
  | some q =>
    if q.bits = 8 ∨ m.packedBits ≠ q.bits then .unknownQtype else
    if m.payloadDtype ≠ "uint8" then .payloadDtype else
    if m.outerDtype ≠ m.scaleDtype then .outerDtype else
    match m.axis with
    | none => .axisInvalid
    | some af =>
      -- layout of the codes
      let codeShape : Option (List Nat) := match m.groupSize with
        | none => some m.size
        | some g => groupShape m.size af g
      match codeShape with
      | none => .groupInvalid
      | some cs =>
        if m.packedSize ≠ cs then .payloadShape else
        if m.payloadShape ≠ ceilDiv (cs.headD 0 * q.bits) 8 :: cs.tail then .packedShape else
        let ps := keptShape cs af
        if m.scaleShape ≠ ps then .scaleShape else
        if m.zeroShape ≠ ps ∨ m.zeroDtype ≠ "int8" then .zeroShape else .ok

end Quanto

namespace Quanto

/-- dtype name of a working format as torch prints it -/
def fmtDtype (F : Fmt) : String :=
  if F == f32 then "float32" else if F == f16 then "float16" else if F == bf16 then "bfloat16" else "other"

def QT.qtypeName : QT → String
  | .qint8 => "qint8" | .e4m3 => "qfloat8_e4m3fn" | .e5m2 => "qfloat8_e5m2"

def QT.storageName : QT → String
  | .qint8 => "int8" | .e4m3 => "float8_e4m3fn" | .e5m2 => "float8_e5m2"

end Quanto

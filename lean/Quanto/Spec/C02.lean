/-
Executable property predicates for C02 (affine 2/4-bit: half-step error bound per group,
step bound, shape) and C03 (scale selection: non-saturating, full range).
Evaluated in exact rational arithmetic.
-/
import Quanto.Affine
namespace Quanto

/-- rounding allowance of C02 for an element `x` of a group quantized with step `s` -/
def epsC02 (F : Fmt) (bits : Nat) (x s : Rat) : Rat :=
  F.u * rabs x + 6 * F.u * (2 : Rat) ^ bits * s + ((2 : Rat) ^ bits + 4) * F.eta + 3 * s * F.eta

/-- allowance on the step itself: `s ≤ (hi-lo)/N * (1+3u) + 2η` -/
def stepBoundC02 (F : Fmt) (bits : Nat) (lo hi : Rat) : Rat :=
  (hi - lo) / ((2 : Rat) ^ bits - 1) * (1 + 3 * F.u) + 2 * F.eta

inductive C02Verdict where
  | ok | badInput | scaleNotFinite | stepTooLarge | deqNotFinite | errorExceedsHalfStep | shapeChanged
  | rangeOverflow      -- hi - lo is not representable in F: the scale is not finite
  | deqOverflow        -- scale * (code - zeropoint) exceeds the largest finite value of F
  deriving DecidableEq, Repr

def C02Verdict.name : C02Verdict → String
  | .ok => "ok" | .badInput => "bad-input" | .scaleNotFinite => "scale-not-finite"
  | .stepTooLarge => "step-too-large" | .deqNotFinite => "deq-not-finite"
  | .errorExceedsHalfStep => "error-exceeds-half-step" | .shapeChanged => "shape-changed"
  | .rangeOverflow => "range-overflow" | .deqOverflow => "deq-overflow"

/-- one element: source `x`, its group's extrema `lo ≤ 0 ≤ hi` (including zero), step `s`,
stored code `c`, zero-point `z`, dequantized `y` -/
def specC02Elem (F : Fmt) (bits : Nat) (x lo hi : Rat) (s : FV) (c : Nat) (z : Int) (y : FV) : C02Verdict :=
  match s with
  | .fin sq =>
    if sq < 0 then .scaleNotFinite else
    if sq > stepBoundC02 F bits lo hi then .stepTooLarge else
    match y with
    | .fin yq => if rabs (yq - x) ≤ sq / 2 + epsC02 F bits x sq then .ok else .errorExceedsHalfStep
    | _ => if sq * rabs (((c : Int) - z : Int) : Rat) > F.maxFin then .deqOverflow else .deqNotFinite
  | _ => if hi - lo > F.maxFin * (1 - F.u) then .rangeOverflow else .scaleNotFinite

def ratMin (a b : Rat) : Rat := if a ≤ b then a else b
def ratMax (a b : Rat) : Rat := if a ≤ b then b else a

/-- whole tensor: `x` source, `scale` as returned (one per group), `y` dequantized (original layout).
Returns the first failing verdict with the flat position in the grouped layout. -/
def specC02 (F : Fmt) (bits : Nat) (x : T FV) (axisFirst : Bool) (gs : Option Nat) (scale : T FV)
    (codes : T Nat) (zero : T Int) (y : T FV) : C02Verdict × Nat :=
  if y.shape ≠ x.shape || !y.wf then (.shapeChanged, 0) else
  let gx : Except Err (T FV) := match gs with | none => .ok x | some g => group x axisFirst g
  let gy : Except Err (T FV) := match gs with | none => .ok y | some g => group y axisFirst g
  match gx, gy with
  | .ok gx, .ok gy =>
    let k := keptDim gx.shape axisFirst
    if scale.data.size ≠ k then (.badInput, 0) else
    -- group extrema including zero
    let lo := (reduceSlices gx axisFirst FV.min).data.map fun v => match v with | .fin q => ratMin q 0 | _ => 0
    let hi := (reduceSlices gx axisFirst FV.max).data.map fun v => match v with | .fin q => ratMax q 0 | _ => 0
    let rec go (n : Nat) (fuel : Nat) : C02Verdict × Nat :=
      match fuel with
      | 0 => (.ok, 0)
      | fuel + 1 =>
        if n ≥ gx.data.size then (.ok, 0) else
        let key := keyAt gx.shape axisFirst n
        match gx.get n with
        | .fin xq =>
          let v := specC02Elem F bits xq (lo.getD key 0) (hi.getD key 0) (scale.get key) (codes.get n) (zero.get key) (gy.get n)
          if v = .ok then go (n + 1) fuel else (v, n)
        | _ => (.badInput, n)
    go 0 gx.data.size
  | _, _ => (.badInput, 0)

/-! ### C03: symmetric scale selection -/

inductive C03Verdict where
  | ok | badInput | scaleNotFinite | saturates | notFullRange | wrongShape
  deriving DecidableEq, Repr

def C03Verdict.name : C03Verdict → String
  | .ok => "ok" | .badInput => "bad-input" | .scaleNotFinite => "scale-not-finite"
  | .saturates => "saturates" | .notFullRange => "not-full-range" | .wrongShape => "wrong-shape"

/-- one slice: all its elements `xs`, the selected scale `s`, the divisor `qmax` -/
def specC03Slice (F : Fmt) (qmax : Rat) (xs : List Rat) (s : FV) : C03Verdict :=
  let amax := xs.foldl (fun a x => ratMax a (rabs x)) 0
  match s with
  | .fin sq =>
    if sq < 0 then .scaleNotFinite else
    if amax = 0 then (if sq ≤ 2 * F.eta then .ok else .notFullRange) else
    -- no element saturates by more than rounding: |x| ≤ s·qmax(1 + 2u) + η·qmax
    -- (the absolute term covers a scale that underflows in the subnormal range of F)
    if !(xs.all fun x => rabs x ≤ sq * qmax * (1 + 2 * F.u) + F.eta * qmax) then .saturates else
    -- full range: s ≤ amax/qmax (1+u) + 2η  (2η ≥ the smallest positive value of F, to which a null scale is clamped)
    if sq > amax / qmax * (1 + F.u) + 2 * F.eta then .notFullRange else .ok
  | _ => .scaleNotFinite

/-- whole tensor for an 8-bit symmetric scale (`axis` none / first / last) -/
def specC03 (F : Fmt) (qmax : Rat) (x : T FV) (axis : Axis) (scale : T FV) : C03Verdict × Nat :=
  let fins (l : List FV) : List Rat := l.filterMap fun v => match v with | .fin q => some q | _ => none
  match axis with
  | none =>
    if scale.shape ≠ [] || scale.data.size ≠ 1 then (.wrongShape, 0) else
    (specC03Slice F qmax (fins x.data.toList) (scale.get 0), 0)
  | some af =>
    if scale.shape ≠ keptShape x.shape af || !scale.wf then (.wrongShape, 0) else
    let k := keptDim x.shape af
    let rec go (key : Nat) (fuel : Nat) : C03Verdict × Nat :=
      match fuel with
      | 0 => (.ok, 0)
      | fuel + 1 =>
        if key ≥ k then (.ok, 0) else
        let xs := fins ((List.range x.data.size).filterMap fun n => if keyAt x.shape af n = key then some (x.get n) else none)
        let v := specC03Slice F qmax xs (scale.get key)
        if v = .ok then go (key + 1) fuel else (v, key)
    go 0 k

end Quanto

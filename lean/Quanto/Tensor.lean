/-
L1 — logical tensors: shape + row-major contents.  Strides are not modelled.
Data movement is expressed as `gather` over a source-index map built from
`flat` / `unflat`, so every movement op commutes with elementwise maps by one lemma.
-/
namespace Quanto

/-- number of elements of a shape -/
def prod : List Nat → Nat
  | [] => 1
  | d :: ds => d * prod ds

/-- row-major flat index of a multi-index -/
def flat : List Nat → List Nat → Nat
  | _ :: ds, i :: is => i * prod ds + flat ds is
  | _, _ => 0

/-- multi-index of a flat position -/
def unflat : List Nat → Nat → List Nat
  | [], _ => []
  | _ :: ds, n => (n / prod ds) :: unflat ds (n % prod ds)

/-- `idx` is a valid multi-index into `shape` -/
def validIdx : List Nat → List Nat → Prop
  | [], [] => True
  | d :: ds, i :: is => i < d ∧ validIdx ds is
  | _, _ => False

structure T (α : Type) where
  shape : List Nat
  data : Array α
  deriving Repr, BEq

namespace T
variable {α β : Type}

def numel (t : T α) : Nat := prod t.shape
def wf (t : T α) : Bool := t.data.size == prod t.shape

def get [Inhabited α] (t : T α) (i : Nat) : α := t.data[i]!

def map (f : α → β) (t : T α) : T β := ⟨t.shape, t.data.map f⟩

/-- build a tensor of shape `s` whose position `n` holds `f n` -/
def ofFn (s : List Nat) (f : Nat → α) : T α := ⟨s, Array.ofFn (n := prod s) fun i => f i.val⟩

/-- data movement: position `n` of the result reads `src n` of the input -/
def gather [Inhabited α] (t : T α) (s : List Nat) (src : Nat → Nat) : T α :=
  ofFn s fun n => t.get (src n)

def reshape (t : T α) (s : List Nat) : T α := ⟨s, t.data⟩

end T

/-! ### broadcasting (right aligned, as torch) -/

/-- pad a shape on the left with ones to rank `r` -/
def padShape (r : Nat) (s : List Nat) : List Nat := List.replicate (r - s.length) 1 ++ s

def bcastDims : List Nat → List Nat → Option (List Nat)
  | [], [] => some []
  | a :: as, b :: bs =>
    match bcastDims as bs with
    | none => none
    | some r => if a = b then some (a :: r) else if a = 1 then some (b :: r) else if b = 1 then some (a :: r) else none
  | _, _ => none

/-- broadcast shape of two shapes, `none` if incompatible -/
def bcastShape (a b : List Nat) : Option (List Nat) :=
  let r := max a.length b.length
  bcastDims (padShape r a) (padShape r b)

/-- index into a (padded) source shape for a multi-index of the broadcast shape -/
def bcastIdx : List Nat → List Nat → List Nat
  | d :: ds, i :: is => (if d = 1 then 0 else i) :: bcastIdx ds is
  | _, _ => []

/-- flat source position in a tensor of shape `src` for flat position `n` of the broadcast shape `out` -/
def bcastSrc (out src : List Nat) (n : Nat) : Nat :=
  let ps := padShape out.length src
  flat ps (bcastIdx ps (unflat out n))

/-! ### permutation of axes -/

def permuteShape (s : List Nat) (perm : List Nat) : List Nat := perm.map fun k => s.getD k 0

/-- source flat index (in shape `s`) for flat position `n` of `permute s perm` -/
def permuteSrc (s : List Nat) (perm : List Nat) (n : Nat) : Nat :=
  let out := permuteShape s perm
  let oi := unflat out n
  -- input multi-index: input axis perm[k] takes output coordinate k
  let ii := (List.range s.length).map fun a =>
    match perm.idxOf? a with
    | some k => oi.getD k 0
    | none => 0
  flat s ii

def T.permute {α : Type} [Inhabited α] (t : T α) (perm : List Nat) : T α :=
  t.gather (permuteShape t.shape perm) (permuteSrc t.shape perm)

/-! ### reductions along "all dims but one" (what the optimizers use) -/

/-- key (kept-axis coordinate) of flat position `n`: axis 0 keeps the first coordinate,
axis -1 the last -/
def keyOf (shape : List Nat) (axisFirst : Bool) (n : Nat) : Nat :=
  match shape with
  | [] => 0
  | d :: ds => if axisFirst then n / prod ds else n % (shape.getLast?.getD d)

end Quanto

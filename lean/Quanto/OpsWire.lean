/-
Wire encoding of `Val` for the `op05` driver command.
-/
import Quanto.Ops
import Quanto.Wire
namespace Quanto

def showBoolT (t : T Bool) : String :=
  s!"b;{showShape t.shape};{showNatList (t.data.toList.map fun b => if b then 1 else 0)}"

def fmtName (F : Fmt) : String :=
  if F == f32 then "f32" else if F == f16 then "f16" else if F == bf16 then "bf16" else if F == e4m3 then "e4m3" else if F == e5m2 then "e5m2" else "f64"

def qtName : QT → String
  | .qint8 => "qint8" | .e4m3 => "e4m3" | .e5m2 => "e5m2"

partial def showVal : Val → String
  | .plain F t => s!"p;{fmtName F};{showShape t.shape};{showFT F t}"
  | .qb q => s!"q;{fmtName q.F};{qtName q.Q};{showAxis q.axis};{showShape q.size};{showShape q.data.shape};{showIntList (q.data.data.toList.map (showCode q.Q))};{showShape q.scale.shape};{showFT q.F q.scale}"
  | .boolT t => showBoolT t
  | .scalar q => s!"s;{q.num};{q.den}"
  | .listV l => s!"l;{l.length}" ++ String.join (l.map fun v => " " ++ showVal v)
  | .fail e => s!"e;{e.name}"

def parseOneVal (tok : String) : Val :=
  match tok.splitOn ";" with
  | ["p", f, shape, bits] => let F := fmtOfName f; .plain F (parseFT F shape bits)
  | ["q", f, q, axis, size, dshape, codes, sshape, sbits] =>
      let F := fmtOfName f
      let Q := qtOfName q
      let ax : Axis := if axis == "none" then none else some (axis == "0")
      .qb ⟨F, Q, ax, parseShape size, ⟨parseShape dshape, ((parseIntList codes).map (parseCode Q)).toArray⟩, parseFT F sshape sbits⟩
  | ["b", shape, bits] => .boolT ⟨parseShape shape, ((parseNatList bits).map (· == 1)).toArray⟩
  | ["s", n, d] => .scalar ((n.toInt! : Rat) / (d.toNat! : Rat))
  | ["e", _] => .fail .other
  | _ => .fail .other

/-- parse `n` values from a token list (lists are `l;k` followed by k tokens) -/
partial def parseVals : Nat → List String → List Val × List String
  | 0, rest => ([], rest)
  | _ + 1, [] => ([], [])
  | n + 1, tok :: rest =>
    if tok.startsWith "l;" then
      let k := (tok.drop 2).toString.toNat!
      let (items, rest') := parseVals k rest
      let (more, rest'') := parseVals n rest'
      (.listV items :: more, rest'')
    else
      let (more, rest') := parseVals n rest
      (parseOneVal tok :: more, rest')

/-- a plain tensor moved by a movement op -/
def plainMove (m : MoveOp) (F : Fmt) (t : T FV) : Val := optToVal F (m.apply t)

def applyMoveVal (m : MoveOp) : Val → Val
  | .qb q => qbMove m q
  | .plain F t => plainMove m F t
  | _ => .fail .typeError

def ints (s : String) : List Int := parseIntList s
def nats (s : String) : List Nat := parseNatList s

/-- `op05 name params n vals… [oracle]` -/
def runOp05 (name params : String) (vals : List Val) : Val :=
  let ip := ints params
  let i (k : Nat) : Int := ip.getD k 0
  match name, vals with
  | "view", [v] => applyMoveVal (.view (nats params)) v
  | "permute", [v] => applyMoveVal (.permute (nats params)) v
  | "transpose", [v] => applyMoveVal (.transpose (i 0) (i 1)) v
  | "select", [v] => applyMoveVal (.select (i 0) (i 1)) v
  | "slice", [v] => applyMoveVal (.slice (i 0) (i 1) (i 2) (i 3).toNat) v
  | "unsqueeze", [v] => applyMoveVal (.unsqueeze (i 0)) v
  | "expand", [v] => applyMoveVal (.expand (nats params)) v
  | "t", [.qb q] => qbT q
  | "neg", [.qb q] => qbNeg q
  | "relu", [.qb q] => qbRelu q
  | "detach", [.qb q] => qbDetach q
  | "clone", [.qb q] => qbClone q
  | "to", [.qb q] => qbToDtype q (match i 0 with | 32 => f32 | 16 => f16 | _ => bf16)
  -- a tensor factor is a scalar for quanto only when it is 0-dimensional (`is_scalar`); any other
  -- tensor (even with a single element) goes through the fallback: float result = oracle
  | "mul", [.qb q, .plain _ t, .plain F o] =>
      if t.shape == [] then (match t.get 0 with | .fin k => qbMulScalar q k | _ => .fail .other) else .plain F o
  | "mul", [.plain _ t, .qb q, .plain F o] =>
      if t.shape == [] then (match t.get 0 with | .fin k => qbMulScalar q k | _ => .fail .other) else .plain F o
  | "div", [.qb q, .plain _ t, .plain F o] =>
      if t.shape == [] then (match t.get 0 with | .fin k => qbDivScalar q k | _ => .fail .other) else .plain F o
  | "mul", [.qb q, .scalar k] => qbMulScalar q k
  | "mul", [.scalar k, .qb q] => qbMulScalar q k
  | "div", [.qb q, .scalar k] => qbDivScalar q k
  | "cat", [.listV l] => qbCat l (i 0)
  | "stack", [.listV l] => qbStack (i 1 == 1) l (i 0)
  | "split", [.qb q] => qbSplit (i 2 == 1) q (i 0).toNat (i 1)
  | "lt", [.qb a, .qb b] => qbLt a b
  | "softmax", [.qb q, .plain _ o] => qbSoftmax q o
  | "where", [.qb q, .plain _ o] => qbWhere q o
  | "mm_int", [.qb a, .qb b] => if mmIntRoute a b then qbMmInt a b else .fail .other
  | "deq", [.qb q] => (match q.deq with | .ok d => .plain q.F d | .error e => .fail e)
  | "fallback", [_, .plain F o] => .plain F o
  | _, _ => .fail .other

end Quanto

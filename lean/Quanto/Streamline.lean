/-
L6 — the "streamline" bookkeeping of `Calibration` (calibrate.py): which quantized modules keep
their quantized activations.  `Calibration.__torch_function__` records, for every module whose
quantized output is an argument of a torch function, whether some function returned a quantized
tensor from it; when the forward of a non-quantized parent ends (`calibrate_output`), the children
that were never required lose their activation qtype.
-/
namespace Quanto

/-- one intercepted torch function call: the modules whose (tagged) outputs are among its arguments,
and whether it returned a QBytesTensor -/
structure FnCall where
  srcs : List Nat
  quantizedOutput : Bool
  /-- names of the classes in `types` (the exact classes of the tensor-like arguments) -/
  types : List String := ["QTensor"]
  deriving Repr, DecidableEq

/-- `qinput = QTensor in types`: membership of the class `QTensor` itself — a subclass such as
`QBytesTensor` does not count -/
def FnCall.qinput (c : FnCall) : Bool := c.types.contains "QTensor"

/-- `modules_qactivations`: module id ↦ "quantized activations are required" (absent = never seen) -/
abbrev QActTable := List (Nat × Bool)

def QActTable.get (t : QActTable) (m : Nat) : Bool :=
  match t.find? (·.1 == m) with
  | some e => e.2
  | none => false

def QActTable.set (t : QActTable) (m : Nat) (v : Bool) : QActTable :=
  (m, v) :: t.filter (·.1 != m)

/-- the loop of `__torch_function__` over the arguments that carry a source module -/
def recordCall (t : QActTable) (c : FnCall) : QActTable :=
  if c.qinput then
    c.srcs.foldl (fun t m => if c.quantizedOutput then t.set m true else t.set m (t.get m)) t
  else t

def recordCalls (t : QActTable) (cs : List FnCall) : QActTable := cs.foldl recordCall t

/-- `calibrate_output` of a parent that is not itself quantized, with streamlining: among its direct
children that have quantized activations, the ones to disable -/
def disabledChildren (t : QActTable) (children : List Nat) : List Nat :=
  children.filter (fun c => !t.get c)

/-- the property-level description: a child is required iff some recorded call — one whose `types`
hold the class `QTensor` — took its output and returned a quantized tensor -/
def requiredBy (cs : List FnCall) (m : Nat) : Bool :=
  cs.any (fun c => c.qinput && c.quantizedOutput && c.srcs.contains m)

end Quanto

/-
L3 — grouping, range optimizers (`AbsmaxOptimizer`, `absmax_scale`, `MaxOptimizer`) and the
2/4-bit affine quantizer / dequantizer (`AffineQuantizer.forward`, `QBitsDequantizer.forward`).
-/
import Quanto.Float
import Quanto.Tensor
import Quanto.Symmetric
namespace Quanto

/-! ### group / ungroup (qbits/group.py) as index maps -/

/-- shape of `group(base, axis, group_size)`; `none` = ValueError -/
def groupShape (shape : List Nat) (axisFirst : Bool) (gs : Nat) : Option (List Nat) :=
  let axisDim := if axisFirst then shape.headD 0 else shape.getLastD 0
  if axisDim = 0 then none else      -- ZeroDivisionError in Python; outside every property's domain
  let axisNumel := prod shape / axisDim
  if gs = 0 then none else
  if gs > axisNumel ∨ axisNumel % gs ≠ 0 then none else
  if axisFirst then some [prod shape / gs, gs]
  else some [gs, axisDim * (axisNumel / gs)]

/-- source position (in the flat original) of flat position `n` of the grouped matrix.
axis 0: identity (a reshape).  axis -1: original viewed as (G, gs, D), grouped = (gs, D, G). -/
def groupSrc (shape : List Nat) (axisFirst : Bool) (gs : Nat) (n : Nat) : Nat :=
  if axisFirst then n else
  let D := shape.getLastD 0
  let G := prod shape / D / gs
  match unflat [gs, D, G] n with
  | [a, b, c] => flat [G, gs, D] [c, a, b]
  | _ => 0

/-- source position (in the flat grouped matrix) of flat position `n` of the original -/
def ungroupSrc (shape : List Nat) (axisFirst : Bool) (gs : Nat) (n : Nat) : Nat :=
  if axisFirst then n else
  let D := shape.getLastD 0
  let G := prod shape / D / gs
  match unflat [G, gs, D] n with
  | [c, a, b] => flat [gs, D, G] [a, b, c]
  | _ => 0

def group {α : Type} [Inhabited α] (t : T α) (axisFirst : Bool) (gs : Nat) : Except Err (T α) :=
  match groupShape t.shape axisFirst gs with
  | none => .error .valueError
  | some s => .ok (t.gather s (groupSrc t.shape axisFirst gs))

/-- `ungroup(grouped, axis, orig_shape)` -/
def ungroup {α : Type} [Inhabited α] (g : T α) (axisFirst : Bool) (orig : List Nat) : T α :=
  if g.shape = orig then g else
  if axisFirst then g.reshape orig else
  let gs := g.shape.headD 0
  g.gather orig (ungroupSrc orig axisFirst gs)

/-! ### reductions over "all dims but the kept one" with keepdim -/

/-- number of kept indices and the key of each flat position.
For a rank-1 tensor the list of reduced dims is empty, which `torch.amax/amin` treat as
"reduce everything": one slice, kept shape `[1]`. -/
def keptDim (shape : List Nat) (axisFirst : Bool) : Nat :=
  if shape.length ≤ 1 then 1 else
  if axisFirst then shape.headD 1 else shape.getLastD 1

def keyAt (shape : List Nat) (axisFirst : Bool) (n : Nat) : Nat :=
  if shape.length ≤ 1 then 0 else
  if axisFirst then n / prod shape.tail else n % shape.getLastD 1

/-- keepdim shape of the reduction -/
def keptShape (shape : List Nat) (axisFirst : Bool) : List Nat :=
  if shape.length ≤ 1 then List.replicate shape.length 1 else
  if axisFirst then shape.headD 1 :: List.replicate (shape.length - 1) 1
  else List.replicate (shape.length - 1) 1 ++ [shape.getLastD 1]

/-- the values of slice `k` (all positions whose kept-axis key is `k`), in row-major order -/
def sliceVals (t : T FV) (axisFirst : Bool) (k : Nat) : List FV :=
  (List.range t.data.size).filterMap fun n =>
    if keyAt t.shape axisFirst n = k then some (t.get n) else none

def foldSlice (f : FV → FV → FV) : List FV → FV
  | [] => .fin 0
  | v :: vs => vs.foldl f v

/-- fold the values of every slice with `f`; keepdim result.  By construction the result at
key `k` is a function of the values of slice `k` only (locality, C03). -/
def reduceSlices (t : T FV) (axisFirst : Bool) (f : FV → FV → FV) : T FV :=
  T.ofFn (keptShape t.shape axisFirst) fun k => foldSlice f (sliceVals t axisFirst k)

def reduceAll (t : T FV) (f : FV → FV → FV) : FV := foldSlice f t.data.toList

/-! ### optimizers -/

/-- smallest positive (subnormal) value of a format: `finfo.tiny * finfo.eps` -/
def Fmt.minPos (F : Fmt) : Rat := pow2 (F.emin - (F.p : Int) + 1)

/-- `torch.clamp(v, min=m)`: NaN stays NaN -/
def FV.clampMin (m : Rat) : FV → FV
  | .fin q => .fin (if q < m then m else q)
  | .ninf => .fin m
  | v => v

/-- scale of one slice with absolute maximum `r`: `clamp(r / qmax, min=smallest positive value)`
(the clamp is the repair of the null-scale defect; `clampNull = false` is the original code) -/
def absmaxOf (F : Fmt) (qmax : Rat) (clampNull : Bool) (r : FV) : FV :=
  let s := F.div r (.fin qmax)
  if clampNull then s.clampMin F.minPos else s

/-- `AbsmaxOptimizer.optimize` (weights): `amax(|x|) / (2^(bits-1)-1)`;
`absmax_scale` (activations / calibration) divides by `dtype_info(qtype.dtype).max` instead. -/
def absmaxScale (F : Fmt) (qmax : Rat) (t : T FV) (axis : Axis) (clampNull : Bool := true) : T FV :=
  let a := t.map FV.abs
  match axis with
  | none => ⟨[], #[absmaxOf F qmax clampNull (reduceAll a FV.max)]⟩
  | some af => (reduceSlices a af FV.max).map fun r => absmaxOf F qmax clampNull r

/-- float → int8 conversion with two's complement wrap-around (what this x86-64 build does for
out-of-range values below 2^31; UB in general — no theorem relies on the wrapped value) -/
def wrapInt8 (n : Int) : Int := (n + 128) % 256 - 128

def toInt8 : FV → Int
  | .fin q => if rabs q < 2147483648 then wrapInt8 q.floor else 0
  | _ => 0

/-- `MaxOptimizer.optimize` for one slice with extrema `rmin`, `rmax` (as of the repaired tree:
the range is extended to contain zero) -/
def maxOptScale (F : Fmt) (bits : Nat) (rmin rmax : FV) : FV :=
  F.div (F.sub rmax rmin) (.fin ((2 : Rat) ^ bits - 1))

def maxOptZero (F : Fmt) (rmin scale : FV) : Int :=
  toInt8 (F.div rmin.neg scale).round

/-- the clamp of the range to contain zero: `rmin = min(rmin, 0)`, `rmax = max(rmax, 0)`.
`extend = false` models the original (unrepaired) optimizer. -/
def extendRange (extend : Bool) (rmin rmax : FV) : FV × FV :=
  if extend then (FV.min rmin (.fin 0), FV.max rmax (.fin 0)) else (rmin, rmax)

structure AffineParams where
  scale : T FV
  zero : T Int
  deriving Repr

def maxOptimize (F : Fmt) (bits : Nat) (extend : Bool) (m : T FV) (axisFirst : Bool) : AffineParams :=
  let mn := reduceSlices m axisFirst FV.min
  let mx := reduceSlices m axisFirst FV.max
  let n := mn.data.size
  let pairs := (List.range n).map fun i => extendRange extend (mn.get i) (mx.get i)
  let scales := pairs.map fun p => maxOptScale F bits p.1 p.2
  let zeros := (pairs.zip scales).map fun ps => maxOptZero F ps.1.1 ps.2
  ⟨⟨mn.shape, scales.toArray⟩, ⟨mn.shape, zeros.toArray⟩⟩

/-! ### affine quantizer, one element -/

/-- float → uint8 conversion of an already clamped value (NaN → 0 on this build) -/
def toUint8 : FV → Nat
  | .fin q => q.floor.toNat % 256
  | _ => 0

/-- `clamp(round(x / scale) + zeropoint, 0, 2^bits - 1).to(uint8)` -/
def affCode (F : Fmt) (bits : Nat) (x s : FV) (z : Int) : Nat :=
  toUint8 ((F.add (F.div x s).round (.fin z)).clamp 0 ((2 : Rat) ^ bits - 1))

/-- `scale * (code.to(int8) - zeropoint.to(int8))` with int8 wrap-around of the difference -/
def affDeq (F : Fmt) (c : Nat) (s : FV) (z : Int) : FV :=
  F.mul s (.fin (wrapInt8 (wrapInt8 c - z)))

/-! ### tensor level -/

structure QBits where
  bits : Nat
  axisFirst : Bool
  groupSize : Option Nat
  size : List Nat
  data : T Nat          -- codes, in the grouped layout (before packing)
  scale : T FV
  zero : T Int
  deriving Repr

/-- broadcast position of the scale / zero-point for flat position `n` of the code matrix -/
def paramIdx (dshape pshape : List Nat) (n : Nat) : Nat := bcastSrc dshape pshape n

/-- `AffineQuantizer.forward` with given scale and zero-point -/
def affQuantizeWith (F : Fmt) (bits : Nat) (x : T FV) (axisFirst : Bool) (gs : Option Nat)
    (p : AffineParams) : Except Err QBits :=
  let base : Except Err (T FV) := match gs with
    | none => .ok x
    | some g => group x axisFirst g
  match base with
  | .error e => .error e
  | .ok b =>
    match bcastShape b.shape p.scale.shape with
    | none => .error .runtimeError
    | some out =>
      let data := T.ofFn out fun n =>
        affCode F bits (b.get (bcastSrc out b.shape n)) (p.scale.get (bcastSrc out p.scale.shape n))
          (p.zero.get (bcastSrc out p.zero.shape n))
      .ok ⟨bits, axisFirst, gs, x.shape, data, p.scale, p.zero⟩

/-- `quantize_weight` for qint2/qint4 with the default `MaxOptimizer` -/
def affQuantize (F : Fmt) (bits : Nat) (extend : Bool) (x : T FV) (axisFirst : Bool) (gs : Option Nat) :
    Except Err QBits :=
  let base : Except Err (T FV) := match gs with
    | none => .ok x
    | some g => group x axisFirst g
  match base with
  | .error e => .error e
  | .ok b => affQuantizeWith F bits x axisFirst gs (maxOptimize F bits extend b axisFirst)

/-- `QBitsTensor.dequantize` -/
def QBits.dequantize (F : Fmt) (q : QBits) : T FV :=
  let d := q.data
  let dq := T.ofFn d.shape fun n =>
    affDeq F (d.get n) (q.scale.get (bcastSrc d.shape q.scale.shape n)) (q.zero.get (bcastSrc d.shape q.zero.shape n))
  ungroup dq q.axisFirst q.size

end Quanto

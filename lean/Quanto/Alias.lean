/-
L3 — storage aliasing between quantized tensors (qbytes_ops.py): which inner tensors (payload, scale)
the result of an operation shares with its operand, and what an in-place `copy_` into one tensor does
to the other.  Storage is a map from cell identifiers to abstract contents; a quantized tensor is a
pair of cells, its dequantized value a function of the contents of both.
-/
namespace Quanto

/-- the two inner tensors of a QBytesTensor, by storage cell -/
structure QRef where
  data : Nat
  scale : Nat
  deriving DecidableEq, Repr

/-- contents of the storage cells (abstract tokens) -/
abbrev Heap := Nat → Nat

def Heap.set (h : Heap) (c v : Nat) : Heap := fun i => if i = c then v else h i

/-- what `dequantize()` depends on: the contents of the two cells (any function of them) -/
def QRef.value (t : QRef) (h : Heap) : Nat × Nat := (h t.data, h t.scale)

/-- `aten.copy_(dest, src)` as implemented: both inner tensors of `dest` are written in place -/
def copyInto (dest src : QRef) (h : Heap) : Heap :=
  (h.set dest.data (h src.data)).set dest.scale (h src.scale)

/-- what the result of an operation shares with its operand -/
inductive Sharing | fresh | scale | data | both
  deriving DecidableEq, Repr

def Sharing.name : Sharing → String
  | .fresh => "fresh" | .scale => "scale" | .data => "data" | .both => "both"

/-- the result of an operation applied to `a`, allocating cells `d`, `s` when it does not share -/
def produce (sh : Sharing) (a : QRef) (d s : Nat) : QRef :=
  match sh with
  | .fresh => ⟨d, s⟩
  | .scale => ⟨d, a.scale⟩
  | .data => ⟨a.data, s⟩
  | .both => a

/-- sharing of the intercepted operations (transcribed from qbytes_ops.py; compared on every run with
the storage pointers the implementation's results actually hold) -/
def producerSharing (op : String) : Option Sharing :=
  if op = "clone" ∨ op = "contiguous-clone" ∨ op = "to-copy" then some .fresh
  else if op = "detach" ∨ op = "t" ∨ op = "transpose" ∨ op = "unsqueeze" ∨ op = "view-flat" ∨ op = "expand-as-is" then some .both
  else if op = "neg" ∨ op = "relu" ∨ op = "cat-with-itself" ∨ op = "stack-with-itself" then some .scale
  else if op = "mul-scalar" then some .data
  else none

/-- in the float program the result is a view of its operand exactly for these operations -/
def floatIsView (op : String) : Bool :=
  op = "detach" ∨ op = "t" ∨ op = "transpose" ∨ op = "unsqueeze" ∨ op = "view-flat" ∨ op = "expand-as-is"

/-- what the float program requires of the sharing -/
def sharingRespectsFloat (op : String) (sh : Sharing) : Bool :=
  if floatIsView op then sh == .both else sh == .fresh

/-- observable outcome of `copy_` into one tensor on the other one -/
inductive Outcome | unchanged | follows | changes
  deriving DecidableEq, Repr

def Outcome.name : Outcome → String
  | .unchanged => "unchanged" | .follows => "follows" | .changes => "changes"

/-- outcome predicted from the sharing (for a source whose contents differ from the destination's) -/
def predicted (sh : Sharing) : Outcome :=
  match sh with
  | .fresh => .unchanged
  | .both => .follows
  | _ => .changes

end Quanto

/-
L3 — 8-bit symmetric quantization (`SymmetricQuantizer.forward`, `QBytesDequantizer`,
`quantize_activation`) and the absmax scale selection.
-/
import Quanto.Float
import Quanto.Tensor
namespace Quanto

/-- the 8-bit qtypes -/
inductive QT where
  | qint8 | e4m3 | e5m2
  deriving DecidableEq, Repr, Inhabited

def QT.isFloat : QT → Bool
  | .qint8 => false | _ => true

/-- storage format of a float8 qtype -/
def QT.fmt : QT → Fmt
  | .e5m2 => Quanto.e5m2 | _ => Quanto.e4m3

/-- `dtype_info(qtype.dtype).min / .max` -/
def QT.qmax : QT → Rat
  | .qint8 => 127 | .e4m3 => 448 | .e5m2 => 57344
def QT.qmin : QT → Rat
  | .qint8 => -128 | .e4m3 => -448 | .e5m2 => -57344

/-- NaN → int8 conversion observed on this x86-64 build (UB in C; never relied on in a theorem) -/
def nanToInt8 : FV := .fin 0

/-- `.to(qtype.dtype)` applied to an already clamped value -/
def QT.cast (Q : QT) (v : FV) : FV :=
  match Q with
  | .qint8 => (match v with | .nan => nanToInt8 | w => w)
  | _ => Q.fmt.rndV v

/-- one element of `SymmetricQuantizer.forward`: the stored code, as a value -/
def symCode (F : Fmt) (Q : QT) (x s : FV) : FV :=
  let d := F.div x s
  let d := if Q.isFloat then d else d.round
  Q.cast (d.clamp Q.qmin Q.qmax)

/-- one element of `QBytesDequantizer.forward` -/
def symDeq (F : Fmt) (c s : FV) : FV := F.mul s c

/-! ### tensor level -/

inductive Err where
  | valueError | typeError | runtimeError | notImplemented | attributeError | other
  deriving DecidableEq, Repr, Inhabited

def Err.name : Err → String
  | .valueError => "ValueError" | .typeError => "TypeError" | .runtimeError => "RuntimeError"
  | .notImplemented => "NotImplementedError" | .attributeError => "AttributeError" | .other => "Other"

/-- `torch.squeeze(scale).ndim` -/
def squeezedRank (s : List Nat) : Nat := (s.filter (· ≠ 1)).length

/-- normalised axis after the validation ladder: `none`, `some true` (axis 0), `some false` (axis -1) -/
abbrev Axis := Option Bool

/-- The sanity checks of `SymmetricQuantizer.forward`.  `axis` is the raw integer argument. -/
def symValidate (shape : List Nat) (axis : Option Int) (sshape : List Nat) : Except Err Axis :=
  match axis with
  | none => if sshape.length > 0 then .error .valueError else .ok none
  | some a =>
    if shape.length = 1 then .error .valueError else
    let a : Int := if a = (shape.length : Int) - 1 then -1 else a
    if a ≠ 0 ∧ a ≠ -1 then .error .valueError else
    let dim := if a = 0 then shape.headD 0 else shape.getLastD 0
    if dim = 1 then .error .valueError else
    if squeezedRank sshape > 1 then .error .valueError else
    if sshape.length ≠ shape.length then .error .valueError else
    -- one value per index of the quantization axis (added by the repair of the wrong-axis scale defect)
    let sdim := if a = 0 then sshape.headD 0 else sshape.getLastD 0
    if sdim ≠ dim ∨ prod sshape ≠ dim then .error .valueError else
    .ok (some (a = 0))

structure QBytes where
  axis : Axis
  size : List Nat
  data : T FV        -- codes (as values); shape = broadcast of base and scale
  scale : T FV
  deriving Repr

/-- `SymmetricQuantizer.forward` on a whole tensor -/
def symQuantize (F : Fmt) (Q : QT) (x : T FV) (axis : Option Int) (scale : T FV) : Except Err QBytes :=
  match symValidate x.shape axis scale.shape with
  | .error e => .error e
  | .ok ax =>
    match bcastShape x.shape scale.shape with
    | none => .error .runtimeError
    | some out =>
      let data := T.ofFn out fun n =>
        symCode F Q (x.get (bcastSrc out x.shape n)) (scale.get (bcastSrc out scale.shape n))
      .ok ⟨ax, x.shape, data, scale⟩

/-- `QBytesTensor.dequantize` -/
def QBytes.dequantize (F : Fmt) (q : QBytes) : Except Err (T FV) :=
  match bcastShape q.scale.shape q.data.shape with
  | none => .error .runtimeError
  | some out =>
    .ok (T.ofFn out fun n =>
      symDeq F (q.data.get (bcastSrc out q.data.shape n)) (q.scale.get (bcastSrc out q.scale.shape n)))

end Quanto

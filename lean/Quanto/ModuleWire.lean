/-
Wire format of module trees for the `quant08` driver command:
  tree := 'L' id ':' kind [ '~' weights '~' activations ]
        | 'N' id ':' cls '(' [ name '=' tree { ',' name '=' tree } ] ')'
-/
import Quanto.Module
namespace Quanto

instance : Inhabited Mod := ⟨.leaf 0 (.other "?") none⟩

def kindName : LeafKind → String
  | .linear => "lin" | .conv2d => "conv" | .layerNorm => "ln" | .other c => "o-" ++ c

def kindOfName (s : String) : LeafKind :=
  if s == "lin" then .linear else if s == "conv" then .conv2d else if s == "ln" then .layerNorm
  else .other ((s.drop 2).toString)

def qtName? : Option QType → String
  | none => "none" | some q => q.name

def qtOfName? (s : String) : Option QType := if s == "none" then none else QType.ofName s

mutual
partial def showMod : Mod → String
  | .leaf id k none => s!"L{id}:{kindName k}"
  | .leaf id k (some c) => s!"L{id}:{kindName k}~{qtName? c.weights}~{qtName? c.activations}"
  | .node id cls cs => s!"N{id}:{cls}(" ++ ",".intercalate (showChildren cs) ++ ")"
partial def showChildren : List (String × Mod) → List String
  | [] => []
  | (n, m) :: rest => (n ++ "=" ++ showMod m) :: showChildren rest
end

def isSep (c : Char) : Bool := c == ':' || c == ',' || c == '(' || c == ')' || c == '=' || c == '~'

def takeWord (cs : List Char) : String × List Char :=
  (String.ofList (cs.takeWhile (!isSep ·)), cs.dropWhile (!isSep ·))

mutual
partial def parseMod (cs : List Char) : Mod × List Char :=
  match cs with
  | 'L' :: rest =>
    let (ids, r1) := takeWord rest
    let (kind, r2) := takeWord (r1.drop 1)
    match r2 with
    | '~' :: r3 =>
      let (w, r4) := takeWord r3
      let (a, r5) := takeWord (r4.drop 1)
      (.leaf ids.toNat! (kindOfName kind) (some ⟨qtOfName? w, qtOfName? a⟩), r5)
    | _ => (.leaf ids.toNat! (kindOfName kind) none, r2)
  | 'N' :: rest =>
    let (ids, r1) := takeWord rest
    let (cls, r2) := takeWord (r1.drop 1)
    let (children, r3) := parseChildren (r2.drop 1)
    (.node ids.toNat! cls children, r3)
  | _ => (.leaf 0 (.other "?") none, cs)
partial def parseChildren (cs : List Char) : List (String × Mod) × List Char :=
  match cs with
  | ')' :: rest => ([], rest)
  | ',' :: rest => parseChildren rest
  | [] => ([], [])
  | _ =>
    let (name, r1) := takeWord cs
    let (m, r2) := parseMod (r1.drop 1)
    let (more, r3) := parseChildren r2
    ((name, m) :: more, r3)
end

end Quanto

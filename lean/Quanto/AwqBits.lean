/-
L3 — `AWQBitsTensor` (qbits/awq/qbits.py): construction from the standard representation,
dequantization, conversion back to the standard representation.  float16, axis 0, group size 128
in practice; the model is parametric in the group size.
-/
import Quanto.Awq
import Quanto.Affine
namespace Quanto

def transpose2 {α : Type} [Inhabited α] (t : T α) : T α := t.permute [1, 0]

structure AwqBits where
  size : List Nat            -- [N, K]
  groupSize : Nat
  packed : T Nat             -- [N/4, K] int16 bit patterns
  scale : T FV               -- [K/gs, N]
  zs : T FV                  -- [K/gs, N]  zero-points scaled and negated
  deriving Repr

/-- `AWQBitsTensor.__init__` from unpacked grouped data, scale and zero-point of a QBitsTensor -/
def AwqBits.ofQBits (F : Fmt) (q : QBits) : AwqBits :=
  let N := q.size.headD 0
  let K := q.size.getD 1 0
  let gs := q.groupSize.getD K
  let G := K / gs
  let ungrouped := q.data.reshape q.size          -- axis 0: ungroup is a reshape
  let scale' := transpose2 (q.scale.reshape [N, G])
  let zero' := transpose2 (q.zero.reshape [N, G])
  let zs := T.ofFn [G, N] fun i => F.mul (.fin (wrapInt8 (-(zero'.get i)))) (scale'.get i)
  ⟨q.size, gs, awqPackV2 ungrouped, scale', zs⟩

/-- `AWQBitsDequantizer.forward` : `scale * unpacked + zeropoint` per group, restored to [N, K] -/
def AwqBits.dequantize (F : Fmt) (a : AwqBits) : T FV :=
  let N := a.size.headD 0
  let K := a.size.getD 1 0
  let gs := a.groupSize
  let nS := a.scale.data.size
  let unpacked := (awqUnpackV2 a.packed).reshape [N * K / gs, gs]
  let s := (transpose2 a.scale).reshape [nS, 1]
  let z := (transpose2 a.zs).reshape [nS, 1]
  (T.ofFn [N * K / gs, gs] fun n =>
    F.add (F.mul (s.get (n / gs)) (.fin (unpacked.get n))) (z.get (n / gs))).reshape a.size

/-- `AWQBitsTensor.qbits_tensor` as repaired: group the unpacked codes again and turn the scaled,
negated zero-points back into integers -/
def AwqBits.toQBits (F : Fmt) (bits : Nat) (a : AwqBits) : QBits :=
  let N := a.size.headD 0
  let K := a.size.getD 1 0
  let gs := a.groupSize
  let nS := a.scale.data.size
  let data := (awqUnpackV2 a.packed).reshape [N * K / gs, gs]
  let s := (transpose2 a.scale).reshape [nS, 1]
  let z := (transpose2 a.zs).reshape [nS, 1]
  let zero : T Int := T.ofFn [nS, 1] fun i => toInt8 (F.div (z.get i).neg (s.get i)).round
  ⟨bits, true, some gs, a.size, data, s, zero⟩

/-- shape of the payload handed to `QBitsTensor` by the ORIGINAL `qbits_tensor` (codes not grouped
again, zero-points left as scaled floats): kept to state the counter-example of the repaired defect -/
def AwqBits.origBackDataShape (a : AwqBits) : List Nat := a.size

end Quanto

/-
L6 — serialization of quantized tensors and modules (qtensor.py `save_to_state_dict`,
`__tensor_flatten__` / `__tensor_unflatten__`, `load_from_state_dict`, qmodule.py
`_save_to_state_dict` / `_load_from_state_dict`): which keys are written, what the string
metadata looks like (`str` of ints / None / lists / tuples) and how it is read back
(`ast.literal_eval`).
-/
import Quanto.Config
namespace Quanto

/-- the Python values quanto stores as strings -/
inductive PyMeta where
  | int (n : Int)
  | none
  | list (l : List Int)        -- `str(list(t.size()))`
  | tuple (l : List Int)       -- `str(t.stride())`
  deriving DecidableEq, Repr

def joinInts (l : List Int) : String := ", ".intercalate (l.map toString)

/-- Python `str(v)` -/
def PyMeta.str : PyMeta → String
  | .int n => toString n
  | .none => "None"
  | .list l => "[" ++ joinInts l ++ "]"
  | .tuple [x] => "(" ++ toString x ++ ",)"
  | .tuple l => "(" ++ joinInts l ++ ")"

def parseIntsCsv (s : String) : Option (List Int) :=
  if s.trimAscii.toString = "" then some [] else
  ((s.splitOn ",").filter (fun t => t.trimAscii.toString ≠ "")).mapM fun t => t.trimAscii.toString.toInt?

/-- `ast.literal_eval` restricted to the forms above -/
def PyMeta.parse (s : String) : Option PyMeta :=
  if s = "None" then some .none
  else if s.startsWith "[" && s.endsWith "]" then
    (parseIntsCsv ((s.drop 1).dropEnd 1).toString).map .list
  else if s.startsWith "(" && s.endsWith ")" then
    (parseIntsCsv ((s.drop 1).dropEnd 1).toString).map .tuple
  else s.toInt?.map .int

/-- a leaf of a state_dict: a plain tensor (identified by a name: the payload is carried
unchanged by the serializers) or a string -/
inductive Leaf where
  | tensor (ref : String)
  | str (s : String)
  deriving DecidableEq, Repr

abbrev StateDict := List (String × Leaf)

/-- a `PackedTensor` as far as serialization sees it -/
structure PackedMeta where
  dataRef : String
  bits : Nat
  size : List Int
  stride : List Int
  deriving DecidableEq, Repr

structure QBytesSer where
  dataRef : String
  scaleRef : String
  qtype : String
  axis : Option Int
  size : List Int
  stride : List Int
  deriving DecidableEq, Repr

structure QBitsSer where
  packed : PackedMeta
  scaleRef : String
  zeroRef : String
  qtype : String
  axis : Option Int
  groupSize : Option Int
  size : List Int
  stride : List Int
  deriving DecidableEq, Repr

def optInt : Option Int → PyMeta
  | some n => .int n
  | none => .none

/-- `QBytesTensor.save_to_state_dict(destination, prefix)` : inner tensors, then the meta strings -/
def QBytesSer.flatten (pre : String) (q : QBytesSer) : StateDict :=
  [ (pre ++ "_data", .tensor q.dataRef), (pre ++ "_scale", .tensor q.scaleRef),
    (pre ++ "qtype", .str q.qtype), (pre ++ "axis", .str (optInt q.axis).str),
    (pre ++ "size", .str (PyMeta.list q.size).str), (pre ++ "stride", .str (PyMeta.list q.stride).str) ]

/-- `PackedTensor` is flattened recursively under `<prefix>_data.` -/
def PackedMeta.flatten (pre : String) (p : PackedMeta) : StateDict :=
  [ (pre ++ "_data", .tensor p.dataRef), (pre ++ "bits", .str (PyMeta.int p.bits).str),
    (pre ++ "size", .str (PyMeta.list p.size).str), (pre ++ "stride", .str (PyMeta.tuple p.stride).str) ]

def QBitsSer.flatten (pre : String) (q : QBitsSer) : StateDict :=
  q.packed.flatten (pre ++ "_data.") ++
  [ (pre ++ "_scale", .tensor q.scaleRef), (pre ++ "_zeropoint", .tensor q.zeroRef),
    (pre ++ "qtype", .str q.qtype), (pre ++ "axis", .str (optInt q.axis).str),
    (pre ++ "group_size", .str (optInt q.groupSize).str),
    (pre ++ "size", .str (PyMeta.list q.size).str), (pre ++ "stride", .str (PyMeta.list q.stride).str) ]

def sdGet (sd : StateDict) (k : String) : Option Leaf := (sd.find? (·.1 = k)).map (·.2)

def leafTensor : Option Leaf → Option String
  | some (.tensor r) => some r
  | _ => none

def leafMeta : Option Leaf → Option PyMeta
  | some (.str s) => PyMeta.parse s
  | _ => none

def metaList : Option PyMeta → Option (List Int)
  | some (.list l) => some l
  | some (.tuple l) => some l
  | _ => none

def metaOptInt : Option PyMeta → Option (Option Int)
  | some (.int n) => some (some n)
  | some .none => some none
  | _ => none

/-- `QBytesTensor.load_from_state_dict` -/
def QBytesSer.unflatten (pre : String) (sd : StateDict) : Option QBytesSer := do
  let d ← leafTensor (sdGet sd (pre ++ "_data"))
  let s ← leafTensor (sdGet sd (pre ++ "_scale"))
  let qt ← match sdGet sd (pre ++ "qtype") with | some (.str q) => some q | _ => none
  let ax ← metaOptInt (leafMeta (sdGet sd (pre ++ "axis")))
  let sz ← metaList (leafMeta (sdGet sd (pre ++ "size")))
  let st ← metaList (leafMeta (sdGet sd (pre ++ "stride")))
  pure ⟨d, s, qt, ax, sz, st⟩

def PackedMeta.unflatten (pre : String) (sd : StateDict) : Option PackedMeta := do
  let d ← leafTensor (sdGet sd (pre ++ "_data"))
  let b ← match leafMeta (sdGet sd (pre ++ "bits")) with | some (.int n) => some n.toNat | _ => none
  let sz ← metaList (leafMeta (sdGet sd (pre ++ "size")))
  let st ← metaList (leafMeta (sdGet sd (pre ++ "stride")))
  pure ⟨d, b, sz, st⟩

def QBitsSer.unflatten (pre : String) (sd : StateDict) : Option QBitsSer := do
  let p ← PackedMeta.unflatten (pre ++ "_data.") sd
  let s ← leafTensor (sdGet sd (pre ++ "_scale"))
  let z ← leafTensor (sdGet sd (pre ++ "_zeropoint"))
  let qt ← match sdGet sd (pre ++ "qtype") with | some (.str q) => some q | _ => none
  let ax ← metaOptInt (leafMeta (sdGet sd (pre ++ "axis")))
  let gs ← metaOptInt (leafMeta (sdGet sd (pre ++ "group_size")))
  let sz ← metaList (leafMeta (sdGet sd (pre ++ "size")))
  let st ← metaList (leafMeta (sdGet sd (pre ++ "stride")))
  pure ⟨p, s, z, qt, ax, gs, sz, st⟩

/-! ### module level -/

inductive WeightSer where
  | float (ref : String)
  | qbytes (q : QBytesSer)
  | qbits (q : QBitsSer)
  deriving DecidableEq, Repr

structure QModuleSer where
  weight : WeightSer
  bias : Option String
  inputScale : String
  outputScale : String
  weightQtype : Option String
  activationQtype : Option String
  deriving DecidableEq, Repr

def qtStr : Option String → String
  | some q => q
  | none => "none"

/-- `QModuleMixin._save_to_state_dict` -/
def QModuleSer.save (pre : String) (m : QModuleSer) : StateDict :=
  (match m.weight with
   | .float r => [(pre ++ "weight", Leaf.tensor r)]
   | .qbytes q => q.flatten (pre ++ "weight.")
   | .qbits q => q.flatten (pre ++ "weight.")) ++
  (match m.bias with | some b => [(pre ++ "bias", Leaf.tensor b)] | none => []) ++
  [ (pre ++ "input_scale", .tensor m.inputScale), (pre ++ "output_scale", .tensor m.outputScale),
    (pre ++ "weight_qtype", .str (qtStr m.weightQtype)), (pre ++ "activation_qtype", .str (qtStr m.activationQtype)) ]

def strQt (s : String) : Option String := if s = "none" then none else some s

/-- `QModuleMixin._load_from_state_dict` into a module that has a bias iff `hasBias` -/
def QModuleSer.load (pre : String) (hasBias : Bool) (sd : StateDict) : Option QModuleSer := do
  let wq ← match sdGet sd (pre ++ "weight_qtype") with | some (.str q) => some (strQt q) | _ => none
  let aq ← match sdGet sd (pre ++ "activation_qtype") with | some (.str q) => some (strQt q) | _ => none
  let w ← match sdGet sd (pre ++ "weight") with
    | some (.tensor r) => some (WeightSer.float r)
    | _ =>
      match wq with
      | none => none
      | some q =>
        if q = "qint2" ∨ q = "qint4" then (QBitsSer.unflatten (pre ++ "weight.") sd).map .qbits
        else (QBytesSer.unflatten (pre ++ "weight.") sd).map .qbytes
  let b ← if hasBias then (leafTensor (sdGet sd (pre ++ "bias"))).map some else some none
  let i ← leafTensor (sdGet sd (pre ++ "input_scale"))
  let o ← leafTensor (sdGet sd (pre ++ "output_scale"))
  pure ⟨w, b, i, o, wq, aq⟩

/-- the state_dict of a whole model: every quantized module writes its entries under its own dotted
prefix (`nn.Module.state_dict` walks the sub-modules and calls `_save_to_state_dict` with
`prefix + name + "."`), into one shared dictionary -/
def modelSave (ms : List (String × QModuleSer)) : StateDict :=
  (ms.map fun pm => pm.2.save pm.1).flatten

end Quanto

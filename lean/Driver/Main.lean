import Quanto.Wire
import Quanto.Spec.C01
import Quanto.Spec.C04
import Quanto.Spec.C02
import Quanto.Spec.C06
import Quanto.AwqBits
import Quanto.AwqSelect
import Quanto.Alias
import Quanto.Streamline
import Quanto.OpsWire
import Quanto.Spec.C05
import Quanto.Linear
import Quanto.Calib
import Quanto.ModuleWire
import Quanto.Flat
import Quanto.Serial
open Quanto

/-- scalar-or-per-element lookup -/
def pick (l : Array FV) (i : Nat) : FV := if l.size = 1 then l[0]! else l[i]!

def firstFails (vs : List String) : String :=
  let bad := (vs.zipIdx.filter fun p => p.1 ≠ "ok" && p.1 ≠ "same")
  if bad.isEmpty then "ok" else
    "fail " ++ " ".intercalate ((bad.take 8).map fun p => s!"{p.2}:{p.1}") ++ s!" n={bad.length}"

def handle (toks : List String) : String :=
  match toks with
  | ["ping"] => "pong"
  -- float primitives (used to validate the float model itself)
  | ["rnd", f, num, den] =>
      let F := fmtOfName f
      toString (F.encode (F.rnd ((num.toInt! : Rat) / (den.toNat! : Rat))))
  | ["div", f, a, b] =>
      let F := fmtOfName f
      toString (F.encode (F.div (F.decode a.toNat!) (F.decode b.toNat!)))
  | ["mul", f, a, b] =>
      let F := fmtOfName f
      toString (F.encode (F.mul (F.decode a.toNat!) (F.decode b.toNat!)))
  | ["sub", f, a, b] =>
      let F := fmtOfName f
      toString (F.encode (F.sub (F.decode a.toNat!) (F.decode b.toNat!)))
  | ["add", f, a, b] =>
      let F := fmtOfName f
      toString (F.encode (F.add (F.decode a.toNat!) (F.decode b.toNat!)))
  | ["recode", f, a] =>
      let F := fmtOfName f
      toString (F.encode (F.decode a.toNat!))
  -- C01: sym F Q axis shape xbits sshape sbits
  | ["sym", f, q, axis, shape, xb, sshape, sb] =>
      let F := fmtOfName f
      let Q := qtOfName q
      let x := parseFT F shape xb
      let s := parseFT F sshape sb
      match symQuantize F Q x (parseAxis axis) s with
      | .error e => s!"err {e.name}"
      | .ok qb =>
        match qb.dequantize F with
        | .error e => s!"err {e.name}"
        | .ok d =>
          -- re-quantization of the dequantized tensor with the same scale (idempotence half of C01)
          let again := match symQuantize F Q d (parseAxis axis) s with
            | .error e => s!"err:{e.name}"
            | .ok q2 => showIntList (q2.data.data.toList.map (showCode Q))
          s!"ok {showAxis qb.axis} {showShape qb.data.shape} {showIntList (qb.data.data.toList.map (showCode Q))} {showShape d.shape} {showFT F d} {again}"
  -- spec01 F Q xbits sbits codes ybits   (elementwise; scale list of length 1 or n)
  | ["spec01", f, q, xb, sb, cb, yb] =>
      let F := fmtOfName f
      let Q := qtOfName q
      let xs := ((parseNatList xb).map F.decode).toArray
      let ss := ((parseNatList sb).map F.decode).toArray
      let cs := ((parseIntList cb).map (parseCode Q)).toArray
      let ys := ((parseNatList yb).map F.decode).toArray
      let grid := Q.grid
      firstFails ((List.range xs.size).map fun i => (specC01G F Q grid xs[i]! (pick ss i) cs[i]! ys[i]!).name)
  | ["idem01", f, q, sb, cb, c2b] =>
      let F := fmtOfName f
      let Q := qtOfName q
      let ss := ((parseNatList sb).map F.decode).toArray
      let cs := ((parseIntList cb).map (parseCode Q)).toArray
      let c2 := ((parseIntList c2b).map (parseCode Q)).toArray
      firstFails ((List.range cs.size).map fun i => (specC01Idem F (pick ss i) cs[i]! c2[i]!).name)
  -- C02/C03/C16: aff F bits extend axis gs shape xbits
  | ["aff", f, bits, ext, axis, gs, shape, xb] =>
      let F := fmtOfName f
      let x := parseFT F shape xb
      let af := axis == "0"
      let g : Option Nat := if gs == "none" then none else some gs.toNat!
      match affQuantize F bits.toNat! (ext == "1") x af g with
      | .error e => s!"err {e.name}"
      | .ok q =>
        let d := q.dequantize F
        let again := match affQuantizeWith F bits.toNat! d af g ⟨q.scale, q.zero⟩ with
          | .error e => s!"err:{e.name}"
          | .ok q2 => showNatList q2.data.data.toList
        s!"ok {showShape q.data.shape} {showNatList q.data.data.toList} {showShape q.scale.shape} {showFT F q.scale} {showIntList q.zero.data.toList} {showShape d.shape} {showFT F d} {again}"
  -- absmax F qmax axis shape xbits   (AbsmaxOptimizer: qmax=127; absmax_scale: dtype max)
  | ["absmax", f, qmax, axis, shape, xb] =>
      let F := fmtOfName f
      let x := parseFT F shape xb
      let ax : Axis := if axis == "none" then none else some (axis == "0")
      let s := absmaxScale F (qmax.toNat! : Rat) x ax
      s!"{showShape s.shape} {showFT F s}"
  | ["absmaxw", f, axis, shape, xb] =>
      let F := fmtOfName f
      let x := parseFT F shape xb
      let ax : Axis := if axis == "none" then none else some (axis == "0")
      let s := absmaxScale F 127 x ax
      s!"{showShape s.shape} {showFT F s}"
  | ["spec02", f, bits, axis, gs, shape, xb, pshape, sb, gshape, cb, zb, yb] =>
      let F := fmtOfName f
      let g : Option Nat := if gs == "none" then none else some gs.toNat!
      let codes : T Nat := ⟨parseShape gshape, (parseNatList cb).toArray⟩
      let zero : T Int := ⟨parseShape pshape, (parseIntList zb).toArray⟩
      let r := specC02 F bits.toNat! (parseFT F shape xb) (axis == "0") g (parseFT F pshape sb) codes zero (parseFT F shape yb)
      if r.1 = .ok then "ok" else s!"fail {r.1.name} {r.2}"
  | ["spec03", f, qmax, axis, shape, xb, sshape, sb] =>
      let F := fmtOfName f
      let ax : Axis := if axis == "none" then none else some (axis == "0")
      let r := specC03 F (qmax.toNat! : Rat) (parseFT F shape xb) ax (parseFT F sshape sb)
      if r.1 = .ok then "ok" else s!"fail {r.1.name} {r.2}"
  -- C14: cfgw shape qtype axis gs opt
  | ["cfgw", shape, q, axis, gs, opt] =>
      let qt := (QType.ofName q).getD .qint8
      let g : Option Nat := if gs == "none" then none else some gs.toNat!
      let o : OptFamily := match opt with | "symmetric" => .symmetric | "affine" => .affine | _ => .default
      match validateWeight (parseShape shape) qt (parseAxis axis) g o with
      | .error e => s!"err {e.name}"
      | .ok c => s!"ok {c.qtype.name} {showAxis c.axis} {match c.groupSize with | none => "none" | some g => toString g}"
  | ["cfga", sshape] =>
      match validateActivation (parseShape sshape) with
      | .error e => s!"err {e.name}"
      | .ok _ => "ok"
  | ["cfgq", shape, q, axis, gs] =>
      let qt := (QType.ofName q).getD .qint8
      let g : Option Nat := if gs == "none" then none else some gs.toNat!
      match validateAffine (parseShape shape) qt (parseAxis axis) g with
      | .error e => s!"err {e.name}"
      | .ok _ => "ok"
  | ["cfgs", shape, axis, sshape] =>
      match symValidate (parseShape shape) (parseAxis axis) (parseShape sshape) with
      | .error e => s!"err {e.name}"
      | .ok a => s!"ok {showAxis a}"
  | ["autogroup", n] =>
      match autoGroup n.toNat! with
      | none => "none"
      | some g => toString g
  -- C06: wfbytes qtype axis size outerDtype dataShape dataDtype scaleShape scaleDtype
  | ["wfbytes", q, axis, size, od, ds, dd, ss, sd] =>
      let ax : Axis := if axis == "none" then none else some (axis == "0")
      (wfQBytes ⟨q, ax, parseShape size, od, parseShape ds, dd, parseShape ss, sd⟩).name
  -- wfbits qtype axis gs size outerDtype packedBits packedSize payloadShape payloadDtype scaleShape scaleDtype zeroShape zeroDtype
  | ["wfbits", q, axis, gs, size, od, pb, psz, pls, pld, ss, sd, zs, zd] =>
      let ax : Axis := if axis == "none" then none else some (axis == "0")
      let g : Option Nat := if gs == "none" then none else some gs.toNat!
      (wfQBits ⟨q, ax, g, parseShape size, od, pb.toNat!, parseShape psz, parseShape pls, pld, parseShape ss, sd, parseShape zs, zd⟩).name
  -- C15: awq <op> <shape> <data>   (words shown as signed integers)
  | ["awq", op, shape, data] =>
      let toPat (bits : Nat) (v : Int) : Nat := (v % (2 ^ bits : Int)).toNat
      let fromPat (bits : Nat) (n : Nat) : Int := if n ≥ 2 ^ (bits - 1) then (n : Int) - 2 ^ bits else n
      let raw := parseIntList data
      let mk (bits : Nat) : T Nat := ⟨parseShape shape, (raw.map (toPat bits)).toArray⟩
      let show_ (bits : Nat) (t : T Nat) : String := s!"{showShape t.shape} {showIntList (t.data.toList.map (fromPat bits))}"
      match op with
      | "pack1" => show_ 32 (awqPackV1 false (mk 8))
      | "pack1r" => show_ 32 (awqPackV1 true (mk 8))
      | "unpack1" => show_ 8 (awqUnpackV1 false (mk 32))
      | "unpack1r" => show_ 8 (awqUnpackV1 true (mk 32))
      | "pack2" => show_ 16 (awqPackV2 (mk 8))
      | "ref" => show_ 16 (awqPackRef (mk 8))
      | "unpack2" => show_ 8 (awqUnpackV2 (mk 16))
      | _ => "bad-op"
  -- C05: alias05 <producer>  → sharing, predicted outcome of copy_ on the other tensor, what the float program requires
  | ["alias05", op] =>
      match producerSharing op with
      | none => "unknown-producer"
      | some sh => s!"{sh.name} {(predicted sh).name} {if floatIsView op then "follows" else "unchanged"}"
  -- C15: create15 qtype dtype axis gs shape devtype cap  → class of the result of QBitsTensor.create
  | ["create15", qt, dt, axis, gs, shape, dev, cap] =>
      (createOutcome ⟨qt, dt, axis.toInt!, gs.toNat!, parseShape shape, dev, cap.toNat!⟩).show
  -- optimize15 cls qtype dtype axis gs shape devtype cap
  | ["optimize15", cls, qt, dt, axis, gs, shape, dev, cap] =>
      (optimizeOutcome (if cls == "AWQBitsTensor" then .awq else .qbits) ⟨qt, dt, axis.toInt!, gs.toNat!, parseShape shape, dev, cap.toNat!⟩).show
  | ["createconds15"] =>
      match awqSelectedGen ⟨"qint4", "f16", 0, 128, [4, 128], "cuda", 8⟩ with
      | some b => s!"understood {b}"
      | none => "not-understood"
  -- awqbits N K gs codes scalebits zeros  (float16)
  | ["awqbits", n, k, gs, cb, sb, zb] =>
      let F := f16
      let N := n.toNat!; let K := k.toNat!; let g := gs.toNat!
      let rows := N * K / g
      let q : QBits := ⟨4, true, some g, [N, K], ⟨[rows, g], (parseNatList cb).toArray⟩,
                        parseFT F s!"{rows}x1" sb, ⟨[rows, 1], (parseIntList zb).toArray⟩⟩
      let a := AwqBits.ofQBits F q
      let d := a.dequantize F
      let back := a.toQBits F 4
      let fromPat (nn : Nat) : Int := if nn ≥ 2 ^ 15 then (nn : Int) - 2 ^ 16 else nn
      s!"{showShape a.packed.shape} {showIntList (a.packed.data.toList.map fromPat)} {showShape a.scale.shape} {showFT F a.scale} {showFT F a.zs} {showShape d.shape} {showFT F d} {showShape back.data.shape} {showNatList back.data.data.toList} {showFT F back.scale} {showIntList back.zero.data.toList}"
  -- C05/C06: op05 name params n vals…
  | "op05" :: name :: params :: n :: rest =>
      let (vals, _) := parseVals n.toNat! rest
      showVal (runOp05 name params vals)
  | ["spec05r", fu, fe, f, qm, kn, kd, yb, rb] =>
      let Fu := fmtOfName fu
      let Fe := fmtOfName fe
      let F := fmtOfName f
      let k : Rat := (kn.toInt! : Rat) / (kd.toNat! : Rat)
      let ys := ((parseNatList yb).map F.decode).toArray
      let rs := ((parseNatList rb).map F.decode).toArray
      firstFails ((List.range ys.size).map fun i => if specRescale2 Fu Fe (qm.toNat! : Rat) k ys[i]! rs[i]! then "ok" else "rescale-error")
  -- C07: lin07 kernel F x w bias
  | ["lin07", kernel, f, xt, wt, bt] =>
      let F := fmtOfName f
      let bias : Option (T FV) := match parseOneVal bt with | .plain _ b => some b | _ => none
      let res : Option (T FV) := match kernel, parseOneVal xt, parseOneVal wt with
        | "fallbackfloat", .plain _ x, .plain _ w => some (linearFloat F x w bias)
        | k, x, .qb w =>
          let kk : MmKernel := match k with | "int" => .intMm | "pack" => .int8packMm | _ => .floatMm
          (match x with
           | .plain _ t => some (linearQBytes kk F (.plain t) w bias)
           | .qb q => some (linearQBytes kk F (.quant q) w bias)
           | _ => none)
        | _, _, _ => none
      match res with
      | some r => s!"{showShape r.shape} {showFT F r}"
      | none => "bad-op"
  | ["route07", dev, act, weight, rows, inF, outF, ge24] =>
      let pl (s : String) : Payload := match s with | "int8" => .int8 | "float8" => .float8 | "f32" => .f32 | "f16" => .f16 | _ => .bf16
      let c : MmConfig := ⟨pl act, pl weight, rows.toNat!, inF.toNat!, outF.toNat!, ge24 == "1"⟩
      let k := match dev with | "cpu" => routeCPU c | "cuda" => routeCUDA c | _ => routeMPS c
      match k with | .floatMm => "float" | .intMm => "int" | .int8packMm => "pack"
  -- C12: calib12 F mnum mden ev…   (ev = b:<bits> | a:<bits>)
  | "calib12" :: f :: mn :: md :: evs =>
      let F := fmtOfName f
      let m : Rat := (mn.toInt! : Rat) / (md.toNat! : Rat)
      let events := evs.map fun e =>
        let v := F.decode ((e.drop 2).toString.toNat!)
        if e.startsWith "a:" then ScaleEvent.adopt v else ScaleEvent.batch v
      let fin := calibFold F m events
      let spec := emaSpec F m events none
      s!"{F.encode fin} {match spec with | some v => toString (F.encode v) | none => "none"}"
  -- C12: stream12 <children ids, comma separated or -> call…   (call = <src ids joined by +, or ->:<q|p>:<class names of `types` joined by +>)  → disabled children
  | "stream12" :: children :: calls =>
      let ids (s : String) : List Nat := if s == "-" then [] else (s.splitOn ",").map String.toNat!
      let cs : List FnCall := calls.map fun c =>
        match c.splitOn ":" with
        | [srcs, q, tys] => ⟨if srcs == "-" then [] else (srcs.splitOn "+").map String.toNat!, q == "q", tys.splitOn "+"⟩
        | _ => ⟨[], false, []⟩
      showNatList (disabledChildren (recordCalls [] cs) (ids children))
  -- C13: hooks13 <trace as nested parens, e.g. (1(2))(3)>  → final pre ids, post ids, stack depth, nextId
  | ["hooks13", tr] =>
      let rec parse (cs : List Char) (fuel : Nat) : Trace × List Char :=
        match fuel with
        | 0 => (.nil, cs)
        | fuel + 1 =>
          match cs with
          | '(' :: rest =>
            let digits := rest.takeWhile Char.isDigit
            let id := (String.ofList digits).toNat!
            let (inner, r1) := parse (rest.dropWhile Char.isDigit) fuel
            match r1 with
            | ')' :: r2 =>
              let (next, r3) := parse r2 fuel
              (.ctx id inner next, r3)
            | _ => (.nil, r1)
          | _ => (.nil, cs)
      let (t, _) := parse tr.toList (tr.length + 1)
      let g0 : HookState := ⟨[], [], 0, []⟩
      let g := runTrace g0 t
      s!"{g.preHooks.length} {g.postHooks.length} {g.modeStack.length} {g.nextId}"
  -- hookev13 e1 e2 x x …  → state after every event: pre,post,stack;…
  | "hookev13" :: evs =>
      let r0 : HookRun := ⟨⟨[], [], 0, []⟩, []⟩
      let (_, outs) := evs.foldl (fun (acc : HookRun × List String) e =>
        let ev := if e.startsWith "e" then HookEvent.enter ((e.drop 1).toString.toNat!) else HookEvent.exit
        let r := acc.1.step ev
        (r, acc.2 ++ [s!"{r.g.preHooks.length},{r.g.postHooks.length},{r.g.modeStack.length}"])) (r0, [])
      ";".intercalate outs
  -- C13: ext13 e|x …  → the switch and the number of open contexts after every event
  | "ext13" :: evs =>
      let (_, outs) := evs.foldl (fun (acc : (Bool × Nat) × List String) e =>
        let st := extSwitch [e == "e"] acc.1.1 acc.1.2
        (st, acc.2 ++ [s!"{st.1}:{st.2}"])) ((true, 0), [])
      ";".intercalate outs
  -- C08: quant08 tree filter weights activations
  | ["quant08", tree, filt, w, a] =>
      let (m, _) := parseMod tree.toList
      let f : Option (List Nat) := if filt == "none" then none else some (parseNatList filt)
      showMod (quantizeTree ⟨f, qtOfName? w, qtOfName? a⟩ m)
  -- C08: the loop of quantize() as written (named_modules + set_module_by_name):
  --   result tree | dotted names in iteration order | identities in iteration order | namesOk
  | ["flat08", tree, filt, w, a] =>
      let (m, _) := parseMod tree.toList
      let f : Option (List Nat) := if filt == "none" then none else some (parseNatList filt)
      let ids := m.named.map fun pm => match pm.2 with | .leaf i _ _ => i | .node i _ _ => i
      showMod (quantizeFlat ⟨f, qtOfName? w, qtOfName? a⟩ m) ++ " " ++ ";".intercalate m.dottedNames
        ++ " " ++ ",".intercalate (ids.map toString) ++ " " ++ toString m.namesOk
  -- C08: set_module_by_name(model, dotted name, replacement)
  | ["setat08", tree, name, repl] =>
      let (m, _) := parseMod tree.toList
      let (x, _) := parseMod repl.toList
      showMod (m.setAt (name.splitOn ".") x)
  -- C08: the loop over what named_modules() really yields (memo on object identity): result | names yielded
  | ["loop08", tree, filt, w, a] =>
      let (m, _) := parseMod tree.toList
      let f : Option (List Nat) := if filt == "none" then none else some (parseNatList filt)
      showMod (quantizeLoop ⟨f, qtOfName? w, qtOfName? a⟩ m) ++ " "
        ++ ";".intercalate (m.namedMemo.map fun pm => ".".intercalate pm.1)
  | ["fwd08", kind, acts, inp, outq] =>
      let ik : InKind := match inp with | "float" => .float | "same" => .quantSameQtype | _ => .quantOther
      let oq : Option Bool := match outq with | "same" => some true | "other" => some false | _ => none
      let tr := forwardTrace (kindOfName kind) (acts == "1") ik oq
      ",".intercalate (tr.map fun s => match s with
        | .requantInput => "requantInput" | .quantizeInput => "quantizeInput" | .qforward => "qforward"
        | .requantOutput => "requantOutput" | .quantizeOutput => "quantizeOutput")
  | ["store09", q, rows, cols, gs] =>
      let qt := (QType.ofName q).getD .qint8
      let g : Option Nat := if gs == "none" then none else some gs.toNat!
      s!"{frozenPayloadBytes qt rows.toNat! cols.toNat! g} {frozenScaleCount qt rows.toNat! cols.toNat! g}"
  -- C10: meta strings and flattened key sets
  | ["meta10", kind, vals] =>
      let l := parseIntList vals
      let v : PyMeta := match kind with
        | "int" => .int (l.headD 0) | "none" => .none | "list" => .list l | _ => .tuple l
      let str := v.str
      let back := match PyMeta.parse str with | some w => if w == v then "roundtrip-ok" else "roundtrip-differs" | none => "parse-fails"
      str.replace " " "_" ++ " " ++ back
  | ["parse10", str] =>
      match PyMeta.parse (str.replace "_" " ") with
      | some (.int n) => s!"int {n}" | some .none => "none" | some (.list l) => s!"list {showIntList l}" | some (.tuple l) => s!"tuple {showIntList l}"
      | none => "error"
  | "ser10" :: "qbytes" :: pre :: qt :: axis :: size :: stride :: [] =>
      let ax : Option Int := if axis == "none" then none else some axis.toInt!
      let q : QBytesSer := ⟨"D", "S", qt, ax, parseIntList size, parseIntList stride⟩
      let sd := q.flatten pre
      let back := match QBytesSer.unflatten pre sd with | some r => if r == q then "roundtrip-ok" else "roundtrip-differs" | none => "unflatten-fails"
      " ".intercalate (sd.map fun kv => kv.1 ++ "=" ++ (match kv.2 with | .tensor _ => "T" | .str t => t.replace " " "_")) ++ " " ++ back
  | "ser10" :: "qbits" :: pre :: qt :: axis :: gs :: size :: stride :: bits :: psize :: pstride :: [] =>
      let ax : Option Int := if axis == "none" then none else some axis.toInt!
      let g : Option Int := if gs == "none" then none else some gs.toInt!
      let q : QBitsSer := ⟨⟨"P", bits.toNat!, parseIntList psize, parseIntList pstride⟩, "S", "Z", qt, ax, g, parseIntList size, parseIntList stride⟩
      let sd := q.flatten pre
      let back := match QBitsSer.unflatten pre sd with | some r => if r == q then "roundtrip-ok" else "roundtrip-differs" | none => "unflatten-fails"
      " ".intercalate (sd.map fun kv => kv.1 ++ "=" ++ (match kv.2 with | .tensor _ => "T" | .str t => t.replace " " "_")) ++ " " ++ back
  -- C10: the state_dict of a whole model = the per-module dicts under their dotted prefixes (`modelSave`);
  -- specs: pre,kind,bias;…  (kind: float | qbytes | qbits).  Output: the keys in order, then whether every
  -- module is read back from the combined dict
  | ["model10", specs] =>
      let ms : List (String × QModuleSer) := (specs.splitOn ";").filterMap fun sp =>
        match sp.splitOn "," with
        | [pre, kind, bias] =>
          let b : Option String := if bias == "1" then some "B" else none
          let m : QModuleSer := match kind with
            | "qbits" => ⟨.qbits ⟨⟨"P", 4, [2, 8], [8, 1]⟩, "S", "Z", "qint4", some 0, none, [4, 8], [8, 1]⟩, b, "I", "O", some "qint4", none⟩
            | "qbytes" => ⟨.qbytes ⟨"D", "S", "qint8", some 0, [4, 8], [8, 1]⟩, b, "I", "O", some "qint8", none⟩
            | _ => ⟨.float "W", b, "I", "O", some "qint8", none⟩
          some (pre, m)
        | _ => none
      let sd := modelSave ms
      let ok := ms.all fun pm => QModuleSer.load pm.1 pm.2.bias.isSome sd == some pm.2
      " ".intercalate (sd.map (·.1)) ++ " " ++ (if ok then "all-roundtrip-ok" else "roundtrip-differs")
  -- C04
  | ["pack", bits, shape, data] =>
      let t : T Nat := ⟨parseShape shape, (parseNatList data).toArray⟩
      let p := packWeights bits.toNat! t
      s!"{showShape p.shape} {showNatList p.data.toList}"
  | ["unpack", kind, bits, shape, data] =>
      let p : T Nat := ⟨parseShape shape, (parseNatList data).toArray⟩
      let r := match kind with
        | "py" => unpackPy bits.toNat! p
        | "cpp" => unpackCpp bits.toNat! p
        | "routed-ext" => quantoUnpack true .returns bits.toNat! p
        | "routed-fallback" => quantoUnpack true .raises bits.toNat! p
        | _ => quantoUnpack false .returns bits.toNat! p
      s!"{showShape r.shape} {showNatList r.data.toList}"
  | ["punpack", bits, size, pshape, data] =>
      let p : Packed := ⟨bits.toNat!, parseShape size, ⟨parseShape pshape, (parseNatList data).toArray⟩⟩
      let r := p.unpack
      s!"{showShape r.shape} {showNatList r.data.toList}"
  -- spec04 bits oshape odata pshape pdata ushape udata nroutes (rshape rdata)*
  | "spec04" :: bits :: os :: od :: ps :: pd :: us :: ud :: rest =>
      let mk (sh d : String) : T Nat := ⟨parseShape sh, (parseNatList d).toArray⟩
      let rec routes : List String → List (T Nat)
        | a :: b :: r => mk a b :: routes r
        | _ => []
      (specC04 bits.toNat! (mk os od) (mk ps pd) (mk us ud) (routes rest)).name
  | _ => "bad-op"

partial def loop (h : IO.FS.Stream) (out : IO.FS.Stream) : IO Unit := do
  let line ← h.getLine
  if line.isEmpty then return ()
  let toks := (line.trimAscii.toString.splitOn " ").filter (· ≠ "")
  out.putStrLn (handle toks)
  loop h out

def main : IO Unit := do
  let out ← IO.getStdout
  loop (← IO.getStdin) out

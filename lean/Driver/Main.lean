import Quanto.Wire
open Quanto

def handle (toks : List String) : String :=
  match toks with
  | ["ping"] => "pong"
  -- float primitives (used to validate the float model itself)
  | ["rnd", f, num, den] =>
      let F := fmtOfName f
      toString (F.encode (F.rnd ((num.toInt! : Rat) / (den.toNat! : Rat))))
  | ["div", f, a, b] =>
      let F := fmtOfName f
      toString (F.encode (F.div (F.decode a.toNat!) (F.decode b.toNat!)))
  | ["mul", f, a, b] =>
      let F := fmtOfName f
      toString (F.encode (F.mul (F.decode a.toNat!) (F.decode b.toNat!)))
  | ["sub", f, a, b] =>
      let F := fmtOfName f
      toString (F.encode (F.sub (F.decode a.toNat!) (F.decode b.toNat!)))
  | ["add", f, a, b] =>
      let F := fmtOfName f
      toString (F.encode (F.add (F.decode a.toNat!) (F.decode b.toNat!)))
  | ["recode", f, a] =>
      let F := fmtOfName f
      toString (F.encode (F.decode a.toNat!))
  -- C01: sym F Q axis shape xbits sshape sbits
  | ["sym", f, q, axis, shape, xb, sshape, sb] =>
      let F := fmtOfName f
      let Q := qtOfName q
      let x := parseFT F shape xb
      let s := parseFT F sshape sb
      match symQuantize F Q x (parseAxis axis) s with
      | .error e => s!"err {e.name}"
      | .ok qb =>
        match qb.dequantize F with
        | .error e => s!"err {e.name}"
        | .ok d =>
          s!"ok {showAxis qb.axis} {showShape qb.data.shape} {showIntList (qb.data.data.toList.map (showCode Q))} {showShape d.shape} {showFT F d}"
  | _ => "bad-op"

partial def loop (h : IO.FS.Stream) (out : IO.FS.Stream) : IO Unit := do
  let line ← h.getLine
  if line.isEmpty then return ()
  let toks := (line.trimAscii.toString.splitOn " ").filter (· ≠ "")
  out.putStrLn (handle toks)
  loop h out

def main : IO Unit := do
  let out ← IO.getStdout
  loop (← IO.getStdin) out

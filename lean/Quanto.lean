import Quanto.Float
import Quanto.Tensor
import Quanto.Symmetric
import Quanto.Wire

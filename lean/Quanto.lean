import Quanto.Float
import Quanto.Tensor
import Quanto.Symmetric
import Quanto.Wire
import Quanto.Generated
import Quanto.Pack
import Quanto.Spec.C01
import Quanto.Spec.C04

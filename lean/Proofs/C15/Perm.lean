/-
Helper lemmas for property C15, part A: the axis permutations used by the AWQ layouts are
involutions on positions; tensors equal up to data.
-/
import Quanto.AwqBits
import Proofs.Tensor.Index

namespace Quanto

/-- `pick l p` : the list whose `k`-th entry is entry `p[k]` of `l` -/
def pick (l p : List Nat) : List Nat := p.map fun k => l.getD k 0

theorem permuteShape_eq_pick (s p : List Nat) : permuteShape s p = pick s p := rfl

/-- abstract inverse-pair argument: if `q` undoes `p` on valid multi-indices, the source maps
compose to the identity on positions -/
theorem permuteSrc_inv_aux (s s' p q : List Nat)
    (h1 : ∀ n, permuteSrc s' q n = flat s' (pick (unflat s n) p))
    (h2 : ∀ m, permuteSrc s p m = flat s (pick (unflat s' m) q))
    (h3 : ∀ i, validIdx s i → validIdx s' (pick i p) ∧ pick (pick i p) q = i)
    (n : Nat) (hn : n < prod s) :
    permuteSrc s' q n < prod s' ∧ permuteSrc s p (permuteSrc s' q n) = n := by
  have hv := valid_unflat s n hn
  obtain ⟨hv', hpp⟩ := h3 _ hv
  rw [h1]
  refine ⟨flat_lt _ _ hv', ?_⟩
  rw [h2, unflat_flat _ _ hv', hpp, flat_unflat _ _ hn]

theorem T.permute_permute_aux {α : Type} [Inhabited α] (X : T α) (p q : List Nat)
    (hsz : X.data.size = prod X.shape)
    (hshape : permuteShape (permuteShape X.shape p) q = X.shape)
    (hidx : ∀ n, n < prod X.shape →
      permuteSrc (permuteShape X.shape p) q n < prod (permuteShape X.shape p) ∧
      permuteSrc X.shape p (permuteSrc (permuteShape X.shape p) q n) = n) :
    (X.permute p).permute q = X := by
  conv_rhs => rw [← T.eq_ofFn_get X hsz]
  unfold T.permute
  show T.ofFn _ _ = _
  apply T.ofFn_congr_shape _ _ _ _ hshape
  intro n hn
  have hn' : n < prod X.shape := by
    rw [hshape] at hn; exact hn
  obtain ⟨h1, h2⟩ := hidx n hn'
  show (X.gather (permuteShape X.shape p) (permuteSrc X.shape p)).get
      (permuteSrc (permuteShape X.shape p) q n) = _
  rw [T.get_gather _ _ _ _ h1, h2]

variable {α : Type} [Inhabited α]

theorem T.permute_01324_invol (X : T α) (a b c d e : Nat) (hs : X.shape = [a, b, c, d, e])
    (hsz : X.data.size = prod X.shape) : (X.permute [0, 1, 3, 2, 4]).permute [0, 1, 3, 2, 4] = X := by
  apply T.permute_permute_aux X _ _ hsz
  · rw [hs]; rfl
  · intro n hn
    rw [hs] at hn ⊢
    refine permuteSrc_inv_aux [a, b, c, d, e] [a, b, d, c, e] [0, 1, 3, 2, 4] [0, 1, 3, 2, 4]
      (fun _ => rfl) (fun _ => rfl) ?_ n hn
    intro i hv
    match i, hv with
    | [i0, i1, i2, i3, i4], hv =>
      simp only [validIdx, and_true] at hv
      refine ⟨?_, rfl⟩
      show validIdx [a, b, d, c, e] [i0, i1, i3, i2, i4]
      simp only [validIdx, and_true]; omega

theorem T.permute_01243_invol (X : T α) (a b c d e : Nat) (hs : X.shape = [a, b, c, d, e])
    (hsz : X.data.size = prod X.shape) : (X.permute [0, 1, 2, 4, 3]).permute [0, 1, 2, 4, 3] = X := by
  apply T.permute_permute_aux X _ _ hsz
  · rw [hs]; rfl
  · intro n hn
    rw [hs] at hn ⊢
    refine permuteSrc_inv_aux [a, b, c, d, e] [a, b, c, e, d] [0, 1, 2, 4, 3] [0, 1, 2, 4, 3]
      (fun _ => rfl) (fun _ => rfl) ?_ n hn
    intro i hv
    match i, hv with
    | [i0, i1, i2, i3, i4], hv =>
      simp only [validIdx, and_true] at hv
      refine ⟨?_, rfl⟩
      show validIdx [a, b, c, e, d] [i0, i1, i2, i4, i3]
      simp only [validIdx, and_true]; omega

theorem T.permute_0213_invol (X : T α) (a b c d : Nat) (hs : X.shape = [a, b, c, d])
    (hsz : X.data.size = prod X.shape) : (X.permute [0, 2, 1, 3]).permute [0, 2, 1, 3] = X := by
  apply T.permute_permute_aux X _ _ hsz
  · rw [hs]; rfl
  · intro n hn
    rw [hs] at hn ⊢
    refine permuteSrc_inv_aux [a, b, c, d] [a, c, b, d] [0, 2, 1, 3] [0, 2, 1, 3]
      (fun _ => rfl) (fun _ => rfl) ?_ n hn
    intro i hv
    match i, hv with
    | [i0, i1, i2, i3], hv =>
      simp only [validIdx, and_true] at hv
      refine ⟨?_, rfl⟩
      show validIdx [a, c, b, d] [i0, i2, i1, i3]
      simp only [validIdx, and_true]; omega

/-- transposition of a matrix: the source maps of `[a, b]` and `[b, a]` are mutually inverse -/
theorem transposeSrc_inv (a b n : Nat) (hn : n < prod [a, b]) :
    permuteSrc [b, a] [1, 0] n < prod [b, a] ∧
      permuteSrc [a, b] [1, 0] (permuteSrc [b, a] [1, 0] n) = n := by
  refine permuteSrc_inv_aux [a, b] [b, a] [1, 0] [1, 0] (fun _ => rfl) (fun _ => rfl) ?_ n hn
  intro i hv
  match i, hv with
  | [i0, i1], hv =>
    simp only [validIdx, and_true] at hv
    refine ⟨?_, rfl⟩
    show validIdx [b, a] [i1, i0]
    simp only [validIdx, and_true]; omega

theorem transpose2_shape (X : T α) (a b : Nat) (hs : X.shape = [a, b]) :
    (transpose2 X).shape = [b, a] := by
  unfold transpose2 T.permute; rw [hs]; rfl

theorem transpose2_size (X : T α) (a b : Nat) (hs : X.shape = [a, b]) :
    (transpose2 X).data.size = b * a := by
  unfold transpose2 T.permute; rw [T.size_gather, hs]; simp [permuteShape, prod]

theorem transpose2_get (X : T α) (a b : Nat) (hs : X.shape = [a, b]) (n : Nat) (hn : n < b * a) :
    (transpose2 X).get n = X.get (permuteSrc [a, b] [1, 0] n) := by
  unfold transpose2 T.permute
  rw [hs, T.get_gather _ _ _ _ (by simpa [permuteShape, prod] using hn)]

theorem transpose2_transpose2 (X : T α) (a b : Nat) (hs : X.shape = [a, b])
    (hsz : X.data.size = prod X.shape) : transpose2 (transpose2 X) = X := by
  unfold transpose2
  apply T.permute_permute_aux X _ _ hsz
  · rw [hs]; rfl
  · intro n hn
    rw [hs] at hn ⊢
    exact transposeSrc_inv a b n hn

end Quanto

/-
Helper lemmas for property C15, part G: the AWQ dequantizer `s·c + fl(-z·s)` and the standard
dequantizer `s·(c - z)` agree up to rounding.
-/
import Proofs.C02.Lemmas
import Quanto.AwqBits

namespace Quanto

/-- rational core: three roundings against one -/
theorem denote_core (u η s c z p1 p2 ya ys : Rat) (hu0 : 0 ≤ u) (η1 : Rat)
    (e1 : |p1 - s * c| ≤ u * (s * c) + η1) (e2 : |p2 - -(z * s)| ≤ u * (s * z) + η1)
    (e3 : |ya - (p1 + p2)| ≤ u * |p1 + p2| + η) (e4 : |ys - s * (c - z)| ≤ u * |s * (c - z)| + η) :
    |ya - ys| ≤ u * (s * c + s * z) * (1 + u) + 2 * u * |s * (c - z)| + (2 + 2 * u) * η1 + 2 * η := by
  have hsum : |p1 + p2 - s * (c - z)| ≤ u * (s * c + s * z) + 2 * η1 := by
    have := abs_add_le (p1 - s * c) (p2 - -(z * s))
    have e : p1 - s * c + (p2 - -(z * s)) = p1 + p2 - s * (c - z) := by ring
    rw [e] at this
    linarith
  have hpp : |p1 + p2| ≤ |s * (c - z)| + (u * (s * c + s * z) + 2 * η1) := by
    have := abs_add_le (s * (c - z)) (p1 + p2 - s * (c - z))
    rw [add_sub_cancel] at this
    linarith
  have hupp : u * |p1 + p2| ≤ u * (|s * (c - z)| + (u * (s * c + s * z) + 2 * η1)) :=
    mul_le_mul_of_nonneg_left hpp hu0
  have tri : |ya - ys| ≤ |ya - (p1 + p2)| + |p1 + p2 - s * (c - z)| + |ys - s * (c - z)| := by
    have h1 := abs_add_le (ya - (p1 + p2)) (p1 + p2 - s * (c - z))
    rw [sub_add_sub_cancel] at h1
    have h2 := abs_sub_le ya (s * (c - z)) ys
    rw [abs_sub_comm (s * (c - z)) ys] at h2
    linarith
  nlinarith

theorem awq_terms (F : Fmt) (s : Rat) (c : Nat) (z : Int) (hz0 : 0 ≤ z) (hz1 : z ≤ 127) :
    F.mul (.fin s) (.fin (c : Rat)) = F.fl (.fin (s * (c : Rat))) ∧
    F.mul (.fin (wrapInt8 (-z))) (.fin s) = F.fl (.fin (s * ((-z : Int) : Rat))) := by
  refine ⟨rfl, ?_⟩
  rw [wrapInt8_id (-z) (by omega) (by omega), mul_comm]
  rfl

theorem std_term (F : Fmt) (s : Rat) (c : Nat) (z : Int) (hc : c < 16) (hz0 : 0 ≤ z)
    (hz1 : z ≤ 15) :
    affDeq F c (.fin s) z = F.fl (.fin (s * (((c : Int) - z : Int) : Rat))) := by
  have := affDeq_fin F (c : Int) s z (Int.natCast_nonneg c) (by omega) (by omega) (by omega)
  rwa [Int.toNat_natCast] at this

end Quanto

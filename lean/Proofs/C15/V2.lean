/-
Helper lemmas for property C15, part D: the v2 (int16) layout round trip.
-/
import Proofs.C15.V1
import Proofs.C15.Perm

namespace Quanto

theorem T.get_gather_lt (X : T Nat) (s : List Nat) (f : Nat → Nat) (b : Nat) (hb : 0 < b)
    (h : ∀ i, X.get i < b) : ∀ i, (X.gather s f).get i < b := by
  apply T.get_lt_all _ b hb
  intro i hi
  rw [T.size_gather] at hi
  rw [T.get_gather _ _ _ _ hi]
  exact h _

theorem T.get_permute_lt (X : T Nat) (p : List Nat) (b : Nat) (hb : 0 < b)
    (h : ∀ i, X.get i < b) : ∀ i, (X.permute p).get i < b :=
  T.get_gather_lt X _ _ b hb h

theorem awqCombine16_shape (D : T Nat) (a b c d : Nat) (hs : D.shape = [a, b, c, d]) :
    (awqCombine16 D).shape = [a, b * c] := by
  unfold awqCombine16; simp only [hs]; rfl

theorem awqCombine16_get (D : T Nat) (a b c d : Nat) (hs : D.shape = [a, b, c, d]) (m : Nat)
    (hm : m < a * (b * c)) :
    (awqCombine16 D).get m =
      (D.get (4 * m) ||| (D.get (4 * m + 1) <<< 4) ||| (D.get (4 * m + 2) <<< 8) |||
        (D.get (4 * m + 3) <<< 12)) % 2 ^ 16 := by
  unfold awqCombine16
  simp only [hs]
  rw [T.get_ofFn _ _ _ (by simpa [prod] using hm)]

/-- splitting the 16-bit words of `combine` into nibbles gives the interleaved tensor back -/
theorem unpack_nibbles (D : T Nat) (a b : Nat) (hs : D.shape = [a, b, 64, 4])
    (hsz : D.data.size = prod D.shape) (hv : ∀ i, D.get i < 16) :
    T.ofFn [a, b, 64, 4] (fun n => ((awqCombine16 D).get (n / 4) >>> (4 * (n % 4))) % 16) = D := by
  conv_rhs => rw [← T.eq_ofFn_get D hsz]
  apply T.ofFn_congr_shape _ _ _ _ hs.symm
  intro n hn
  have hp : prod [a, b, 64, 4] = a * (b * 64) * 4 := by simp [prod]; ring
  rw [hp] at hn
  have hm : n / 4 < a * (b * 64) := by omega
  rw [awqCombine16_get D a b 64 4 hs _ hm,
    combine16_field _ _ _ _ (hv _) (hv _) (hv _) (hv _) (n % 4) (Nat.mod_lt _ (by decide))]
  split_ifs with h0 h1 h2 <;> congr 1 <;> omega

theorem awqUnpackV2_combine (D : T Nat) (a b : Nat) (hs : D.shape = [a, b, 64, 4])
    (hsz : D.data.size = prod D.shape) (hv : ∀ i, D.get i < 16) :
    awqUnpackV2 (awqCombine16 D) =
      ((((((D.reshape [a, b, 4, 64]).permute [0, 2, 1, 3]).reshape [a * 4, b * 64]).reshape
        [a * 4, b * 64 / 32, 4, 2, 4]).permute [0, 1, 2, 4, 3]).permute [0, 1, 3, 2, 4]).reshape
        [a * 4, b * 64] := by
  unfold awqUnpackV2
  simp only [awqCombine16_shape D a b 64 4 hs, List.headD_cons, List.getD_cons_succ,
    List.getD_cons_zero]
  have e : b * 64 / 64 = b := Nat.mul_div_cancel _ (by decide)
  rw [e, unpack_nibbles D a b hs hsz hv]

theorem v2_roundtrip (t : T Nat) (N K : Nat) (hs : t.shape = [N, K]) (hsz : t.data.size = N * K)
    (h4 : 4 ∣ N) (h64 : 64 ∣ K) (hv : ∀ i, i < N * K → t.get i < 16) :
    awqUnpackV2 (awqPackV2 t) = t := by
  obtain ⟨m, rfl⟩ := h4
  obtain ⟨k, rfl⟩ := h64
  have hall := T.get_lt_all t 16 (by decide) (by rw [hsz]; exact hv)
  obtain ⟨sh, data⟩ := t
  simp only at hs hsz hall
  subst hs
  have e1 : 4 * m / 4 = m := Nat.mul_div_cancel_left m (by decide)
  have e2 : 64 * k / 64 = k := Nat.mul_div_cancel_left k (by decide)
  have e3 : 64 * k / 32 = 2 * k := by omega
  have e4 : k * 64 / 32 = 2 * k := by omega
  -- the chain of intermediate tensors of `pack_v2`
  obtain ⟨X0, hX0⟩ : ∃ X0 : T Nat, X0 = ⟨[4 * m, 2 * k, 4, 4, 2], data⟩ := ⟨_, rfl⟩
  have hX0s : X0.shape = [4 * m, 2 * k, 4, 4, 2] := by rw [hX0]
  have hX0sz : X0.data.size = prod X0.shape := by
    rw [hX0s, hX0]; simp only [prod]; rw [hsz]; ring
  have hX0v : ∀ i, X0.get i < 16 := by rw [hX0]; exact hall
  obtain ⟨A, hA⟩ : ∃ A, A = X0.permute [0, 1, 3, 2, 4] := ⟨_, rfl⟩
  have hAs : A.shape = [4 * m, 2 * k, 4, 4, 2] := by rw [hA]; unfold T.permute; rw [hX0s]; rfl
  have hAsz : A.data.size = prod A.shape := by rw [hA]; exact T.size_gather _ _ _
  have hAv : ∀ i, A.get i < 16 := by rw [hA]; exact T.get_permute_lt _ _ 16 (by decide) hX0v
  obtain ⟨B, hB⟩ : ∃ B, B = A.permute [0, 1, 2, 4, 3] := ⟨_, rfl⟩
  have hBs : B.shape = [4 * m, 2 * k, 4, 2, 4] := by rw [hB]; unfold T.permute; rw [hAs]; rfl
  have hBsz : B.data.size = prod B.shape := by rw [hB]; exact T.size_gather _ _ _
  have hBv : ∀ i, B.get i < 16 := by rw [hB]; exact T.get_permute_lt _ _ 16 (by decide) hAv
  obtain ⟨X3, hX3⟩ : ∃ X3 : T Nat, X3 = ⟨[m, 4, k, 64], B.data⟩ := ⟨_, rfl⟩
  have hX3s : X3.shape = [m, 4, k, 64] := by rw [hX3]
  have hX3sz : X3.data.size = prod X3.shape := by
    rw [hX3s, hX3]; show B.data.size = _; rw [hBsz, hBs]; simp only [prod]; try ring
  have hX3v : ∀ i, X3.get i < 16 := by rw [hX3]; exact hBv
  obtain ⟨Cc, hC⟩ : ∃ Cc, Cc = X3.permute [0, 2, 1, 3] := ⟨_, rfl⟩
  have hCs : Cc.shape = [m, k, 4, 64] := by rw [hC]; unfold T.permute; rw [hX3s]; rfl
  have hCsz : Cc.data.size = prod Cc.shape := by rw [hC]; exact T.size_gather _ _ _
  have hCv : ∀ i, Cc.get i < 16 := by rw [hC]; exact T.get_permute_lt _ _ 16 (by decide) hX3v
  obtain ⟨D, hD⟩ : ∃ D : T Nat, D = ⟨[m, k, 64, 4], Cc.data⟩ := ⟨_, rfl⟩
  have hDs : D.shape = [m, k, 64, 4] := by rw [hD]
  have hDsz : D.data.size = prod D.shape := by
    rw [hDs, hD]; show Cc.data.size = _; rw [hCsz, hCs]; simp only [prod]; try ring
  have hDv : ∀ i, D.get i < 16 := by rw [hD]; exact hCv
  have hpack : awqPackV2 ⟨[4 * m, 64 * k], data⟩ = awqCombine16 D := by
    show awqCombine16 ((((((((⟨[4 * m, 64 * k], data⟩ : T Nat).reshape [4 * m, 64 * k / 32, 4, 4, 2]).permute
      [0, 1, 3, 2, 4]).permute [0, 1, 2, 4, 3]).reshape [4 * m, 64 * k]).reshape
      [4 * m / 4, 4, 64 * k / 64, 64]).permute [0, 2, 1, 3]).reshape [4 * m / 4, 64 * k / 64, 64, 4]) = _
    rw [e1, e2, e3, hD, hC, hX3, hB, hA, hX0]
    rfl
  rw [hpack, awqUnpackV2_combine D m k hDs hDsz hDv, e4, Nat.mul_comm m 4, Nat.mul_comm k 64]
  have s1 : D.reshape [m, k, 4, 64] = Cc := by
    rw [hD]; exact T.ext' hCs.symm rfl
  have s2 : Cc.permute [0, 2, 1, 3] = X3 := by
    rw [hC]; exact T.permute_0213_invol X3 m 4 k 64 hX3s hX3sz
  have s3 : (X3.reshape [4 * m, 64 * k]).reshape [4 * m, 2 * k, 4, 2, 4] = B := by
    rw [hX3]; exact T.ext' hBs.symm rfl
  have s4 : B.permute [0, 1, 2, 4, 3] = A := by
    rw [hB]; exact T.permute_01243_invol A _ _ _ _ _ hAs hAsz
  have s5 : A.permute [0, 1, 3, 2, 4] = X0 := by
    rw [hA]; exact T.permute_01324_invol X0 _ _ _ _ _ hX0s hX0sz
  rw [s1, s2, s3, s4, s5, hX0]
  rfl

end Quanto

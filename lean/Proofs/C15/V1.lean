/-
Helper lemmas for property C15, part C: the v1 (int32) layout round trip.
-/
import Proofs.C15.Nibbles
import Proofs.Tensor.Index

namespace Quanto

theorem T.get_of_size_le {α : Type} [Inhabited α] (t : T α) (i : Nat) (h : t.data.size ≤ i) :
    t.get i = default := by
  simp [T.get, h]

/-- bound on the stored codes extends to out-of-range reads (which yield `0`) -/
theorem T.get_lt_all (t : T Nat) (b : Nat) (hb : 0 < b) (h : ∀ i, i < t.data.size → t.get i < b) :
    ∀ i, t.get i < b := by
  intro i
  rcases Nat.lt_or_ge i t.data.size with hi | hi
  · exact h i hi
  · rw [T.get_of_size_le t i hi]; exact hb

theorem order_reverse (j : Nat) (hj : j < 8) :
    Generated.awqReverseOrder.getD j 0 < 8 ∧
      Generated.awqOrder.getD (Generated.awqReverseOrder.getD j 0) 0 = j := by
  have : j = 0 ∨ j = 1 ∨ j = 2 ∨ j = 3 ∨ j = 4 ∨ j = 5 ∨ j = 6 ∨ j = 7 := by omega
  rcases this with rfl | rfl | rfl | rfl | rfl | rfl | rfl | rfl <;> decide

theorem awqPackV1_shape (reorder : Bool) (t : T Nat) (N K : Nat) (hs : t.shape = [N, K]) :
    (awqPackV1 reorder t).shape = [N, K / 8] := by
  unfold awqPackV1; simp only [hs]; rfl

theorem awqPackV1_get (reorder : Bool) (t : T Nat) (N K : Nat) (hs : t.shape = [N, K]) (m : Nat)
    (hm : m < N * (K / 8)) :
    (awqPackV1 reorder t).get m =
      (List.range 8).foldl (fun acc i => acc |||
        (((fun i => t.get (m / (K / 8) * K + m % (K / 8) * 8 +
          (if reorder then Generated.awqOrder else identityOrder).getD i 0)) i <<< (4 * i)) % 2 ^ 32)) 0 := by
  unfold awqPackV1
  simp only [hs]
  rw [T.get_ofFn _ _ _ (by simpa [prod] using hm)]
  rfl

theorem v1_roundtrip (t : T Nat) (N K : Nat) (hs : t.shape = [N, K]) (hsz : t.data.size = N * K)
    (h8 : 8 ∣ K) (hv : ∀ i, i < N * K → t.get i < 16) (reorder : Bool) :
    awqUnpackV1 reorder (awqPackV1 reorder t) = t := by
  obtain ⟨C, rfl⟩ := h8
  have hall := T.get_lt_all t 16 (by decide) (by rw [hsz]; exact hv)
  have hC : 8 * C / 8 = C := Nat.mul_div_cancel_left C (by decide)
  have hps := awqPackV1_shape reorder t N (8 * C) hs
  rw [hC] at hps
  have hwf : t.data.size = prod t.shape := by rw [hs, hsz]; simp [prod]
  conv_rhs => rw [← T.eq_ofFn_get t hwf]
  unfold awqUnpackV1
  simp only [hps, List.headD_cons, List.getD_cons_succ, List.getD_cons_zero]
  apply T.ofFn_congr_shape _ _ _ _ (by rw [hs, Nat.mul_comm])
  intro n hn
  have hn' : n < N * (C * 8) := by simpa [prod] using hn
  rcases Nat.eq_zero_or_pos C with rfl | hCpos
  · simp at hn'
  have hK : 0 < C * 8 := by omega
  -- digits of n
  obtain ⟨r, j, hj, rfl⟩ : ∃ r j, j < C * 8 ∧ n = r * (C * 8) + j :=
    ⟨n / (C * 8), n % (C * 8), Nat.mod_lt _ hK, (Nat.div_add_mod' n (C * 8)).symm⟩
  have hr : r < N := by
    by_contra hc
    have : N * (C * 8) ≤ r * (C * 8) := Nat.mul_le_mul_right _ (by omega)
    omega
  rw [idx_div _ _ _ hj, idx_mod _ _ _ hj]
  -- the position read after the optional reordering
  obtain ⟨jj, hjj⟩ : ∃ jj, jj = if reorder = true then 8 * (j / 8) + Generated.awqReverseOrder.getD (j % 8) 0 else j :=
    ⟨_, rfl⟩
  have hfacts : jj / 8 = j / 8 ∧ jj % 8 < 8 ∧
      (if reorder then Generated.awqOrder else identityOrder).getD (jj % 8) 0 = j % 8 := by
    cases reorder with
    | false =>
      simp only [Bool.false_eq_true, if_false] at hjj ⊢
      rw [hjj]
      refine ⟨rfl, Nat.mod_lt _ (by decide), ?_⟩
      have : j % 8 < 8 := Nat.mod_lt _ (by decide)
      have : j % 8 = 0 ∨ j % 8 = 1 ∨ j % 8 = 2 ∨ j % 8 = 3 ∨ j % 8 = 4 ∨ j % 8 = 5 ∨ j % 8 = 6 ∨ j % 8 = 7 := by omega
      rcases this with h | h | h | h | h | h | h | h <;> rw [h] <;> rfl
    | true =>
      simp only [if_true] at hjj ⊢
      obtain ⟨h1, h2⟩ := order_reverse (j % 8) (Nat.mod_lt _ (by decide))
      have e1 : jj / 8 = j / 8 := by rw [hjj]; omega
      have e2 : jj % 8 = Generated.awqReverseOrder.getD (j % 8) 0 := by rw [hjj]; omega
      exact ⟨e1, Nat.mod_lt _ (by decide), by rw [e2]; exact h2⟩
  rw [← hjj]
  obtain ⟨e1, e2, e3⟩ := hfacts
  have hcol : j / 8 < C := by omega
  have hm : r * C + jj / 8 < N * (8 * C / 8) := by
    rw [hC, e1]
    calc r * C + j / 8 < r * C + C := by omega
      _ = (r + 1) * C := by ring
      _ ≤ N * C := Nat.mul_le_mul_right _ (by omega)
  rw [awqPackV1_get reorder t N (8 * C) hs _ hm, hC]
  rw [awqField_foldl _ (fun i _ => hall _) _ e2]
  rw [e1, idx_div _ _ _ hcol, idx_mod _ _ _ hcol, e3]
  congr 1
  have e : r * (8 * C) = r * (C * 8) := by rw [Nat.mul_comm 8 C]
  omega

end Quanto

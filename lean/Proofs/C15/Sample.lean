/-
Helper for property C15: the concrete matrix used by the non-vacuity examples.
-/
import Quanto.Awq

namespace Quanto

/-- the `[4, 64]` matrix with codes `i % 16` -/
def c15Sample : T Nat := ⟨[4, 64], Array.ofFn (n := 256) fun i => i.val % 16⟩

theorem c15Sample_lt : ∀ i, i < 4 * 64 → c15Sample.get i < 16 := by
  intro i hi
  have : i < 256 := hi
  simp [c15Sample, T.get, this]
  omega

end Quanto

/-
Helper lemmas for property C15, part F: `AwqBits.ofQBits` followed by `AwqBits.toQBits`.
-/
import Proofs.C15.V2
import Proofs.C15.ZeroPoint

namespace Quanto

theorem T.get_reshape {α : Type} [Inhabited α] (X : T α) (s : List Nat) (i : Nat) :
    (X.reshape s).get i = X.get i := rfl

/-- codes: pack, unpack and group again -/
theorem back_data (data : T Nat) (N K gs : Nat) (h4 : 4 ∣ N) (h64 : 64 ∣ K)
    (hds : data.shape = [N * K / gs, gs]) (hdsz : data.data.size = N * K)
    (hcodes : ∀ i, i < N * K → data.get i < 16) :
    (awqUnpackV2 (awqPackV2 (data.reshape [N, K]))).reshape [N * K / gs, gs] = data := by
  rw [v2_roundtrip (data.reshape [N, K]) N K rfl hdsz h4 h64 hcodes]
  exact T.ext' hds.symm rfl

/-- scales: transposed twice -/
theorem back_scale {α : Type} [Inhabited α] (scale : T α) (N G M : Nat) (hM : M = N * G)
    (hss : scale.shape = [M, 1]) (hssz : scale.data.size = M) :
    (transpose2 (transpose2 (scale.reshape [N, G]))).reshape
      [(transpose2 (scale.reshape [N, G])).data.size, 1] = scale := by
  have hsz : (scale.reshape [N, G]).data.size = prod (scale.reshape [N, G]).shape := by
    show scale.data.size = prod [N, G]
    rw [hssz, hM]; simp [prod]
  rw [transpose2_transpose2 _ N G rfl hsz, transpose2_size _ N G rfl]
  refine T.ext' ?_ rfl
  rw [hss, hM, Nat.mul_comm]
  rfl

/-- zero-points: negated, scaled, rounded; then divided by the scale and rounded -/
theorem back_zero (F : Fmt) (hF : WorkFmt F) (scale : T FV) (zero : T Int) (N G M : Nat)
    (hM : M = N * G)
    (hss : scale.shape = [M, 1]) (hssz : scale.data.size = M)
    (hsv : ∀ i, i < M → ∃ s, scale.get i = .fin s ∧ 0 < s ∧ F.Rep s ∧ s * 15 ≤ F.maxFin)
    (hzs : zero.shape = [M, 1]) (hzsz : zero.data.size = M)
    (hzv : ∀ i, i < M → |zero.get i| ≤ 15) :
    (T.ofFn [(transpose2 (scale.reshape [N, G])).data.size, 1] fun i =>
      toInt8 (F.div
        (((transpose2 (T.ofFn [G, N] fun j =>
          F.mul (.fin (wrapInt8 (-((transpose2 (zero.reshape [N, G])).get j))))
            ((transpose2 (scale.reshape [N, G])).get j))).reshape
          [(transpose2 (scale.reshape [N, G])).data.size, 1]).get i).neg
        (((transpose2 (transpose2 (scale.reshape [N, G]))).reshape
          [(transpose2 (scale.reshape [N, G])).data.size, 1]).get i)).round) = zero := by
  rw [back_scale scale N G M hM hss hssz, transpose2_size _ N G rfl]
  have hzwf : zero.data.size = prod zero.shape := by rw [hzs, hzsz]; simp [prod]
  conv_rhs => rw [← T.eq_ofFn_get zero hzwf]
  apply T.ofFn_congr_shape _ _ _ _ (by rw [hzs, hM, Nat.mul_comm])
  intro i hi
  have hi' : i < G * N := by simpa [prod] using hi
  have hiM : i < M := by rw [hM, Nat.mul_comm]; exact hi'
  obtain ⟨hj, hinv⟩ := transposeSrc_inv N G i (by simpa [prod, Nat.mul_comm] using hi')
  simp only [T.get_reshape]
  rw [transpose2_get _ G N rfl i (by rw [Nat.mul_comm]; exact hi'), T.get_ofFn _ _ _ hj]
  have hj' : permuteSrc [G, N] [1, 0] i < G * N := by simpa [prod] using hj
  rw [transpose2_get _ N G rfl _ hj', transpose2_get _ N G rfl _ hj', hinv]
  show toInt8 (F.div (F.mul (.fin (wrapInt8 (-(zero.get i)))) (scale.get i)).neg (scale.get i)).round = _
  obtain ⟨s, hs, hpos, hrep, hfin⟩ := hsv i hiM
  rw [hs]
  exact zeropoint_recovered_work F hF s hrep hpos _ (hzv i hiM) hfin

theorem back_conversion (F : Fmt) (hF : WorkFmt F) (q : QBits) (N K gs : Nat)
    (hbits : q.bits = 4) (haxis : q.axisFirst = true) (hgs : q.groupSize = some gs)
    (hsize : q.size = [N, K]) (hgd : gs ∣ K) (h4 : 4 ∣ N) (h64 : 64 ∣ K)
    (hds : q.data.shape = [N * K / gs, gs]) (hdsz : q.data.data.size = N * K)
    (hcodes : ∀ i, i < N * K → q.data.get i < 16)
    (hss : q.scale.shape = [N * K / gs, 1]) (hssz : q.scale.data.size = N * K / gs)
    (hsv : ∀ i, i < N * K / gs →
      ∃ s, q.scale.get i = .fin s ∧ 0 < s ∧ F.Rep s ∧ s * 15 ≤ F.maxFin)
    (hzs : q.zero.shape = [N * K / gs, 1]) (hzsz : q.zero.data.size = N * K / gs)
    (hzv : ∀ i, i < N * K / gs → |q.zero.get i| ≤ 15) :
    (AwqBits.ofQBits F q).toQBits F 4 = q := by
  obtain ⟨bits, af, g, size, data, scale, zero⟩ := q
  simp only at hbits haxis hgs hsize hds hdsz hcodes hss hssz hsv hzs hzsz hzv
  subst hbits haxis hgs hsize
  have hM : N * K / gs = N * (K / gs) := Nat.mul_div_assoc N hgd
  have h1 := back_data data N K gs h4 h64 hds hdsz hcodes
  have h2 := back_scale scale N (K / gs) _ hM hss hssz
  have h3 := back_zero F hF scale zero N (K / gs) _ hM hss hssz hsv hzs hzsz hzv
  unfold AwqBits.toQBits AwqBits.ofQBits
  simp only [List.headD_cons, List.getD_cons_succ, List.getD_cons_zero, Option.getD_some]
  rw [h1, h3, h2]

end Quanto

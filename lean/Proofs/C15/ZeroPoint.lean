/-
Helper lemmas for property C15, part E: the scaled, negated zero-point `fl(-z·s)` gives the
integer zero-point back after division by the scale and rounding.
-/
import Proofs.C02.Lemmas
import Quanto.AwqBits

namespace Quanto

theorem zeropoint_recovered_core (F : Fmt) (hF : WorkFmt F) (s : Rat) (hrep : F.Rep s)
    (hpos : 0 < s) (z K : Int) (hz : |z| ≤ K) (hK127 : K ≤ 127)
    (hsmall : F.u * (2 * (K : Rat) + 1) + F.eta < 1 / 2) (hfin : s * |(z : Rat)| ≤ F.maxFin) :
    toInt8 ((F.div (F.mul (.fin (wrapInt8 (-z))) (.fin s)).neg (.fin s)).round) = z := by
  have hu0 := F.u_nonneg
  have he0 := F.eta_nonneg
  obtain ⟨hz1, hz2⟩ := abs_le.mp hz
  have hK0 : 0 ≤ K := le_trans (abs_nonneg z) hz
  rw [wrapInt8_id (-z) (by omega) (by omega)]
  have hmul : F.mul (.fin ((-z : Int) : Rat)) (.fin s) = F.fl (.fin (s * ((-z : Int) : Rat))) := by
    rw [mul_comm]; rfl
  rw [hmul]
  obtain ⟨n, hn⟩ : ∃ n : Int, n = -z := ⟨_, rfl⟩
  rw [← hn]
  have hnabs : |(n : Rat)| ≤ K := by
    rw [hn, abs_le]; constructor
    · have : ((-K : Int) : Rat) ≤ ((-z : Int) : Rat) := by exact_mod_cast (by omega : -K ≤ -z)
      simpa using this
    · exact_mod_cast (by omega : -z ≤ K)
  have hK0' : (0 : Rat) ≤ K := by exact_mod_cast hK0
  have hK1 : (K : Rat) ≤ 127 := by exact_mod_cast hK127
  have hprod : |s * (n : Rat)| ≤ F.maxFin := by
    rw [abs_mul, abs_of_pos hpos, hn]; push_cast; rw [abs_neg]; exact hfin
  have hy := fl_fin_of_le F hF _ hprod
  rw [hy]
  have herr1 := mul_int_err F hF s hrep hpos n _ hy
  generalize F.flR (s * (n : Rat)) = y at *
  show toInt8 (F.div (.fin (-y)) (.fin s)).round = z
  rw [div_fin F _ _ hpos.ne']
  obtain ⟨q, hq⟩ : ∃ q, q = -y / s := ⟨_, rfl⟩
  rw [← hq]
  have hzn : (z : Rat) = -(n : Rat) := by rw [hn]; push_cast; ring
  have hqz : |q - (z : Rat)| ≤ F.u * |(n : Rat)| := by
    have e : q - (z : Rat) = -(y - s * (n : Rat)) / s := by rw [hq, hzn]; field_simp; ring
    rw [e, abs_div, abs_neg, abs_of_pos hpos, div_le_iff₀ hpos]
    linarith
  have hzabs : |(z : Rat)| ≤ K := by rw [hzn, abs_neg]; exact hnabs
  have hun : F.u * |(n : Rat)| ≤ F.u * K := mul_le_mul_of_nonneg_left hnabs hu0
  have huK : F.u * K ≤ 1 := by nlinarith
  have hqabs : |q| ≤ K + 1 := by
    have := abs_add_le (z : Rat) (q - (z : Rat))
    rw [add_sub_cancel] at this
    linarith
  have hfin2 : F.fl (.fin q) = .fin (F.flR q) :=
    fl_fin_of_le F hF q (by linarith [work_maxFin_ge F hF])
  have herr2 := fl_err F hF _ _ hfin2
  have huq : F.u * |q| ≤ F.u * (K + 1) := mul_le_mul_of_nonneg_left hqabs hu0
  have hclose : |F.flR q - (z : Rat)| < 1 / 2 := by
    have := abs_add_le (F.flR q - q) (q - (z : Rat))
    rw [sub_add_sub_cancel] at this
    nlinarith
  rw [hfin2]
  show toInt8 (.fin ((rhe (F.flR q) : Int) : Rat)) = z
  rw [rhe_eq_of_abs_lt hclose]
  exact toInt8_intCast z (by omega) (by omega)

/-- every working format: zero-points of 4-bit codes (and a bit beyond) -/
theorem zeropoint_recovered_work (F : Fmt) (hF : WorkFmt F) (s : Rat) (hrep : F.Rep s)
    (hpos : 0 < s) (z : Int) (hz : |z| ≤ 15) (hfin : s * 15 ≤ F.maxFin) :
    toInt8 ((F.div (F.mul (.fin (wrapInt8 (-z))) (.fin s)).neg (.fin s)).round) = z := by
  have hu := (u_eta_work F hF).1
  have he := eta_le_milli F hF
  have hzq : |(z : Rat)| ≤ 15 := by exact_mod_cast hz
  exact zeropoint_recovered_core F hF s hrep hpos z 15 hz (by decide)
    (by push_cast; linarith) (le_trans (mul_le_mul_of_nonneg_left hzq hpos.le) hfin)

/-- float32 / float16: any int8 zero-point except -128 -/
theorem zeropoint_recovered_int8 (F : Fmt) (hF : F = f32 ∨ F = f16) (s : Rat) (hrep : F.Rep s)
    (hpos : 0 < s) (z : Int) (hz : |z| ≤ 127) (hfin : s * |(z : Rat)| ≤ F.maxFin) :
    toInt8 ((F.div (F.mul (.fin (wrapInt8 (-z))) (.fin s)).neg (.fin s)).round) = z := by
  have hW : WorkFmt F := by rcases hF with rfl | rfl <;> simp [WorkFmt]
  obtain ⟨hu, he⟩ := u_eta_small F hF
  exact zeropoint_recovered_core F hW s hrep hpos z 127 hz (by decide)
    (by push_cast; linarith) hfin

end Quanto

/-
Helper lemmas for property C15, part B: packing nibbles into a word with `|||` / `<<<` and
reading them back with `>>>` / `% 16`.
-/
import Quanto.Awq
import Proofs.C04.Lemmas
import Mathlib.Tactic.Ring
import Mathlib.Tactic.Linarith

namespace Quanto

/-- `Σ_{i<n} v i · 16^i` -/
def nibSum (v : Nat → Nat) : Nat → Nat
  | 0 => 0
  | n + 1 => nibSum v n + v n * 16 ^ n

theorem nibSum_lt (v : Nat → Nat) : ∀ n, (∀ i, i < n → v i < 16) → nibSum v n < 16 ^ n
  | 0, _ => by simp [nibSum]
  | n + 1, h => by
    have ih := nibSum_lt v n (fun i hi => h i (by omega))
    have hv := h n (by omega)
    have : v n * 16 ^ n ≤ 15 * 16 ^ n := Nat.mul_le_mul_right _ (by omega)
    simp only [nibSum, Nat.pow_succ]
    omega

/-- `a ||| (b <<< k) = a + b * 2^k` when `a` fits in `k` bits -/
theorem or_shiftLeft_eq_add {a k : Nat} (b : Nat) (ha : a < 2 ^ k) :
    a ||| (b <<< k) = a + b * 2 ^ k := by
  rw [Nat.or_comm, ← Nat.shiftLeft_add_eq_or_of_lt ha, Nat.shiftLeft_eq, Nat.add_comm]

theorem pow16_eq (i : Nat) : 2 ^ (4 * i) = 16 ^ i := by
  rw [Nat.pow_mul]

/-- reading nibble `m` of the sum -/
theorem nibSum_field (v : Nat → Nat) : ∀ n m, m < n → (∀ i, i < n → v i < 16) →
    nibSum v n / 16 ^ m % 16 = v m
  | 0, m, hm, _ => by omega
  | n + 1, m, hm, h => by
    have hlt := nibSum_lt v n (fun i hi => h i (by omega))
    simp only [nibSum]
    rcases Nat.lt_or_ge m n with hmn | hmn
    · have ih := nibSum_field v n m hmn (fun i hi => h i (by omega))
      obtain ⟨d, rfl⟩ : ∃ d, n = m + 1 + d := ⟨n - m - 1, by omega⟩
      have e : v (m + 1 + d) * 16 ^ (m + 1 + d) = 16 ^ m * (16 * (v (m + 1 + d) * 16 ^ d)) := by
        rw [Nat.pow_add, Nat.pow_succ]; ring
      rw [e, Nat.add_mul_div_left _ _ (Nat.pow_pos (by decide)), Nat.add_mul_mod_self_left, ih]
    · have : m = n := by omega
      subst this
      rw [Nat.mul_comm, Nat.add_mul_div_left _ _ (Nat.pow_pos (by decide)),
        Nat.div_eq_of_lt hlt, Nat.zero_add]
      exact Nat.mod_eq_of_lt (h m (by omega))

/-- the `|=` loop of `pack` computes the sum (no truncation below 8 nibbles) -/
theorem foldl_or_eq_nibSum (v : Nat → Nat) : ∀ n, n ≤ 8 → (∀ i, i < n → v i < 16) →
    (List.range n).foldl (fun acc i => acc ||| ((v i <<< (4 * i)) % 2 ^ 32)) 0 = nibSum v n
  | 0, _, _ => rfl
  | n + 1, hn, h => by
    have ih := foldl_or_eq_nibSum v n (by omega) (fun i hi => h i (by omega))
    have hlt := nibSum_lt v n (fun i hi => h i (by omega))
    have hv := h n (by omega)
    rw [List.range_succ, List.foldl_append, ih]
    simp only [List.foldl_cons, List.foldl_nil, nibSum]
    have hsh : v n <<< (4 * n) = v n * 16 ^ n := by rw [Nat.shiftLeft_eq, pow16_eq]
    have hle : (16 : Nat) ^ (n + 1) ≤ 16 ^ 8 := Nat.pow_le_pow_right (by decide) hn
    have hb : v n * 16 ^ n < 2 ^ 32 := by
      have : v n * 16 ^ n ≤ 15 * 16 ^ n := Nat.mul_le_mul_right _ (by omega)
      rw [Nat.pow_succ] at hle
      have e : (16 : Nat) ^ 8 = 2 ^ 32 := by decide
      omega
    rw [Nat.mod_eq_of_lt (by rw [hsh]; exact hb), ← hsh]
    rw [or_shiftLeft_eq_add _ (by rw [pow16_eq]; exact hlt), Nat.shiftLeft_eq, pow16_eq]

/-- T1 core: field `m` of the packed word is the `m`-th nibble -/
theorem awqField_foldl (v : Nat → Nat) (h : ∀ i, i < 8 → v i < 16) (m : Nat) (hm : m < 8) :
    awqField ((List.range 8).foldl (fun acc i => acc ||| ((v i <<< (4 * i)) % 2 ^ 32)) 0) m = v m := by
  rw [foldl_or_eq_nibSum v 8 (by decide) h]
  unfold awqField
  rw [Nat.shiftRight_eq_div_pow, pow16_eq]
  exact nibSum_field v 8 m hm h

/-- 16-bit instance: four nibbles -/
theorem combine16_field (a b c d : Nat) (ha : a < 16) (hb : b < 16) (hc : c < 16) (hd : d < 16)
    (j : Nat) (hj : j < 4) :
    (((a ||| (b <<< 4) ||| (c <<< 8) ||| (d <<< 12)) % 2 ^ 16) >>> (4 * j)) % 16 =
      if j = 0 then a else if j = 1 then b else if j = 2 then c else d := by
  rw [or_shiftLeft_eq_add (k := 4) b (by omega)]
  rw [or_shiftLeft_eq_add (k := 8) c (by omega)]
  rw [or_shiftLeft_eq_add (k := 12) d (by omega)]
  rw [Nat.shiftRight_eq_div_pow]
  have : j = 0 ∨ j = 1 ∨ j = 2 ∨ j = 3 := by omega
  rcases this with rfl | rfl | rfl | rfl <;> simp <;> omega

end Quanto

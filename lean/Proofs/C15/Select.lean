/-
Selection of the AWQ representation: the decision regenerated from the source text is the closed
form, and its consequences.
-/
import Quanto.AwqSelect
namespace Quanto

theorem awqSelectedGen_eq (c : CreateCfg) : awqSelectedGen c = some (awqSelected c) := by
  -- (robust to a reordering of the conjuncts in the source: `&&` is compared up to associativity / commutativity)
  simp [awqSelectedGen, Generated.awqCreateConds, evalCreateCond, awqSelected, List.foldl]
  try ac_rfl

theorem awqSelected_iff (c : CreateCfg) :
    awqSelected c = true ↔ (c.qtype = "qint4" ∧ c.dtype = "f16" ∧ c.axis = 0 ∧ c.groupSize = 128 ∧
      c.size.length = 2 ∧ c.devType = "cuda" ∧ 8 ≤ c.capMajor) := by
  simp [awqSelected, and_assoc]

theorem create_off_cuda (c : CreateCfg) (h : c.devType ≠ "cuda") : createOutcome c = .ok .qbits := by
  have : awqSelected c = false := by
    cases hs : awqSelected c with
    | false => rfl
    | true => exact absurd ((awqSelected_iff c).mp hs).2.2.2.2.2.1 h
  simp [createOutcome, this]

theorem create_selected_admissible (c : CreateCfg) (N K : Nat) (hsel : awqSelected c = true)
    (hsize : c.size = [N, K]) (hK : c.groupSize ∣ K) (hN : 4 ∣ N) (hN0 : 0 < N) (hK0 : 0 < K) :
    createOutcome c = .ok .awq := by
  have hg : c.groupSize = 128 := ((awqSelected_iff c).mp hsel).2.2.2.1
  rw [hg] at hK
  have h1 : N % 4 = 0 := Nat.mod_eq_zero_of_dvd hN
  have h2 : K % 64 = 0 := by omega
  simp [createOutcome, hsel, hsize, v2Admissible, h1, h2, hN0, hK0]

theorem optimize_idem (cls : QCls) (c : CreateCfg) (r : QCls) (h : optimizeOutcome cls c = .ok r) :
    optimizeOutcome r c = .ok r := by
  unfold optimizeOutcome at *
  by_cases hc : cls = .qbits
  · subst hc
    simp at h
    cases r with
    | qbits => simpa using h
    | awq => simp
  · simp [hc] at h
    subst h
    simp [hc]

end Quanto

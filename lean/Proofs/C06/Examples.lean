/-
Concrete values used by the non-vacuity examples of `Proofs/Properties/C06.lean`.
-/
import Proofs.C06.Ops
namespace Quanto.C06

/-- a per-tensor float16 / qint8 value of size `[2, 3]` -/
def exPerTensor : QB :=
  ⟨f16, .qint8, none, [2, 3],
    ⟨[2, 3], #[.fin 1, .fin (-2), .fin 3, .fin 4, .fin 5, .fin 127]⟩, ⟨[], #[.fin (1/2)]⟩⟩

/-- a per-axis (axis 0) float32 / float8 value of size `[2, 3]` -/
def exPerAxis : QB :=
  ⟨f32, .e4m3, some true, [2, 3],
    ⟨[2, 3], #[.fin 1, .fin 2, .fin 3, .fin 4, .fin 5, .fin 6]⟩, ⟨[2, 1], #[.fin 1, .fin 2]⟩⟩

def exInput : T FV := ⟨[2, 2], #[.fin 1, .fin 2, .fin 3, .fin 4]⟩
def exScale : T FV := ⟨[2, 1], #[.fin 1, .fin 2]⟩
def exWeight : T FV := ⟨[2, 4], #[.fin 1, .fin 2, .fin 3, .fin 4, .fin 5, .fin 6, .fin 7, .fin 8]⟩

end Quanto.C06

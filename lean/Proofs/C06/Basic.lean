/-
Helper lemmas for C06 (`Proofs/Properties/C06.lean`): the well-formedness verdict of a model
`QB` in closed form, broadcasting against a keepdim shape, and `Val.wf` on lists.
-/
import Quanto.Spec.C06b
import Proofs.Tensor.Index
import Proofs.C14.Lemmas
namespace Quanto.C06

/-! ### the string checks of `wfQBytes` hold by construction on model values -/

theorem ofName_qtypeName (Q : QT) :
    ∃ q, QType.ofName Q.qtypeName = some q ∧ q.bits = 8 ∧ q.storage = Q.storageName := by
  cases Q
  · exact ⟨.qint8, by decide, rfl, rfl⟩
  · exact ⟨.qfloat8_e4m3fn, by decide, rfl, rfl⟩
  · exact ⟨.qfloat8_e5m2, by decide, rfl, rfl⟩

/-- closed form of the metadata verdict of a model value -/
theorem wfQBytes_meta (q : QB) :
    wfQBytes q.meta =
      if q.data.shape ≠ q.size then .payloadShape else
      if q.axis.isSome ∧ q.size.length < 2 then .axisInvalid else
      if !(scaleShapeFor q.size q.axis).contains q.scale.shape then .scaleShape else .ok := by
  obtain ⟨t, h1, h2, h3⟩ := ofName_qtypeName q.Q
  unfold wfQBytes QB.meta
  simp only [h1, h2, h3, ne_eq, not_true_eq_false, if_false]

/-! ### keepdim shapes -/


theorem scaleShapeFor_some (size : List Nat) (af : Bool) (h : 2 ≤ size.length) :
    scaleShapeFor size (some af) = [keptShape size af] := by
  have h1 : ¬ size.length ≤ 1 := by omega
  unfold keptShape
  rw [if_neg h1]
  match size, h with
  | d :: e :: ds, _ =>
    cases af
    · simp [scaleShapeFor, List.getLastD]
    · simp [scaleShapeFor]

theorem Val.wf_listV (l : List Val) : Val.wf (.listV l) = l.all Val.wf := by
  rw [Val.wf]; simp

theorem Val.wf_qb (q : QB) : Val.wf (.qb q) = q.wf := by rw [Val.wf]
theorem Val.wf_plain (F : Fmt) (t : T FV) : Val.wf (.plain F t) = true := by
  rw [Val.wf] <;> intro _ h <;> cases h
theorem Val.wf_fail (e : Err) : Val.wf (.fail e) = true := by
  rw [Val.wf] <;> intro _ h <;> cases h
theorem Val.wf_boolT (t : T Bool) : Val.wf (.boolT t) = true := by
  rw [Val.wf] <;> intro _ h <;> cases h
theorem Val.wf_scalar (k : Rat) : Val.wf (.scalar k) = true := by
  rw [Val.wf] <;> intro _ h <;> cases h

theorem Val.wf_listV_iff (l : List Val) : Val.wf (.listV l) = true ↔ ∀ v ∈ l, v.wf = true := by
  rw [Val.wf_listV, List.all_eq_true]

/-- the invariant in closed form -/
theorem wf_iff (q : QB) :
    q.wf = true ↔
      q.data.shape = q.size ∧ q.data.data.size = prod q.size ∧
      q.scale.data.size = prod q.scale.shape ∧
      (q.axis = none → q.scale.shape = []) ∧
      (∀ af, q.axis = some af → 2 ≤ q.size.length ∧ q.scale.shape = keptShape q.size af) := by
  unfold QB.wf T.wf
  rw [wfQBytes_meta]
  simp only [Bool.and_eq_true, beq_iff_eq]
  constructor
  · rintro ⟨⟨h1, h2⟩, h3⟩
    split_ifs at h1 with a b c
    have a' : q.data.shape = q.size := Classical.not_not.mp a
    refine ⟨a', by rw [h2, a'], h3, ?_, ?_⟩
    · intro hax
      rw [hax] at c
      simpa [scaleShapeFor] using c
    · intro af hax
      have hl : 2 ≤ q.size.length := by
        rw [hax] at b; simp at b; omega
      refine ⟨hl, ?_⟩
      rw [hax, scaleShapeFor_some _ _ hl] at c
      simpa using c
  · rintro ⟨h1, h2, h3, h4, h5⟩
    refine ⟨⟨?_, by rw [h2, h1]⟩, h3⟩
    rw [if_neg (by simp [h1])]
    cases hax : q.axis with
    | none =>
      simp [scaleShapeFor, h4 hax]
    | some af =>
      obtain ⟨hl, hs⟩ := h5 af hax
      rw [if_neg (by simp; omega), scaleShapeFor_some _ _ hl, hs]
      simp

/-! ### broadcasting a shape against a compatible one of at most the same rank -/

/-- `b` broadcasts to `a` dimension by dimension -/
def Compat : List Nat → List Nat → Prop
  | [], [] => True
  | x :: xs, y :: ys => (y = x ∨ y = 1) ∧ Compat xs ys
  | _, _ => False

theorem bcastDims_of_compat : ∀ (a b : List Nat), Compat a b → bcastDims a b = some a
  | [], [], _ => rfl
  | x :: xs, y :: ys, h => by
    have ih := bcastDims_of_compat xs ys h.2
    simp only [bcastDims, ih]
    rcases h.1 with rfl | rfl
    · simp
    · by_cases hx : x = 1
      · simp [hx]
      · simp [hx]
  | [], _ :: _, h => by simp [Compat] at h
  | _ :: _, [], h => by simp [Compat] at h

theorem compat_replicate_one : ∀ (a : List Nat), Compat a (List.replicate a.length 1)
  | [] => trivial
  | _ :: xs => ⟨Or.inr rfl, compat_replicate_one xs⟩

theorem compat_self : ∀ (a : List Nat), Compat a a
  | [] => trivial
  | _ :: xs => ⟨Or.inl rfl, compat_self xs⟩

theorem compat_append : ∀ (a b c d : List Nat), Compat a b → Compat c d → Compat (a ++ c) (b ++ d)
  | [], [], _, _, _, h => h
  | x :: xs, y :: ys, c, d, h, h' => ⟨h.1, compat_append xs ys c d h.2 h'⟩
  | [], _ :: _, _, _, h, _ => by simp [Compat] at h
  | _ :: _, [], _, _, h, _ => by simp [Compat] at h

theorem compat_keptShape (s : List Nat) (af : Bool) : Compat s (keptShape s af) := by
  unfold keptShape
  split_ifs with h1 h2
  · exact compat_replicate_one s
  · match s, h1 with
    | d :: ds, _ =>
      simp only [List.headD_cons, List.length_cons, Nat.add_sub_cancel]
      exact ⟨Or.inl rfl, compat_replicate_one ds⟩
  · have hne : s ≠ [] := by rintro rfl; simp at h1
    have hs := List.dropLast_concat_getLast hne
    have hl : s.getLastD 1 = s.getLast hne := by
      cases s with
      | nil => exact absurd rfl hne
      | cons x xs => rw [List.getLast_eq_getLastD, List.getLastD_cons]
    rw [hl]
    conv_lhs => rw [← hs]
    have := compat_replicate_one s.dropLast
    rw [List.length_dropLast] at this
    exact compat_append _ _ _ _ this ⟨Or.inl rfl, trivial⟩

theorem length_keptShape (s : List Nat) (af : Bool) : (keptShape s af).length = s.length := by
  unfold keptShape
  split_ifs with h1 h2
  · simp
  · simp; omega
  · simp; omega

theorem padShape_same (s t : List Nat) (h : t.length = s.length) : padShape s.length t = t := by
  simp [padShape, h]

theorem bcastShape_of_compat (a b : List Nat) (hl : b.length = a.length) (h : Compat a b) :
    bcastShape a b = some a := by
  unfold bcastShape
  simp only [hl, Nat.max_self]
  rw [padShape_same a a rfl, padShape_same a b hl]
  exact bcastDims_of_compat a b h

theorem bcastShape_keptShape (s : List Nat) (af : Bool) : bcastShape s (keptShape s af) = some s :=
  bcastShape_of_compat _ _ (length_keptShape s af) (compat_keptShape s af)

theorem bcastShape_scalar (s : List Nat) : bcastShape s [] = some s := by
  unfold bcastShape
  simp only [List.length_nil, Nat.zero_le, Nat.max_eq_left]
  rw [padShape_same s s rfl]
  simp only [padShape, List.length_nil, Nat.sub_zero, List.append_nil]
  exact bcastDims_of_compat _ _ (compat_replicate_one s)

end Quanto.C06

/-
C06 as an invariant of programs: the intercepted ops that may return quantized values, as a
datatype with an interpreter, and the closure of well-formedness under any sequence of them.
-/
import Proofs.C06.Ops
namespace Quanto.C06

/-- an intercepted op applied to one quantized tensor (other operands are parameters) -/
inductive QOp where
  | move (m : MoveOp)
  | t
  | neg
  | relu
  | mulScalar (k : Rat)
  | divScalar (k : Rat)
  | toDtype (F' : Fmt)
  | detach
  | clone
  | catWith (b : QB) (dim : Int)          -- `cat([q, b], dim)`
  | stackWith (b : QB) (dim : Int)        -- `stack([q, b], dim)` (repaired fallback)
  | split (sz : Nat) (dim : Int)          -- repaired `split`
  | softmax (oracle : T FV)
  | whereOp (oracle : T FV)

def QOp.run : QOp → QB → Val
  | .move m, q => qbMove m q
  | .t, q => qbT q
  | .neg, q => qbNeg q
  | .relu, q => qbRelu q
  | .mulScalar k, q => qbMulScalar q k
  | .divScalar k, q => qbDivScalar q k
  | .toDtype F', q => qbToDtype q F'
  | .detach, q => qbDetach q
  | .clone, q => qbClone q
  | .catWith b dim, q => qbCat [.qb q, .qb b] dim
  | .stackWith b dim, q => qbStack true [.qb q, .qb b] dim
  | .split sz dim, q => qbSplit true q sz dim
  | .softmax o, q => qbSoftmax q o
  | .whereOp o, q => qbWhere q o

/-- the quantized tensors a result holds (results are a value or a flat list of values) -/
def qbsOf : Val → List QB
  | .qb q => [q]
  | .listV l => l.filterMap fun v => match v with | .qb q => some q | _ => none
  | _ => []

/-- the quantized tensor the next op of a program is applied to -/
def firstQB (v : Val) : Option QB := (qbsOf v).head?

/-- the results of a program: each op is applied to the first quantized tensor returned by the
previous one; the program stops at the first result holding no quantized tensor -/
def trace : List QOp → QB → List Val
  | [], _ => []
  | op :: ops, q =>
    op.run q :: (match firstQB (op.run q) with
      | some q' => trace ops q'
      | none => [])

/-- `q'` is obtained from `q0` by some sequence of ops, choosing any quantized component of
each result -/
inductive Reach (q0 : QB) : QB → Prop where
  | base : Reach q0 q0
  | step {q q' : QB} (op : QOp) : Reach q0 q → q' ∈ qbsOf (op.run q) → Reach q0 q'

/-- a non-`.qb` result is vacuously well-formed when it is not a list -/
theorem wf_of_cases {v : Val} (h : ∀ r, v = .qb r → r.wf = true) (hl : ∀ l, v ≠ .listV l) :
    v.wf = true := by
  cases v with
  | qb r => rw [Val.wf_qb]; exact h r rfl
  | listV l => exact absurd rfl (hl l)
  | plain F t => exact Val.wf_plain _ _
  | boolT t => exact Val.wf_boolT _
  | scalar k => exact Val.wf_scalar _
  | fail e => exact Val.wf_fail _

theorem optToVal_ne_listV (F : Fmt) (o : Option (T FV)) (l : List Val) : optToVal F o ≠ .listV l := by
  unfold optToVal
  split <;> intro h <;> cases h

/-- close a goal `e ≠ .listV l` where `e` is a tree of `if` / `match` with non-list leaves -/
macro "not_list" : tactic =>
  `(tactic| ((repeat' split) <;>
      (intro hnl; first | (cases hnl; done) | exact absurd hnl (optToVal_ne_listV _ _ _))))

theorem requant_ne_listV (F : Fmt) (Q : QT) (x : T FV) (s : FV) (l : List Val) :
    requant F Q x s ≠ .listV l := by
  unfold requant; not_list

theorem run_ne_listV (op : QOp) (q : QB) (l : List Val) (hop : ∀ sz dim, op ≠ .split sz dim) :
    op.run q ≠ .listV l := by
  cases op with
  | move m => show qbMove m q ≠ _; unfold qbMove; not_list
  | t => show qbT q ≠ _; unfold qbT; not_list
  | neg => show qbNeg q ≠ _; unfold qbNeg; not_list
  | relu => show qbRelu q ≠ _; unfold qbRelu; not_list
  | mulScalar k => intro h; cases h
  | divScalar k => intro h; cases h
  | toDtype F' => intro h; cases h
  | detach => intro h; cases h
  | clone => intro h; cases h
  | catWith b dim => show qbCat [.qb q, .qb b] dim ≠ _; unfold qbCat; simp only []; not_list
  | stackWith b dim => show qbStack true [.qb q, .qb b] dim ≠ _; unfold qbStack; simp only []; not_list
  | split sz dim => exact absurd rfl (hop sz dim)
  | softmax o => exact requant_ne_listV _ _ _ _ _
  | whereOp o =>
    show qbWhere q o ≠ _
    unfold qbWhere
    split
    · exact requant_ne_listV _ _ _ _ _
    · intro h; cases h

/-- one op keeps the invariant: every quantized tensor in its result is well-formed -/
theorem step_wf (op : QOp) {q : QB} (hq : q.wf = true) : (op.run q).wf = true := by
  by_cases hop : ∀ sz dim, op ≠ .split sz dim
  · refine wf_of_cases (fun r hr => ?_) (fun l => run_ne_listV op q l hop)
    cases op with
    | move m => exact (move_wf hq hr).1
    | t => exact (t_wf hq hr).1
    | neg => exact (neg_wf hq hr).1
    | relu => exact (relu_wf hq hr).1
    | mulScalar k => exact (mulScalar_wf hq hr).1
    | divScalar k => exact (divScalar_wf hq hr).1
    | toDtype F' =>
      obtain ⟨r', h1, h2, -⟩ := toDtype_wf F' hq
      have : qbToDtype q F' = .qb r := hr
      rw [h1] at this; cases this; exact h2
    | detach => cases hr; exact hq
    | clone => cases hr; exact hq
    | catWith b dim => exact (cat_wf hq hr).1
    | stackWith b dim => exact (stack_wf hq hr).1
    | split sz dim => exact absurd rfl (hop sz dim)
    | softmax o => exact (requant_wf hr).1
    | whereOp o =>
      have hr' : qbWhere q o = .qb r := hr
      unfold qbWhere at hr'
      split at hr'
      · exact (requant_wf hr').1
      · cases hr'
  · simp only [not_forall, not_not] at hop
    obtain ⟨sz, dim, rfl⟩ := hop
    cases hres : qbSplit true q sz dim with
    | listV l =>
      show (qbSplit true q sz dim).wf = true
      rw [hres, Val.wf_listV_iff]; exact split_wf hq hres
    | qb r =>
      exfalso
      unfold qbSplit at hres
      revert hres
      (repeat' split) <;> (intro h; cases h)
    | plain F t => show (qbSplit true q sz dim).wf = true; rw [hres]; exact Val.wf_plain _ _
    | boolT t => show (qbSplit true q sz dim).wf = true; rw [hres]; exact Val.wf_boolT _
    | scalar k => show (qbSplit true q sz dim).wf = true; rw [hres]; exact Val.wf_scalar _
    | fail e => show (qbSplit true q sz dim).wf = true; rw [hres]; exact Val.wf_fail _

theorem wf_of_mem_qbsOf {v : Val} (hv : v.wf = true) {q : QB} (h : q ∈ qbsOf v) : q.wf = true := by
  cases v with
  | qb r =>
    simp only [qbsOf, List.mem_singleton] at h
    subst h; rwa [Val.wf_qb] at hv
  | listV l =>
    rw [Val.wf_listV_iff] at hv
    simp only [qbsOf, List.mem_filterMap] at h
    obtain ⟨v, hvl, hvq⟩ := h
    cases v with
    | qb r =>
      simp only [Option.some.injEq] at hvq
      subst hvq
      have := hv _ hvl
      rwa [Val.wf_qb] at this
    | _ => simp at hvq
  | _ => simp [qbsOf] at h

theorem wf_of_firstQB {v : Val} (hv : v.wf = true) {q : QB} (h : firstQB v = some q) : q.wf = true :=
  wf_of_mem_qbsOf hv (List.mem_of_mem_head? h)

/-- every result along a program started on a well-formed tensor is well-formed -/
theorem trace_wf : ∀ (ops : List QOp) {q : QB}, q.wf = true → ∀ v ∈ trace ops q, v.wf = true
  | [], _, _, v, hv => by simp [trace] at hv
  | op :: ops, q, hq, v, hv => by
    have hstep := step_wf op hq
    simp only [trace, List.mem_cons] at hv
    rcases hv with rfl | hv
    · exact hstep
    · split at hv
      · rename_i q' hq'
        exact trace_wf ops (wf_of_firstQB hstep hq') v hv
      · simp at hv

/-- every quantized tensor reachable from a well-formed one is well-formed -/
theorem reach_wf {q0 q : QB} (h0 : q0.wf = true) (h : Reach q0 q) : q.wf = true := by
  induction h with
  | base => exact h0
  | step op _ hmem ih => exact wf_of_mem_qbsOf (step_wf op ih) hmem

end Quanto.C06

/-
Movement ops keep tensors well-formed (`data.size = prod shape`): every movement op is either a
`gather` / `ofFn` (size by construction) or keeps the data and changes the shape to one with
the same number of elements.
-/
import Quanto.Ops
import Proofs.Tensor.Index
namespace Quanto.C06

variable {α : Type} [Inhabited α]

/-- a tensor holds as many values as its shape says -/
def TWf (t : T α) : Prop := t.data.size = prod t.shape

theorem twf_gather (t : T α) (s : List Nat) (src : Nat → Nat) : TWf (t.gather s src) :=
  T.size_gather t s src

omit [Inhabited α] in
theorem twf_ofFn (s : List Nat) (f : Nat → α) : TWf (T.ofFn s f) := T.size_ofFn s f

theorem prod_listInsert_one (s : List Nat) (d : Nat) : prod (listInsert s d 1) = prod s := by
  unfold listInsert
  rw [prod_append, prod_append]
  conv_rhs => rw [← List.take_append_drop d s, prod_append]
  simp [prod]

omit [Inhabited α] in
theorem twf_view {t d : T α} {s : List Nat} (ht : TWf t) (h : t.view? s = some d) : TWf d := by
  unfold T.view? at h
  split_ifs at h with hp
  cases h
  show t.data.size = prod s
  rw [hp]; exact ht

theorem twf_permute {t d : T α} {p : List Nat} (h : t.permute? p = some d) : TWf d := by
  unfold T.permute? at h
  split_ifs at h
  cases h
  exact twf_gather _ _ _

theorem twf_transpose {t d : T α} {a b : Int} (ht : TWf t) (h : t.transpose? a b = some d) :
    TWf d := by
  unfold T.transpose? at h
  split at h
  · cases h; exact twf_gather _ _ _
  · split_ifs at h
    cases h; exact ht

theorem twf_select {t d : T α} {a b : Int} (h : t.select? a b = some d) : TWf d := by
  unfold T.select? at h
  split at h
  · cases h
  · simp only [] at h
    split_ifs at h
    all_goals (cases h; exact twf_gather _ _ _)

theorem twf_slice {t d : T α} {a b c : Int} {st : Nat} (h : t.slice? a b c st = some d) : TWf d := by
  unfold T.slice? at h
  split at h
  · cases h
  · simp only [] at h
    split_ifs at h
    cases h; exact twf_gather _ _ _

omit [Inhabited α] in
theorem twf_unsqueeze {t d : T α} {a : Int} (ht : TWf t) (h : t.unsqueeze? a = some d) : TWf d := by
  unfold T.unsqueeze? at h
  split at h
  · cases h
  · cases h
    show t.data.size = prod (listInsert t.shape _ 1)
    rw [prod_listInsert_one]; exact ht

theorem twf_expand {t d : T α} {s : List Nat} (h : t.expand? s = some d) : TWf d := by
  unfold T.expand? at h
  simp only [] at h
  split_ifs at h
  cases h; exact twf_gather _ _ _

theorem twf_move {t d : T α} (m : MoveOp) (ht : TWf t) (h : m.apply t = some d) : TWf d := by
  cases m with
  | view s => exact twf_view ht h
  | permute p => exact twf_permute h
  | transpose a b => exact twf_transpose ht h
  | select a b => exact twf_select h
  | slice a b c st => exact twf_slice h
  | unsqueeze a => exact twf_unsqueeze ht h
  | expand s => exact twf_expand h

theorem twf_cat {ts : List (T α)} {dim : Int} {d : T α} (h : T.cat? ts dim = some d) : TWf d := by
  unfold T.cat? at h
  split at h
  · cases h
  · split at h
    · cases h
    · simp only [] at h
      split_ifs at h
      cases h; exact twf_ofFn _ _

theorem twf_stack {ts : List (T α)} {dim : Int} {d : T α} (h : T.stack? ts dim = some d) : TWf d := by
  unfold T.stack? at h
  split at h
  · cases h
  · split_ifs at h
    split at h
    · cases h
    · exact twf_cat h

theorem mem_of_mapM_some {β γ : Type} (f : β → Option γ) :
    ∀ (l : List β) (cs : List γ), l.mapM f = some cs → ∀ c ∈ cs, ∃ a ∈ l, f a = some c
  | [], cs, h, c, hc => by
    simp at h; subst h; simp at hc
  | a :: l, cs, h, c, hc => by
    rw [List.mapM_cons] at h
    cases hfa : f a with
    | none => simp [hfa] at h
    | some b =>
      cases hl : l.mapM f with
      | none => simp [hfa, hl] at h
      | some bs =>
        simp [hfa, hl] at h
        subst h
        rcases List.mem_cons.mp hc with rfl | hc'
        · exact ⟨a, List.mem_cons_self, hfa⟩
        · obtain ⟨a', ha', hf'⟩ := mem_of_mapM_some f l bs hl c hc'
          exact ⟨a', List.mem_cons_of_mem _ ha', hf'⟩

theorem twf_split {t : T α} {sz : Nat} {dim : Int} {cs : List (T α)}
    (h : t.split? sz dim = some cs) : ∀ c ∈ cs, TWf c := by
  unfold T.split? at h
  split at h
  · cases h
  · split_ifs at h
    intro c hc
    obtain ⟨i, -, hi⟩ := mem_of_mapM_some _ _ _ h c hc
    exact twf_slice hi

end Quanto.C06

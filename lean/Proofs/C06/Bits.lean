/-
C06 for 2/4-bit tensors: the metadata a model `QBits` value reports and the shapes produced by
`affQuantize` (grouped codes, keepdim scale / zero-point, densely packed payload).
-/
import Proofs.C06.Basic
import Proofs.Properties.C03
import Proofs.Properties.C04
namespace Quanto.C06

/-- qtype name of a sub-byte width -/
def bitsQtypeName (bits : Nat) : String :=
  if bits = 2 then "qint2" else if bits = 4 then "qint4" else "other"

/-- what a model `QBits` value reports through the flatten interface: the `PackedTensor` holds
`pack_weights` of the codes and reports the shape of the (grouped) code matrix -/
def QBits.meta (F : Fmt) (q : QBits) : QBitsMeta :=
  { qtype := bitsQtypeName q.bits
    axis := some q.axisFirst
    groupSize := q.groupSize
    size := q.size
    outerDtype := fmtDtype F
    packedBits := q.bits
    packedSize := q.data.shape
    payloadShape := (packWeights q.bits q.data).shape
    payloadDtype := "uint8"
    scaleShape := q.scale.shape
    scaleDtype := fmtDtype F
    zeroShape := q.zero.shape
    zeroDtype := "int8" }

theorem maxOptimize_shapes (F : Fmt) (bits : Nat) (ext : Bool) (m : T FV) (af : Bool) :
    (maxOptimize F bits ext m af).scale.shape = keptShape m.shape af ∧
    (maxOptimize F bits ext m af).scale.data.size = prod (keptShape m.shape af) ∧
    (maxOptimize F bits ext m af).zero.shape = keptShape m.shape af ∧
    (maxOptimize F bits ext m af).zero.data.size = prod (keptShape m.shape af) := by
  refine ⟨rfl, ?_, rfl, ?_⟩
  · simp [maxOptimize, reduceSlices_size]
  · simp [maxOptimize, reduceSlices_size]

/-- the shape of the code matrix: the input shape, or the grouped shape -/
def codeShape (shape : List Nat) (af : Bool) : Option Nat → Option (List Nat)
  | none => some shape
  | some g => groupShape shape af g

/-- what a successful `affQuantize` returns, shape-wise -/
theorem affQuantize_spec {F : Fmt} {bits : Nat} {ext : Bool} {x : T FV} {af : Bool} {gs : Option Nat}
    {q : QBits} (h : affQuantize F bits ext x af gs = .ok q) :
    ∃ cs, codeShape x.shape af gs = some cs ∧
      q.bits = bits ∧ q.axisFirst = af ∧ q.groupSize = gs ∧ q.size = x.shape ∧
      q.data.shape = cs ∧ q.data.data.size = prod cs ∧
      q.scale.shape = keptShape cs af ∧ q.scale.data.size = prod (keptShape cs af) ∧
      q.zero.shape = keptShape cs af ∧ q.zero.data.size = prod (keptShape cs af) := by
  cases gs with
  | none =>
    unfold affQuantize affQuantizeWith at h
    simp only [] at h
    obtain ⟨s1, s2, s3, s4⟩ := maxOptimize_shapes F bits ext x af
    rw [s1, bcastShape_keptShape] at h
    simp only [] at h
    cases h
    exact ⟨x.shape, rfl, rfl, rfl, rfl, rfl, rfl, T.size_ofFn _ _, s1, s2, s3, s4⟩
  | some g =>
    unfold affQuantize affQuantizeWith group at h
    cases hg : groupShape x.shape af g with
    | none => simp [hg] at h
    | some s =>
      simp only [hg] at h
      obtain ⟨s1, s2, s3, s4⟩ := maxOptimize_shapes F bits ext (x.gather s (groupSrc x.shape af g)) af
      rw [s1, bcastShape_keptShape] at h
      simp only [] at h
      cases h
      exact ⟨s, hg, rfl, rfl, rfl, rfl, rfl, T.size_ofFn _ _, s1, s2, s3, s4⟩

theorem ofName_bits (bits : Nat) (hb : bits = 2 ∨ bits = 4) :
    ∃ t, QType.ofName (bitsQtypeName bits) = some t ∧ t.bits = bits := by
  rcases hb with rfl | rfl
  · exact ⟨.qint2, by decide, rfl⟩
  · exact ⟨.qint4, by decide, rfl⟩

/-- the metadata verdict of a `QBits` value whose parts have the expected shapes -/
theorem wfQBits_of_shapes (F : Fmt) (q : QBits) (hb : q.bits = 2 ∨ q.bits = 4) (cs : List Nat)
    (hcs : codeShape q.size q.axisFirst q.groupSize = some cs) (hd : q.data.shape = cs)
    (hs : q.scale.shape = keptShape cs q.axisFirst) (hz : q.zero.shape = keptShape cs q.axisFirst) :
    wfQBits (QBits.meta F q) = .ok := by
  obtain ⟨t, h1, h2⟩ := ofName_bits q.bits hb
  have h8 : ¬ (t.bits = 8 ∨ q.bits ≠ t.bits) := by rw [h2]; omega
  have hp : (packWeights q.bits q.data).shape = ceilDiv (cs.headD 0 * t.bits) 8 :: cs.tail := by
    rw [C04_dense q.bits hb, hd, h2]
  unfold wfQBits QBits.meta
  simp only [h1, h8, if_false, ne_eq, not_true_eq_false, hd, hp, hs, hz]
  cases hg : q.groupSize with
  | none =>
    rw [hg] at hcs; simp only [codeShape, Option.some.injEq] at hcs
    simp [hcs]
  | some g =>
    rw [hg] at hcs; simp only [codeShape] at hcs
    simp [hcs]

theorem affQuantize_wf {F : Fmt} {bits : Nat} {ext : Bool} {x : T FV} {af : Bool} {gs : Option Nat}
    {q : QBits} (hb : bits = 2 ∨ bits = 4) (h : affQuantize F bits ext x af gs = .ok q) :
    wfQBits (QBits.meta F q) = .ok ∧
      q.data.data.size = prod q.data.shape ∧ q.scale.data.size = prod q.scale.shape ∧
      q.zero.data.size = prod q.zero.shape ∧
      (packWeights q.bits q.data).data.size = prod (packWeights q.bits q.data).shape := by
  obtain ⟨cs, h0, h1, h2, h3, h4, h5, h6, h7, h8, h9, h10⟩ := affQuantize_spec h
  refine ⟨wfQBits_of_shapes F q (by rw [h1]; exact hb) cs (by rw [h4, h2, h3]; exact h0) h5
    (by rw [h2]; exact h7) (by rw [h2]; exact h9), by rw [h5]; exact h6, by rw [h7]; exact h8,
    by rw [h9]; exact h10, C04_dense_size _ _⟩

end Quanto.C06

/-
C06 at the level of `QB` values: quantization and every intercepted op that returns a quantized
value return a well-formed one.  Restated under `C06_*` names in `Proofs/Properties/C06.lean`.
-/
import Proofs.C06.Basic
import Proofs.C06.Moves
import Proofs.Properties.C14
namespace Quanto.C06

/-! ### quantization -/

/-- what a successful `symQuantize` returns -/
theorem symQuantize_spec {F : Fmt} {Q : QT} {x : T FV} {axis : Option Int} {scale : T FV} {r : QBytes}
    (h : symQuantize F Q x axis scale = .ok r) :
    r.size = x.shape ∧ r.scale = scale ∧ r.data.shape = x.shape ∧ r.data.data.size = prod x.shape ∧
    (r.axis = none → scale.shape = []) ∧
    (∀ af, r.axis = some af → 2 ≤ x.shape.length ∧ scale.shape = keptShape x.shape af) ∧
    (axis = none → r.axis = none) := by
  unfold symQuantize at h
  cases hv : symValidate x.shape axis scale.shape with
  | error e => rw [hv] at h; cases h
  | ok ax =>
    rw [hv] at h
    simp only [] at h
    -- the validation ladder pins the scale shape
    have hshape : (ax = none → scale.shape = []) ∧
        (∀ af, ax = some af → 2 ≤ x.shape.length ∧ scale.shape = keptShape x.shape af) ∧
        (axis = none → ax = none) := by
      cases axis with
      | none =>
        obtain ⟨h1, h2⟩ := C14_symmetric_per_tensor _ _ _ hv
        subst h1
        exact ⟨fun _ => h2, fun af h => (by cases h), fun _ => rfl⟩
      | some a =>
        obtain ⟨af, h1, h2, h3⟩ := C14_symmetric_per_axis_scale_shape _ _ _ _ hv
        subst h1
        refine ⟨fun h => (by cases h), fun af' h => ?_, fun h => (by cases h)⟩
        cases h
        rw [scaleShapeFor_some _ _ h2] at h3
        exact ⟨h2, by simpa using h3⟩
    have hb : bcastShape x.shape scale.shape = some x.shape := by
      cases ax with
      | none => rw [hshape.1 rfl]; exact bcastShape_scalar _
      | some af => rw [(hshape.2.1 af rfl).2]; exact bcastShape_keptShape _ _
    rw [hb] at h
    simp only [] at h
    cases h
    exact ⟨rfl, rfl, rfl, T.size_ofFn _ _, hshape.1, hshape.2.1, hshape.2.2⟩

theorem quantize_wf {F : Fmt} {Q : QT} {x : T FV} {axis : Option Int} {scale : T FV} {r : QBytes}
    (h : symQuantize F Q x axis scale = .ok r) (hs : scale.data.size = prod scale.shape) :
    (QB.mk F Q r.axis r.size r.data r.scale).wf = true := by
  obtain ⟨h1, h2, h3, h4, h5, h6, -⟩ := symQuantize_spec h
  rw [wf_iff]
  simp only [h1, h2, h3]
  exact ⟨trivial, h4, hs, h5, h6⟩

theorem requant_wf {F : Fmt} {Q : QT} {x : T FV} {scale : FV} {r : QB}
    (h : requant F Q x scale = .qb r) :
    r.wf = true ∧ r.axis = none ∧ r.size = x.shape ∧ r.F = F ∧ r.Q = Q := by
  unfold requant at h
  split at h
  · cases h
  · rename_i r' hq
    cases h
    have := quantize_wf hq rfl
    obtain ⟨h1, -, -, -, -, -, h7⟩ := symQuantize_spec hq
    rw [h7 rfl] at this
    exact ⟨this, rfl, h1, rfl, rfl⟩

/-! ### movement ops -/

theorem move_wf {m : MoveOp} {q r : QB} (hq : q.wf = true) (h : qbMove m q = .qb r) :
    r.wf = true ∧ r.axis = none ∧ q.axis = none ∧ r.scale = q.scale ∧ r.F = q.F ∧ r.Q = q.Q ∧
      m.apply q.data = some r.data := by
  unfold qbMove at h
  split_ifs at h with hp
  · split at h
    · rename_i d hd
      cases h
      have hax : q.axis = none := by simpa [QB.isPerTensor] using hp
      rw [wf_iff] at hq
      obtain ⟨h1, h2, h3, h4, -⟩ := hq
      refine ⟨?_, rfl, hax, rfl, rfl, rfl, hd⟩
      rw [wf_iff]
      refine ⟨rfl, ?_, h3, fun _ => h4 hax, fun af h => by cases h⟩
      exact twf_move m (by rw [← h1] at h2; exact h2) hd
    · cases h
  · split at h
    · cases h
    · unfold optToVal at h
      split at h <;> cases h

theorem move_qb_axis_none {m : MoveOp} {q r : QB} (h : qbMove m q = .qb r) : q.axis = none := by
  unfold qbMove at h
  split_ifs at h with hp
  · simpa [QB.isPerTensor] using hp
  · split at h
    · cases h
    · unfold optToVal at h
      split at h <;> cases h

theorem move_per_axis {m : MoveOp} {q : QB} (hq : q.axis ≠ none) :
    match qbMove m q with | .qb _ => False | _ => True := by
  cases hres : qbMove m q with
  | qb r => exact hq (move_qb_axis_none hres)
  | _ => trivial

/-! ### `aten.t` -/

theorem transpose2_shape {α : Type} [Inhabited α] {t d : T α} {d0 d1 : Nat} (hs : t.shape = [d0, d1])
    (h : t.transpose? 0 1 = some d) : d.shape = [d1, d0] ∧ TWf d := by
  unfold T.transpose? at h
  rw [hs] at h
  have e0 : normDim [d0, d1].length 0 = some 0 := by show normDim 2 0 = some 0; decide
  have e1 : normDim [d0, d1].length 1 = some 1 := by show normDim 2 1 = some 1; decide
  rw [e0, e1] at h
  simp only [] at h
  cases h
  refine ⟨?_, twf_gather _ _ _⟩
  simp [T.permute, T.gather, T.ofFn, permuteShape, hs, List.range, List.range.loop]

theorem t_wf {q r : QB} (hq : q.wf = true) (h : qbT q = .qb r) :
    r.wf = true ∧ r.F = q.F ∧ r.Q = q.Q ∧ r.axis = q.axis.map (!·) ∧ r.size = q.size.reverse ∧
      (q.size.length = 2 → q.data.transpose? 0 1 = some r.data) ∧ (q.size.length < 2 → r = q) := by
  have hq0 := hq
  rw [wf_iff] at hq
  obtain ⟨h1, h2, h3, h4, h5⟩ := hq
  -- fewer than two dimensions: the tensor itself (a per-axis tensor has at least two dimensions)
  have small : q.size.length < 2 → r = q → r.wf = true ∧ r.F = q.F ∧ r.Q = q.Q ∧
      r.axis = q.axis.map (!·) ∧ r.size = q.size.reverse ∧
      (q.size.length = 2 → q.data.transpose? 0 1 = some r.data) ∧ (q.size.length < 2 → r = q) := by
    intro hl hr
    subst hr
    have hax : r.axis = none := by
      cases hax : r.axis with
      | none => rfl
      | some af => have := (h5 af hax).1; omega
    refine ⟨hq0, rfl, rfl, by simp [hax], ?_, fun h2 => by omega, fun _ => rfl⟩
    match hsz : r.size, hl with
    | [], _ => rfl
    | [_], _ => rfl
    | _ :: _ :: _, hl => exact absurd hl (by simp)
  unfold qbT at h
  split at h
  · rename_i d0 d1 hsz
    rw [hsz] at h1 h2 h5
    split at h
    · cases h
    · rename_i d hd
      obtain ⟨hds, hdw⟩ := transpose2_shape h1 hd
      split at h
      · rename_i hax
        cases h
        refine ⟨?_, rfl, rfl, by simp [hax], by simp [hsz], fun _ => hd, fun hl => by simp [hsz] at hl⟩
        rw [wf_iff]
        exact ⟨hds, by rw [hdw, hds], h3, fun _ => h4 hax, fun af h => by simp [hax] at h⟩
      · rename_i af hax
        split at h
        · cases h
        · rename_i s hs
          cases h
          obtain ⟨-, hss⟩ := h5 af hax
          have hss' : q.scale.shape = [if af then d0 else 1, if af then 1 else d1] := by
            rw [hss]; cases af <;> simp [keptShape, List.getLastD]
          obtain ⟨hsh, hsw⟩ := transpose2_shape hss' hs
          refine ⟨?_, rfl, rfl, by simp [hax], by simp [hsz], fun _ => hd, fun hl => by simp [hsz] at hl⟩
          rw [wf_iff]
          refine ⟨hds, by rw [hdw, hds], hsw, fun h => (by cases h), fun af' h => ?_⟩
          cases h
          refine ⟨by simp, ?_⟩
          show s.shape = _
          rw [hsh]; cases af <;> simp [keptShape, List.getLastD]
  · rename_i d0 hsz
    cases h
    exact small (by simp [hsz]) rfl
  · rename_i hsz
    cases h
    exact small (by simp [hsz]) rfl
  · cases h

/-! ### elementwise ops, copies, dtype moves -/

/-- replacing codes / scale values by arrays of the same size and shape keeps the invariant -/
theorem wf_congr {q r : QB} (hq : q.wf = true) (ha : r.axis = q.axis) (hz : r.size = q.size)
    (hd : r.data.shape = q.data.shape) (hds : r.data.data.size = q.data.data.size)
    (hs : r.scale.shape = q.scale.shape) (hss : r.scale.data.size = q.scale.data.size) :
    r.wf = true := by
  rw [wf_iff] at hq ⊢
  rw [ha, hz, hd, hds, hs, hss]
  exact hq

theorem neg_wf {q r : QB} (hq : q.wf = true) (h : qbNeg q = .qb r) :
    r.wf = true ∧ r.size = q.size ∧ r.axis = q.axis ∧ r.scale = q.scale ∧ r.F = q.F ∧ r.Q = q.Q := by
  unfold qbNeg at h
  split_ifs at h
  · split at h <;> cases h
  · cases h
    exact ⟨wf_congr hq rfl rfl rfl (T.size_map _ _) rfl rfl, rfl, rfl, rfl, rfl, rfl⟩

theorem relu_wf {q r : QB} (hq : q.wf = true) (h : qbRelu q = .qb r) :
    r.wf = true ∧ r.size = q.size ∧ r.axis = q.axis ∧ r.scale = q.scale ∧ r.F = q.F ∧ r.Q = q.Q := by
  unfold qbRelu at h
  split_ifs at h
  · split at h <;> cases h
  · cases h
    exact ⟨wf_congr hq rfl rfl rfl (T.size_map _ _) rfl rfl, rfl, rfl, rfl, rfl, rfl⟩

theorem mulScalar_wf {q r : QB} {k : Rat} (hq : q.wf = true) (h : qbMulScalar q k = .qb r) :
    r.wf = true ∧ r.size = q.size ∧ r.axis = q.axis ∧ r.data = q.data ∧ r.F = q.F ∧ r.Q = q.Q := by
  unfold qbMulScalar at h
  cases h
  exact ⟨wf_congr hq rfl rfl rfl rfl rfl (T.size_map _ _), rfl, rfl, rfl, rfl, rfl⟩

theorem divScalar_wf {q r : QB} {k : Rat} (hq : q.wf = true) (h : qbDivScalar q k = .qb r) :
    r.wf = true ∧ r.size = q.size ∧ r.axis = q.axis ∧ r.data = q.data ∧ r.F = q.F ∧ r.Q = q.Q := by
  unfold qbDivScalar at h
  cases h
  exact ⟨wf_congr hq rfl rfl rfl rfl rfl (T.size_map _ _), rfl, rfl, rfl, rfl, rfl⟩

theorem toDtype_wf {q : QB} (F' : Fmt) (hq : q.wf = true) :
    ∃ r, qbToDtype q F' = .qb r ∧ r.wf = true ∧ r.data = q.data ∧ r.Q = q.Q ∧ r.axis = q.axis ∧
      r.size = q.size ∧ r.F = F' ∧ r.scale = q.scale.map F'.rndV :=
  ⟨_, rfl, wf_congr hq rfl rfl rfl rfl rfl (T.size_map _ _), rfl, rfl, rfl, rfl, rfl, rfl⟩

/-! ### cat / stack / split -/

theorem optToVal_ne_qb (F : Fmt) (o : Option (T FV)) (r : QB) : optToVal F o ≠ .qb r := by
  unfold optToVal
  split <;> intro h <;> cases h

theorem cat_wf {a b r : QB} {dim : Int} (ha : a.wf = true) (h : qbCat [.qb a, .qb b] dim = .qb r) :
    r.wf = true ∧ r.axis = none ∧ r.scale = a.scale ∧ r.F = a.F ∧ r.Q = a.Q ∧
      T.cat? [a.data, b.data] dim = some r.data := by
  unfold qbCat at h
  simp only [] at h
  split_ifs at h with hc
  · split at h
    · rename_i d hd
      cases h
      have hax : a.axis = none := by
        simp [catQuantizedPath, QB.isPerTensor] at hc; exact hc.1.1.1.1
      rw [wf_iff] at ha
      obtain ⟨-, -, h3, h4, -⟩ := ha
      refine ⟨?_, hax, rfl, rfl, rfl, hd⟩
      rw [wf_iff]
      exact ⟨rfl, twf_cat hd, h3, fun _ => h4 hax, fun af h => by simp [hax] at h⟩
    · cases h
  · split at h
    · cases h
    · exact absurd h (optToVal_ne_qb _ _ _)

theorem stack_wf {fx : Bool} {a b r : QB} {dim : Int} (ha : a.wf = true)
    (h : qbStack fx [.qb a, .qb b] dim = .qb r) :
    r.wf = true ∧ r.axis = none ∧ r.scale = a.scale ∧ r.F = a.F ∧ r.Q = a.Q ∧
      T.stack? [a.data, b.data] dim = some r.data := by
  unfold qbStack at h
  simp only [] at h
  by_cases hc : catQuantizedPath a b = true
  · rw [if_pos hc] at h
    split at h
    · rename_i d hd
      cases h
      have hax : a.axis = none := by
        simp [catQuantizedPath, QB.isPerTensor] at hc; exact hc.1.1.1
      rw [wf_iff] at ha
      obtain ⟨-, -, h3, h4, -⟩ := ha
      refine ⟨?_, hax, rfl, rfl, rfl, hd⟩
      rw [wf_iff]
      exact ⟨rfl, twf_stack hd, h3, fun _ => h4 hax, fun af h => by simp [hax] at h⟩
    · cases h
  · rw [if_neg hc] at h
    split_ifs at h
    split at h
    · cases h
    · split at h
      · cases h
      · exact absurd h (optToVal_ne_qb _ _ _)

theorem split_wf {q : QB} {sz : Nat} {dim : Int} {l : List Val} (hq : q.wf = true)
    (h : qbSplit true q sz dim = .listV l) : ∀ v ∈ l, v.wf = true := by
  unfold qbSplit at h
  simp only [if_true] at h
  split_ifs at h with hp
  · split at h
    · cases h
    · rename_i cs hcs
      cases h
      intro v hv
      obtain ⟨d, hd, rfl⟩ := List.mem_map.mp hv
      have hax : q.axis = none := by simpa [QB.isPerTensor] using hp
      rw [wf_iff] at hq
      obtain ⟨-, -, h3, h4, -⟩ := hq
      rw [Val.wf_qb, wf_iff]
      exact ⟨rfl, twf_split hcs d hd, h3, fun _ => h4 hax, fun af h => by simp [hax] at h⟩
  · split at h
    · cases h
    · split at h
      · cases h
      · cases h
        intro v hv
        obtain ⟨d, -, rfl⟩ := List.mem_map.mp hv
        exact Val.wf_plain _ _

/-! ### the original `split` (stale size) breaks the invariant -/

theorem split_unfixed_eq {q : QB} {sz : Nat} {dim : Int} {cs : List (T FV)} (hax : q.axis = none)
    (h : q.data.split? sz dim = some cs) :
    qbSplit false q sz dim = .listV (cs.map fun d => .qb { q with data := d }) := by
  unfold qbSplit
  simp [QB.isPerTensor, hax, h]

/-- a well-formed per-tensor value with a `4 × 2` payload -/
def qSplit : QB :=
  ⟨f32, .qint8, none, [4, 2],
    ⟨[4, 2], #[.fin 1, .fin 2, .fin 3, .fin 4, .fin 5, .fin 6, .fin 7, .fin 8]⟩, ⟨[], #[.fin 1]⟩⟩

theorem qSplit_wf : qSplit.wf = true := by
  rw [wf_iff]
  refine ⟨rfl, rfl, rfl, fun _ => rfl, fun af h => by cases h⟩

theorem qSplit_chunks :
    (qSplit.data.split? 2 0).map (List.map T.shape) = some [[2, 2], [2, 2]] := by decide +kernel

theorem split_unfixed_counterexample :
    ∃ l, qbSplit false qSplit 2 0 = .listV l ∧ ∃ v ∈ l, v.wf = false := by
  have hc := qSplit_chunks
  cases hcs : qSplit.data.split? 2 0 with
  | none => rw [hcs] at hc; cases hc
  | some cs =>
    rw [hcs] at hc
    simp only [Option.map_some, Option.some.injEq] at hc
    refine ⟨_, split_unfixed_eq rfl hcs, ?_⟩
    match cs, hc with
    | c :: _, hc =>
      have h1 : c.shape = [2, 2] := by simp at hc; exact hc.1
      refine ⟨_, List.mem_map.mpr ⟨c, List.mem_cons_self, rfl⟩, ?_⟩
      rw [Val.wf_qb]
      cases hw : QB.wf _ with
      | false => rfl
      | true =>
        rw [wf_iff] at hw
        have := hw.1
        simp only [qSplit] at this
        rw [h1] at this
        simp at this

end Quanto.C06

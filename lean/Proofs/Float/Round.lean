/-
Lemmas about format rounding: `Fmt.rndFin`, `Fmt.rnd`, `Fmt.fl`.
-/
import Proofs.Float.Basic
import Mathlib.Tactic.NormNum
import Mathlib.Tactic.FieldSimp

namespace Quanto

/-- v is a floating point number of format F (normal or subnormal, exponent unbounded above) -/
def Fmt.Rep (F : Fmt) (v : Rat) : Prop :=
  ∃ k j : Int, v = (k : Rat) * (2 : Rat) ^ j ∧ |k| < 2 ^ F.p ∧ F.emin - (F.p : Int) + 1 ≤ j

/-! ### helpers -/

theorem pow2_of_nonneg {e : Int} (h : 0 ≤ e) : pow2 e = (((2 : Int) ^ e.toNat : Int) : Rat) := by
  unfold pow2
  rw [if_pos h]
  push_cast
  rfl

theorem ilog2_abs_le {q : Rat} (hq : q ≠ 0) : pow2 (ilog2 |q|) ≤ |q| := by
  rw [pow2_eq]; exact ilog2_le _ (abs_pos.mpr hq)

theorem abs_lt_ilog2 {q : Rat} (hq : q ≠ 0) : |q| < pow2 (ilog2 |q| + 1) := by
  rw [pow2_eq]; exact lt_ilog2 _ (abs_pos.mpr hq)

theorem ulpOf_eq (F : Fmt) (q : Rat) :
    F.ulpOf q = pow2 (max (ilog2 |q|) F.emin - (F.p : Int) + 1) := by
  unfold Fmt.ulpOf; rw [rabs_eq]

theorem ulpOf_pos (F : Fmt) (q : Rat) : 0 < F.ulpOf q := pow2_pos _

theorem rndFin_eq (F : Fmt) {q : Rat} (hq : q ≠ 0) :
    F.rndFin q = (rhe (q / F.ulpOf q) : Rat) * F.ulpOf q := by
  unfold Fmt.rndFin; rw [if_neg hq]

theorem rndFin_zero (F : Fmt) : F.rndFin 0 = 0 := by
  unfold Fmt.rndFin; rw [if_pos rfl]

/-- `rndFin q` is at least as close to `q` as any integer multiple of `ulpOf q`. -/
theorem rndFin_near_mul (F : Fmt) {q : Rat} (hq : q ≠ 0) (n : Int) :
    |F.rndFin q - q| ≤ |(n : Rat) * F.ulpOf q - q| := by
  rw [rndFin_eq F hq]
  have hu := ulpOf_pos F q
  generalize F.ulpOf q = u at *
  have h := rhe_nearest (q / u) n
  have e1 : (rhe (q / u) : Rat) * u - q = ((rhe (q / u) : Rat) - q / u) * u := by
    field_simp
  have e2 : (n : Rat) * u - q = ((n : Rat) - q / u) * u := by
    field_simp
  rw [e1, e2, abs_mul, abs_mul]
  exact mul_le_mul_of_nonneg_right h (abs_nonneg u)

/-- the rounding error is at most half an ulp. -/
theorem rndFin_err_ulp (F : Fmt) {q : Rat} (hq : q ≠ 0) :
    |F.rndFin q - q| ≤ F.ulpOf q / 2 := by
  rw [rndFin_eq F hq]
  have hu := ulpOf_pos F q
  generalize F.ulpOf q = u at *
  have h := rhe_err (q / u)
  have e1 : (rhe (q / u) : Rat) * u - q = ((rhe (q / u) : Rat) - q / u) * u := by
    field_simp
  rw [e1, abs_mul, abs_of_pos hu]
  nlinarith

theorem half_pow2 (e : Int) : pow2 (e + 1) / 2 = pow2 e := by
  rw [pow2_succ]; ring

theorem rndFin_err (F : Fmt) (q : Rat) : |F.rndFin q - q| ≤ F.u1 * |q| + F.eta1 := by
  by_cases hq : q = 0
  · subst hq
    rw [rndFin_zero]
    simp only [sub_self, abs_zero, mul_zero, zero_add]
    exact (pow2_pos _).le
  · have h := rndFin_err_ulp F hq
    rw [ulpOf_eq] at h
    have h1 := ilog2_abs_le hq
    unfold Fmt.u1 Fmt.eta1
    have hu : 0 < pow2 (-(F.p : Int)) := pow2_pos _
    have ha : 0 ≤ |q| := abs_nonneg q
    have he : 0 < pow2 (F.emin - (F.p : Int)) := pow2_pos _
    rcases le_total (ilog2 |q|) F.emin with hle | hle
    · rw [max_eq_right hle, half_pow2] at h
      nlinarith
    · rw [max_eq_left hle, half_pow2] at h
      have e : pow2 (ilog2 |q| - (F.p : Int)) = pow2 (-(F.p : Int)) * pow2 (ilog2 |q|) := by
        rw [← pow2_add]; congr 1; ring
      rw [e] at h
      nlinarith

theorem rndFin_err_normal (F : Fmt) (q : Rat) (h : pow2 F.emin ≤ |q|) :
    |F.rndFin q - q| ≤ F.u1 * |q| := by
  have hq : q ≠ 0 := by
    intro h0; subst h0
    have := pow2_pos F.emin
    simp at h; linarith
  have hlt := abs_lt_ilog2 hq
  have hle : F.emin ≤ ilog2 |q| := by
    by_contra hc
    have : ilog2 |q| + 1 ≤ F.emin := by omega
    have := pow2_le_pow2 this
    linarith
  have h' := rndFin_err_ulp F hq
  rw [ulpOf_eq, max_eq_left hle, half_pow2] at h'
  have h1 := ilog2_abs_le hq
  have e : pow2 (ilog2 |q| - (F.p : Int)) = pow2 (-(F.p : Int)) * pow2 (ilog2 |q|) := by
    rw [← pow2_add]; congr 1; ring
  rw [e] at h'
  unfold Fmt.u1
  have hu : 0 < pow2 (-(F.p : Int)) := pow2_pos _
  nlinarith

/-! ### nearest-ness -/

theorem abs_intCast_lt_pow2 {k : Int} {p : Nat} (h : |k| < 2 ^ p) :
    |(k : Rat)| < pow2 (p : Int) := by
  rw [pow2_natCast]
  have : ((|k| : Int) : Rat) < (((2 : Int) ^ p : Int) : Rat) := by exact_mod_cast h
  rw [Int.cast_abs] at this
  push_cast at this
  exact this

theorem rndFin_nearest (F : Fmt) (hp : 1 ≤ F.p) (q v : Rat) (hv : F.Rep v) :
    |F.rndFin q - q| ≤ |v - q| := by
  by_cases hq : q = 0
  · subst hq; rw [rndFin_zero]; simp
  obtain ⟨k, j, rfl, hk, hj⟩ := hv
  rw [← pow2_eq]
  have hnear := rndFin_near_mul F hq
  rw [ulpOf_eq] at hnear
  have hLle := ilog2_abs_le hq
  -- abstract the ulp exponent
  obtain ⟨c, hc⟩ : ∃ c : Int, c = max (ilog2 |q|) F.emin - (F.p : Int) + 1 := ⟨_, rfl⟩
  rw [← hc] at hnear
  rcases le_or_gt c j with hcj | hcj
  · -- `v` is an integer multiple of the ulp
    have e : (k : Rat) * pow2 j = ((k * 2 ^ (j - c).toNat : Int) : Rat) * pow2 c := by
      have : pow2 j = pow2 (j - c) * pow2 c := by rw [← pow2_add]; congr 1; ring
      rw [this, pow2_of_nonneg (by omega : 0 ≤ j - c)]
      push_cast; ring
    rw [e]
    exact hnear _
  · -- `|v| < 2^e ≤ |q|` where `e = ilog2 |q| > emin`
    have hL : F.emin < ilog2 |q| := by
      rcases le_total (ilog2 |q|) F.emin with h | h
      · rw [max_eq_right h] at hc; omega
      · rcases eq_or_lt_of_le h with h' | h'
        · rw [← h', max_self] at hc; omega
        · exact h'
    rw [max_eq_left hL.le] at hc
    have hkq := abs_intCast_lt_pow2 hk
    have hvlt : |(k : Rat) * pow2 j| < pow2 (ilog2 |q|) := by
      rw [abs_mul, abs_of_pos (pow2_pos j)]
      calc |(k : Rat)| * pow2 j < pow2 (F.p : Int) * pow2 j :=
            mul_lt_mul_of_pos_right hkq (pow2_pos j)
        _ = pow2 ((F.p : Int) + j) := (pow2_add _ _).symm
        _ ≤ pow2 (ilog2 |q|) := pow2_le_pow2 (by omega)
    have hv2 := abs_lt.mp hvlt
    -- `2^e` is a multiple of the ulp
    have he : pow2 (ilog2 |q|) = (((2 : Int) ^ (F.p - 1) : Int) : Rat) * pow2 c := by
      have h1 : ilog2 |q| = ((F.p - 1 : Nat) : Int) + c := by omega
      conv_lhs => rw [h1, pow2_add, pow2_natCast]
      push_cast; rfl
    rcases lt_or_gt_of_ne hq with hneg | hpos
    · replace hLle : pow2 (ilog2 |q|) ≤ -q := hLle.trans (abs_of_neg hneg).le
      have h := hnear (-(2 : Int) ^ (F.p - 1))
      rw [Int.cast_neg, neg_mul, ← he] at h
      rw [abs_of_nonneg (by linarith : 0 ≤ -pow2 (ilog2 |q|) - q)] at h
      have : (k : Rat) * pow2 j - q ≤ |(k : Rat) * pow2 j - q| := le_abs_self _
      linarith
    · replace hLle : pow2 (ilog2 |q|) ≤ q := hLle.trans (abs_of_pos hpos).le
      have h := hnear ((2 : Int) ^ (F.p - 1))
      rw [← he] at h
      rw [abs_of_nonpos (by linarith : pow2 (ilog2 |q|) - q ≤ 0)] at h
      have : -((k : Rat) * pow2 j - q) ≤ |(k : Rat) * pow2 j - q| := neg_le_abs _
      linarith

/-! ### representability of the result -/

theorem Rep_zero (F : Fmt) : F.Rep 0 :=
  ⟨0, F.emin - (F.p : Int) + 1, by simp, by simp, le_refl _⟩

theorem Rep_neg {F : Fmt} {v : Rat} (hv : F.Rep v) : F.Rep (-v) := by
  obtain ⟨k, j, rfl, hk, hj⟩ := hv
  exact ⟨-k, j, by push_cast; ring, by rwa [abs_neg], hj⟩

theorem Rep_mono {F G : Fmt} (hp : F.p ≤ G.p)
    (he : G.emin - (G.p : Int) + 1 ≤ F.emin - (F.p : Int) + 1) {v : Rat} (hv : F.Rep v) :
    G.Rep v := by
  obtain ⟨k, j, rfl, hk, hj⟩ := hv
  refine ⟨k, j, rfl, lt_of_lt_of_le hk ?_, by omega⟩
  exact pow_le_pow_right₀ (by norm_num) hp

theorem rndFin_rep (F : Fmt) (hp : 1 ≤ F.p) (q : Rat) : F.Rep (F.rndFin q) := by
  by_cases hq : q = 0
  · subst hq; rw [rndFin_zero]; exact Rep_zero F
  rw [rndFin_eq F hq, ulpOf_eq]
  obtain ⟨c, hc⟩ : ∃ c : Int, c = max (ilog2 |q|) F.emin - (F.p : Int) + 1 := ⟨_, rfl⟩
  rw [← hc]
  have hcmin : F.emin - (F.p : Int) + 1 ≤ c := by
    have := le_max_right (ilog2 |q|) F.emin; omega
  have hcL : ilog2 |q| + 1 ≤ (F.p : Int) + c := by
    have := le_max_left (ilog2 |q|) F.emin; omega
  have hu : 0 < pow2 c := pow2_pos c
  -- |q / ulp| < 2^p
  have hlt : |q| < pow2 (F.p : Int) * pow2 c := by
    rw [← pow2_add]
    exact lt_of_lt_of_le (abs_lt_ilog2 hq) (pow2_le_pow2 hcL)
  have hP : pow2 (F.p : Int) = (((2 : Int) ^ F.p : Int) : Rat) := by
    rw [pow2_natCast]; push_cast; rfl
  rw [hP] at hlt
  obtain ⟨h1, h2⟩ := abs_lt.mp hlt
  have hb1 : q / pow2 c ≤ (((2 : Int) ^ F.p : Int) : Rat) := by
    rw [div_le_iff₀ hu]; exact h2.le
  have hb2 : ((-(2 : Int) ^ F.p : Int) : Rat) ≤ q / pow2 c := by
    rw [le_div_iff₀ hu]; push_cast; push_cast at h1; linarith
  have hn1 := rhe_mono hb1
  have hn2 := rhe_mono hb2
  rw [rhe_int] at hn1 hn2
  generalize rhe (q / pow2 c) = n at *
  have h2p : (2 : Int) ^ F.p = 2 * 2 ^ (F.p - 1) := by
    rw [← pow_succ']; congr 1; omega
  have hpos : (0 : Int) < 2 ^ (F.p - 1) := by positivity
  have hrat : ((2 : Int) ^ F.p : Rat) = 2 * (((2 : Int) ^ (F.p - 1) : Int) : Rat) := by
    have := congrArg (fun z : Int => (z : Rat)) h2p
    simpa using this
  rcases eq_or_lt_of_le hn1 with heq | hlt1
  · refine ⟨2 ^ (F.p - 1), c + 1, ?_, ?_, by omega⟩
    · rw [← pow2_eq, pow2_succ, heq]; push_cast; push_cast at hrat; rw [hrat]; ring
    · rw [abs_of_pos hpos]; omega
  rcases eq_or_lt_of_le hn2 with heq | hlt2
  · refine ⟨-2 ^ (F.p - 1), c + 1, ?_, ?_, by omega⟩
    · rw [← pow2_eq, pow2_succ, ← heq]; push_cast; push_cast at hrat; rw [hrat]; ring
    · rw [abs_neg, abs_of_pos hpos]; omega
  · exact ⟨n, c, by rw [pow2_eq], abs_lt.mpr ⟨hlt2, hlt1⟩, hcmin⟩

theorem rndFin_of_rep (F : Fmt) (hp : 1 ≤ F.p) (v : Rat) (hv : F.Rep v) : F.rndFin v = v := by
  have h := rndFin_nearest F hp v v hv
  rw [sub_self, abs_zero] at h
  have := abs_nonneg (F.rndFin v - v)
  have h0 : |F.rndFin v - v| = 0 := le_antisymm h this
  rw [abs_eq_zero] at h0
  linarith

/-- (M1) rounding never crosses a representable value from below. -/
theorem rndFin_le_of_rep (F : Fmt) (hp : 1 ≤ F.p) {q v : Rat} (hv : F.Rep v) (h : q ≤ v) :
    F.rndFin q ≤ v := by
  have h1 := rndFin_nearest F hp q v hv
  rw [abs_of_nonneg (by linarith : 0 ≤ v - q)] at h1
  have := le_abs_self (F.rndFin q - q)
  linarith

/-- (M2) rounding never crosses a representable value from above. -/
theorem le_rndFin_of_rep (F : Fmt) (hp : 1 ≤ F.p) {q v : Rat} (hv : F.Rep v) (h : v ≤ q) :
    v ≤ F.rndFin q := by
  have h1 := rndFin_nearest F hp q v hv
  rw [abs_of_nonpos (by linarith : v - q ≤ 0)] at h1
  have := neg_le_abs (F.rndFin q - q)
  linarith

theorem rndFin_mono (F : Fmt) (hp : 1 ≤ F.p) {a b : Rat} (h : a ≤ b) :
    F.rndFin a ≤ F.rndFin b := by
  have ra := rndFin_rep F hp a
  have rb := rndFin_rep F hp b
  rcases le_or_gt a (F.rndFin b) with h1 | h1
  · exact rndFin_le_of_rep F hp rb h1
  rcases le_or_gt (F.rndFin a) b with h2 | h2
  · exact le_rndFin_of_rep F hp ra h2
  -- rndFin b < a ≤ b < rndFin a: both are nearest, forcing a = b
  have n1 := rndFin_nearest F hp a _ rb
  have n2 := rndFin_nearest F hp b _ ra
  rw [abs_of_nonneg (by linarith : 0 ≤ F.rndFin a - a),
    abs_of_nonpos (by linarith : F.rndFin b - a ≤ 0)] at n1
  rw [abs_of_nonpos (by linarith : F.rndFin b - b ≤ 0),
    abs_of_nonneg (by linarith : 0 ≤ F.rndFin a - b)] at n2
  have hab : a = b := by linarith
  subst hab
  exact le_refl _

theorem ulpOf_neg (F : Fmt) (q : Rat) : F.ulpOf (-q) = F.ulpOf q := by
  rw [ulpOf_eq, ulpOf_eq, abs_neg]

theorem rndFin_neg (F : Fmt) (q : Rat) : F.rndFin (-q) = -F.rndFin q := by
  by_cases hq : q = 0
  · subst hq; simp [rndFin_zero]
  · rw [rndFin_eq F hq, rndFin_eq F (neg_ne_zero.mpr hq), ulpOf_neg, neg_div, rhe_neg]
    push_cast; ring

/-! ### `rnd`: overflow handling -/

theorem rnd_fin (F : Fmt) (q r : Rat) (h : F.rnd q = .fin r) :
    r = F.rndFin q ∧ |r| ≤ F.maxFin := by
  unfold Fmt.rnd at h
  simp only at h
  split_ifs at h with h1 h2 h3 h4
  · have h' := FV.fin.inj h
    subst h'
    exact ⟨rfl, abs_le.mpr ⟨by linarith, by linarith⟩⟩

/-- general form: if `±maxFin` is representable then in-range inputs do not overflow. -/
theorem rnd_of_le_maxFin_aux (F : Fmt) (hp : 1 ≤ F.p) (hm : F.Rep F.maxFin) (q : Rat)
    (h : |q| ≤ F.maxFin) : F.rnd q = .fin (F.rndFin q) := by
  obtain ⟨h1, h2⟩ := abs_le.mp h
  have a := rndFin_le_of_rep F hp hm h2
  have b := le_rndFin_of_rep F hp (Rep_neg hm) h1
  unfold Fmt.rnd
  simp only
  rw [if_neg (by linarith), if_neg (by linarith)]

theorem rnd_pinf_aux (F : Fmt) (hp : 1 ≤ F.p) (hm : F.Rep F.maxFin) (q : Rat)
    (h : F.rnd q = .pinf) : F.maxFin < q := by
  by_contra hc
  have a := rndFin_le_of_rep F hp hm (not_lt.mp hc)
  unfold Fmt.rnd at h
  simp only at h
  rw [if_neg (by linarith)] at h
  split_ifs at h

theorem rnd_ninf_aux (F : Fmt) (hp : 1 ≤ F.p) (hm : F.Rep F.maxFin) (q : Rat)
    (h : F.rnd q = .ninf) : q < -F.maxFin := by
  by_contra hc
  have b := le_rndFin_of_rep F hp (Rep_neg hm) (not_lt.mp hc)
  unfold Fmt.rnd at h
  simp only at h
  split_ifs at h
  linarith

theorem rnd_not_nan_of_ieee (F : Fmt) (hi : F.ieee = true) (q : Rat) : F.rnd q ≠ .nan := by
  unfold Fmt.rnd
  simp only [hi, if_true]
  split_ifs <;> simp

/-! ### the concrete formats -/

theorem maxFin_rep_f32 : f32.Rep f32.maxFin :=
  ⟨2 ^ 24 - 1, 104, by norm_num [Fmt.maxFin, f32, pow2_eq], by norm_num [f32], by norm_num [f32]⟩

theorem maxFin_rep_f16 : f16.Rep f16.maxFin :=
  ⟨2 ^ 11 - 1, 5, by norm_num [Fmt.maxFin, f16, pow2_eq], by norm_num [f16], by norm_num [f16]⟩

theorem maxFin_rep_bf16 : bf16.Rep bf16.maxFin :=
  ⟨2 ^ 8 - 1, 120, by norm_num [Fmt.maxFin, bf16, pow2_eq], by norm_num [bf16],
    by norm_num [bf16]⟩

theorem maxFin_rep_e4m3 : e4m3.Rep e4m3.maxFin :=
  ⟨2 ^ 4 - 2, 5, by norm_num [Fmt.maxFin, e4m3, pow2_eq], by norm_num [e4m3],
    by norm_num [e4m3]⟩

theorem maxFin_rep_e5m2 : e5m2.Rep e5m2.maxFin :=
  ⟨2 ^ 3 - 1, 13, by norm_num [Fmt.maxFin, e5m2, pow2_eq], by norm_num [e5m2],
    by norm_num [e5m2]⟩

theorem maxFin_rep (F : Fmt) (hF : F ∈ [f32, f16, bf16, e4m3, e5m2]) : F.Rep F.maxFin := by
  simp only [List.mem_cons, List.not_mem_nil, or_false] at hF
  rcases hF with rfl | rfl | rfl | rfl | rfl
  · exact maxFin_rep_f32
  · exact maxFin_rep_f16
  · exact maxFin_rep_bf16
  · exact maxFin_rep_e4m3
  · exact maxFin_rep_e5m2

theorem one_le_p (F : Fmt) (hF : F ∈ [f32, f16, bf16, e4m3, e5m2]) : 1 ≤ F.p := by
  simp only [List.mem_cons, List.not_mem_nil, or_false] at hF
  rcases hF with rfl | rfl | rfl | rfl | rfl <;> decide

theorem rnd_of_le_maxFin (F : Fmt) (hF : F ∈ [f32, f16, bf16, e4m3, e5m2]) (q : Rat)
    (h : |q| ≤ F.maxFin) : F.rnd q = .fin (F.rndFin q) :=
  rnd_of_le_maxFin_aux F (one_le_p F hF) (maxFin_rep F hF) q h

theorem rnd_pinf (F : Fmt) (hF : F ∈ [f32, f16, bf16, e4m3, e5m2]) (q : Rat)
    (h : F.rnd q = .pinf) : F.maxFin < q :=
  rnd_pinf_aux F (one_le_p F hF) (maxFin_rep F hF) q h

theorem rnd_ninf (F : Fmt) (hF : F ∈ [f32, f16, bf16, e4m3, e5m2]) (q : Rat)
    (h : F.rnd q = .ninf) : q < -F.maxFin :=
  rnd_ninf_aux F (one_le_p F hF) (maxFin_rep F hF) q h

/-! ### `fl`: arithmetic result rounding (half types go through float32 first) -/

theorem rnd_cases (F : Fmt) (hi : F.ieee = true) (q : Rat) :
    F.rnd q = .fin (F.rndFin q) ∨ F.rnd q = .pinf ∨ F.rnd q = .ninf := by
  unfold Fmt.rnd
  simp only [hi, if_true]
  split_ifs <;> simp

/-- what the double-rounding lemmas need to know about a half format -/
structure Fmt.HalfOK (F : Fmt) : Prop where
  half : F.isHalf = true
  ieee : F.ieee = true
  one_le_p : 1 ≤ F.p
  maxRep : F.Rep F.maxFin
  sub : ∀ v, F.Rep v → f32.Rep v
  maxLe : F.maxFin ≤ f32.maxFin

theorem f16_halfOK : f16.HalfOK where
  half := by decide
  ieee := rfl
  one_le_p := by decide
  maxRep := maxFin_rep_f16
  sub := fun _ hv => Rep_mono (by decide) (by decide) hv
  maxLe := by norm_num [Fmt.maxFin, f16, f32, pow2_eq]

theorem bf16_halfOK : bf16.HalfOK where
  half := by decide
  ieee := rfl
  one_le_p := by decide
  maxRep := maxFin_rep_bf16
  sub := fun _ hv => Rep_mono (by decide) (by decide) hv
  maxLe := by norm_num [Fmt.maxFin, bf16, f32, pow2_eq]

theorem f32_not_half : f32.isHalf = false := by decide

theorem f32_one_le_p : 1 ≤ f32.p := by decide

theorem fl_f32 (v : FV) : f32.fl v = f32.rndV v := by
  unfold Fmt.fl; rw [f32_not_half]; rfl

theorem fl_half {F : Fmt} (hF : F.HalfOK) (z : Rat) :
    F.fl (.fin z) = F.rndV (f32.rnd z) := by
  unfold Fmt.fl; rw [hF.half]; rfl

theorem rndV_fin (F : Fmt) (q : Rat) : F.rndV (.fin q) = F.rnd q := rfl

theorem fl_err_f32 (z r : Rat) (h : f32.fl (.fin z) = .fin r) :
    |r - z| ≤ f32.u * |z| + f32.eta := by
  rw [fl_f32, rndV_fin] at h
  obtain ⟨rfl, -⟩ := rnd_fin _ _ _ h
  have : f32.u = f32.u1 := by unfold Fmt.u; rw [f32_not_half]; rfl
  rw [this]
  have : f32.eta = f32.eta1 := by unfold Fmt.eta; rw [f32_not_half]; rfl
  rw [this]
  exact rndFin_err f32 z

theorem fl_err_half {F : Fmt} (hF : F.HalfOK) (z r : Rat) (h : F.fl (.fin z) = .fin r) :
    |r - z| ≤ F.u * |z| + F.eta := by
  rw [fl_half hF] at h
  have hu : F.u = F.u1 + f32.u1 + F.u1 * f32.u1 := by unfold Fmt.u; rw [hF.half]; rfl
  have he : F.eta = F.eta1 + (1 + F.u1) * f32.eta1 := by unfold Fmt.eta; rw [hF.half]; rfl
  rw [hu, he]
  rcases rnd_cases f32 rfl z with hc | hc | hc <;> rw [hc] at h
  · rw [rndV_fin] at h
    obtain ⟨rfl, -⟩ := rnd_fin _ _ _ h
    have e1 := rndFin_err f32 z
    have e2 := rndFin_err F (f32.rndFin z)
    generalize f32.rndFin z = y at *
    have hc0 : 0 ≤ F.u1 := (pow2_pos _).le
    have t1 : |y| ≤ |z| + |y - z| := by
      have := abs_add_le z (y - z); rwa [add_sub_cancel] at this
    have t2 : |F.rndFin y - z| ≤ |F.rndFin y - y| + |y - z| := by
      have := abs_add_le (F.rndFin y - y) (y - z); rwa [sub_add_sub_cancel] at this
    have t3 : F.u1 * |y| ≤ F.u1 * (|z| + (f32.u1 * |z| + f32.eta1)) :=
      mul_le_mul_of_nonneg_left (by linarith) hc0
    nlinarith
  · simp [Fmt.rndV, hF.ieee] at h
  · simp [Fmt.rndV, hF.ieee] at h

theorem fl_pinf_half {F : Fmt} (hF : F.HalfOK) (z : Rat) (h : F.fl (.fin z) = .pinf) :
    F.maxFin < z := by
  rw [fl_half hF] at h
  rcases rnd_cases f32 rfl z with hc | hc | hc
  · rw [hc, rndV_fin] at h
    have h1 := rnd_pinf_aux F hF.one_le_p hF.maxRep _ h
    by_contra hcon
    have := rndFin_le_of_rep f32 f32_one_le_p (hF.sub _ hF.maxRep) (not_lt.mp hcon)
    linarith
  · have := rnd_pinf_aux f32 f32_one_le_p maxFin_rep_f32 z hc
    exact lt_of_le_of_lt hF.maxLe this
  · rw [hc] at h; simp [Fmt.rndV, hF.ieee] at h

theorem fl_ninf_half {F : Fmt} (hF : F.HalfOK) (z : Rat) (h : F.fl (.fin z) = .ninf) :
    z < -F.maxFin := by
  rw [fl_half hF] at h
  rcases rnd_cases f32 rfl z with hc | hc | hc
  · rw [hc, rndV_fin] at h
    have h1 := rnd_ninf_aux F hF.one_le_p hF.maxRep _ h
    by_contra hcon
    have := le_rndFin_of_rep f32 f32_one_le_p (hF.sub _ (Rep_neg hF.maxRep)) (not_lt.mp hcon)
    linarith
  · rw [hc] at h; simp [Fmt.rndV, hF.ieee] at h
  · have := rnd_ninf_aux f32 f32_one_le_p maxFin_rep_f32 z hc
    have := hF.maxLe
    linarith

theorem fl_not_nan_half {F : Fmt} (hF : F.HalfOK) (z : Rat) : F.fl (.fin z) ≠ .nan := by
  rw [fl_half hF]
  rcases rnd_cases f32 rfl z with hc | hc | hc <;> rw [hc]
  · rw [rndV_fin]; exact rnd_not_nan_of_ieee F hF.ieee _
  · simp [Fmt.rndV, hF.ieee]
  · simp [Fmt.rndV, hF.ieee]

theorem fl_of_rep_half {F : Fmt} (hF : F.HalfOK) (v : Rat) (hv : F.Rep v)
    (hm : |v| ≤ F.maxFin) : F.fl (.fin v) = .fin v := by
  rw [fl_half hF]
  have h32 : f32.rnd v = .fin v := by
    rw [rnd_of_le_maxFin_aux f32 f32_one_le_p maxFin_rep_f32 v (hm.trans hF.maxLe),
      rndFin_of_rep f32 f32_one_le_p v (hF.sub v hv)]
  rw [h32, rndV_fin, rnd_of_le_maxFin_aux F hF.one_le_p hF.maxRep v hm,
    rndFin_of_rep F hF.one_le_p v hv]

theorem fl_err (F : Fmt) (hF : F ∈ [f32, f16, bf16]) (z r : Rat) (h : F.fl (.fin z) = .fin r) :
    |r - z| ≤ F.u * |z| + F.eta := by
  simp only [List.mem_cons, List.not_mem_nil, or_false] at hF
  rcases hF with rfl | rfl | rfl
  · exact fl_err_f32 z r h
  · exact fl_err_half f16_halfOK z r h
  · exact fl_err_half bf16_halfOK z r h

theorem fl_pinf (F : Fmt) (hF : F ∈ [f32, f16, bf16]) (z : Rat) (h : F.fl (.fin z) = .pinf) :
    F.maxFin < z := by
  simp only [List.mem_cons, List.not_mem_nil, or_false] at hF
  rcases hF with rfl | rfl | rfl
  · rw [fl_f32, rndV_fin] at h
    exact rnd_pinf_aux f32 f32_one_le_p maxFin_rep_f32 z h
  · exact fl_pinf_half f16_halfOK z h
  · exact fl_pinf_half bf16_halfOK z h

theorem fl_ninf (F : Fmt) (hF : F ∈ [f32, f16, bf16]) (z : Rat) (h : F.fl (.fin z) = .ninf) :
    z < -F.maxFin := by
  simp only [List.mem_cons, List.not_mem_nil, or_false] at hF
  rcases hF with rfl | rfl | rfl
  · rw [fl_f32, rndV_fin] at h
    exact rnd_ninf_aux f32 f32_one_le_p maxFin_rep_f32 z h
  · exact fl_ninf_half f16_halfOK z h
  · exact fl_ninf_half bf16_halfOK z h

theorem fl_not_nan (F : Fmt) (hF : F ∈ [f32, f16, bf16]) (z : Rat) : F.fl (.fin z) ≠ .nan := by
  simp only [List.mem_cons, List.not_mem_nil, or_false] at hF
  rcases hF with rfl | rfl | rfl
  · rw [fl_f32, rndV_fin]; exact rnd_not_nan_of_ieee f32 rfl z
  · exact fl_not_nan_half f16_halfOK z
  · exact fl_not_nan_half bf16_halfOK z

theorem fl_of_rep (F : Fmt) (hF : F ∈ [f32, f16, bf16]) (v : Rat) (hv : F.Rep v)
    (hm : |v| ≤ F.maxFin) : F.fl (.fin v) = .fin v := by
  simp only [List.mem_cons, List.not_mem_nil, or_false] at hF
  rcases hF with rfl | rfl | rfl
  · rw [fl_f32, rndV_fin, rnd_of_le_maxFin_aux f32 f32_one_le_p maxFin_rep_f32 v hm,
      rndFin_of_rep f32 f32_one_le_p v hv]
  · exact fl_of_rep_half f16_halfOK v hv hm
  · exact fl_of_rep_half bf16_halfOK v hv hm

end Quanto

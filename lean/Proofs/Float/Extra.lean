/-
Further lemmas about `Fmt.fl` on the working formats (float32, float16, bfloat16):
the finite result as a function (`Fmt.flR`), monotonicity against representable values,
the purely relative error bound in the normal range, separation of representable values.
-/
import Proofs.Float.Round

namespace Quanto

theorem work_cases {F : Fmt} (hF : F ∈ [f32, f16, bf16]) : F = f32 ∨ F = f16 ∨ F = bf16 := by
  simpa using hF

/-! ### the finite result of `fl` as a function -/

/-- the rational that `fl` produces when it does not overflow -/
def Fmt.flR (F : Fmt) (z : Rat) : Rat :=
  if F.isHalf then F.rndFin (f32.rndFin z) else F.rndFin z

theorem flR_f32 (z : Rat) : f32.flR z = f32.rndFin z := by
  unfold Fmt.flR; rw [f32_not_half]; rfl

theorem flR_half {F : Fmt} (hF : F.HalfOK) (z : Rat) : F.flR z = F.rndFin (f32.rndFin z) := by
  unfold Fmt.flR; rw [hF.half]; rfl

theorem fl_fin_half {F : Fmt} (hF : F.HalfOK) (z r : Rat) (h : F.fl (.fin z) = .fin r) :
    r = F.flR z ∧ |r| ≤ F.maxFin := by
  rw [fl_half hF] at h
  rw [flR_half hF]
  rcases rnd_cases f32 rfl z with hc | hc | hc <;> rw [hc] at h
  · rw [rndV_fin] at h
    exact rnd_fin _ _ _ h
  · simp [Fmt.rndV, hF.ieee] at h
  · simp [Fmt.rndV, hF.ieee] at h

theorem fl_fin (F : Fmt) (hF : F ∈ [f32, f16, bf16]) (z r : Rat) (h : F.fl (.fin z) = .fin r) :
    r = F.flR z ∧ |r| ≤ F.maxFin := by
  rcases work_cases hF with rfl | rfl | rfl
  · rw [fl_f32, rndV_fin] at h
    rw [flR_f32]
    exact rnd_fin _ _ _ h
  · exact fl_fin_half f16_halfOK z r h
  · exact fl_fin_half bf16_halfOK z r h

theorem fl_cases (F : Fmt) (hF : F ∈ [f32, f16, bf16]) (z : Rat) :
    (F.fl (.fin z) = .fin (F.flR z) ∧ |F.flR z| ≤ F.maxFin) ∨
    (F.fl (.fin z) = .pinf ∧ F.maxFin < z) ∨ (F.fl (.fin z) = .ninf ∧ z < -F.maxFin) := by
  cases h : F.fl (.fin z) with
  | fin r =>
    obtain ⟨rfl, hr⟩ := fl_fin F hF z r h
    exact Or.inl ⟨rfl, hr⟩
  | pinf => exact Or.inr (Or.inl ⟨rfl, fl_pinf F hF z h⟩)
  | ninf => exact Or.inr (Or.inr ⟨rfl, fl_ninf F hF z h⟩)
  | nan => exact absurd h (fl_not_nan F hF z)

theorem le_flR_of_rep_half {F : Fmt} (hF : F.HalfOK) {v z : Rat} (hv : F.Rep v) (h : v ≤ z) :
    v ≤ F.flR z := by
  rw [flR_half hF]
  exact le_rndFin_of_rep F hF.one_le_p hv (le_rndFin_of_rep f32 f32_one_le_p (hF.sub v hv) h)

theorem flR_le_of_rep_half {F : Fmt} (hF : F.HalfOK) {v z : Rat} (hv : F.Rep v) (h : z ≤ v) :
    F.flR z ≤ v := by
  rw [flR_half hF]
  exact rndFin_le_of_rep F hF.one_le_p hv (rndFin_le_of_rep f32 f32_one_le_p (hF.sub v hv) h)

theorem le_flR_of_rep (F : Fmt) (hF : F ∈ [f32, f16, bf16]) {v z : Rat} (hv : F.Rep v) (h : v ≤ z) :
    v ≤ F.flR z := by
  rcases work_cases hF with rfl | rfl | rfl
  · rw [flR_f32]; exact le_rndFin_of_rep f32 f32_one_le_p hv h
  · exact le_flR_of_rep_half f16_halfOK hv h
  · exact le_flR_of_rep_half bf16_halfOK hv h

theorem flR_le_of_rep (F : Fmt) (hF : F ∈ [f32, f16, bf16]) {v z : Rat} (hv : F.Rep v) (h : z ≤ v) :
    F.flR z ≤ v := by
  rcases work_cases hF with rfl | rfl | rfl
  · rw [flR_f32]; exact rndFin_le_of_rep f32 f32_one_le_p hv h
  · exact flR_le_of_rep_half f16_halfOK hv h
  · exact flR_le_of_rep_half bf16_halfOK hv h

theorem work_maxFin_rep (F : Fmt) (hF : F ∈ [f32, f16, bf16]) : F.Rep F.maxFin := by
  rcases work_cases hF with rfl | rfl | rfl
  · exact maxFin_rep_f32
  · exact maxFin_rep_f16
  · exact maxFin_rep_bf16

/-- in-range inputs do not overflow -/
theorem fl_fin_of_le (F : Fmt) (hF : F ∈ [f32, f16, bf16]) (z : Rat) (h : |z| ≤ F.maxFin) :
    F.fl (.fin z) = .fin (F.flR z) := by
  obtain ⟨h1, h2⟩ := abs_le.mp h
  have hm := work_maxFin_rep F hF
  rcases fl_cases F hF z with hc | hc | hc
  · exact hc.1
  · linarith [hc.2]
  · linarith [hc.2]

/-! ### small integers times powers of two are representable in the working formats -/

theorem rep_work (F : Fmt) (hF : F ∈ [f32, f16, bf16]) (k : Int) (j : Nat) (hk : |k| < 2 ^ 8) :
    F.Rep ((k : Rat) * 2 ^ j) := by
  refine ⟨k, (j : Int), by rw [zpow_natCast], ?_, ?_⟩
  · rcases work_cases hF with rfl | rfl | rfl
    · exact lt_of_lt_of_le hk (by norm_num [f32])
    · exact lt_of_lt_of_le hk (by norm_num [f16])
    · exact lt_of_lt_of_le hk (by norm_num [bf16])
  · rcases work_cases hF with rfl | rfl | rfl
    · simp only [f32]; omega
    · simp only [f16]; omega
    · simp only [bf16]; omega

theorem work_maxFin_ge (F : Fmt) (hF : F ∈ [f32, f16, bf16]) : 65504 ≤ F.maxFin := by
  rcases work_cases hF with rfl | rfl | rfl
  · norm_num [Fmt.maxFin, f32, pow2_eq]
  · norm_num [Fmt.maxFin, f16, pow2_eq]
  · norm_num [Fmt.maxFin, bf16, pow2_eq]

theorem rep_pow2 (F : Fmt) (hp : 1 ≤ F.p) (e : Int) (he : F.emin - (F.p : Int) + 1 ≤ e) :
    F.Rep (pow2 e) := by
  refine ⟨1, e, by rw [pow2_eq]; simp, ?_, he⟩
  rw [abs_one]
  exact one_lt_pow₀ (by norm_num) (by omega)

theorem fl_zero (F : Fmt) (hF : F ∈ [f32, f16, bf16]) : F.fl (.fin 0) = .fin 0 :=
  fl_of_rep F hF 0 (Rep_zero F) (by rw [abs_zero]; linarith [work_maxFin_ge F hF])

/-! ### the error constants -/

theorem Fmt.u_nonneg (F : Fmt) : 0 ≤ F.u := by
  unfold Fmt.u Fmt.u1
  have := pow2_pos (-(F.p : Int))
  have := pow2_pos (-(f32.p : Int))
  split_ifs
  · positivity
  · linarith

theorem Fmt.eta_nonneg (F : Fmt) : 0 ≤ F.eta := by
  unfold Fmt.eta Fmt.eta1 Fmt.u1
  have := pow2_pos (-(F.p : Int))
  have := pow2_pos (F.emin - (F.p : Int))
  have := pow2_pos (f32.emin - (f32.p : Int))
  split_ifs
  · positivity
  · linarith

theorem u_f32 : f32.u = f32.u1 := by unfold Fmt.u; rw [f32_not_half]; rfl

theorem u_eta_small (F : Fmt) (hF : F = f32 ∨ F = f16) : F.u ≤ 1 / 2000 ∧ F.eta ≤ 1 / 1000 := by
  rcases hF with rfl | rfl
  · constructor <;>
      norm_num [Fmt.u, Fmt.eta, Fmt.u1, Fmt.eta1, Fmt.isHalf, f32, pow2_eq]
  · constructor <;>
      norm_num [Fmt.u, Fmt.eta, Fmt.u1, Fmt.eta1, Fmt.isHalf, f16, f32, pow2_eq]

theorem u_eta_work (F : Fmt) (hF : F ∈ [f32, f16, bf16]) : F.u ≤ 1 / 250 ∧ F.eta ≤ pow2 (-24) := by
  rcases work_cases hF with rfl | rfl | rfl
  · constructor <;>
      norm_num [Fmt.u, Fmt.eta, Fmt.u1, Fmt.eta1, Fmt.isHalf, f32, pow2_eq]
  · constructor <;>
      norm_num [Fmt.u, Fmt.eta, Fmt.u1, Fmt.eta1, Fmt.isHalf, f16, f32, pow2_eq]
  · constructor <;>
      norm_num [Fmt.u, Fmt.eta, Fmt.u1, Fmt.eta1, Fmt.isHalf, bf16, f32, pow2_eq]

/-! ### normal-range rounding error of `fl` (no absolute term) -/

theorem fl_err_normal_half {F : Fmt} (hF : F.HalfOK) (hmin : f32.Rep (pow2 F.emin))
    (hle : f32.emin ≤ F.emin) (z r : Rat) (hz : pow2 F.emin ≤ |z|)
    (h : F.fl (.fin z) = .fin r) : |r - z| ≤ F.u * |z| := by
  obtain ⟨rfl, -⟩ := fl_fin_half hF z r h
  rw [flR_half hF]
  have hu : F.u = F.u1 + f32.u1 + F.u1 * f32.u1 := by unfold Fmt.u; rw [hF.half]; rfl
  rw [hu]
  have e1 := rndFin_err_normal f32 z ((pow2_le_pow2 hle).trans hz)
  -- the float32 rounding stays in the normal range of `F`
  have hw : pow2 F.emin ≤ |f32.rndFin z| := by
    rcases le_abs'.mp hz with h1 | h1
    · have := rndFin_le_of_rep f32 f32_one_le_p (Rep_neg hmin) h1
      exact le_abs'.mpr (Or.inl this)
    · have := le_rndFin_of_rep f32 f32_one_le_p hmin h1
      exact le_abs'.mpr (Or.inr this)
  have e2 := rndFin_err_normal F (f32.rndFin z) hw
  generalize f32.rndFin z = w at *
  have hc0 : 0 ≤ F.u1 := (pow2_pos _).le
  have t1 : |w| ≤ |z| + |w - z| := by
    have := abs_add_le z (w - z); rwa [add_sub_cancel] at this
  have t2 : |F.rndFin w - z| ≤ |F.rndFin w - w| + |w - z| := by
    have := abs_add_le (F.rndFin w - w) (w - z); rwa [sub_add_sub_cancel] at this
  have t3 : F.u1 * |w| ≤ F.u1 * (|z| + f32.u1 * |z|) :=
    mul_le_mul_of_nonneg_left (by linarith) hc0
  nlinarith

/-- for a product in the normal range the rounding error is purely relative -/
theorem fl_err_normal (F : Fmt) (hF : F ∈ [f32, f16, bf16]) (z r : Rat) (hz : pow2 F.emin ≤ |z|)
    (h : F.fl (.fin z) = .fin r) : |r - z| ≤ F.u * |z| := by
  rcases work_cases hF with rfl | rfl | rfl
  · obtain ⟨rfl, -⟩ := fl_fin f32 hF z r h
    rw [flR_f32, u_f32]
    exact rndFin_err_normal f32 z hz
  · exact fl_err_normal_half f16_halfOK (rep_pow2 f32 f32_one_le_p _ (by decide)) (by decide)
      z r hz h
  · exact fl_err_normal_half bf16_halfOK (rep_pow2 f32 f32_one_le_p _ (by decide)) (by decide)
      z r hz h

/-! ### rounding of values close to an integer / to a representable value -/

theorem rhe_eq_of_abs_lt {q : Rat} {n : Int} (h : |q - (n : Rat)| < 1 / 2) : rhe q = n := by
  have h1 := rhe_err q
  have h2 : |((rhe q : Int) : Rat) - (n : Rat)| < 1 := by
    have := abs_add_le ((rhe q : Rat) - q) (q - (n : Rat))
    rw [sub_add_sub_cancel] at this
    linarith
  have h3 : |rhe q - n| < 1 := by exact_mod_cast h2
  have := Int.abs_lt_one_iff.mp h3
  omega

theorem one_le_abs_intCast {m : Int} (hm : m ≠ 0) : (1 : Rat) ≤ |(m : Rat)| := by
  have : 1 ≤ |m| := Int.one_le_abs hm
  have h : ((1 : Int) : Rat) ≤ ((|m| : Int) : Rat) := by exact_mod_cast this
  rwa [Int.cast_abs, Int.cast_one] at h

/-- two distinct multiples of powers of two differ by at least the smaller power -/
theorem rep_gap_aux {k1 k2 j1 j2 : Int} (hj : j1 ≤ j2)
    (hne : (k1 : Rat) * pow2 j1 ≠ (k2 : Rat) * pow2 j2) :
    pow2 j1 ≤ |(k1 : Rat) * pow2 j1 - (k2 : Rat) * pow2 j2| := by
  have e : (k1 : Rat) * pow2 j1 - (k2 : Rat) * pow2 j2 =
      ((k1 - k2 * 2 ^ (j2 - j1).toNat : Int) : Rat) * pow2 j1 := by
    have : pow2 j2 = pow2 (j2 - j1) * pow2 j1 := by rw [← pow2_add]; congr 1; ring
    rw [this, pow2_of_nonneg (by omega : 0 ≤ j2 - j1)]
    push_cast; ring
  have hm : (k1 - k2 * 2 ^ (j2 - j1).toNat : Int) ≠ 0 := by
    intro h0
    apply hne
    have := e
    rw [h0, Int.cast_zero, zero_mul] at this
    linarith
  rw [e, abs_mul, abs_of_pos (pow2_pos j1)]
  have := one_le_abs_intCast hm
  have hp := pow2_pos j1
  nlinarith

theorem rep_gap (F : Fmt) {a b : Rat} (ha : F.Rep a) (hb : F.Rep b) (hne : a ≠ b) :
    |a| < (pow2 (F.p : Int) + 1) * |a - b| := by
  obtain ⟨k1, j1, rfl, hk1, -⟩ := ha
  obtain ⟨k2, j2, rfl, hk2, -⟩ := hb
  rw [← pow2_eq, ← pow2_eq] at *
  have hP := pow2_pos (F.p : Int)
  have hK1 := abs_intCast_lt_pow2 hk1
  have hK2 := abs_intCast_lt_pow2 hk2
  rcases le_or_gt j1 j2 with hj | hj
  · have hg := rep_gap_aux hj hne
    have h1 : |(k1 : Rat) * pow2 j1| ≤ pow2 (F.p : Int) * pow2 j1 := by
      rw [abs_mul, abs_of_pos (pow2_pos j1)]
      exact mul_le_mul_of_nonneg_right hK1.le (pow2_pos j1).le
    have hj1 := pow2_pos j1
    nlinarith
  · have hg := rep_gap_aux hj.le (Ne.symm hne)
    rw [abs_sub_comm] at hg
    have h1 : |(k2 : Rat) * pow2 j2| < pow2 (F.p : Int) * pow2 j2 := by
      rw [abs_mul, abs_of_pos (pow2_pos j2)]
      exact mul_lt_mul_of_pos_right hK2 (pow2_pos j2)
    have tri : |(k1 : Rat) * pow2 j1| ≤ |(k2 : Rat) * pow2 j2| +
        |(k1 : Rat) * pow2 j1 - (k2 : Rat) * pow2 j2| := by
      have := abs_add_le ((k2 : Rat) * pow2 j2) ((k1 : Rat) * pow2 j1 - (k2 : Rat) * pow2 j2)
      rwa [add_sub_cancel] at this
    have hj2 := pow2_pos j2
    nlinarith

theorem rep_abs_ge (F : Fmt) {c : Rat} (hc : F.Rep c) (h0 : c ≠ 0) :
    pow2 (F.emin - (F.p : Int) + 1) ≤ |c| := by
  obtain ⟨k, j, rfl, -, hj⟩ := hc
  rw [← pow2_eq] at *
  have hk : k ≠ 0 := by rintro rfl; simp at h0
  rw [abs_mul, abs_of_pos (pow2_pos j)]
  have := one_le_abs_intCast hk
  have := pow2_le_pow2 hj
  have := pow2_pos j
  nlinarith

/-- a value sufficiently close to a representable `c` rounds to `c` -/
theorem rndFin_eq_of_close (G : Fmt) (hp : 1 ≤ G.p) {c t : Rat} (hc : G.Rep c)
    (h : 2 * (pow2 (G.p : Int) + 1) * |t - c| ≤ |c|) : G.rndFin t = c := by
  by_contra hne
  have hw := rndFin_rep G hp t
  have hn := rndFin_nearest G hp t c hc
  have hg := rep_gap G hc hw (Ne.symm hne)
  have tri : |c - G.rndFin t| ≤ |c - t| + |G.rndFin t - t| := by
    have := abs_add_le (c - t) (t - G.rndFin t)
    rwa [sub_add_sub_cancel, abs_sub_comm t (G.rndFin t)] at this
  rw [abs_sub_comm c t] at tri hn
  have hP := pow2_pos (G.p : Int)
  have : (pow2 (G.p : Int) + 1) * |c - G.rndFin t| ≤ (pow2 (G.p : Int) + 1) * (2 * |t - c|) :=
    mul_le_mul_of_nonneg_left (by linarith) (by linarith)
  linarith

/-! ### an executable (kernel-evaluable) witness search for `Fmt.Rep` -/

/-- executable witness search for `Fmt.Rep` -/
def repB (F : Fmt) (v : Rat) : Bool :=
  (List.range 64).any fun i =>
    let k := v / pow2 (F.emin - (F.p : Int) + 1 + (i : Int))
    k.den == 1 && decide (k.num.natAbs < 2 ^ F.p)

theorem repB_sound (F : Fmt) (v : Rat) (h : repB F v = true) : F.Rep v := by
  unfold repB at h
  rw [List.any_eq_true] at h
  obtain ⟨i, -, hi⟩ := h
  simp only [Bool.and_eq_true, beq_iff_eq, decide_eq_true_eq] at hi
  obtain ⟨hden, hnum⟩ := hi
  refine ⟨(v / pow2 (F.emin - (F.p : Int) + 1 + (i : Int))).num,
    F.emin - (F.p : Int) + 1 + (i : Int), ?_, ?_, by omega⟩
  · rw [← pow2_eq, Rat.coe_int_num_of_den_eq_one hden]
    field_simp [pow2_ne_zero]
  · rw [Int.abs_eq_natAbs]
    exact_mod_cast hnum

end Quanto

/-
Basic lemmas about the L0 float model primitives: `pow2`, `rabs`, `rhe`, `ilog2`.
-/
import Quanto.Float
import Mathlib.Tactic.Linarith
import Mathlib.Tactic.Ring
import Mathlib.Tactic.Positivity
import Mathlib.Algebra.Order.Field.Rat
import Mathlib.Algebra.Order.Ring.Abs
import Mathlib.Algebra.Order.Field.Power
import Mathlib.Data.Rat.Cast.Order
import Mathlib.Data.Rat.Floor

namespace Quanto

/-! ### pow2 -/

theorem pow2_eq (e : Int) : pow2 e = (2 : Rat) ^ e := by
  unfold pow2
  split
  · rename_i h
    conv_rhs => rw [← Int.toNat_of_nonneg h]
    rw [zpow_natCast]
  · rename_i h
    have h' : e = -((-e).toNat : Int) := by omega
    conv_rhs => rw [h']
    rw [zpow_neg, zpow_natCast, one_div]

theorem pow2_pos (e : Int) : 0 < pow2 e := by
  rw [pow2_eq]; positivity

theorem pow2_add (a b : Int) : pow2 (a + b) = pow2 a * pow2 b := by
  simp only [pow2_eq]
  exact zpow_add₀ (by norm_num) a b

theorem pow2_le_pow2 {a b : Int} (h : a ≤ b) : pow2 a ≤ pow2 b := by
  simp only [pow2_eq]
  exact zpow_le_zpow_right₀ (by norm_num) h

theorem pow2_lt_pow2 {a b : Int} (h : a < b) : pow2 a < pow2 b := by
  simp only [pow2_eq]
  exact zpow_lt_zpow_right₀ (by norm_num) h

theorem pow2_zero : pow2 0 = 1 := by rw [pow2_eq]; simp

theorem pow2_one : pow2 1 = 2 := by rw [pow2_eq]; simp

theorem pow2_ne_zero (e : Int) : pow2 e ≠ 0 := (pow2_pos e).ne'

theorem pow2_succ (e : Int) : pow2 (e + 1) = 2 * pow2 e := by
  rw [pow2_add, pow2_one, mul_comm]

theorem pow2_natCast (n : Nat) : pow2 (n : Int) = (2 : Rat) ^ n := by
  rw [pow2_eq, zpow_natCast]

/-! ### rabs -/

theorem rabs_eq (q : Rat) : rabs q = |q| := by
  unfold rabs
  split
  · rename_i h; rw [abs_of_neg h]
  · rename_i h; rw [abs_of_nonneg (not_lt.mp h)]

/-! ### rhe -/

theorem fl_le (q : Rat) : ((q.floor : Int) : Rat) ≤ q := Rat.floor_le q
theorem lt_fl (q : Rat) : q < ((q.floor : Int) : Rat) + 1 := by
  have := Rat.lt_floor_add_one q
  push_cast at this; exact this

theorem rhe_err (q : Rat) : |(rhe q : Rat) - q| ≤ 1 / 2 := by
  unfold rhe
  have h1 := fl_le q
  have h2 := lt_fl q
  simp only
  split_ifs <;> rw [abs_le] <;> constructor <;> push_cast <;> linarith

theorem rhe_nearest (q : Rat) (n : Int) : |(rhe q : Rat) - q| ≤ |(n : Rat) - q| := by
  have h1 := fl_le q
  have h2 := lt_fl q
  rcases le_or_gt n q.floor with h | h
  · have : (n : Rat) ≤ q.floor := by exact_mod_cast h
    unfold rhe; simp only
    split_ifs <;> rw [abs_le] <;> (rw [abs_of_nonpos (by linarith)]) <;> constructor <;>
      push_cast <;> linarith
  · have : (q.floor : Rat) + 1 ≤ n := by exact_mod_cast h
    unfold rhe; simp only
    split_ifs <;> rw [abs_le] <;> (rw [abs_of_nonneg (by linarith)]) <;> constructor <;>
      push_cast <;> linarith

theorem floor_intCast (n : Int) : (n : Rat).floor = n := Rat.floor_intCast n

theorem rhe_int (n : Int) : rhe (n : Rat) = n := by
  unfold rhe
  simp only [floor_intCast]
  rw [if_pos (by norm_num)]

/-- `rhe q` is either `floor q` or `floor q + 1`. -/
theorem rhe_floor_le (q : Rat) : q.floor ≤ rhe q := by
  unfold rhe; simp only; split_ifs <;> omega

theorem rhe_le_floor_add_one (q : Rat) : rhe q ≤ q.floor + 1 := by
  unfold rhe; simp only; split_ifs <;> omega

theorem floor_mono {a b : Rat} (h : a ≤ b) : a.floor ≤ b.floor := Rat.floor_monotone h

theorem rhe_mono {a b : Rat} (h : a ≤ b) : rhe a ≤ rhe b := by
  rcases lt_or_eq_of_le (floor_mono h) with hlt | heq
  · calc rhe a ≤ a.floor + 1 := rhe_le_floor_add_one a
      _ ≤ b.floor := hlt
      _ ≤ rhe b := rhe_floor_le b
  · unfold rhe
    simp only
    rw [heq]
    have hab : a - (b.floor : Rat) ≤ b - (b.floor : Rat) := by linarith
    split_ifs <;> first | omega | (exfalso; linarith)

theorem floor_eq_of {x : Rat} {n : Int} (h1 : (n : Rat) ≤ x) (h2 : x < (n : Rat) + 1) :
    x.floor = n := by
  have a : n ≤ x.floor := Rat.le_floor_iff.mpr h1
  have b : x.floor < n + 1 := Rat.floor_lt_iff.mpr (by push_cast; exact h2)
  omega

/-- round-half-even is an odd function (ties to even are symmetric). -/
theorem rhe_neg (q : Rat) : rhe (-q) = -rhe q := by
  have h1 := fl_le q
  have h2 := lt_fl q
  rcases eq_or_lt_of_le h1 with heq | hlt
  · rw [← heq, ← Int.cast_neg, rhe_int, rhe_int]
  · have hf : (-q).floor = -q.floor - 1 := by
      apply floor_eq_of <;> push_cast <;> linarith
    unfold rhe
    simp only [hf]
    push_cast
    split_ifs <;> first | omega | (exfalso; linarith)

/-! ### ilog2 -/

theorem rat_eq_natAbs_div_den (q : Rat) (hq : 0 < q) :
    q = (q.num.natAbs : Rat) / (q.den : Rat) := by
  have hn : 0 < q.num := Rat.num_pos.mpr hq
  have : ((q.num.natAbs : Int) : Rat) = (q.num : Rat) := by
    congr 1; omega
  rw [show (q.num.natAbs : Rat) = ((q.num.natAbs : Int) : Rat) from (Int.cast_natCast _).symm, this]
  exact (Rat.num_div_den q).symm

theorem ilog2_le (q : Rat) (hq : 0 < q) : (2 : Rat) ^ (ilog2 q) ≤ q := by
  unfold ilog2
  simp only
  split
  · rename_i h; rw [← pow2_eq]; exact h
  · have hn : 0 < q.num := Rat.num_pos.mpr hq
    have hq' := rat_eq_natAbs_div_den q hq
    have hn' : q.num.natAbs ≠ 0 := by omega
    have hd0 : 0 < q.den := q.den_pos
    generalize q.num.natAbs = N at *
    generalize q.den = D at *
    have h1 : 2 ^ (Nat.log2 N) ≤ N := Nat.log2_self_le hn'
    have h2 : D < 2 ^ (Nat.log2 D + 1) := Nat.lt_log2_self
    have hd : (0 : Rat) < D := by exact_mod_cast hd0
    rw [hq', le_div_iff₀ hd]
    have e1 : ((2 : Rat) ^ ((Nat.log2 N : Int) - (Nat.log2 D : Int) - 1)) *
        (2 : Rat) ^ (Nat.log2 D + 1) = (2 : Rat) ^ (Nat.log2 N) := by
      rw [← zpow_natCast, ← zpow_natCast, ← zpow_add₀ (by norm_num)]
      congr 1; push_cast; ring
    have h1' : (2 : Rat) ^ (Nat.log2 N) ≤ (N : Rat) := by exact_mod_cast h1
    have h2' : (D : Rat) ≤ (2 : Rat) ^ (Nat.log2 D + 1) := by exact_mod_cast h2.le
    have hpos : (0 : Rat) < (2 : Rat) ^ ((Nat.log2 N : Int) - (Nat.log2 D : Int) - 1) := by
      positivity
    calc _ ≤ ((2 : Rat) ^ ((Nat.log2 N : Int) - (Nat.log2 D : Int) - 1)) *
              (2 : Rat) ^ (Nat.log2 D + 1) := by
            apply mul_le_mul_of_nonneg_left h2' hpos.le
      _ = _ := e1
      _ ≤ _ := h1'

theorem lt_ilog2 (q : Rat) (hq : 0 < q) : q < (2 : Rat) ^ (ilog2 q + 1) := by
  unfold ilog2
  simp only
  split
  · have hn : 0 < q.num := Rat.num_pos.mpr hq
    have hq' := rat_eq_natAbs_div_den q hq
    have hd0 : 0 < q.den := q.den_pos
    have hd0' : q.den ≠ 0 := by omega
    generalize q.num.natAbs = N at *
    generalize q.den = D at *
    have h1 : N < 2 ^ (Nat.log2 N + 1) := Nat.lt_log2_self
    have h2 : 2 ^ (Nat.log2 D) ≤ D := Nat.log2_self_le hd0'
    have hd : (0 : Rat) < D := by exact_mod_cast hd0
    rw [hq', div_lt_iff₀ hd]
    have e1 : ((2 : Rat) ^ ((Nat.log2 N : Int) - (Nat.log2 D : Int) - 1 + 1 + 1)) *
        (2 : Rat) ^ (Nat.log2 D) = (2 : Rat) ^ (Nat.log2 N + 1) := by
      rw [← zpow_natCast, ← zpow_natCast, ← zpow_add₀ (by norm_num)]
      congr 1; push_cast; ring
    have h1' : (N : Rat) < (2 : Rat) ^ (Nat.log2 N + 1) := by exact_mod_cast h1
    have h2' : (2 : Rat) ^ (Nat.log2 D) ≤ (D : Rat) := by exact_mod_cast h2
    have hpos : (0 : Rat) <
        (2 : Rat) ^ ((Nat.log2 N : Int) - (Nat.log2 D : Int) - 1 + 1 + 1) := by
      positivity
    calc (N : Rat) < (2 : Rat) ^ (Nat.log2 N + 1) := h1'
      _ = _ := e1.symm
      _ ≤ _ := mul_le_mul_of_nonneg_left h2' hpos.le
  · rename_i h; rw [← pow2_eq]; exact not_le.mp h

end Quanto

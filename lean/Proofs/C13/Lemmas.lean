/-
Helpers for property C13: freshness of the handle-id counter, the effect of `exit` on a state
whose registries end with the handles of the context being left, the event view of a trace.
-/
import Quanto.Calib
import Mathlib.Tactic.Linarith

namespace Quanto

/-- every registered handle has an id below the counter (what `RemovableHandle` guarantees) -/
def HookState.Fresh (g : HookState) : Prop :=
  (∀ p ∈ g.preHooks, p.1 < g.nextId) ∧ (∀ p ∈ g.postHooks, p.1 < g.nextId)

/-- the flat list of events of a well-nested trace -/
def Trace.events : Trace → List HookEvent
  | .nil => []
  | .ctx id inner next => .enter id :: (Trace.events inner ++ .exit :: Trace.events next)

theorem filter_ne_append_single (l : List (Nat × Nat)) (n c : Nat) (h : ∀ p ∈ l, p.1 ≠ n) :
    (l ++ [(n, c)]).filter (·.1 ≠ n) = l := by
  rw [List.filter_append]
  have h1 : l.filter (·.1 ≠ n) = l := by
    rw [List.filter_eq_self]
    intro p hp
    simpa using h p hp
  rw [h1]
  simp

theorem HookState.enter_fst (g : HookState) (c : Nat) :
    (g.enter c).1 = { preHooks := g.preHooks ++ [(g.nextId, c)],
                      postHooks := g.postHooks ++ [(g.nextId + 1, c)],
                      nextId := g.nextId + 2, modeStack := c :: g.modeStack } := rfl

theorem HookState.enter_snd (g : HookState) (c : Nat) :
    (g.enter c).2 = (g.nextId, g.nextId + 1) := rfl

theorem HookState.enter_fresh {g : HookState} (h : g.Fresh) (c : Nat) : (g.enter c).1.Fresh := by
  obtain ⟨h1, h2⟩ := h
  rw [HookState.enter_fst]
  constructor
  · intro p hp
    simp only [List.mem_append, List.mem_singleton] at hp
    rcases hp with hp | rfl
    · have := h1 p hp; simp only; omega
    · simp only; omega
  · intro p hp
    simp only [List.mem_append, List.mem_singleton] at hp
    rcases hp with hp | rfl
    · have := h2 p hp; simp only; omega
    · simp only; omega

/-- leaving a context whose handles are the last entries of both registries and whose mode is on
top of the stack removes exactly these -/
theorem HookState.exit_of_top {g g2 : HookState} (h : g.Fresh) (c : Nat)
    (hpre : g2.preHooks = g.preHooks ++ [(g.nextId, c)])
    (hpost : g2.postHooks = g.postHooks ++ [(g.nextId + 1, c)])
    (hmode : g2.modeStack = c :: g.modeStack) :
    (g2.exit (g.nextId, g.nextId + 1)).preHooks = g.preHooks ∧
    (g2.exit (g.nextId, g.nextId + 1)).postHooks = g.postHooks ∧
    (g2.exit (g.nextId, g.nextId + 1)).modeStack = g.modeStack ∧
    (g2.exit (g.nextId, g.nextId + 1)).nextId = g2.nextId := by
  obtain ⟨h1, h2⟩ := h
  refine ⟨?_, ?_, ?_, rfl⟩
  · show g2.preHooks.filter (·.1 ≠ g.nextId) = g.preHooks
    rw [hpre]
    exact filter_ne_append_single _ _ _ (fun p hp => by have := h1 p hp; omega)
  · show g2.postHooks.filter (·.1 ≠ g.nextId + 1) = g.postHooks
    rw [hpost]
    exact filter_ne_append_single _ _ _ (fun p hp => by have := h2 p hp; omega)
  · show g2.modeStack.tail = g.modeStack
    rw [hmode]; rfl

theorem runTrace_nil (g : HookState) : runTrace g .nil = g := rfl

theorem runTrace_ctx (g : HookState) (c : Nat) (inner next : Trace) :
    runTrace g (.ctx c inner next) =
      runTrace ((runTrace (g.enter c).1 inner).exit (g.enter c).2) next := rfl

end Quanto

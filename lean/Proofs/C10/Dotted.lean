import Proofs.C10.Model
namespace Quanto

/-- the key prefix of the module at a path: every component followed by a dot (`"block.0.fc."`) -/
def dottedChars : List (List Char) → List Char
  | [] => []
  | c :: rest => c ++ '.' :: dottedChars rest

def dottedPrefix (p : List String) : String := String.ofList (dottedChars (p.map String.toList))

theorem split_at_first_dot (a b r r' : List Char) (ha : '.' ∉ a) (hb : '.' ∉ b)
    (h : a ++ '.' :: r = b ++ '.' :: r') : a = b ∧ r = r' := by
  induction a generalizing b with
  | nil =>
    cases b with
    | nil => simpa using h
    | cons y b => simp at h; exact absurd h.1.symm (by intro e; exact hb (by simp [e]))
  | cons x a ih =>
    cases b with
    | nil => simp at h; exact absurd h.1 (by intro e; exact ha (by simp [e]))
    | cons y b =>
      simp only [List.cons_append, List.cons.injEq] at h
      obtain ⟨hxy, ht⟩ := h
      have := ih b (fun m => ha (by simp [m])) (fun m => hb (by simp [m])) ht
      exact ⟨by rw [hxy, this.1], this.2⟩

/-- component lists without dots: a common key under two dotted prefixes forces one path to be a prefix of the
other -/
theorem dotted_common_key (p q : List (List Char)) (hp : ∀ c ∈ p, '.' ∉ c) (hq : ∀ c ∈ q, '.' ∉ c)
    (x y : List Char) (h : dottedChars p ++ x = dottedChars q ++ y) : p <+: q ∨ q <+: p := by
  induction p generalizing q with
  | nil => exact Or.inl (List.nil_prefix)
  | cons a p ih =>
    cases q with
    | nil => exact Or.inr (List.nil_prefix)
    | cons b q =>
      simp only [dottedChars, List.append_assoc, List.cons_append] at h
      obtain ⟨hab, hr⟩ := split_at_first_dot a b _ _ (hp a (by simp)) (hq b (by simp)) h
      subst hab
      rcases ih q (fun c hc => hp c (by simp [hc])) (fun c hc => hq c (by simp [hc])) hr with h1 | h1
      · exact Or.inl ((List.prefix_cons_inj a).mpr h1)
      · exact Or.inr ((List.prefix_cons_inj a).mpr h1)

theorem prefixIndep_of_paths (p q : List String) (hp : ∀ c ∈ p, '.' ∉ c.toList) (hq : ∀ c ∈ q, '.' ∉ c.toList)
    (h1 : ¬ p <+: q) (h2 : ¬ q <+: p) : PrefixIndep (dottedPrefix p) (dottedPrefix q) := by
  intro x y e
  have e' := congrArg String.toList e
  simp only [String.toList_append, dottedPrefix, String.toList_ofList] at e'
  have := dotted_common_key (p.map String.toList) (q.map String.toList)
    (by intro c hc; obtain ⟨s, hs, rfl⟩ := List.mem_map.mp hc; exact hp s hs)
    (by intro c hc; obtain ⟨s, hs, rfl⟩ := List.mem_map.mp hc; exact hq s hs) _ _ e'
  have inj : Function.Injective String.toList := fun a b hab => String.toList_inj.mp hab
  rcases this with h | h
  · exact h1 ((List.prefix_map_iff_of_injective inj).mp h)
  · exact h2 ((List.prefix_map_iff_of_injective inj).mp h)

end Quanto

/-
C10 helpers, model layer: the state_dict of a whole model is the concatenation of the per-module
dicts; `QModuleSer.load pre` only looks at keys of the form `pre ++ x`, every key written by
`QModuleSer.save pre` is of that form, hence modules under independent prefixes do not interfere.
-/
import Proofs.C10.Dict
namespace Quanto
open Quanto.C10

/-- entries behind whose keys differ from `k` do not matter -/
theorem sdGet_append_of_not_mem_right (front back : StateDict) (k : String)
    (h : ∀ e ∈ back, e.1 ≠ k) : sdGet (front ++ back) k = sdGet front k := by
  induction front with
  | nil =>
    have := sdGet_append_of_not_mem back [] k h
    simpa using this
  | cons e es ih =>
    obtain ⟨k0, v0⟩ := e
    rw [List.cons_append, sdGet_cons, sdGet_cons, ih]

/-- locality of `_load_from_state_dict`: only keys under the module's own prefix are read -/
theorem load_congr (pre : String) (b : Bool) (sd sd' : StateDict)
    (h : ∀ x, sdGet sd (pre ++ x) = sdGet sd' (pre ++ x)) :
    QModuleSer.load pre b sd = QModuleSer.load pre b sd' := by
  unfold QModuleSer.load QBytesSer.unflatten QBitsSer.unflatten PackedMeta.unflatten
  simp only [String.append_assoc, h]

/-- every key written by `_save_to_state_dict` under prefix `pre` starts with `pre` -/
theorem save_keys_prefixed (pre : String) (m : QModuleSer) :
    ∀ e ∈ m.save pre, ∃ x, e.1 = pre ++ x := by
  cases m with | mk w b i o wq aq =>
  cases w <;> cases b <;>
    simp [QModuleSer.save, QBytesSer.flatten, QBitsSer.flatten, PackedMeta.flatten,
      String.append_assoc]

theorem modelSave_nil : modelSave [] = [] := rfl

theorem modelSave_cons (pm : String × QModuleSer) (ms : List (String × QModuleSer)) :
    modelSave (pm :: ms) = pm.2.save pm.1 ++ modelSave ms := rfl

theorem modelSave_append (l1 l2 : List (String × QModuleSer)) :
    modelSave (l1 ++ l2) = modelSave l1 ++ modelSave l2 := by
  simp [modelSave]

/-- every key of the model's state_dict is a key of one of its modules -/
theorem modelSave_keys (ms : List (String × QModuleSer)) :
    ∀ e ∈ modelSave ms, ∃ pm ∈ ms, ∃ x, e.1 = pm.1 ++ x := by
  intro e he
  simp only [modelSave, List.mem_flatten, List.mem_map] at he
  obtain ⟨l, ⟨pm, hpm, rfl⟩, hel⟩ := he
  exact ⟨pm, hpm, save_keys_prefixed pm.1 pm.2 e hel⟩

/-- two prefixes are independent when no string extends both -/
def PrefixIndep (a b : String) : Prop := ∀ x y, a ++ x ≠ b ++ y

theorem PrefixIndep.symm {a b : String} (h : PrefixIndep a b) : PrefixIndep b a :=
  fun x y e => h y x e.symm

/-- distinct prefixes of the same length (e.g. `"fc1."`, `"fc2."`) are independent -/
theorem prefixIndep_of_length_eq (a b : String) (hl : a.length = b.length) (hne : a ≠ b) :
    PrefixIndep a b := by
  intro x y e
  apply hne
  have e' := congrArg String.toList e
  simp only [String.toList_append] at e'
  have hl' : a.toList.length = b.toList.length := by simp [String.length_toList, hl]
  exact String.toList_inj.mp (List.append_inj e' hl').1

/-- two prefixes neither of which starts with the other never produce a common key (dotted module paths
end in '.', so this is every pair of distinct modules neither of which is an ancestor of the other) -/
theorem prefixIndep_of_not_prefix (a b : String) (h1 : ¬ a.toList <+: b.toList)
    (h2 : ¬ b.toList <+: a.toList) : PrefixIndep a b := by
  intro x y e
  have e' := congrArg String.toList e
  simp only [String.toList_append] at e'
  rcases List.append_eq_append_iff.mp e' with ⟨c, hc, _⟩ | ⟨c, hc, _⟩
  · exact h1 ⟨c, hc.symm⟩
  · exact h2 ⟨c, hc.symm⟩

/-- lookups under a module's prefix in the whole-model dict see only that module's entries -/
theorem sdGet_modelSave (ms : List (String × QModuleSer))
    (hpre : ms.Pairwise fun a b => PrefixIndep a.1 b.1)
    (pm : String × QModuleSer) (hm : pm ∈ ms) (x : String) :
    sdGet (modelSave ms) (pm.1 ++ x) = sdGet (pm.2.save pm.1) (pm.1 ++ x) := by
  obtain ⟨l1, l2, rfl⟩ := List.append_of_mem hm
  rw [List.pairwise_append] at hpre
  obtain ⟨_, h2, h12⟩ := hpre
  rw [List.pairwise_cons] at h2
  rw [modelSave_append, modelSave_cons]
  rw [sdGet_append_of_not_mem, sdGet_append_of_not_mem_right]
  · intro e he hek
    obtain ⟨pm', hpm', y, hy⟩ := modelSave_keys l2 e he
    exact h2.1 pm' hpm' x y (by rw [← hek, hy])
  · intro e he hek
    obtain ⟨pm', hpm', y, hy⟩ := modelSave_keys l1 e he
    exact h12 pm' hpm' pm (by simp) y x (by rw [← hy, hek])

end Quanto

/-
C10 helpers, metadata layer: `PyMeta.parse (PyMeta.str v) = some v` for every `v`
(`meta_parse`).  Ingredients: the characters of `toString (n : Int)` are digits or `-`
(so none is a comma, white space, a bracket or `N`); splitting `", ".intercalate …` on commas;
trimming; `Int.toInt?_repr` from core for the digit-level fact.
-/
import Proofs.C10.Str
import Std.Data.String.ToInt
import Quanto.Serial

namespace Quanto.C10
open String

/-- characters that can occur in `toString (n : Int)` -/
def IntCh (c : Char) : Prop := c.isDigit = true ∨ c = '-'

def reprL (n : Int) : List Char := (toString n).toList

theorem reprL_chars (n : Int) : ∀ c ∈ reprL n, IntCh c := by
  intro c hc
  unfold reprL at hc
  rw [Int.toString_eq_repr, Int.repr_eq_if] at hc
  split at hc
  · rw [Nat.toList_repr] at hc
    exact Or.inl (Nat.isDigit_of_mem_toDigits (by decide) (by decide) hc)
  · rw [String.toList_append, Nat.toList_repr] at hc
    simp at hc
    rcases hc with h | h
    · exact Or.inr h
    · exact Or.inl (Nat.isDigit_of_mem_toDigits (by decide) (by decide) h)

theorem reprL_ne_nil (n : Int) : reprL n ≠ [] := by
  unfold reprL
  rw [Int.toString_eq_repr, Int.repr_eq_if]
  split
  · rw [Nat.toList_repr]; exact Nat.toDigits_ne_nil
  · simp

theorem IntCh.not_ws {c : Char} (h : IntCh c) : c.isWhitespace = false := by
  cases hw : c.isWhitespace with
  | false => rfl
  | true =>
    exfalso
    simp [Char.isWhitespace] at hw
    rcases hw with ((rfl | rfl) | rfl) | rfl <;> rcases h with h | h <;> revert h <;> decide

theorem IntCh.ne_of_not {c d : Char} (h : IntCh c) (hd : ¬ IntCh d) : c ≠ d := by
  rintro rfl; exact hd h

instance (c : Char) : Decidable (IntCh c) := by unfold IntCh; infer_instance


/-! ### trimming -/

theorem trimAscii_eq (s : String) : s.trimAscii.toString = ofList (trimL s.toList) := by
  rw [← trimAscii_toList, String.ofList_toList]

theorem dropWhile_ws_clean {l : List Char} (h : ∀ c ∈ l, c.isWhitespace = false) :
    l.dropWhile Char.isWhitespace = l := by
  cases l with
  | nil => rfl
  | cons a t => simp [List.dropWhile, h a (by simp)]

theorem trimL_clean {l : List Char} (h : ∀ c ∈ l, c.isWhitespace = false) : trimL l = l := by
  unfold trimL
  rw [dropWhile_ws_clean h, dropWhile_ws_clean (by simpa using h), List.reverse_reverse]

theorem trimL_space_clean {l : List Char} (h : ∀ c ∈ l, c.isWhitespace = false) :
    trimL (' ' :: l) = l := by
  have : trimL (' ' :: l) = trimL l := by
    unfold trimL
    rw [List.dropWhile_cons_of_pos (by decide)]
  rw [this, trimL_clean h]

theorem dropWhile_append_singleton_ne_nil {p : Char → Bool} (u : List Char) {a : Char}
    (ha : p a = false) : (u ++ [a]).dropWhile p ≠ [] := by
  induction u with
  | nil => simp [ha]
  | cons b u ih =>
    rw [List.cons_append, List.dropWhile_cons]
    split
    · exact ih
    · simp

theorem trimL_cons_ne_nil {a : Char} (t : List Char) (ha : a.isWhitespace = false) :
    trimL (a :: t) ≠ [] := by
  unfold trimL
  rw [List.dropWhile_cons_of_neg (by simp [ha]), List.reverse_cons]
  intro h
  exact dropWhile_append_singleton_ne_nil _ ha (List.reverse_eq_nil_iff.mp h)

theorem reprL_clean (n : Int) : ∀ c ∈ reprL n, c.isWhitespace = false :=
  fun c hc => (reprL_chars n c hc).not_ws

theorem trim_toString (n : Int) : (toString n).trimAscii.toString = toString n := by
  rw [trimAscii_eq]
  show ofList (trimL (reprL n)) = _
  rw [trimL_clean (reprL_clean n)]
  exact String.ofList_toList

theorem trim_space_toString (n : Int) :
    (ofList (' ' :: reprL n)).trimAscii.toString = toString n := by
  rw [trimAscii_eq, String.toList_ofList, trimL_space_clean (reprL_clean n)]
  exact String.ofList_toList

theorem trim_empty : "".trimAscii.toString = "" := by
  rw [trimAscii_eq]; rfl

theorem toString_int_ne_empty (n : Int) : toString n ≠ "" := by
  intro h
  apply reprL_ne_nil n
  unfold reprL; rw [h]; rfl


/-! ### the comma separated body -/

theorem IntCh.not_comma {c : Char} (h : IntCh c) : (c == ',') = false := by
  rw [beq_eq_false_iff_ne]; exact h.ne_of_not (by decide)

/-- the characters of `joinInts (x :: xs)` -/
theorem joinInts_cons_toList (x : Int) (xs : List Int) :
    (joinInts (x :: xs)).toList = reprL x ++ xs.flatMap (fun y => ',' :: ' ' :: reprL y) := by
  induction xs generalizing x with
  | nil => simp [joinInts, reprL]
  | cons y ys ih =>
    have ih' := ih y
    simp only [joinInts, List.map_cons] at ih' ⊢
    rw [String.intercalate_cons_cons, String.toList_append, String.toList_append, ih']
    simp [reprL]

/-- splitting the body of a list of ints on commas -/
theorem splitOnP_body (a : List Char) (ha : ∀ c ∈ a, (c == ',') = false) (xs : List Int) :
    List.splitOnP (· == ',') (a ++ xs.flatMap (fun y => ',' :: ' ' :: reprL y)) =
      a :: xs.map (fun y => ' ' :: reprL y) := by
  induction xs generalizing a with
  | nil => simpa using List.splitOnP_eq_singleton ha
  | cons y ys ih =>
    simp only [List.flatMap_cons, List.map_cons]
    rw [List.cons_append, List.splitOnP_append_cons_of_forall_mem ha ',' (by decide)]
    congr 1
    have := ih (' ' :: reprL y) (by
      intro c hc
      simp at hc
      rcases hc with rfl | hc
      · decide
      · exact (reprL_chars y c hc).not_comma)
    simpa using this

theorem splitOn_joinInts_cons (x : Int) (xs : List Int) :
    (joinInts (x :: xs)).splitOn "," =
      toString x :: xs.map (fun y => ofList (' ' :: reprL y)) := by
  rw [splitOn_comma, joinInts_cons_toList,
    splitOnP_body _ (fun c hc => (reprL_chars x c hc).not_comma)]
  simp [reprL, Function.comp_def]

theorem mapM_pieces (ys : List Int) :
    (((ys.map (fun y => ofList (' ' :: reprL y))).filter
        (fun t => t.trimAscii.toString ≠ "")).mapM
        fun t => t.trimAscii.toString.toInt?) = some ys := by
  induction ys with
  | nil => rfl
  | cons y ys ih =>
    simp only [List.map_cons]
    have hf : decide ((ofList (' ' :: reprL y)).trimAscii.toString ≠ "") = true :=
      decide_eq_true (by rw [trim_space_toString]; exact toString_int_ne_empty y)
    rw [List.filter_cons_of_pos (p := fun t : String => decide (t.trimAscii.toString ≠ "")) hf,
      List.mapM_cons, ih, trim_space_toString, Int.toString_eq_repr, Int.toInt?_repr]
    rfl

theorem parseIntsCsv_joinInts (l : List Int) : parseIntsCsv (joinInts l) = some l := by
  cases l with
  | nil =>
    unfold parseIntsCsv
    have : joinInts [] = "" := by simp [joinInts]
    rw [this, if_pos trim_empty]
  | cons x xs =>
    unfold parseIntsCsv
    have hne : (joinInts (x :: xs)).trimAscii.toString ≠ "" := by
      rw [trimAscii_eq, joinInts_cons_toList]
      obtain ⟨a, t, hat⟩ := List.exists_cons_of_ne_nil (reprL_ne_nil x)
      have ha : a.isWhitespace = false := reprL_clean x a (by rw [hat]; simp)
      rw [hat, List.cons_append]
      intro h
      apply trimL_cons_ne_nil _ ha
      have := congrArg String.toList h
      simpa using this
    have hf : decide ((toString x).trimAscii.toString ≠ "") = true :=
      decide_eq_true (by rw [trim_toString]; exact toString_int_ne_empty x)
    rw [if_neg hne, splitOn_joinInts_cons,
      List.filter_cons_of_pos (p := fun t : String => decide (t.trimAscii.toString ≠ "")) hf,
      List.mapM_cons, mapM_pieces, trim_toString, Int.toString_eq_repr, Int.toInt?_repr]
    rfl


theorem parseIntsCsv_single_trailing (x : Int) : parseIntsCsv (toString x ++ ",") = some [x] := by
  unfold parseIntsCsv
  have hne : (toString x ++ ",").trimAscii.toString ≠ "" := by
    rw [trimAscii_eq, String.toList_append]
    obtain ⟨a, t, hat⟩ := List.exists_cons_of_ne_nil (reprL_ne_nil x)
    have ha : a.isWhitespace = false := reprL_clean x a (by rw [hat]; simp)
    show ofList (trimL (reprL x ++ _)) ≠ ""
    rw [hat, List.cons_append]
    intro h
    apply trimL_cons_ne_nil _ ha
    have := congrArg String.toList h
    simpa using this
  have hsplit : (toString x ++ ",").splitOn "," = [toString x, ""] := by
    rw [splitOn_comma, String.toList_append]
    show List.map ofList (List.splitOnP (· == ',') (reprL x ++ [','])) = _
    rw [List.splitOnP_append_cons_of_forall_mem
      (fun c hc => (reprL_chars x c hc).not_comma) ',' (by decide)]
    simp [reprL]
  have hf : decide ((toString x).trimAscii.toString ≠ "") = true :=
    decide_eq_true (by rw [trim_toString]; exact toString_int_ne_empty x)
  have hf' : ¬ (decide ("".trimAscii.toString ≠ "") = true) := by
    rw [trim_empty]; decide
  rw [if_neg hne, hsplit,
    List.filter_cons_of_pos (p := fun t : String => decide (t.trimAscii.toString ≠ "")) hf,
    List.filter_cons_of_neg (p := fun t : String => decide (t.trimAscii.toString ≠ "")) hf',
    List.filter_nil, List.mapM_cons, trim_toString, Int.toString_eq_repr, Int.toInt?_repr]
  rfl


/-! ### brackets -/

theorem startsWith_iff (s pat : String) : s.startsWith pat = true ↔ pat.toList <+: s.toList :=
  String.startsWith_string_iff

theorem endsWith_iff (s pat : String) : s.endsWith pat = true ↔ pat.toList <:+ s.toList := by
  rw [String.endsWith_eq_endsWith_toSlice, String.Slice.endsWith_string_iff]
  simp

theorem inner_toString (o c b : String) (ho : o.toList.length = 1) (hc : c.toList.length = 1) :
    (((o ++ b ++ c).drop 1).dropEnd 1).toString = b := by
  apply String.toList_inj.mp
  show (((o ++ b ++ c).drop 1).dropEnd 1).copy.toList = _
  rw [String.Slice.toList_copy_dropEnd, String.toList_copy_drop]
  simp only [String.toList_append]
  obtain ⟨oc, hoc⟩ := List.length_eq_one_iff.mp ho
  obtain ⟨cc, hcc⟩ := List.length_eq_one_iff.mp hc
  rw [hoc, hcc]
  simp

/-- first character of `toString n` -/
theorem toString_int_head (n : Int) : ∃ a t, (toString n).toList = a :: t ∧ IntCh a := by
  obtain ⟨a, t, hat⟩ := List.exists_cons_of_ne_nil (reprL_ne_nil n)
  exact ⟨a, t, hat, reprL_chars n a (by rw [hat]; simp)⟩

theorem toString_int_ne_None (n : Int) : toString n ≠ "None" := by
  obtain ⟨a, t, hat, ha⟩ := toString_int_head n
  intro h
  rw [h] at hat
  have : a = 'N' := by
    have h' : ("None".toList).head? = some a := by rw [hat]; rfl
    have h'' : "None".toList.head? = some 'N' := by decide
    rw [h''] at h'; exact (Option.some.inj h').symm
  subst this
  revert ha; decide

theorem toString_int_not_startsWith (n : Int) (d : Char) (hd : ¬ IntCh d) :
    (toString n).startsWith (String.singleton d) = false := by
  obtain ⟨a, t, hat, ha⟩ := toString_int_head n
  rw [Bool.eq_false_iff]
  intro h
  rw [startsWith_iff, hat] at h
  simp at h
  exact ha.ne_of_not hd h.symm


theorem head_ne_of_ne {s t : String} (h : s.toList.head? ≠ t.toList.head?) : s ≠ t := by
  rintro rfl; exact h rfl

theorem parse_bracket_list (b : String) :
    PyMeta.parse ("[" ++ b ++ "]") = (parseIntsCsv b).map .list := by
  unfold PyMeta.parse
  have h1 : "[" ++ b ++ "]" ≠ "None" := head_ne_of_ne (by simp)
  have h2 : ("[" ++ b ++ "]").startsWith "[" = true := by
    rw [startsWith_iff]; simp
  have h3 : ("[" ++ b ++ "]").endsWith "]" = true := by
    rw [endsWith_iff]; simp
  rw [if_neg h1, h2, h3, inner_toString _ _ _ (by decide) (by decide)]
  simp

theorem parse_bracket_tuple (b : String) :
    PyMeta.parse ("(" ++ b ++ ")") = (parseIntsCsv b).map .tuple := by
  unfold PyMeta.parse
  have h1 : "(" ++ b ++ ")" ≠ "None" := head_ne_of_ne (by simp)
  have h2 : ("(" ++ b ++ ")").startsWith "[" = false := by
    rw [Bool.eq_false_iff, ne_eq, startsWith_iff]; simp
  have h3 : ("(" ++ b ++ ")").startsWith "(" = true := by
    rw [startsWith_iff]; simp
  have h4 : ("(" ++ b ++ ")").endsWith ")" = true := by
    rw [endsWith_iff]; simp
  rw [if_neg h1, h2, h3, h4, inner_toString _ _ _ (by decide) (by decide)]
  simp

theorem parse_int (n : Int) : PyMeta.parse (toString n) = some (.int n) := by
  unfold PyMeta.parse
  have h2 : (toString n).startsWith "[" = false :=
    toString_int_not_startsWith n '[' (by decide)
  have h3 : (toString n).startsWith "(" = false :=
    toString_int_not_startsWith n '(' (by decide)
  rw [if_neg (toString_int_ne_None n), h2, h3]
  simp [Int.toInt?_repr]

theorem meta_parse (v : PyMeta) : PyMeta.parse v.str = some v := by
  cases v with
  | int n => exact parse_int n
  | none => decide
  | list l =>
    show PyMeta.parse ("[" ++ joinInts l ++ "]") = _
    rw [parse_bracket_list, parseIntsCsv_joinInts]; rfl
  | tuple l =>
    match l with
    | [] =>
      show PyMeta.parse ("(" ++ joinInts [] ++ ")") = _
      rw [parse_bracket_tuple, parseIntsCsv_joinInts]; rfl
    | [x] =>
      show PyMeta.parse ("(" ++ toString x ++ ",)") = _
      have : "(" ++ toString x ++ ",)" = "(" ++ (toString x ++ ",") ++ ")" := by
        rw [show ",)" = "," ++ ")" from rfl]; simp [String.append_assoc]
      rw [this, parse_bracket_tuple, parseIntsCsv_single_trailing]; rfl
    | x :: y :: zs =>
      show PyMeta.parse ("(" ++ joinInts (x :: y :: zs) ++ ")") = _
      rw [parse_bracket_tuple, parseIntsCsv_joinInts]; rfl

end Quanto.C10

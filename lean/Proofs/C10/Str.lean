/-
C10 helpers, string layer.  The two library functions used by `Quanto.parseIntsCsv` that have no
specification in core are characterised on `List Char`:

* `String.splitOn s ","` (the legacy byte-position loop `String.splitOnAux`)
    = `(List.splitOnP (· == ',') s.toList).map String.ofList`            (`splitOn_comma`)
* `(String.trimAscii s).toString`
    has character list `trimL s.toList` (drop white space at both ends)     (`trimAscii_toList`)
-/
import Batteries.Data.String.Lemmas

namespace Quanto.C10
open String

theorem splitOnAux_comma_of_valid (l m r : List Char) (acc : List String) :
    splitOnAux (ofList (l ++ m ++ r)) "," ⟨utf8Len l⟩ ⟨utf8Len l + utf8Len m⟩ 0 acc =
      acc.reverse ++ (List.splitOnPPrepend (· == ',') r m.reverse).map ofList := by
  unfold splitOnAux
  simp only [List.append_assoc, atEnd_iff, rawEndPos_ofList, utf8Len_append, Pos.Raw.mk_le_mk,
    Nat.add_le_add_iff_left, (by omega : utf8Len m + utf8Len r ≤ utf8Len m ↔ utf8Len r = 0),
    utf8Len_eq_zero]
  split
  · subst r
    simpa using extract_of_valid l m []
  · obtain ⟨c, r, rfl⟩ := r.exists_cons_of_ne_nil ‹_›
    have hget : (0 : Pos.Raw).get "," = ',' := by decide
    have hnext : (0 : Pos.Raw).next "," = ⟨1⟩ := by decide
    have hend : ",".rawEndPos ≤ (⟨1⟩ : Pos.Raw) := by decide
    have hun0 : ∀ p : Pos.Raw, p.unoffsetBy 0 = p := fun p => by
      simp
    simp only [by
      simpa [-ofList_append] using
        (⟨get_of_valid (l ++ m) (c :: r), next_of_valid (l ++ m) c r,
            extract_of_valid l m (c :: r)⟩ :
          _ ∧ _ ∧ _), hget, hnext, hend, hun0, if_true]
    split <;> rename_i h
    · have hc : c = ',' := by simpa using h
      subst hc
      have hu : ({ byteIdx := utf8Len l + utf8Len m + (',' : Char).utf8Size } : Pos.Raw).unoffsetBy ⟨1⟩
          = ⟨utf8Len l + utf8Len m⟩ := by
        have : (',' : Char).utf8Size = 1 := by decide
        simp [Pos.Raw.ext_iff, this]
      rw [hu]
      have := extract_of_valid l m (',' :: r)
      simp only [List.append_assoc] at this
      rw [this]
      simpa [Nat.add_assoc, List.splitOnPPrepend_cons_eq_if] using
        splitOnAux_comma_of_valid (l++m++[',']) [] r ((ofList m)::acc)
    · have hc : (c == ',') = false := by simpa using h
      simpa [List.splitOnPPrepend_cons_eq_if, hc, Nat.add_assoc] using
        splitOnAux_comma_of_valid l (m++[c]) r acc
termination_by r.length

theorem splitOn_comma (s : String) :
    s.splitOn "," = (List.splitOnP (· == ',') s.toList).map ofList := by
  have := splitOnAux_comma_of_valid [] [] s.toList []
  simpa [splitOn] using this


theorem list_dropWhile_unique {α} (p : α → Bool) (a b : List α)
    (ha : a.all p = true) (hb : b.head?.any p = false) : (a ++ b).dropWhile p = b := by
  induction a with
  | nil => cases b with
    | nil => rfl
    | cons x xs => simp at hb; simp [hb]
  | cons x xs ih =>
    simp at ha
    simp [ha.1]
    apply ih; simp; exact ha.2

theorem slice_dropWhile_toList (s : Slice) (p : Char → Bool) :
    (s.dropWhile p).copy.toList = s.copy.toList.dropWhile p := by
  have h1 : (s.takeWhile p).copy ++ (s.dropWhile p).copy = s.copy := Slice.takeWhile_append_dropWhile
  have h2 : (s.takeWhile p).all p = true := Slice.all_takeWhile
  have h3 : (s.dropWhile p).startsWith p = false := Slice.startsWith_dropWhile
  rw [Slice.all_bool_eq] at h2
  rw [Slice.startsWith_bool_eq_head?] at h3
  rw [← h1, String.toList_append, list_dropWhile_unique p _ _ h2 h3]

theorem slice_dropEndWhile_toList (s : Slice) (p : Char → Bool) :
    (s.dropEndWhile p).copy.toList = (s.copy.toList.reverse.dropWhile p).reverse := by
  have h1 : (s.dropEndWhile p).copy ++ (s.takeEndWhile p).copy = s.copy := Slice.dropEndWhile_append_takeEndWhile
  have h2 : (s.takeEndWhile p).revAll p = true := Slice.revAll_takeEndWhile
  have h3 : (s.dropEndWhile p).endsWith p = false := Slice.endsWith_dropEndWhile
  rw [Slice.revAll_bool_eq] at h2
  rw [Slice.endsWith_bool_eq_getLast?] at h3
  rw [← h1, String.toList_append, List.reverse_append, list_dropWhile_unique p _ _ (by simpa using h2) (by simpa using h3)]
  simp

def trimL (l : List Char) : List Char :=
  ((l.dropWhile Char.isWhitespace).reverse.dropWhile Char.isWhitespace).reverse

theorem trimAscii_toList (s : String) : s.trimAscii.toString.toList = trimL s.toList := by
  show (s.toSlice.trimAsciiStart.trimAsciiEnd).copy.toList = _
  unfold Slice.trimAsciiEnd Slice.trimAsciiStart
  rw [slice_dropEndWhile_toList, slice_dropWhile_toList]
  simp [trimL]


end Quanto.C10

/-
C10 helpers, state-dict layer: lookup lemmas for `sdGet`, the well-formedness predicate of a
serialized module.
-/
import Proofs.C10.Meta
namespace Quanto
open Quanto.C10

@[simp] theorem sdGet_nil (k : String) : sdGet [] k = none := rfl

@[simp] theorem sdGet_cons (k : String) (v : Leaf) (sd : StateDict) (k' : String) :
    sdGet ((k, v) :: sd) k' = if k = k' then some v else sdGet sd k' := by
  unfold sdGet
  rw [List.find?_cons]
  by_cases h : k = k' <;> simp [h]

/-- entries in front whose keys differ from `k` are skipped -/
theorem sdGet_append_of_not_mem (before rest : StateDict) (k : String)
    (h : ∀ e ∈ before, e.1 ≠ k) : sdGet (before ++ rest) k = sdGet rest k := by
  induction before with
  | nil => rfl
  | cons e es ih =>
    obtain ⟨k0, v0⟩ := e
    rw [List.cons_append, sdGet_cons, if_neg (h (k0, v0) (by simp))]
    exact ih (fun e he => h e (by simp [he]))

/-- Hypothesis of the module round trip: the recorded `weight_qtype` agrees with the kind of the
serialized weight, and no qtype is literally called `"none"` (the string that encodes
`None` in `weight_qtype` / `activation_qtype`). -/
structure QModuleSer.WellFormed (m : QModuleSer) : Prop where
  wq_ne_none : m.weightQtype ≠ some "none"
  aq_ne_none : m.activationQtype ≠ some "none"
  /-- a sub-byte packed weight (`QBitsTensor`) ↔ qtype ∈ {qint2, qint4} -/
  qbits : ∀ q, m.weight = .qbits q → m.weightQtype = some "qint2" ∨ m.weightQtype = some "qint4"
  /-- a `QBytesTensor` weight ↔ some other (8-bit) qtype name; in particular not `none` -/
  qbytes : ∀ q, m.weight = .qbytes q →
    ∃ t, m.weightQtype = some t ∧ t ≠ "qint2" ∧ t ≠ "qint4"

theorem qtStr_some (t : String) : qtStr (some t) = t := rfl

theorem strQt_qtStr (o : Option String) (h : o ≠ some "none") : strQt (qtStr o) = o := by
  cases o with
  | none => rfl
  | some s =>
    have : s ≠ "none" := fun hs => h (by rw [hs])
    simp [qtStr, strQt, this]

/-! ### concrete values used by the non-vacuity examples of `Proofs/Properties/C10.lean` -/
namespace C10

/-- a group-wise int4 weight of a 4096 × 11008 projection -/
def sampleQBits : QBitsSer :=
  { packed := { dataRef := "packed", bits := 4, size := [2048, 11008], stride := [11008, 1] },
    scaleRef := "scale", zeroRef := "zeropoint", qtype := "qint4", axis := some 0,
    groupSize := some 128, size := [4096, 11008], stride := [11008, 1] }

/-- a per-axis int8 weight -/
def sampleQBytes : QBytesSer :=
  { dataRef := "data", scaleRef := "scale", qtype := "qint8", axis := some 0,
    size := [4096, 11008], stride := [11008, 1] }

def sampleModule4 : QModuleSer :=
  { weight := .qbits sampleQBits, bias := some "bias", inputScale := "in", outputScale := "out",
    weightQtype := some "qint4", activationQtype := none }

def sampleModule8 : QModuleSer :=
  { weight := .qbytes sampleQBytes, bias := none, inputScale := "in", outputScale := "out",
    weightQtype := some "qint8", activationQtype := some "qfloat8_e4m3fn" }

end C10

end Quanto

/-
Row-major index lemmas: `flat` / `unflat` are mutually inverse bijections between valid
multi-indices of a shape and `[0, prod shape)`; `T.ofFn` / `T.gather` size and access lemmas.
-/
import Quanto.Tensor
import Proofs.C04.Lemmas
import Mathlib.Tactic.Linarith
import Mathlib.Tactic.Ring

namespace Quanto

/-! ### `prod`, `flat`, `unflat`, `validIdx` -/

theorem prod_nil : prod [] = 1 := rfl
theorem prod_cons (d : Nat) (ds : List Nat) : prod (d :: ds) = d * prod ds := rfl

theorem prod_append : ∀ (a b : List Nat), prod (a ++ b) = prod a * prod b
  | [], b => by simp [prod]
  | d :: ds, b => by
      simp only [List.cons_append, prod, prod_append ds b, Nat.mul_assoc]

theorem prod_replicate_one : ∀ n : Nat, prod (List.replicate n 1) = 1
  | 0 => rfl
  | n + 1 => by simp [List.replicate_succ, prod, prod_replicate_one n]

theorem prod_pos_of_valid : ∀ (s idx : List Nat), validIdx s idx → 0 < prod s
  | [], [], _ => by simp [prod]
  | d :: ds, i :: is, h => by
      have h2 := prod_pos_of_valid ds is h.2
      have h1 : 0 < d := by have := h.1; omega
      simp only [prod]; exact Nat.mul_pos h1 h2
  | [], _ :: _, h => by simp [validIdx] at h
  | _ :: _, [], h => by simp [validIdx] at h

theorem flat_lt : ∀ (s idx : List Nat), validIdx s idx → flat s idx < prod s
  | [], [], _ => by simp [flat, prod]
  | d :: ds, i :: is, h => by
      have h1 := flat_lt ds is h.2
      have hi := h.1
      simp only [flat, prod]
      calc i * prod ds + flat ds is < i * prod ds + prod ds := by omega
        _ = (i + 1) * prod ds := by ring
        _ ≤ d * prod ds := Nat.mul_le_mul_right _ (by omega)
  | [], _ :: _, h => by simp [validIdx] at h
  | _ :: _, [], h => by simp [validIdx] at h

theorem unflat_flat : ∀ (s idx : List Nat), validIdx s idx → unflat s (flat s idx) = idx
  | [], [], _ => by simp [unflat]
  | d :: ds, i :: is, h => by
      have h1 := flat_lt ds is h.2
      have ih := unflat_flat ds is h.2
      have hp : 0 < prod ds := by omega
      simp only [flat, unflat]
      rw [idx_div _ _ _ h1, idx_mod _ _ _ h1, ih]
  | [], _ :: _, h => by simp [validIdx] at h
  | _ :: _, [], h => by simp [validIdx] at h

theorem prod_tail_pos {d : Nat} {ds : List Nat} {n : Nat} (h : n < prod (d :: ds)) : 0 < prod ds := by
  simp only [prod] at h
  rcases Nat.eq_zero_or_pos (prod ds) with h0 | h0
  · rw [h0] at h; simp at h
  · exact h0

theorem valid_unflat : ∀ (s : List Nat) (n : Nat), n < prod s → validIdx s (unflat s n)
  | [], _, _ => by simp [unflat, validIdx]
  | d :: ds, n, h => by
      have hp := prod_tail_pos h
      simp only [prod] at h
      simp only [unflat, validIdx]
      refine ⟨?_, valid_unflat ds _ (Nat.mod_lt _ hp)⟩
      rw [Nat.div_lt_iff_lt_mul hp]; exact h

theorem flat_unflat : ∀ (s : List Nat) (n : Nat), n < prod s → flat s (unflat s n) = n
  | [], n, h => by simp [prod] at h; simp [flat, h]
  | d :: ds, n, h => by
      have hp := prod_tail_pos h
      simp only [unflat, flat]
      rw [flat_unflat ds _ (Nat.mod_lt _ hp)]
      exact Nat.div_add_mod' n (prod ds)

theorem length_unflat : ∀ (s : List Nat) (n : Nat), (unflat s n).length = s.length
  | [], _ => rfl
  | _ :: ds, n => by simp [unflat, length_unflat ds]

/-! ### three-axis special case (what `group` / `ungroup` use) -/

theorem prod3 (a b c : Nat) : prod [a, b, c] = a * b * c := by
  simp [prod, Nat.mul_assoc]

theorem unflat3 (a b c n : Nat) :
    unflat [a, b, c] n = [n / (b * c), n % (b * c) / c, n % (b * c) % c] := by
  simp [unflat, prod]

theorem flat3 (a b c i j k : Nat) : flat [a, b, c] [i, j, k] = i * (b * c) + (j * c + k) := by
  simp [flat, prod]

/-! ### tensors -/

theorem T.ext' {α : Type} {a b : T α} (hs : a.shape = b.shape) (hd : a.data = b.data) : a = b := by
  cases a; cases b; simp only at hs hd; subst hs; subst hd; rfl

theorem T.shape_gather {α : Type} [Inhabited α] (t : T α) (s : List Nat) (src : Nat → Nat) :
    (t.gather s src).shape = s := rfl

theorem T.size_gather {α : Type} [Inhabited α] (t : T α) (s : List Nat) (src : Nat → Nat) :
    (t.gather s src).data.size = prod s := T.size_ofFn _ _

theorem T.get_gather {α : Type} [Inhabited α] (t : T α) (s : List Nat) (src : Nat → Nat) (n : Nat)
    (h : n < prod s) : (t.gather s src).get n = t.get (src n) := T.get_ofFn _ _ _ h

theorem T.get_eq_getElem {α : Type} [Inhabited α] (t : T α) (n : Nat) (h : n < t.data.size) :
    t.get n = t.data[n] := by
  simp [T.get, h]

/-- a tensor whose data has the right size is the `ofFn` of its own `get` -/
theorem T.eq_ofFn_get {α : Type} [Inhabited α] (t : T α) (h : t.data.size = prod t.shape) :
    T.ofFn t.shape (fun n => t.get n) = t := by
  apply T.ext'
  · rfl
  · apply Array.ext
    · rw [T.size_ofFn, h]
    · intro i h1 h2
      simp [T.ofFn, T.get, h2]

theorem T.size_map {α β : Type} (f : α → β) (t : T α) : (t.map f).data.size = t.data.size := by
  simp [T.map]

theorem T.shape_map {α β : Type} (f : α → β) (t : T α) : (t.map f).shape = t.shape := rfl

theorem T.get_map {α β : Type} [Inhabited α] [Inhabited β] (f : α → β) (t : T α) (n : Nat)
    (h : n < t.data.size) : (t.map f).get n = f (t.get n) := by
  simp [T.map, T.get, h]

end Quanto

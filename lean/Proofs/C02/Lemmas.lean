/-
Helper lemmas for property C02 (2/4-bit affine quantization of one group with the
`MaxOptimizer` scale / zero-point): unfolding of the model on finite inputs, the
rational-arithmetic cores of the error bound and of idempotence.
-/
import Quanto.Spec.C02
import Proofs.C01.Lemmas

namespace Quanto

/-! ### `ratMin` / `ratMax` -/

theorem ratMin_eq_min (a b : Rat) : ratMin a b = min a b := by
  unfold ratMin; split_ifs with h
  · exact (min_eq_left h).symm
  · exact (min_eq_right (le_of_not_ge h)).symm

theorem ratMax_eq_max (a b : Rat) : ratMax a b = max a b := by
  unfold ratMax; split_ifs with h
  · exact (max_eq_right h).symm
  · exact (max_eq_left (le_of_not_ge h)).symm

theorem extendRange_fin (a b : Rat) :
    extendRange true (.fin a) (.fin b) = (.fin (ratMin a 0), .fin (ratMax b 0)) := by
  unfold extendRange FV.min FV.max ratMin ratMax
  simp only [if_true, FV.isNan, FV.le, Bool.false_eq_true, if_false, decide_eq_true_eq]
  congr 1 <;> split_ifs <;> rfl

/-! ### `fl` on infinities, special values -/

theorem fl_pinf_work (F : Fmt) (hF : WorkFmt F) : F.fl .pinf = .pinf := by
  rcases hF.cases with rfl | rfl | rfl <;> rfl

theorem fl_ninf_work (F : Fmt) (hF : WorkFmt F) : F.fl .ninf = .ninf := by
  rcases hF.cases with rfl | rfl | rfl <;> rfl

theorem flR_rep (F : Fmt) (hF : WorkFmt F) (z : Rat) : F.Rep (F.flR z) := by
  rcases hF.cases with rfl | rfl | rfl
  · rw [flR_f32]; exact rndFin_rep _ f32_one_le_p _
  · rw [flR_half f16_halfOK]; exact rndFin_rep _ f16_halfOK.one_le_p _
  · rw [flR_half bf16_halfOK]; exact rndFin_rep _ bf16_halfOK.one_le_p _

theorem flR_nonneg (F : Fmt) (hF : WorkFmt F) {z : Rat} (hz : 0 ≤ z) : 0 ≤ F.flR z :=
  le_flR_of_rep F hF (Rep_zero F) hz

/-- the number of quantization steps: `2^bits - 1` -/
def nSteps (bits : Nat) : Rat := (2 : Rat) ^ bits - 1

theorem nSteps_cases {bits : Nat} (hb : bits = 2 ∨ bits = 4) :
    nSteps bits = 3 ∨ nSteps bits = 15 := by
  rcases hb with rfl | rfl
  · left; norm_num [nSteps]
  · right; norm_num [nSteps]

/-! ### unfolding the optimizer -/

theorem maxOptScale_eq (F : Fmt) (bits : Nat) (lo hi : Rat) :
    maxOptScale F bits (.fin lo) (.fin hi) =
      F.div (F.fl (.fin (hi + -lo))) (.fin (nSteps bits)) := rfl

theorem div_fin (F : Fmt) (a b : Rat) (hb : b ≠ 0) :
    F.div (.fin a) (.fin b) = F.fl (.fin (a / b)) := by
  unfold Fmt.div FV.divX
  simp only [if_neg hb]

theorem div_pinf_pos (F : Fmt) (hF : WorkFmt F) (b : Rat) (hb : 0 < b) :
    F.div .pinf (.fin b) = .pinf := by
  unfold Fmt.div FV.divX
  simp only [if_neg (not_lt.mpr hb.le)]
  exact fl_pinf_work F hF

theorem div_ninf_pos (F : Fmt) (hF : WorkFmt F) (b : Rat) (hb : 0 < b) :
    F.div .ninf (.fin b) = .ninf := by
  unfold Fmt.div FV.divX
  simp only [if_neg (not_lt.mpr hb.le)]
  exact fl_ninf_work F hF

/-- a finite scale comes from a finite range width -/
theorem scale_fin (F : Fmt) (hF : WorkFmt F) (bits : Nat) (hN : 0 < nSteps bits) (lo hi sq : Rat)
    (h : maxOptScale F bits (.fin lo) (.fin hi) = .fin sq) :
    F.fl (.fin (hi + -lo)) = .fin (F.flR (hi + -lo)) ∧
      F.fl (.fin (F.flR (hi + -lo) / nSteps bits)) = .fin sq := by
  rw [maxOptScale_eq] at h
  rcases fl_cases F hF (hi + -lo) with hc | hc | hc
  · rw [hc.1, div_fin F _ _ hN.ne'] at h
    exact ⟨hc.1, h⟩
  · rw [hc.1, div_pinf_pos F hF _ hN] at h; cases h
  · rw [hc.1, div_ninf_pos F hF _ hN] at h; cases h

/-! ### the code is always in range -/

theorem nSteps_eq_cast (bits : Nat) : nSteps bits = (((2 : Int) ^ bits - 1 : Int) : Rat) := by
  unfold nSteps; push_cast; rfl

theorem toUint8_clamp_lt (bits : Nat) (v : FV) :
    toUint8 (v.clamp 0 (nSteps bits)) < 2 ^ bits := by
  have hpos : (1 : Int) ≤ 2 ^ bits := one_le_pow₀ (by norm_num)
  have hN0 : (0 : Rat) ≤ nSteps bits := by
    rw [nSteps_eq_cast]; exact_mod_cast (by omega : (0 : Int) ≤ 2 ^ bits - 1)
  have key : ∀ q : Rat, 0 ≤ q → q ≤ nSteps bits → q.floor.toNat % 256 < 2 ^ bits := by
    intro q h0 h1
    have hf0 : 0 ≤ q.floor := Rat.le_floor_iff.mpr (by exact_mod_cast h0)
    have hf1 : q.floor ≤ 2 ^ bits - 1 := by
      have : ((q.floor : Int) : Rat) ≤ (((2 : Int) ^ bits - 1 : Int) : Rat) := by
        rw [← nSteps_eq_cast]; exact (Rat.floor_le q).trans h1
      exact_mod_cast this
    have h2 : q.floor.toNat < 2 ^ bits := by
      have : ((q.floor.toNat : Nat) : Int) < ((2 ^ bits : Nat) : Int) := by
        rw [Int.toNat_of_nonneg hf0]; push_cast; omega
      exact_mod_cast this
    exact lt_of_le_of_lt (Nat.mod_le _ _) h2
  cases v with
  | nan => exact Nat.pow_pos (by norm_num)
  | pinf => exact key _ hN0 le_rfl
  | ninf => exact key _ le_rfl hN0
  | fin q =>
    show (if q < 0 then 0 else if q > nSteps bits then nSteps bits else q).floor.toNat % 256 < _
    split_ifs with h1 h2
    · exact key _ le_rfl hN0
    · exact key _ hN0 le_rfl
    · exact key _ (not_lt.mp h1) (not_lt.mp h2)

/-! ### rational-arithmetic cores -/

/-- lower bound on the step: the range width is at most `N` steps plus rounding. -/
theorem range_le_core (u η s D w v N : Rat) (hu0 : 0 ≤ u) (hu : u ≤ 1 / 5) (he0 : 0 ≤ η)
    (hN : 0 < N) (hD : 0 ≤ D) (hw0 : 0 ≤ w) (hv : v * N = w)
    (hw : |w - D| ≤ u * |D| + η) (hs : |s - v| ≤ u * |v| + η) :
    D ≤ (1 + 3 * u) * (N * s + (N + 1) * η) := by
  have hv0 : 0 ≤ v := by
    by_contra hc
    have : v * N < 0 := mul_neg_of_neg_of_pos (not_le.mp hc) hN
    linarith
  rw [abs_of_nonneg hD] at hw
  rw [abs_of_nonneg hv0] at hs
  have h1 : D * (1 - u) ≤ w + η := by linarith [(abs_le.mp hw).1]
  have h2 : w * (1 - u) ≤ N * s + N * η := by
    have := (abs_le.mp hs).1
    have h' : N * (-(u * v + η)) ≤ N * (s - v) := mul_le_mul_of_nonneg_left this hN.le
    nlinarith
  have hu1 : 0 ≤ 1 - u := by linarith
  have h3 : D * (1 - u) * (1 - u) ≤ N * s + (N + 1) * η := by
    have := mul_le_mul_of_nonneg_right h1 hu1
    nlinarith
  have h4 : 1 ≤ (1 + 3 * u) * ((1 - u) * (1 - u)) := by nlinarith [mul_nonneg hu0 hu0, mul_nonneg (mul_nonneg hu0 hu0) hu0]
  have h5 : D ≤ D * ((1 + 3 * u) * ((1 - u) * (1 - u))) := le_mul_of_one_le_right hD h4
  have h6 : (1 + 3 * u) * (D * (1 - u) * (1 - u)) ≤ (1 + 3 * u) * (N * s + (N + 1) * η) :=
    mul_le_mul_of_nonneg_left h3 (by linarith)
  nlinarith

/-- upper bound on the step -/
theorem step_le_core (u η s D w v N : Rat) (hu0 : 0 ≤ u) (hu : u ≤ 1) (he0 : 0 ≤ η)
    (hN : 2 ≤ N) (hD : 0 ≤ D) (hw0 : 0 ≤ w) (hv : v * N = w)
    (hw : |w - D| ≤ u * |D| + η) (hs : |s - v| ≤ u * |v| + η) :
    s ≤ D / N * (1 + 3 * u) + 2 * η := by
  have hN0 : 0 < N := by linarith
  have hv0 : 0 ≤ v := by
    by_contra hc
    have : v * N < 0 := mul_neg_of_neg_of_pos (not_le.mp hc) hN0
    linarith
  rw [abs_of_nonneg hD] at hw
  rw [abs_of_nonneg hv0] at hs
  have h1 : w ≤ D * (1 + u) + η := by linarith [(abs_le.mp hw).2]
  have h2 : s ≤ v * (1 + u) + η := by linarith [(abs_le.mp hs).2]
  obtain ⟨g, hg⟩ : ∃ g, g = D / N := ⟨_, rfl⟩
  have hgN : g * N = D := by rw [hg]; field_simp
  have hg0 : 0 ≤ g := by rw [hg]; positivity
  rw [← hg]
  -- v ≤ g (1+u) + η / N ≤ g (1+u) + η/2
  have h3 : v * N ≤ (g * (1 + u) + η / 2) * N := by
    have : η ≤ η / 2 * N := by nlinarith
    nlinarith
  have h4 : v ≤ g * (1 + u) + η / 2 := le_of_mul_le_mul_right h3 hN0
  have h5 : v * (1 + u) ≤ (g * (1 + u) + η / 2) * (1 + u) :=
    mul_le_mul_of_nonneg_right h4 (by linarith)
  have h6 : g * (u * u) ≤ g * u := by
    have : u * u ≤ u := by nlinarith
    exact mul_le_mul_of_nonneg_left this hg0
  have h7 : η * u ≤ η := by nlinarith
  nlinarith

/-- integer clamp to `[0, N]` -/
def codeInt (N m : Int) : Int := if m < 0 then 0 else if m > N then N else m

theorem codeInt_nonneg {N : Int} (hN : 0 ≤ N) (m : Int) : 0 ≤ codeInt N m := by
  unfold codeInt; split_ifs <;> omega

theorem codeInt_le {N : Int} (hN : 0 ≤ N) (m : Int) : codeInt N m ≤ N := by
  unfold codeInt; split_ifs <;> omega

theorem codeInt_of_mem {N m : Int} (h0 : 0 ≤ m) (h1 : m ≤ N) : codeInt N m = m := by
  unfold codeInt; rw [if_neg (by omega), if_neg (by omega)]

set_option linter.unusedVariables false in
/-- bounds on the zero-point and the rounded quotient, in grid units
(`b = -lo/s`, `h = hi/s`, `a = x/s`, `η' = η/s`) -/
theorem zr_bound_core (NI : Int) (hN : NI = 3 ∨ NI = 15) (u η η' a b h d zf : Rat) (r z : Int)
    (hu0 : 0 ≤ u) (hu : u ≤ 1 / 250) (he0 : 0 ≤ η) (he : η ≤ 1 / 1000)
    (he0' : 0 ≤ η') (he' : η' ≤ 51 / 100)
    (hb0 : 0 ≤ b) (hh0 : 0 ≤ h) (ha1 : -b ≤ a) (ha2 : a ≤ h)
    (hD : b + h ≤ NI + 3 * NI * u + (NI + 1) * (253 / 250) * η')
    (hd : |d - a| ≤ u * |a| + η) (hzf : |zf - b| ≤ u * b + η)
    (hr : |(r : Rat) - d| ≤ 1 / 2) (hz : |(z : Rat) - zf| ≤ 1 / 2) :
    (0 ≤ z ∧ 2 * z ≤ 3 * (NI + 1)) ∧ (-(3 * (NI + 1)) ≤ 2 * r ∧ 2 * r ≤ 3 * (NI + 1)) ∧
      2 * b ≤ 3 * (NI + 1) := by
  have hub : u * b ≤ 1 / 250 * b := mul_le_mul_of_nonneg_right hu hb0
  have hua : u * |a| ≤ 1 / 250 * |a| := mul_le_mul_of_nonneg_right hu (abs_nonneg a)
  have haabs : |a| ≤ b + h := abs_le.mpr ⟨by linarith, by linarith⟩
  obtain ⟨hzf1, hzf2⟩ := abs_le.mp hzf
  obtain ⟨hd1, hd2⟩ := abs_le.mp hd
  obtain ⟨hr1, hr2⟩ := abs_le.mp hr
  obtain ⟨hz1, hz2⟩ := abs_le.mp hz
  rcases hN with rfl | rfl
  · push_cast at hD
    have hz0 : (-1 : Rat) < z := by linarith
    have hz3 : (z : Rat) < 7 := by linarith
    have hr0 : (-7 : Rat) < r := by linarith
    have hr3 : (r : Rat) < 7 := by linarith
    have hz0' : -1 < z := by exact_mod_cast hz0
    have hz3' : z < 7 := by exact_mod_cast hz3
    have hr0' : -7 < r := by exact_mod_cast hr0
    have hr3' : r < 7 := by exact_mod_cast hr3
    refine ⟨⟨by omega, by omega⟩, ⟨by omega, by omega⟩, ?_⟩
    push_cast; linarith
  · push_cast at hD
    have hz0 : (-1 : Rat) < z := by linarith
    have hz3 : (z : Rat) < 25 := by linarith
    have hr0 : (-25 : Rat) < r := by linarith
    have hr3 : (r : Rat) < 25 := by linarith
    have hz0' : -1 < z := by exact_mod_cast hz0
    have hz3' : z < 25 := by exact_mod_cast hz3
    have hr0' : -25 < r := by exact_mod_cast hr0
    have hr3' : r < 25 := by exact_mod_cast hr3
    refine ⟨⟨by omega, by omega⟩, ⟨by omega, by omega⟩, ?_⟩
    push_cast; linarith

set_option linter.unusedVariables false in
/-- distance of the de-biased clamped code to the exact quotient, in grid units -/
theorem step_core (NI : Int) (hN : 0 ≤ NI) (u η η' a b h d zf : Rat) (r z : Int)
    (hu0 : 0 ≤ u) (he0' : 0 ≤ η') (hb0 : 0 ≤ b) (ha1 : -b ≤ a) (ha2 : a ≤ h)
    (hD : b + h ≤ NI + 3 * NI * u + (NI + 1) * (253 / 250) * η')
    (hd : |d - a| ≤ u * |a| + η) (hzf : |zf - b| ≤ u * b + η)
    (hr : |(r : Rat) - d| ≤ 1 / 2) (hz : |(z : Rat) - zf| ≤ 1 / 2) :
    |((codeInt NI (r + z) - z : Int) : Rat) - a| ≤
      1 / 2 + u * |a| + η + (3 * NI * u + (NI + 1) * (253 / 250) * η' + u * b) := by
  obtain ⟨hzf1, hzf2⟩ := abs_le.mp hzf
  obtain ⟨hd1, hd2⟩ := abs_le.mp hd
  obtain ⟨hr1, hr2⟩ := abs_le.mp hr
  obtain ⟨hz1, hz2⟩ := abs_le.mp hz
  have hN' : (0 : Rat) ≤ NI := by exact_mod_cast hN
  have hx : 0 ≤ 3 * NI * u + (NI + 1) * (253 / 250) * η' + u * b := by positivity
  have hua : 0 ≤ u * |a| := mul_nonneg hu0 (abs_nonneg a)
  have hx' : 0 ≤ 3 * NI * u + (NI + 1) * (253 / 250) * η' := by positivity
  have hub : 0 ≤ u * b := mul_nonneg hu0 hb0
  unfold codeInt
  split_ifs with h1 h2
  · have : (r : Rat) + z ≤ -1 := by
      have : r + z ≤ -1 := by omega
      exact_mod_cast this
    rw [abs_le]; constructor <;> push_cast <;> linarith
  · have : (NI : Rat) + 1 ≤ (r : Rat) + z := by
      have : NI + 1 ≤ r + z := by omega
      exact_mod_cast this
    rw [abs_le]; constructor <;> push_cast <;> linarith
  · rw [abs_le]; constructor <;> push_cast <;> linarith

set_option linter.unusedVariables false in
theorem bh_bound_core (NI : Int) (hN : NI = 3 ∨ NI = 15) (u η' b h : Rat)
    (hu0 : 0 ≤ u) (hu : u ≤ 1 / 250) (he0' : 0 ≤ η') (he' : η' ≤ 51 / 100)
    (hD : b + h ≤ NI + 3 * NI * u + (NI + 1) * (253 / 250) * η') :
    b + h ≤ 3 * (NI + 1) / 2 - 1 / 2 := by
  rcases hN with rfl | rfl <;> push_cast at hD ⊢ <;> linarith

/-! ### constants of the working formats -/

theorem eta_le_half_minsub (F : Fmt) (hF : WorkFmt F) :
    F.eta ≤ 51 / 100 * pow2 (F.emin - (F.p : Int) + 1) := by
  rcases hF.cases with rfl | rfl | rfl <;>
    norm_num [Fmt.eta, Fmt.eta1, Fmt.u1, Fmt.isHalf, f32, f16, bf16, pow2_eq]

theorem eta_le_u_normal (F : Fmt) (hF : WorkFmt F) : F.eta ≤ F.u * pow2 F.emin := by
  rcases hF.cases with rfl | rfl | rfl <;>
    norm_num [Fmt.eta, Fmt.eta1, Fmt.u, Fmt.u1, Fmt.isHalf, f32, f16, bf16, pow2_eq]

theorem eta_le_milli (F : Fmt) (hF : WorkFmt F) : F.eta ≤ 1 / 1000 := by
  have := (u_eta_work F hF).2
  have h24 : pow2 (-24) = 1 / 16777216 := by norm_num [pow2_eq]
  rw [h24] at this; linarith

/-- the integer number of steps `2^bits - 1` -/
def nStepsI (bits : Nat) : Int := 2 ^ bits - 1

theorem nSteps_eq (bits : Nat) : nSteps bits = (nStepsI bits : Rat) := nSteps_eq_cast bits

theorem nStepsI_cases {bits : Nat} (hb : bits = 2 ∨ bits = 4) :
    nStepsI bits = 3 ∨ nStepsI bits = 15 := by
  rcases hb with rfl | rfl
  · left; rfl
  · right; rfl

/-! ### facts about the optimizer's scale -/

theorem scale_facts (F : Fmt) (hF : WorkFmt F) (bits : Nat) (hb : bits = 2 ∨ bits = 4)
    (lo hi sq : Rat) (hlo : lo ≤ 0) (hhi : 0 ≤ hi)
    (hs : maxOptScale F bits (.fin lo) (.fin hi) = .fin sq) :
    0 ≤ sq ∧ sq ≤ (hi - lo) / nSteps bits * (1 + 3 * F.u) + 2 * F.eta ∧
    hi - lo ≤ (1 + 3 * F.u) * (nSteps bits * sq + (nSteps bits + 1) * F.eta) ∧ F.Rep sq := by
  have hN3 : 3 ≤ nSteps bits := by rcases nSteps_cases hb with h | h <;> linarith
  have hN0 : 0 < nSteps bits := by linarith
  obtain ⟨hw, hsq⟩ := scale_fin F hF bits hN0 lo hi sq hs
  have hD : 0 ≤ hi + -lo := by linarith
  have hw0 := flR_nonneg F hF hD
  have e1 := fl_err F hF _ _ hw
  have e2 := fl_err F hF _ _ hsq
  obtain ⟨hsq', -⟩ := fl_fin F hF _ _ hsq
  have hu0 := F.u_nonneg
  have he0 := F.eta_nonneg
  have hu := (u_eta_work F hF).1
  rw [show hi + -lo = hi - lo by ring] at *
  generalize F.flR (hi - lo) = w at *
  have hv : w / nSteps bits * nSteps bits = w := by field_simp
  have hv0 : 0 ≤ w / nSteps bits := div_nonneg hw0 hN0.le
  refine ⟨?_, ?_, ?_, ?_⟩
  · rw [hsq']; exact flR_nonneg F hF hv0
  · exact step_le_core F.u F.eta sq (hi - lo) w _ _ hu0 (by linarith) he0 (by linarith) hD hw0 hv
      e1 e2
  · exact range_le_core F.u F.eta sq (hi - lo) w _ _ hu0 (by linarith) he0 hN0 hD hw0 hv e1 e2
  · rw [hsq']; exact flR_rep F hF _

/-- the optimizer's positive scale is at least the smallest subnormal, so `η/s ≤ 0.51`;
and the range is at most `N(1+3u)` steps plus `(N+1)·1.012` units of `η/s`. -/
theorem grid_facts (F : Fmt) (hF : WorkFmt F) (bits : Nat) (hb : bits = 2 ∨ bits = 4)
    (lo hi sq : Rat) (hlo : lo ≤ 0) (hhi : 0 ≤ hi)
    (hs : maxOptScale F bits (.fin lo) (.fin hi) = .fin sq) (hpos : 0 < sq) :
    F.eta / sq ≤ 51 / 100 ∧
    -lo / sq + hi / sq ≤ (nStepsI bits : Rat) + 3 * (nStepsI bits : Rat) * F.u +
      ((nStepsI bits : Rat) + 1) * (253 / 250) * (F.eta / sq) := by
  obtain ⟨-, -, hD, hrep⟩ := scale_facts F hF bits hb lo hi sq hlo hhi hs
  have hu0 := F.u_nonneg
  have he0 := F.eta_nonneg
  have hu := (u_eta_work F hF).1
  have hmin := rep_abs_ge F hrep hpos.ne'
  rw [abs_of_pos hpos] at hmin
  have hes := eta_le_half_minsub F hF
  rw [nSteps_eq] at hD
  have hN0 : (0 : Rat) ≤ (nStepsI bits : Rat) := by
    rcases nStepsI_cases hb with h | h <;> rw [h] <;> norm_num
  generalize (nStepsI bits : Rat) = N at *
  obtain ⟨e, he⟩ : ∃ e, e = F.eta / sq := ⟨_, rfl⟩
  have hee : e * sq = F.eta := by rw [he]; field_simp
  have he0' : 0 ≤ e := by rw [he]; positivity
  rw [← he]
  constructor
  · have : e * sq ≤ 51 / 100 * sq := by rw [hee]; nlinarith
    exact le_of_mul_le_mul_right this hpos
  · have e1 : -lo / sq + hi / sq = (hi - lo) / sq := by ring
    rw [e1, div_le_iff₀ hpos]
    have hue : F.u * e ≤ 1 / 250 * e := mul_le_mul_of_nonneg_right hu he0'
    have h1 : (1 + 3 * F.u) * (N * sq + (N + 1) * F.eta) =
        (N + 3 * N * F.u + (N + 1) * e + 3 * (N + 1) * (F.u * e)) * sq := by
      rw [← hee]; ring
    have h2 : (N + 3 * N * F.u + (N + 1) * e + 3 * (N + 1) * (F.u * e)) ≤
        N + 3 * N * F.u + (N + 1) * (253 / 250) * e := by
      have : 3 * (N + 1) * (F.u * e) ≤ 3 * (N + 1) * (1 / 250 * e) :=
        mul_le_mul_of_nonneg_left hue (by linarith)
      linarith
    calc hi - lo ≤ _ := hD
      _ = _ := h1
      _ ≤ _ := mul_le_mul_of_nonneg_right h2 hpos.le

/-! ### unfolding the zero-point, the code and the dequantizer -/

theorem wrapInt8_id (n : Int) (h1 : -128 ≤ n) (h2 : n ≤ 127) : wrapInt8 n = n := by
  unfold wrapInt8; omega

theorem toInt8_intCast (m : Int) (h1 : -128 ≤ m) (h2 : m ≤ 127) :
    toInt8 (.fin (m : Rat)) = m := by
  show (if rabs (m : Rat) < 2147483648 then wrapInt8 (m : Rat).floor else 0) = m
  have : rabs (m : Rat) < 2147483648 := by
    rw [rabs_eq, abs_lt]
    constructor
    · have : ((-2147483648 : Int) : Rat) < (m : Rat) := by exact_mod_cast (by omega : -2147483648 < m)
      simpa using this
    · have : (m : Rat) < ((2147483648 : Int) : Rat) := by exact_mod_cast (by omega : m < 2147483648)
      simpa using this
  rw [if_pos this, floor_intCast, wrapInt8_id m h1 h2]

theorem maxOptZero_fin (F : Fmt) (lo sq zf : Rat) (hsq : sq ≠ 0)
    (hz : F.fl (.fin (-lo / sq)) = .fin zf) (h1 : -128 ≤ rhe zf) (h2 : rhe zf ≤ 127) :
    maxOptZero F (.fin lo) (.fin sq) = rhe zf := by
  unfold maxOptZero
  show toInt8 (F.div (.fin (-lo)) (.fin sq)).round = _
  rw [div_fin F _ _ hsq, hz]
  exact toInt8_intCast _ h1 h2

theorem clamp_intCast (NI m : Int) :
    FV.clamp 0 (NI : Rat) (.fin (m : Rat)) = .fin ((codeInt NI m : Int) : Rat) := by
  show FV.fin (if (m : Rat) < 0 then 0 else if (m : Rat) > NI then NI else m) = _
  unfold codeInt
  by_cases h1 : m < 0
  · rw [if_pos h1, if_pos (by exact_mod_cast h1)]; norm_num
  · rw [if_neg h1, if_neg (by exact_mod_cast h1)]
    by_cases h2 : m > NI
    · rw [if_pos h2, if_pos (by exact_mod_cast h2)]
    · rw [if_neg h2, if_neg (by exact_mod_cast h2)]

theorem toUint8_intCast (c : Int) (h0 : 0 ≤ c) (h1 : c < 256) :
    toUint8 (.fin (c : Rat)) = c.toNat := by
  show (c : Rat).floor.toNat % 256 = _
  rw [floor_intCast]
  exact Nat.mod_eq_of_lt (by omega)

theorem rep_small_int (F : Fmt) (hF : WorkFmt F) (k : Int) (hk : |k| < 2 ^ 8) :
    F.Rep (k : Rat) := by
  have := rep_work F hF k 0 hk
  simpa using this

theorem fl_small_int (F : Fmt) (hF : WorkFmt F) (k : Int) (hk : |k| < 2 ^ 8) :
    F.fl (.fin (k : Rat)) = .fin (k : Rat) := by
  apply fl_of_rep F hF _ (rep_small_int F hF k hk)
  have h1 : |(k : Rat)| < 256 := by
    have : ((|k| : Int) : Rat) < ((2 ^ 8 : Int) : Rat) := by exact_mod_cast hk
    rw [Int.cast_abs] at this
    norm_num at this ⊢
    exact this
  linarith [work_maxFin_ge F hF]

/-- the code of a finite element when the rounded quotient plus zero-point is small -/
theorem affCode_fin (F : Fmt) (hF : WorkFmt F) (bits : Nat) (hb : bits = 2 ∨ bits = 4)
    (x sq d : Rat) (z : Int) (hsq : sq ≠ 0) (hd : F.fl (.fin (x / sq)) = .fin d)
    (hsmall : |rhe d + z| < 2 ^ 8) :
    affCode F bits (.fin x) (.fin sq) z = (codeInt (nStepsI bits) (rhe d + z)).toNat := by
  unfold affCode
  rw [div_fin F _ _ hsq, hd]
  show toUint8 ((F.fl (.fin ((rhe d : Rat) + (z : Rat)))).clamp 0 (nSteps bits)) = _
  rw [← Int.cast_add, fl_small_int F hF _ hsmall, nSteps_eq, clamp_intCast]
  have hN : 0 ≤ nStepsI bits ∧ nStepsI bits ≤ 15 := by
    rcases nStepsI_cases hb with h | h <;> rw [h] <;> omega
  have h0 := codeInt_nonneg hN.1 (rhe d + z)
  have h1 := codeInt_le hN.1 (rhe d + z)
  exact toUint8_intCast _ h0 (by omega)

/-- the dequantizer on a small code and a small zero-point (no int8 wrap-around) -/
theorem affDeq_fin (F : Fmt) (c : Int) (sq : Rat) (z : Int) (hc0 : 0 ≤ c) (hc1 : c ≤ 127)
    (h1 : -128 ≤ c - z) (h2 : c - z ≤ 127) :
    affDeq F c.toNat (.fin sq) z = F.fl (.fin (sq * ((c - z : Int) : Rat))) := by
  unfold affDeq
  have e : ((c.toNat : Nat) : Int) = c := Int.toNat_of_nonneg hc0
  rw [e, wrapInt8_id c (by omega) hc1, wrapInt8_id _ h1 h2]
  rfl

/-! ### the zero-point of the optimizer -/

theorem zero_facts (F : Fmt) (hF : WorkFmt F) (bits : Nat) (hb : bits = 2 ∨ bits = 4)
    (lo hi sq : Rat) (hlo : lo ≤ 0) (hhi : 0 ≤ hi)
    (hs : maxOptScale F bits (.fin lo) (.fin hi) = .fin sq) (hpos : 0 < sq) :
    ∃ zf, F.fl (.fin (-lo / sq)) = .fin zf ∧ |zf - -lo / sq| ≤ F.u * (-lo / sq) + F.eta ∧
      maxOptZero F (.fin lo) (.fin sq) = rhe zf ∧ 0 ≤ rhe zf ∧
      2 * rhe zf ≤ 3 * (nStepsI bits + 1) := by
  obtain ⟨he', hD⟩ := grid_facts F hF bits hb lo hi sq hlo hhi hs hpos
  have hu0 := F.u_nonneg
  have he0 := F.eta_nonneg
  have hu := (u_eta_work F hF).1
  have he := eta_le_milli F hF
  have he0' : 0 ≤ F.eta / sq := by positivity
  have hb0 : 0 ≤ -lo / sq := div_nonneg (by linarith) hpos.le
  have hh0 : 0 ≤ hi / sq := div_nonneg hhi hpos.le
  have hNI := nStepsI_cases hb
  have hbh := bh_bound_core _ hNI _ _ _ _ hu0 hu he0' he' hD
  have hb24 : -lo / sq ≤ 24 := by
    rcases hNI with h | h <;> rw [h] at hbh <;> push_cast at hbh <;> linarith
  have hfin : F.fl (.fin (-lo / sq)) = .fin (F.flR (-lo / sq)) :=
    fl_fin_of_le F hF _ (by rw [abs_of_nonneg hb0]; linarith [work_maxFin_ge F hF])
  have herr := fl_err F hF _ _ hfin
  rw [abs_of_nonneg hb0] at herr
  have hz := rhe_err (F.flR (-lo / sq))
  obtain ⟨⟨hz0, hz1⟩, -, -⟩ := zr_bound_core _ hNI F.u F.eta _ 0 _ _ 0 _ 0 _ hu0 hu he0 he he0' he'
    hb0 hh0 (by linarith) hh0 hD (by simpa using he0) herr (by norm_num) hz
  refine ⟨_, hfin, herr, ?_, hz0, hz1⟩
  apply maxOptZero_fin F lo sq _ hpos.ne' hfin (by omega)
  rcases hNI with h | h <;> rw [h] at hz1 <;> omega

set_option linter.unusedVariables false in
/-- with a normal scale the zero-point is at most `N` -/
theorem zero_le_core (NI : Int) (hN : NI = 3 ∨ NI = 15) (u η η' b h zf : Rat) (z : Int)
    (hu0 : 0 ≤ u) (hu : u ≤ 1 / 250) (he : η ≤ 1 / 1000)
    (he0' : 0 ≤ η') (he' : η' ≤ u) (hb0 : 0 ≤ b) (hh0 : 0 ≤ h)
    (hD : b + h ≤ NI + 3 * NI * u + (NI + 1) * (253 / 250) * η')
    (hzf : |zf - b| ≤ u * b + η) (hz : |(z : Rat) - zf| ≤ 1 / 2) : z ≤ NI := by
  have hub : u * b ≤ 1 / 250 * b := mul_le_mul_of_nonneg_right hu hb0
  obtain ⟨hzf1, hzf2⟩ := abs_le.mp hzf
  obtain ⟨hz1, hz2⟩ := abs_le.mp hz
  rcases hN with rfl | rfl
  · push_cast at hD
    have : (z : Rat) < 4 := by linarith
    have : z < 4 := by exact_mod_cast this
    omega
  · push_cast at hD
    have : (z : Rat) < 16 := by linarith
    have : z < 16 := by exact_mod_cast this
    omega

theorem zero_le_normal (F : Fmt) (hF : WorkFmt F) (bits : Nat) (hb : bits = 2 ∨ bits = 4)
    (lo hi sq : Rat) (hlo : lo ≤ 0) (hhi : 0 ≤ hi)
    (hs : maxOptScale F bits (.fin lo) (.fin hi) = .fin sq) (hnorm : pow2 F.emin ≤ sq) :
    maxOptZero F (.fin lo) (.fin sq) ≤ nStepsI bits := by
  have hpos : 0 < sq := lt_of_lt_of_le (pow2_pos _) hnorm
  obtain ⟨zf, -, herr, hz, -, -⟩ := zero_facts F hF bits hb lo hi sq hlo hhi hs hpos
  obtain ⟨-, hD⟩ := grid_facts F hF bits hb lo hi sq hlo hhi hs hpos
  have hu0 := F.u_nonneg
  have he0 := F.eta_nonneg
  have hu := (u_eta_work F hF).1
  have he := eta_le_milli F hF
  have he0' : 0 ≤ F.eta / sq := by positivity
  have he' : F.eta / sq ≤ F.u := by
    rw [div_le_iff₀ hpos]
    calc F.eta ≤ F.u * pow2 F.emin := eta_le_u_normal F hF
      _ ≤ F.u * sq := mul_le_mul_of_nonneg_left hnorm hu0
  have hb0 : 0 ≤ -lo / sq := div_nonneg (by linarith) hpos.le
  have hh0 : 0 ≤ hi / sq := div_nonneg hhi hpos.le
  rw [hz]
  exact zero_le_core _ (nStepsI_cases hb) F.u F.eta _ _ _ zf _ hu0 hu he he0' he' hb0 hh0 hD herr
    (rhe_err zf)

/-! ### the half-step error bound -/

theorem two_pow_eq (bits : Nat) : (2 : Rat) ^ bits = (nStepsI bits : Rat) + 1 := by
  unfold nStepsI; push_cast; ring

set_option linter.unusedVariables false in
/-- combination of the two error sources, in grid units -/
theorem assemble_core (NI : Int) (hN : NI = 3 ∨ NI = 15) (u η η' a b yn : Rat) (n : Int)
    (hu0 : 0 ≤ u) (he0 : 0 ≤ η) (he0' : 0 ≤ η') (hb0 : 0 ≤ b)
    (hb : 2 * b ≤ 3 * (NI + 1)) (hn : 2 * |(n : Rat)| ≤ 3 * (NI + 1))
    (hy : |yn - n| ≤ u * |(n : Rat)| + η')
    (hstep : |(n : Rat) - a| ≤
      1 / 2 + u * |a| + η + (3 * NI * u + (NI + 1) * (253 / 250) * η' + u * b)) :
    |yn - a| ≤ 1 / 2 + u * |a| + 6 * u * (NI + 1) + (NI + 5) * η' + 3 * η := by
  have tri : |yn - a| ≤ |yn - n| + |(n : Rat) - a| := by
    have := abs_add_le (yn - n) ((n : Rat) - a); rwa [sub_add_sub_cancel] at this
  have h1 : u * (2 * b) ≤ u * (3 * (NI + 1)) := mul_le_mul_of_nonneg_left hb hu0
  have h2 : u * (2 * |(n : Rat)|) ≤ u * (3 * (NI + 1)) := mul_le_mul_of_nonneg_left hn hu0
  rcases hN with rfl | rfl <;> push_cast at * <;> linarith

theorem bound_main (F : Fmt) (hF : WorkFmt F) (bits : Nat) (hb : bits = 2 ∨ bits = 4)
    (lo hi sq x yq : Rat) (hlo : lo ≤ 0) (hhi : 0 ≤ hi)
    (hs : maxOptScale F bits (.fin lo) (.fin hi) = .fin sq) (hpos : 0 < sq)
    (hx1 : lo ≤ x) (hx2 : x ≤ hi)
    (hy : affDeq F (affCode F bits (.fin x) (.fin sq) (maxOptZero F (.fin lo) (.fin sq))) (.fin sq)
      (maxOptZero F (.fin lo) (.fin sq)) = .fin yq) :
    |yq - x| ≤ sq / 2 + (F.u * |x| + 6 * F.u * (2 : Rat) ^ bits * sq +
      ((2 : Rat) ^ bits + 4) * F.eta + 3 * sq * F.eta) := by
  obtain ⟨zf, -, hzerr, hz, hz0, hz1⟩ := zero_facts F hF bits hb lo hi sq hlo hhi hs hpos
  obtain ⟨he', hD⟩ := grid_facts F hF bits hb lo hi sq hlo hhi hs hpos
  have hu0 := F.u_nonneg
  have he0 := F.eta_nonneg
  have hu := (u_eta_work F hF).1
  have he := eta_le_milli F hF
  have he0' : 0 ≤ F.eta / sq := by positivity
  have hb0 : 0 ≤ -lo / sq := div_nonneg (by linarith) hpos.le
  have hh0 : 0 ≤ hi / sq := div_nonneg hhi hpos.le
  have ha1 : -(-lo / sq) ≤ x / sq := by
    have := div_le_div_of_nonneg_right hx1 hpos.le
    rw [show -(-lo / sq) = lo / sq by ring]; exact this
  have ha2 : x / sq ≤ hi / sq := div_le_div_of_nonneg_right hx2 hpos.le
  have hNI := nStepsI_cases hb
  have hbh := bh_bound_core _ hNI _ _ _ _ hu0 hu he0' he' hD
  have ha24 : |x / sq| ≤ 24 := by
    rw [abs_le]
    rcases hNI with h | h <;> rw [h] at hbh <;> push_cast at hbh <;> constructor <;> linarith
  have hdfin : F.fl (.fin (x / sq)) = .fin (F.flR (x / sq)) :=
    fl_fin_of_le F hF _ (by linarith [work_maxFin_ge F hF])
  have hderr := fl_err F hF _ _ hdfin
  have hr := rhe_err (F.flR (x / sq))
  have hzr := rhe_err zf
  obtain ⟨-, ⟨hr0, hr1⟩, hb24⟩ := zr_bound_core _ hNI F.u F.eta _ _ _ _ _ _ _ _ hu0 hu he0 he he0'
    he' hb0 hh0 ha1 ha2 hD hderr hzerr hr hzr
  have hstep := step_core _ (by rcases hNI with h | h <;> rw [h] <;> omega) F.u F.eta _ _ _ _ _ _
    _ _ hu0 he0' hb0 ha1 ha2 hD hderr hzerr hr hzr
  rw [hz] at hy
  have hN15 : 0 ≤ nStepsI bits ∧ nStepsI bits ≤ 15 := by
    rcases hNI with h | h <;> rw [h] <;> omega
  rw [affCode_fin F hF bits hb x sq _ _ hpos.ne' hdfin (by rw [abs_lt]; constructor <;> omega)] at hy
  have hc0 := codeInt_nonneg hN15.1 (rhe (F.flR (x / sq)) + rhe zf)
  have hc1 := codeInt_le hN15.1 (rhe (F.flR (x / sq)) + rhe zf)
  rw [affDeq_fin F _ sq _ hc0 (by omega) (by omega) (by omega)] at hy
  have hyerr := fl_err F hF _ _ hy
  generalize F.flR (x / sq) = d at *
  generalize rhe d = r at *
  generalize rhe zf = z at *
  generalize codeInt (nStepsI bits) (r + z) = c at *
  -- bound on n = c - z
  have hn : 2 * |((c - z : Int) : Rat)| ≤ 3 * ((nStepsI bits : Rat) + 1) := by
    have h1 : -(3 * (nStepsI bits + 1)) ≤ 2 * (c - z) := by omega
    have h2 : 2 * (c - z) ≤ 3 * (nStepsI bits + 1) := by omega
    have h1' : -(3 * ((nStepsI bits : Rat) + 1)) ≤ 2 * ((c - z : Int) : Rat) := by
      exact_mod_cast h1
    have h2' : 2 * ((c - z : Int) : Rat) ≤ 3 * ((nStepsI bits : Rat) + 1) := by
      exact_mod_cast h2
    have : |((c - z : Int) : Rat)| ≤ 3 * ((nStepsI bits : Rat) + 1) / 2 :=
      abs_le.mpr ⟨by linarith, by linarith⟩
    linarith
  generalize (c - z : Int) = n at *
  have hyn : |yq / sq - n| ≤ F.u * |(n : Rat)| + F.eta / sq := by
    have e : yq / sq - n = (yq - sq * n) / sq := by field_simp
    rw [e, abs_div, abs_of_pos hpos, div_le_iff₀ hpos]
    rw [abs_mul, abs_of_pos hpos] at hyerr
    have : (F.u * |(n : Rat)| + F.eta / sq) * sq = F.u * (sq * |(n : Rat)|) + F.eta := by
      field_simp
    rw [this]; exact hyerr
  have key := assemble_core _ hNI F.u F.eta _ _ _ _ n hu0 he0 he0' hb0 hb24 hn hyn hstep
  rw [two_pow_eq]
  generalize (nStepsI bits : Rat) = N at *
  obtain ⟨e, hee⟩ : ∃ e, e = F.eta / sq := ⟨_, rfl⟩
  have hes : F.eta = e * sq := by rw [hee]; field_simp
  obtain ⟨a, haa⟩ : ∃ a, a = x / sq := ⟨_, rfl⟩
  have hxa : x = a * sq := by rw [haa]; field_simp
  obtain ⟨yn, hyy⟩ : ∃ yn, yn = yq / sq := ⟨_, rfl⟩
  have hyq : yq = yn * sq := by rw [hyy]; field_simp
  rw [← hee, ← haa, ← hyy] at key
  have e1 : |yq - x| = |yn - a| * sq := by
    rw [hyq, hxa, ← sub_mul, abs_mul, abs_of_pos hpos]
  have e2 : |x| = |a| * sq := by rw [hxa, abs_mul, abs_of_pos hpos]
  rw [e1, e2]
  have := mul_le_mul_of_nonneg_right key hpos.le
  have hse : sq * F.eta = F.eta * sq := mul_comm _ _
  nlinarith [this, hes]

/-- the bound also holds when the scale underflows to zero: the whole group is then below
`(N+5)·η` and dequantizes to 0. -/
theorem bound_zero_scale (F : Fmt) (hF : WorkFmt F) (bits : Nat) (hb : bits = 2 ∨ bits = 4)
    (lo hi x yq : Rat) (hlo : lo ≤ 0) (hhi : 0 ≤ hi)
    (hs : maxOptScale F bits (.fin lo) (.fin hi) = .fin 0) (hx1 : lo ≤ x) (hx2 : x ≤ hi)
    (c : Nat) (z : Int) (hy : affDeq F c (.fin 0) z = .fin yq) :
    |yq - x| ≤ F.u * |x| + ((2 : Rat) ^ bits + 4) * F.eta := by
  obtain ⟨-, -, hD, -⟩ := scale_facts F hF bits hb lo hi 0 hlo hhi hs
  have hu0 := F.u_nonneg
  have he0 := F.eta_nonneg
  have hu := (u_eta_work F hF).1
  have hy0 : yq = 0 := by
    have : affDeq F c (.fin 0) z = .fin 0 := by
      show F.fl (.fin (0 * _)) = _
      rw [zero_mul]; exact fl_zero F hF
    rw [this] at hy; exact (FV.fin.inj hy).symm
  have hxabs : |x| ≤ hi - lo := abs_le.mpr ⟨by linarith, by linarith⟩
  have hue : F.u * F.eta ≤ 1 / 250 * F.eta := mul_le_mul_of_nonneg_right hu he0
  have hux : 0 ≤ F.u * |x| := mul_nonneg hu0 (abs_nonneg x)
  rw [hy0, zero_sub, abs_neg, two_pow_eq]
  rw [nSteps_eq] at hD
  rcases nStepsI_cases hb with h | h <;> rw [h] at hD ⊢ <;> push_cast at hD ⊢ <;> nlinarith

/-! ### idempotence -/

/-- a product of a representable number and an integer that lies below the normal range is
representable (it is a multiple of the smallest subnormal with a small significand) -/
theorem rep_mul_int_small (F : Fmt) (hp : 1 ≤ F.p) {s : Rat} (hs : F.Rep s) (n : Int)
    (h : |s * n| < pow2 F.emin) : F.Rep (s * n) := by
  obtain ⟨k, j, rfl, hk, hj⟩ := hs
  rw [← pow2_eq] at h ⊢
  obtain ⟨e0, he0⟩ : ∃ e0 : Int, e0 = F.emin - (F.p : Int) + 1 := ⟨_, rfl⟩
  rw [← he0] at hj
  have ej : pow2 j = pow2 (j - e0) * pow2 e0 := by rw [← pow2_add]; congr 1; ring
  have e : (k : Rat) * pow2 j * n = ((k * n * 2 ^ (j - e0).toNat : Int) : Rat) * pow2 e0 := by
    rw [ej, pow2_of_nonneg (by omega : 0 ≤ j - e0)]; push_cast; ring
  refine ⟨k * n * 2 ^ (j - e0).toNat, e0, by rw [e, pow2_eq], ?_, by omega⟩
  rw [e, abs_mul, abs_of_pos (pow2_pos e0)] at h
  have hemin : pow2 F.emin = pow2 ((F.p - 1 : Nat) : Int) * pow2 e0 := by
    rw [← pow2_add]; congr 1; omega
  rw [hemin] at h
  have h' := lt_of_mul_lt_mul_right h (pow2_pos e0).le
  rw [pow2_natCast] at h'
  generalize k * n * 2 ^ (j - e0).toNat = K at *
  have h2 : ((|K| : Int) : Rat) < (((2 : Int) ^ (F.p - 1) : Int) : Rat) := by
    rw [Int.cast_abs]; push_cast; exact h'
  have h3 : |K| < 2 ^ (F.p - 1) := by exact_mod_cast h2
  exact lt_of_lt_of_le h3 (pow_le_pow_right₀ (by norm_num) (by omega))

theorem work_one_le_p (F : Fmt) (hF : WorkFmt F) : 1 ≤ F.p := by
  rcases hF.cases with rfl | rfl | rfl <;> decide

theorem work_pow2_emin_le (F : Fmt) (hF : WorkFmt F) : pow2 F.emin ≤ 1 := by
  rw [← pow2_zero]
  rcases hF.cases with rfl | rfl | rfl <;> exact pow2_le_pow2 (by decide)

/-- the product `s·n` of a representable scale and an integer is rounded with a purely
relative error (exactly, below the normal range) -/
theorem mul_int_err (F : Fmt) (hF : WorkFmt F) (sq : Rat) (hrep : F.Rep sq) (hpos : 0 < sq)
    (n : Int) (yq : Rat) (hy : F.fl (.fin (sq * n)) = .fin yq) :
    |yq - sq * n| ≤ F.u * (sq * |(n : Rat)|) := by
  by_cases hnorm : pow2 F.emin ≤ |sq * n|
  · have := fl_err_normal F hF _ _ hnorm hy
    rwa [abs_mul, abs_of_pos hpos] at this
  · have hlt := not_le.mp hnorm
    have hr := rep_mul_int_small F (work_one_le_p F hF) hrep n hlt
    have hm : |sq * n| ≤ F.maxFin := by
      linarith [work_pow2_emin_le F hF, work_maxFin_ge F hF]
    rw [fl_of_rep F hF _ hr hm] at hy
    rw [← FV.fin.inj hy, sub_self, abs_zero]
    exact mul_nonneg F.u_nonneg (mul_nonneg hpos.le (abs_nonneg _))

/-- idempotence for a representable positive scale, a zero-point in `[0, K]` and any code:
`K` is limited by the precision of the format through `hsmall`. -/
theorem idem_core (F : Fmt) (hF : WorkFmt F) (bits : Nat) (hb : bits = 2 ∨ bits = 4)
    (sq : Rat) (hrep : F.Rep sq) (hpos : 0 < sq) (z K : Int) (hz0 : 0 ≤ z) (hz1 : z ≤ K)
    (hK15 : 15 ≤ K) (hK127 : K ≤ 127) (hsmall : F.u * (2 * (K : Rat) + 1) + F.eta < 1 / 2)
    (c : Nat) (hc : c < 2 ^ bits) (yq : Rat) (hy : affDeq F c (.fin sq) z = .fin yq) :
    affCode F bits (.fin yq) (.fin sq) z = c := by
  have hu0 := F.u_nonneg
  have he0 := F.eta_nonneg
  have hNI : nStepsI bits ≤ 15 := by rcases nStepsI_cases hb with h | h <;> omega
  have hcI : (c : Int) ≤ nStepsI bits := by
    have : ((c : Nat) : Int) < ((2 ^ bits : Nat) : Int) := by exact_mod_cast hc
    unfold nStepsI; push_cast at this; omega
  have hc0 : (0 : Int) ≤ (c : Int) := Int.natCast_nonneg c
  have hdeq := affDeq_fin F (c : Int) sq z hc0 (by omega) (by omega) (by omega)
  rw [Int.toNat_natCast] at hdeq
  rw [hdeq] at hy
  have hn1 : -K ≤ (c : Int) - z := by omega
  have hn2 : (c : Int) - z ≤ K := by omega
  have hcz : ((c : Int) - z) + z = (c : Int) := by ring
  generalize (c : Int) - z = n at *
  have hK0 : (15 : Rat) ≤ (K : Rat) := by exact_mod_cast hK15
  have hK1 : (K : Rat) ≤ 127 := by exact_mod_cast hK127
  have hnabs : |(n : Rat)| ≤ K := by
    rw [abs_le]; constructor
    · have : ((-K : Int) : Rat) ≤ (n : Rat) := by exact_mod_cast hn1
      simpa using this
    · exact_mod_cast hn2
  have herr1 := mul_int_err F hF sq hrep hpos n yq hy
  obtain ⟨q, hq⟩ : ∃ q, q = yq / sq := ⟨_, rfl⟩
  have hqn : |q - (n : Rat)| ≤ F.u * |(n : Rat)| := by
    have e : q - (n : Rat) = (yq - sq * (n : Rat)) / sq := by rw [hq]; field_simp
    rw [e, abs_div, abs_of_pos hpos, div_le_iff₀ hpos]
    linarith
  have hun : F.u * |(n : Rat)| ≤ F.u * K := mul_le_mul_of_nonneg_left hnabs hu0
  have huK : F.u * K ≤ 1 := by nlinarith
  have hqabs : |q| ≤ K + 1 := by
    have := abs_add_le (n : Rat) (q - (n : Rat))
    rw [add_sub_cancel] at this
    linarith
  have hfin : F.fl (.fin q) = .fin (F.flR q) :=
    fl_fin_of_le F hF q (by linarith [work_maxFin_ge F hF])
  have herr2 := fl_err F hF _ _ hfin
  have huq : F.u * |q| ≤ F.u * (K + 1) := mul_le_mul_of_nonneg_left hqabs hu0
  have hclose : |F.flR q - (n : Rat)| < 1 / 2 := by
    have := abs_add_le (F.flR q - q) (q - (n : Rat))
    rw [sub_add_sub_cancel] at this
    nlinarith
  have hr := rhe_eq_of_abs_lt hclose
  rw [hq] at hfin
  rw [affCode_fin F hF bits hb yq sq _ z hpos.ne' hfin
      (by rw [← hq, hr, hcz, abs_lt]; constructor <;> omega),
    ← hq, hr, hcz, codeInt_of_mem hc0 hcI, Int.toNat_natCast]

end Quanto

/-
`cat`, `stack` and `split` commute with elementwise maps.
-/
import Proofs.Move.Map

namespace Quanto

variable {α β : Type} [Inhabited α] [Inhabited β]

set_option linter.unusedSectionVars false

/-! ### the search for the input holding a coordinate -/

theorem foldl_add_eq (l : List Nat) (a : Nat) :
    l.foldl (fun x1 x2 => x1 + x2) a = a + l.foldl (fun x1 x2 => x1 + x2) 0 := by
  induction l generalizing a with
  | nil => simp
  | cons x xs ih => simp only [List.foldl_cons]; rw [ih (a + x), ih (0 + x)]; omega

theorem find_spec (c : Nat) : ∀ (rest : List Nat) (k off : Nat), off ≤ c →
    c < off + rest.foldl (fun x1 x2 => x1 + x2) 0 →
    k ≤ (T.cat?.find c k off rest).1 ∧ (T.cat?.find c k off rest).1 - k < rest.length ∧
      (T.cat?.find c k off rest).2 ≤ c ∧
      c < (T.cat?.find c k off rest).2 + rest.getD ((T.cat?.find c k off rest).1 - k) 0
  | [], k, off, h1, h2 => by simp at h2; omega
  | sz :: rs, k, off, h1, h2 => by
      rw [T.cat?.find.eq_2]
      split
      · simp; omega
      · rename_i hc
        rw [List.foldl_cons, foldl_add_eq] at h2
        obtain ⟨i1, i2, i3, i4⟩ := find_spec c rs (k + 1) (off + sz) (by omega) (by omega)
        refine ⟨by omega, by simp only [List.length_cons]; omega, i3, ?_⟩
        have e : (T.cat?.find c (k + 1) (off + sz) rs).1 - k =
            ((T.cat?.find c (k + 1) (off + sz) rs).1 - (k + 1)) + 1 := by omega
        rw [e, List.getD_cons_succ]
        exact i4

/-! ### `cat?` in closed form -/

/-- the element function of `cat?` -/
def catElem (ts : List (T α)) (t0 : T α) (d : Nat) (sizes out : List Nat) (m : Nat) : α :=
  let oi := unflat out m
  let c := oi.getD d 0
  let r := T.cat?.find c 0 0 sizes
  let src := ts.toArray.getD r.1 t0
  src.get (flat src.shape (listSet oi d (c - r.2)))

/-- the shape test of `cat?` -/
def catOK (ts : List (T α)) (t0 : T α) (d : Nat) : Bool :=
  ts.all fun t => decide (t.shape.length = t0.shape.length ∧ listSet t.shape d 0 = listSet t0.shape d 0)

def catSizes (ts : List (T α)) (d : Nat) : List Nat := ts.map fun t => t.shape.getD d 0

def catOut (ts : List (T α)) (t0 : T α) (d : Nat) : List Nat :=
  listSet t0.shape d ((catSizes ts d).foldl (fun x1 x2 => x1 + x2) 0)

theorem T.cat?_cons (t0 : T α) (rest : List (T α)) (dim : Int) :
    T.cat? (t0 :: rest) dim =
      match normDim t0.shape.length dim with
      | none => none
      | some d =>
        if !(catOK (t0 :: rest) t0 d) then none else
        some (T.ofFn (catOut (t0 :: rest) t0 d)
          (catElem (t0 :: rest) t0 d (catSizes (t0 :: rest) d) (catOut (t0 :: rest) t0 d))) := rfl

theorem catOK_map (ts : List (T α)) (t0 : T α) (d : Nat) (f : α → β) :
    catOK (ts.map (T.map f)) (t0.map f) d = catOK ts t0 d := by
  unfold catOK
  rw [List.all_map]
  rfl

theorem catSizes_map (ts : List (T α)) (d : Nat) (f : α → β) :
    catSizes (ts.map (T.map f)) d = catSizes ts d := by
  unfold catSizes
  rw [List.map_map]
  rfl

theorem catOut_map (ts : List (T α)) (t0 : T α) (d : Nat) (f : α → β) :
    catOut (ts.map (T.map f)) (t0.map f) d = catOut ts t0 d := by
  unfold catOut
  rw [catSizes_map]
  rfl

theorem toArray_getD_map {γ δ : Type} (l : List γ) (a : γ) (g : γ → δ) (i : Nat) :
    (l.map g).toArray.getD i (g a) = g (l.toArray.getD i a) := by
  by_cases h : i < l.length
  · simp [Array.getD, h]
  · simp [Array.getD, h]

theorem toArray_getD_mem {γ : Type} (l : List γ) (a : γ) (i : Nat) (h : i < l.length) :
    l.toArray.getD i a = l[i] := by
  simp [Array.getD, h]

theorem catElem_map (ts : List (T α)) (t0 : T α) (f : α → β) (d : Nat) (hd : d < t0.shape.length)
    (hok : catOK ts t0 d = true) (hwf : ∀ t ∈ ts, t.data.size = prod t.shape) (m : Nat)
    (hm : m < prod (catOut ts t0 d)) :
    catElem (ts.map (T.map f)) (t0.map f) d (catSizes ts d) (catOut ts t0 d) m =
      f (catElem ts t0 d (catSizes ts d) (catOut ts t0 d) m) := by
  unfold catElem
  simp only []
  rw [toArray_getD_map]
  have hlen : (catOut ts t0 d).length = t0.shape.length := by simp [catOut, length_listSet]
  -- the coordinate along `d` is below the total size
  have hc := unflat_getD_lt (catOut ts t0 d) m d hm (by omega)
  have htot : (catOut ts t0 d).getD d 0 = (catSizes ts d).foldl (fun x1 x2 => x1 + x2) 0 := by
    rw [catOut, getD_listSet, if_pos ⟨rfl, hd⟩]
  rw [htot] at hc
  obtain ⟨-, f2, f3, f4⟩ := find_spec ((unflat (catOut ts t0 d) m).getD d 0) (catSizes ts d) 0 0
    (Nat.zero_le _) (by rw [Nat.zero_add]; exact hc)
  generalize T.cat?.find ((unflat (catOut ts t0 d) m).getD d 0) 0 0 (catSizes ts d) = r at *
  simp only [Nat.sub_zero] at f2 f4
  have hr : r.1 < ts.length := by simpa [catSizes] using f2
  rw [toArray_getD_mem _ _ _ hr]
  have hmem : ts[r.1] ∈ ts := List.getElem_mem hr
  have hsz : (catSizes ts d).getD r.1 0 = ts[r.1].shape.getD d 0 := by
    simp [catSizes, List.getD_eq_getElem?_getD, hr]
  rw [hsz] at f4
  have hshape := (List.all_eq_true.1 hok) _ hmem
  simp only [decide_eq_true_eq] at hshape
  rw [T.shape_map]
  apply T.get_map
  rw [hwf _ hmem]
  apply flat_lt_of_getD
  · rw [length_listSet, length_unflat, hlen, hshape.1]
  · intro k hk
    rw [getD_listSet, length_unflat, hlen]
    by_cases hkd : k = d
    · rw [if_pos ⟨hkd, hd⟩, hkd]; omega
    · rw [if_neg (by omega)]
      have h1 := unflat_getD_lt (catOut ts t0 d) m k hm (by omega)
      have h2 : (catOut ts t0 d).getD k 0 = t0.shape.getD k 0 := by
        rw [catOut, getD_listSet, if_neg (by omega)]
      have h3 := congrArg (fun l => l.getD k 0) hshape.2
      simp only [getD_listSet] at h3
      rw [if_neg (by omega), if_neg (by omega)] at h3
      omega

/-- `cat` commutes with every elementwise map -/
theorem T.cat?_map (ts : List (T α)) (f : α → β) (hwf : ∀ t ∈ ts, t.data.size = prod t.shape)
    (dim : Int) : (T.cat? ts dim).map (T.map f) = T.cat? (ts.map (T.map f)) dim := by
  cases ts with
  | nil => rfl
  | cons t0 rest =>
    rw [T.cat?_cons]
    rw [show T.cat? (List.map (T.map f) (t0 :: rest)) dim =
      T.cat? (t0.map f :: rest.map (T.map f)) dim from rfl, T.cat?_cons, ← List.map_cons,
      T.shape_map]
    simp only [catOK_map, catSizes_map, catOut_map]
    cases hd : normDim t0.shape.length dim with
    | none => rfl
    | some d =>
      simp only []
      by_cases hok : catOK (t0 :: rest) t0 d = true
      · rw [hok]
        simp only [Bool.not_true, Bool.false_eq_true, if_false, Option.map_some]
        rw [T.map_ofFn]
        congr 1
        apply T.ofFn_congr
        intro m hm
        exact (catElem_map _ _ f d (by simpa using normDim_lt hd) hok hwf m hm).symm
      · simp only [Bool.not_eq_true] at hok
        rw [hok]
        rfl

/-! ### `mapM` in the `Option` monad -/

theorem mapM_cons_opt {γ δ : Type} (g : γ → Option δ) (a : γ) (l : List γ) :
    (a :: l).mapM g = match g a with
      | none => none
      | some b => match l.mapM g with
        | none => none
        | some bs => some (b :: bs) := by
  rw [List.mapM_cons]
  cases g a <;> simp
  cases l.mapM g <;> simp

theorem mapM_option_map {γ γ' δ δ' : Type} (g : γ → Option δ) (g' : γ' → Option δ') (h1 : γ → γ')
    (h2 : δ → δ') (hg : ∀ x, g' (h1 x) = (g x).map h2) (l : List γ) :
    (l.map h1).mapM g' = (l.mapM g).map (List.map h2) := by
  induction l with
  | nil => simp
  | cons a l ih =>
    rw [List.map_cons, mapM_cons_opt, mapM_cons_opt, hg, ih]
    cases g a <;> simp
    cases l.mapM g <;> simp

theorem mapM_option_mem {γ δ : Type} (g : γ → Option δ) (l : List γ) (r : List δ)
    (h : l.mapM g = some r) : ∀ u ∈ r, ∃ x ∈ l, g x = some u := by
  induction l generalizing r with
  | nil => simp at h; subst h; simp
  | cons a l ih =>
    rw [mapM_cons_opt] at h
    cases hga : g a with
    | none => rw [hga] at h; cases h
    | some b =>
      rw [hga] at h
      cases hl : l.mapM g with
      | none => rw [hl] at h; cases h
      | some bs =>
        rw [hl] at h
        cases h
        intro u hu
        rcases List.mem_cons.1 hu with rfl | hu
        · exact ⟨a, by simp, hga⟩
        · obtain ⟨x, hx, hxu⟩ := ih bs hl u hu
          exact ⟨x, by simp [hx], hxu⟩

/-! ### results of `cat?` are well-formed -/

theorem T.cat?_wf (ts : List (T α)) (dim : Int) (r : T α) (h : T.cat? ts dim = some r) :
    r.data.size = prod r.shape := by
  cases ts with
  | nil => cases h
  | cons t0 rest =>
    rw [T.cat?_cons] at h
    split at h
    · cases h
    · split at h
      · cases h
      · cases h; exact T.size_ofFn _ _

/-! ### `stack?` -/

theorem T.stack?_cons (t0 : T α) (rest : List (T α)) (dim : Int) :
    T.stack? (t0 :: rest) dim =
      if !((t0 :: rest).all fun t => decide (t.shape = t0.shape)) then none else
      match (t0 :: rest).mapM (fun t => t.unsqueeze? dim) with
      | none => none
      | some us => T.cat? us (match normDim t0.shape.length dim 1 with | some d => (d : Int) | none => 0) :=
  rfl

/-- `stack` commutes with every elementwise map -/
theorem T.stack?_map (ts : List (T α)) (f : α → β) (hwf : ∀ t ∈ ts, t.data.size = prod t.shape)
    (dim : Int) : (T.stack? ts dim).map (T.map f) = T.stack? (ts.map (T.map f)) dim := by
  cases ts with
  | nil => rfl
  | cons t0 rest =>
    rw [T.stack?_cons]
    rw [show T.stack? (List.map (T.map f) (t0 :: rest)) dim =
      T.stack? (t0.map f :: rest.map (T.map f)) dim from rfl, T.stack?_cons, ← List.map_cons,
      T.shape_map]
    have hall : ((t0 :: rest).map (T.map f)).all (fun t => decide (t.shape = t0.shape)) =
        (t0 :: rest).all (fun t => decide (t.shape = t0.shape)) := by
      rw [List.all_map]; rfl
    rw [hall]
    rw [mapM_option_map (fun t : T α => t.unsqueeze? dim) (fun t : T β => t.unsqueeze? dim) (T.map f)
      (T.map f) (fun x => (T.unsqueeze?_map x f dim).symm)]
    by_cases hc : (!(t0 :: rest).all (fun t => decide (t.shape = t0.shape))) = true
    · rw [if_pos hc, if_pos hc]; rfl
    · rw [if_neg hc, if_neg hc]
      cases hus : (t0 :: rest).mapM (fun t => t.unsqueeze? dim) with
      | none => rfl
      | some us =>
        simp only [Option.map_some]
        apply T.cat?_map
        intro u hu
        obtain ⟨x, hx, hxu⟩ := mapM_option_mem _ _ _ hus u hu
        exact move_wf (.unsqueeze dim) x u (hwf x hx) hxu

theorem T.stack?_wf (ts : List (T α)) (dim : Int) (r : T α) (h : T.stack? ts dim = some r) :
    r.data.size = prod r.shape := by
  cases ts with
  | nil => cases h
  | cons t0 rest =>
    rw [T.stack?_cons] at h
    split at h
    · cases h
    · split at h
      · cases h
      · exact T.cat?_wf _ _ _ h

/-! ### `split?` -/

/-- `split` commutes with every elementwise map -/
theorem T.split?_map (t : T α) (f : α → β) (hwf : t.data.size = prod t.shape) (sz : Nat) (dim : Int) :
    (t.split? sz dim).map (List.map (T.map f)) = (t.map f).split? sz dim := by
  unfold T.split?
  rw [T.shape_map]
  cases normDim t.shape.length dim with
  | none => rfl
  | some d =>
    simp only []
    by_cases hsz : sz = 0
    · rw [if_pos hsz, if_pos hsz]; rfl
    · rw [if_neg hsz, if_neg hsz]
      have := mapM_option_map
        (fun i : Nat => t.slice? (d : Int) ((i * sz : Nat) : Int) (((i + 1) * sz : Nat) : Int) 1)
        (fun i : Nat => (t.map f).slice? (d : Int) ((i * sz : Nat) : Int) (((i + 1) * sz : Nat) : Int) 1)
        id (T.map f) (fun i => (T.slice?_map t f hwf _ _ _ 1).symm)
        (List.range (max ((t.shape.getD d 0 + sz - 1) / sz) 1))
      rw [List.map_id] at this
      exact this.symm

theorem T.split?_wf (t : T α) (hwf : t.data.size = prod t.shape) (sz : Nat) (dim : Int)
    (cs : List (T α)) (h : t.split? sz dim = some cs) : ∀ c ∈ cs, c.data.size = prod c.shape := by
  unfold T.split? at h
  split at h
  · cases h
  · split at h
    · cases h
    · intro c hc
      obtain ⟨i, -, hi⟩ := mapM_option_mem _ _ _ h c hc
      exact move_wf (.slice _ _ _ 1) t c hwf hi

end Quanto

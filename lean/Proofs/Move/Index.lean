/-
Index lemmas for the data-movement operations: pointwise characterisation of `validIdx`,
coordinates of `listInsert` / `listSet` / `listRemove`, and the fact that every source-index map
used by `Quanto/Move.lean` stays inside the source tensor.
-/
import Quanto.Move
import Proofs.Tensor.Index

namespace Quanto

/-! ### `validIdx`, pointwise -/

theorem validIdx_iff : ∀ (s i : List Nat),
    validIdx s i ↔ i.length = s.length ∧ ∀ k, k < s.length → i.getD k 0 < s.getD k 0
  | [], [] => by simp [validIdx]
  | [], _ :: _ => by simp [validIdx]
  | _ :: _, [] => by simp [validIdx]
  | d :: ds, j :: js => by
      simp only [validIdx, validIdx_iff ds js, List.length_cons, Nat.add_right_cancel_iff]
      constructor
      · rintro ⟨h0, hl, h⟩
        refine ⟨hl, ?_⟩
        intro k hk
        cases k with
        | zero => simpa using h0
        | succ k => simpa using h k (by omega)
      · rintro ⟨hl, h⟩
        refine ⟨by simpa using h 0 (by omega), hl, ?_⟩
        intro k hk
        simpa using h (k + 1) (by omega)

theorem unflat_getD_lt (s : List Nat) (n k : Nat) (hn : n < prod s) (hk : k < s.length) :
    (unflat s n).getD k 0 < s.getD k 0 :=
  ((validIdx_iff s _).1 (valid_unflat s n hn)).2 k hk

theorem flat_lt_of_getD (s i : List Nat) (hl : i.length = s.length)
    (h : ∀ k, k < s.length → i.getD k 0 < s.getD k 0) : flat s i < prod s :=
  flat_lt s i ((validIdx_iff s i).2 ⟨hl, h⟩)

/-! ### coordinates of the list surgery helpers -/

theorem length_listInsert {α : Type} (l : List α) (d : Nat) (v : α) (hd : d ≤ l.length) :
    (listInsert l d v).length = l.length + 1 := by
  simp [listInsert]; omega

theorem getD_listInsert (l : List Nat) (d v k : Nat) (hd : d ≤ l.length) :
    (listInsert l d v).getD k 0 =
      if k < d then l.getD k 0 else if k = d then v else l.getD (k - 1) 0 := by
  unfold listInsert
  simp only [List.getD_eq_getElem?_getD, List.append_assoc, List.getElem?_append, List.length_take,
    Nat.min_eq_left hd, List.getElem?_take]
  split
  · simp [*]
  · rename_i h1
    split
    · rename_i h2
      have : k = d := by simp at h2; omega
      subst this; simp
    · rename_i h2
      simp at h2
      rw [if_neg (by omega)]
      simp only [List.length_cons, List.length_nil, List.getElem?_drop]
      congr 2; omega

theorem length_listSet {α : Type} (l : List α) (d : Nat) (v : α) : (listSet l d v).length = l.length := by
  simp [listSet]

theorem getD_listSet (l : List Nat) (d v k : Nat) :
    (listSet l d v).getD k 0 = if k = d ∧ d < l.length then v else l.getD k 0 := by
  unfold listSet
  simp only [List.getD_eq_getElem?_getD, List.getElem?_set]
  by_cases h : d = k
  · subst h
    by_cases h2 : d < l.length
    · simp [h2]
    · simp [h2]
  · rw [if_neg h, if_neg (by omega)]

theorem length_listRemove {α : Type} (l : List α) (d : Nat) (hd : d < l.length) :
    (listRemove l d).length = l.length - 1 := by
  simp [listRemove, List.length_eraseIdx, hd]

theorem getD_listRemove (l : List Nat) (d k : Nat) :
    (listRemove l d).getD k 0 = if k < d then l.getD k 0 else l.getD (k + 1) 0 := by
  unfold listRemove
  simp only [List.getD_eq_getElem?_getD, List.getElem?_eraseIdx]
  split <;> rfl

/-! ### `normDim`, `sliceBounds` -/

theorem normDim_lt {r : Nat} {d : Int} {extra a : Nat} (h : normDim r d extra = some a) :
    a < r + extra := by
  unfold normDim at h
  simp only [] at h
  split at h
  · cases h
  · injection h with h
    subst h
    split <;> omega

/-- the clamping function of `sliceBounds` -/
def clampI (n : Nat) (v : Int) : Nat :=
  let w := if v < 0 then v + n else v
  if w < 0 then 0 else if w > n then n else w.toNat

theorem clampI_le (n : Nat) (v : Int) : clampI n v ≤ n := by
  unfold clampI
  simp only []
  generalize (if v < 0 then v + (n : Int) else v) = w
  split
  · omega
  · split <;> omega

theorem sliceBounds_eq (n : Nat) (start stop : Int) :
    T.sliceBounds n start stop =
      (clampI n start, if clampI n stop < clampI n start then clampI n start else clampI n stop) := rfl

theorem sliceBounds_spec (n : Nat) (start stop : Int) :
    (T.sliceBounds n start stop).1 ≤ (T.sliceBounds n start stop).2 ∧
      (T.sliceBounds n start stop).2 ≤ n := by
  rw [sliceBounds_eq]
  have h1 := clampI_le n start
  have h2 := clampI_le n stop
  simp only []
  constructor <;> split <;> omega

/-! ### the source maps stay inside the source tensor -/

theorem permuteSrc_lt (s perm : List Nat) (hp : ∀ a, a < s.length → a ∈ perm) (n : Nat)
    (hn : n < prod (permuteShape s perm)) : permuteSrc s perm n < prod s := by
  unfold permuteSrc
  apply flat_lt_of_getD
  · simp
  · intro a ha
    simp only [List.getD_eq_getElem?_getD, List.getElem?_map, List.getElem?_range ha,
      Option.map_some, Option.getD_some]
    obtain ⟨k, hk⟩ : ∃ k, perm.idxOf? a = some k :=
      Option.isSome_iff_exists.1 ((List.isSome_idxOf? (l := perm) (a := a)).2 (hp a ha))
    rw [hk]
    obtain ⟨hkl, hka, -⟩ := List.idxOf?_eq_some_iff.1 hk
    have h1 := unflat_getD_lt (permuteShape s perm) n k hn (by simpa [permuteShape] using hkl)
    have h2 : (permuteShape s perm).getD k 0 = s.getD a 0 := by
      simp [permuteShape, List.getD_eq_getElem?_getD, hkl, hka]
    rw [h2] at h1
    simpa [List.getD_eq_getElem?_getD] using h1

theorem selectSrc_lt (s : List Nat) (d i : Nat) (hd : d < s.length) (hi : i < s.getD d 0) (m : Nat)
    (hm : m < prod (listRemove s d)) :
    flat s (listInsert (unflat (listRemove s d) m) d i) < prod s := by
  have hlen : (unflat (listRemove s d) m).length = s.length - 1 := by
    rw [length_unflat, length_listRemove _ _ hd]
  apply flat_lt_of_getD
  · rw [length_listInsert _ _ _ (by omega), hlen]; omega
  · intro k hk
    rw [getD_listInsert _ _ _ _ (by omega)]
    have hrl := length_listRemove s d hd
    split
    · have := unflat_getD_lt (listRemove s d) m k hm (by omega)
      rwa [getD_listRemove, if_pos ‹_›] at this
    · split
      · subst_vars; exact hi
      · have := unflat_getD_lt (listRemove s d) m (k - 1) hm (by omega)
        rw [getD_listRemove, if_neg (by omega)] at this
        have e : k - 1 + 1 = k := by omega
        rwa [e] at this

theorem sliceSrc_lt (s : List Nat) (d a b step : Nat) (hd : d < s.length) (hab : a ≤ b)
    (hb : b ≤ s.getD d 0) (m : Nat)
    (hm : m < prod (listSet s d ((b - a + step - 1) / step))) (hstep : step ≠ 0) :
    flat s (listSet (unflat (listSet s d ((b - a + step - 1) / step)) m) d
      (a + (unflat (listSet s d ((b - a + step - 1) / step)) m).getD d 0 * step)) < prod s := by
  apply flat_lt_of_getD
  · rw [length_listSet, length_unflat, length_listSet]
  · intro k hk
    rw [getD_listSet, length_unflat, length_listSet]
    have h1 := unflat_getD_lt _ m k hm (by rwa [length_listSet])
    rw [getD_listSet] at h1
    by_cases hkd : k = d
    · subst hkd
      rw [if_pos ⟨rfl, hk⟩] at h1 ⊢
      generalize (unflat (listSet s k ((b - a + step - 1) / step)) m).getD k 0 = j at h1 ⊢
      have h2 : (j + 1) * step ≤ b - a + step - 1 :=
        (Nat.le_div_iff_mul_le (Nat.pos_of_ne_zero hstep)).1 h1
      rw [Nat.add_mul, Nat.one_mul] at h2
      omega
    · rw [if_neg (by omega)] at h1 ⊢
      exact h1

theorem valid_bcastIdx : ∀ (ps s oi : List Nat), validIdx s oi → ps.length = s.length →
    (ps.zip s).all (fun p => decide (p.1 = p.2 ∨ p.1 = 1)) = true → validIdx ps (bcastIdx ps oi)
  | [], [], [], _, _, _ => by simp [bcastIdx, validIdx]
  | [], _ :: _, _, _, hl, _ => by simp at hl
  | _ :: _, [], _, _, hl, _ => by simp at hl
  | _, [], _ :: _, hv, _, _ => by simp [validIdx] at hv
  | _, _ :: _, [], hv, _, _ => by simp [validIdx] at hv
  | d :: ds, e :: es, i :: is, hv, hl, hz => by
      simp only [List.zip_cons_cons, List.all_cons, Bool.and_eq_true, decide_eq_true_eq] at hz
      simp only [validIdx] at hv
      simp only [bcastIdx, validIdx]
      refine ⟨?_, valid_bcastIdx ds es is hv.2 (by simpa using hl) hz.2⟩
      split
      · omega
      · rcases hz.1 with h | h
        · omega
        · contradiction

theorem length_padShape (r : Nat) (s : List Nat) (h : s.length ≤ r) : (padShape r s).length = r := by
  simp [padShape]; omega

theorem prod_padShape (r : Nat) (s : List Nat) : prod (padShape r s) = prod s := by
  simp [padShape, prod_append, prod_replicate_one]

theorem bcastSrc_lt (s ts : List Nat) (hl : ts.length ≤ s.length)
    (hz : ((padShape s.length ts).zip s).all (fun p => decide (p.1 = p.2 ∨ p.1 = 1)) = true)
    (n : Nat) (hn : n < prod s) : bcastSrc s ts n < prod ts := by
  unfold bcastSrc
  simp only []
  rw [← prod_padShape s.length ts]
  exact flat_lt _ _ (valid_bcastIdx _ s _ (valid_unflat s n hn) (length_padShape _ _ hl) hz)

end Quanto

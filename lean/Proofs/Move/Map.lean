/-
Every data-movement operation commutes with elementwise maps (on tensors whose data has the
size announced by their shape), preserves well-formedness, and succeeds or fails according to the
shape of its input only.
-/
import Quanto.Ops
import Proofs.Move.Index

namespace Quanto

variable {α β : Type} [Inhabited α] [Inhabited β]

set_option linter.unusedSectionVars false

theorem T.map_ofFn (s : List Nat) (g : Nat → α) (f : α → β) :
    (T.ofFn s g).map f = T.ofFn s (fun n => f (g n)) := by
  unfold T.ofFn T.map
  simp only [Array.map_ofFn]
  rfl

theorem T.gather_map (t : T α) (f : α → β) (s : List Nat) (src : Nat → Nat)
    (h : ∀ n, n < prod s → src n < t.data.size) :
    (t.gather s src).map f = (t.map f).gather s src := by
  unfold T.gather
  rw [T.map_ofFn]
  apply T.ofFn_congr
  intro n hn
  rw [T.get_map f t _ (h n hn)]

/-! ### one lemma per operation -/

theorem T.view?_map (t : T α) (f : α → β) (s : List Nat) :
    (t.view? s).map (T.map f) = (t.map f).view? s := by
  unfold T.view?
  rw [T.shape_map]
  by_cases h : prod s = prod t.shape
  · rw [if_pos h, if_pos h]; rfl
  · rw [if_neg h, if_neg h]; rfl

theorem T.permute_map (t : T α) (f : α → β) (hwf : t.data.size = prod t.shape) (p : List Nat)
    (hp : ∀ a, a < t.shape.length → a ∈ p) : (t.permute p).map f = (t.map f).permute p := by
  unfold T.permute
  rw [T.gather_map]
  · rfl
  · intro n hn
    rw [hwf]
    exact permuteSrc_lt _ _ hp n hn

theorem T.permute?_map (t : T α) (f : α → β) (hwf : t.data.size = prod t.shape) (p : List Nat) :
    (t.permute? p).map (T.map f) = (t.map f).permute? p := by
  unfold T.permute?
  rw [T.shape_map]
  by_cases h : p.length = t.shape.length ∧ (List.range t.shape.length).all (fun a => p.contains a)
  · rw [if_pos h, if_pos h]
    simp only [Option.map_some]
    rw [T.permute_map t f hwf p]
    intro a ha
    have := h.2
    simp only [List.all_eq_true, List.mem_range, List.contains_eq_mem, decide_eq_true_eq] at this
    exact this a ha
  · rw [if_neg h, if_neg h]; rfl

theorem swap_mem (r a b : Nat) (ha : a < r) (hb : b < r) (k : Nat) (hk : k < r) :
    k ∈ (List.range r).map fun k => if k = a then b else if k = b then a else k := by
  simp only [List.mem_map, List.mem_range]
  by_cases h1 : k = a
  · refine ⟨b, hb, ?_⟩
    subst h1
    by_cases h2 : b = k
    · simp [h2]
    · simp [h2]
  · by_cases h2 : k = b
    · exact ⟨a, ha, by simp [h2]⟩
    · exact ⟨k, hk, by simp [h1, h2]⟩

theorem transpose_aux (t : T α) (f : α → β) (d0 d1 : Int) :
    Option.map (T.map f)
      (if t.shape.length = 0 ∧ (d0 = 0 ∨ d0 = -1) ∧ (d1 = 0 ∨ d1 = -1) then some t else none) =
      if t.shape.length = 0 ∧ (d0 = 0 ∨ d0 = -1) ∧ (d1 = 0 ∨ d1 = -1) then some (t.map f) else none := by
  split_ifs <;> rfl

theorem T.transpose?_map (t : T α) (f : α → β) (hwf : t.data.size = prod t.shape) (d0 d1 : Int) :
    (t.transpose? d0 d1).map (T.map f) = (t.map f).transpose? d0 d1 := by
  unfold T.transpose?
  rw [T.shape_map]
  cases ha : normDim t.shape.length d0 with
  | none => exact transpose_aux t f d0 d1
  | some a =>
    cases hb : normDim t.shape.length d1 with
    | none => exact transpose_aux t f d0 d1
    | some b =>
      simp only [Option.map_some]
      rw [T.permute_map t f hwf]
      exact swap_mem _ a b (by simpa using normDim_lt ha) (by simpa using normDim_lt hb)

theorem T.select?_map (t : T α) (f : α → β) (hwf : t.data.size = prod t.shape) (dim idx : Int) :
    (t.select? dim idx).map (T.map f) = (t.map f).select? dim idx := by
  unfold T.select?
  rw [T.shape_map]
  cases hd : normDim t.shape.length dim with
  | none => rfl
  | some d =>
    have hd' : d < t.shape.length := by simpa using normDim_lt hd
    simp only []
    by_cases hidx : idx < -((t.shape.getD d 0 : Nat) : Int) ∨ idx ≥ ((t.shape.getD d 0 : Nat) : Int)
    · rw [if_pos hidx, if_pos hidx]; rfl
    · rw [if_neg hidx, if_neg hidx]
      simp only [Option.map_some]
      rw [T.gather_map]
      intro n hn
      rw [hwf]
      apply selectSrc_lt _ _ _ hd' _ n hn
      split <;> omega

theorem T.slice?_map (t : T α) (f : α → β) (hwf : t.data.size = prod t.shape) (dim start stop : Int)
    (step : Nat) : (t.slice? dim start stop step).map (T.map f) = (t.map f).slice? dim start stop step := by
  unfold T.slice?
  rw [T.shape_map]
  cases hd : normDim t.shape.length dim with
  | none => rfl
  | some d =>
    have hd' : d < t.shape.length := by simpa using normDim_lt hd
    simp only []
    by_cases hstep : step = 0
    · rw [if_pos hstep, if_pos hstep]; rfl
    · rw [if_neg hstep, if_neg hstep]
      simp only [Option.map_some]
      rw [T.gather_map]
      intro n hn
      rw [hwf]
      have hsb := sliceBounds_spec (t.shape.getD d 0) start stop
      exact sliceSrc_lt _ _ _ _ _ hd' hsb.1 hsb.2 n hn hstep

theorem T.unsqueeze?_map (t : T α) (f : α → β) (dim : Int) :
    (t.unsqueeze? dim).map (T.map f) = (t.map f).unsqueeze? dim := by
  unfold T.unsqueeze?
  rw [T.shape_map]
  cases normDim t.shape.length dim 1 <;> rfl

theorem T.expand?_map (t : T α) (f : α → β) (hwf : t.data.size = prod t.shape) (s : List Nat) :
    (t.expand? s).map (T.map f) = (t.map f).expand? s := by
  unfold T.expand?
  rw [T.shape_map]
  by_cases hl : s.length < t.shape.length
  · rw [if_pos hl, if_pos hl]; rfl
  · rw [if_neg hl, if_neg hl]
    by_cases hz : ((padShape s.length t.shape).zip s).all (fun p => decide (p.1 = p.2 ∨ p.1 = 1)) = true
    · rw [if_pos hz, if_pos hz]
      simp only [Option.map_some]
      rw [T.gather_map]
      intro n hn
      rw [hwf]
      exact bcastSrc_lt s t.shape (by omega) hz n hn
    · rw [if_neg hz, if_neg hz]; rfl

/-- **A.** every movement operation commutes with every elementwise map -/
theorem move_map (m : MoveOp) (t : T α) (f : α → β) (hwf : t.data.size = prod t.shape) :
    (m.apply t).map (T.map f) = m.apply (t.map f) := by
  cases m with
  | view s => exact T.view?_map t f s
  | permute p => exact T.permute?_map t f hwf p
  | transpose a b => exact T.transpose?_map t f hwf a b
  | select d i => exact T.select?_map t f hwf d i
  | slice d a b st => exact T.slice?_map t f hwf d a b st
  | unsqueeze d => exact T.unsqueeze?_map t f d
  | expand s => exact T.expand?_map t f hwf s

/-! ### well-formedness is preserved -/

theorem prod_listInsert_one (l : List Nat) (d : Nat) : prod (listInsert l d 1) = prod l := by
  unfold listInsert
  rw [prod_append, prod_append]
  simp only [prod, Nat.mul_one]
  rw [← prod_append, List.take_append_drop]

theorem move_wf (m : MoveOp) (t t' : T α) (hwf : t.data.size = prod t.shape)
    (h : m.apply t = some t') : t'.data.size = prod t'.shape := by
  cases m with
  | view s =>
    simp only [MoveOp.apply, T.view?] at h
    split at h
    · cases h; simp only; omega
    · cases h
  | permute p =>
    simp only [MoveOp.apply, T.permute?] at h
    split at h
    · cases h; exact T.size_gather _ _ _
    · cases h
  | transpose a b =>
    simp only [MoveOp.apply, T.transpose?] at h
    split at h
    · cases h; exact T.size_gather _ _ _
    · split at h
      · cases h; exact hwf
      · cases h
  | select d i =>
    simp only [MoveOp.apply, T.select?] at h
    split at h
    · cases h
    · split at h
      · cases h
      · cases h; exact T.size_gather _ _ _
  | slice d a b st =>
    simp only [MoveOp.apply, T.slice?] at h
    split at h
    · cases h
    · split at h
      · cases h
      · cases h; exact T.size_gather _ _ _
  | unsqueeze d =>
    simp only [MoveOp.apply, T.unsqueeze?] at h
    split at h
    · cases h
    · cases h; simp only; rw [prod_listInsert_one]; exact hwf
  | expand s =>
    simp only [MoveOp.apply, T.expand?] at h
    split at h
    · cases h
    · split at h
      · cases h; exact T.size_gather _ _ _
      · cases h

/-! ### success and result shape depend on the input shape only -/

theorem move_shape_only (m : MoveOp) (t : T α) (t' : T β) (hs : t.shape = t'.shape) :
    (m.apply t).map T.shape = (m.apply t').map T.shape := by
  cases m with
  | view s =>
    simp only [MoveOp.apply, T.view?]; rw [hs]; split_ifs <;> rfl
  | permute p =>
    simp only [MoveOp.apply, T.permute?]; rw [hs]; split_ifs
    · simp only [Option.map_some, T.permute, T.shape_gather, hs]
    · rfl
  | transpose a b =>
    simp only [MoveOp.apply, T.transpose?]; rw [hs]
    cases normDim t'.shape.length a <;> cases normDim t'.shape.length b <;> simp only [] <;>
      first
        | (split_ifs <;> simp only [Option.map_some, Option.map_none, hs])
        | simp only [Option.map_some, T.permute, T.shape_gather, hs]
  | select d i =>
    simp only [MoveOp.apply, T.select?]; rw [hs]
    cases normDim t'.shape.length d with
    | none => rfl
    | some d => simp only []; split_ifs <;> simp only [Option.map_some, Option.map_none, T.shape_gather]
  | slice d a b st =>
    simp only [MoveOp.apply, T.slice?]; rw [hs]
    cases normDim t'.shape.length d with
    | none => rfl
    | some d => simp only []; split_ifs <;> simp only [Option.map_some, Option.map_none, T.shape_gather]
  | unsqueeze d =>
    simp only [MoveOp.apply, T.unsqueeze?]; rw [hs]
    cases normDim t'.shape.length d 1 <;> rfl
  | expand s =>
    simp only [MoveOp.apply, T.expand?]; rw [hs]
    split_ifs <;> simp only [Option.map_some, Option.map_none, T.shape_gather]

/-- two tensors of the same shape succeed together -/
theorem move_isSome_shape_only (m : MoveOp) (t : T α) (t' : T β) (hs : t.shape = t'.shape) :
    (m.apply t).isSome = (m.apply t').isSome := by
  have := congrArg Option.isSome (move_shape_only m t t' hs)
  simpa using this

end Quanto

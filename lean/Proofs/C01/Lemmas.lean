/-
Helper lemmas for property C01 (8-bit symmetric quantization: nearest grid point,
saturation, idempotence).
-/
import Quanto.Spec.C01
import Proofs.Float.Extra

namespace Quanto

/-! ### definitions -/

/-- mathematical membership in the value grid V_Q of an 8-bit qtype -/
def QT.InGrid (Q : QT) (v : Rat) : Prop :=
  match Q with
  | .qint8 => ∃ n : Int, v = (n : Rat) ∧ -128 ≤ n ∧ n ≤ 127
  | _ => Q.fmt.Rep v ∧ |v| ≤ Q.qmax

/-- the working (activation / weight) float formats -/
abbrev WorkFmt (F : Fmt) : Prop := F ∈ [f32, f16, bf16]

theorem WorkFmt.cases {F : Fmt} (hF : WorkFmt F) : F = f32 ∨ F = f16 ∨ F = bf16 := by
  simpa [WorkFmt] using hF

/-! ### the scalar code function -/

/-- `torch.clamp` on rationals -/
def clampR (lo hi q : Rat) : Rat := if q < lo then lo else if q > hi then hi else q

theorem clampR_le {lo hi : Rat} (h : lo ≤ hi) (q : Rat) : clampR lo hi q ≤ hi := by
  unfold clampR; split_ifs <;> linarith

theorem le_clampR {lo hi : Rat} (h : lo ≤ hi) (q : Rat) : lo ≤ clampR lo hi q := by
  unfold clampR; split_ifs <;> linarith

theorem clampR_of_mem {lo hi q : Rat} (h1 : lo ≤ q) (h2 : q ≤ hi) : clampR lo hi q = q := by
  unfold clampR; rw [if_neg (by linarith), if_neg (by linarith)]

theorem clampR_of_ge {lo hi q : Rat} (h : lo ≤ hi) (h2 : hi ≤ q) : clampR lo hi q = hi := by
  unfold clampR; rw [if_neg (by linarith)]
  split_ifs
  · rfl
  · linarith

theorem clampR_of_le {lo hi q : Rat} (h : lo ≤ hi) (h2 : q ≤ lo) : clampR lo hi q = lo := by
  unfold clampR
  split_ifs
  · rfl
  · linarith
  · linarith

theorem clampR_dist {lo hi c : Rat} (h1 : lo ≤ c) (h2 : c ≤ hi) (r : Rat) :
    |clampR lo hi r - c| ≤ |r - c| := by
  unfold clampR
  split_ifs with ha hb
  · rw [abs_of_nonpos (by linarith), abs_of_nonpos (by linarith)]; linarith
  · rw [abs_of_nonneg (by linarith), abs_of_nonneg (by linarith)]; linarith
  · exact le_refl _

/-- the code produced from the (finite) rounded quotient `r` -/
def codeOf (Q : QT) (r : Rat) : Rat :=
  if Q.isFloat then Q.fmt.rndFin (clampR Q.qmin Q.qmax r) else clampR Q.qmin Q.qmax (rhe r)

theorem QT.qmin_le_qmax (Q : QT) : Q.qmin ≤ Q.qmax := by
  cases Q <;> norm_num [QT.qmin, QT.qmax]

theorem QT.qmax_pos (Q : QT) : 0 < Q.qmax := by
  cases Q <;> norm_num [QT.qmax]

theorem QT.qmin_neg (Q : QT) : Q.qmin < 0 := by
  cases Q <;> norm_num [QT.qmin]

theorem QT.qmax_le (Q : QT) : Q.qmax ≤ 57344 := by
  cases Q <;> norm_num [QT.qmax]

theorem QT.qmin_float {Q : QT} (h : Q.isFloat = true) : Q.qmin = -Q.qmax := by
  cases Q <;> simp_all [QT.isFloat, QT.qmin, QT.qmax]

theorem QT.fmt_maxFin {Q : QT} (h : Q.isFloat = true) : Q.fmt.maxFin = Q.qmax := by
  cases Q
  · simp [QT.isFloat] at h
  · norm_num [QT.fmt, QT.qmax, Fmt.maxFin, Quanto.e4m3, pow2_eq]
  · norm_num [QT.fmt, QT.qmax, Fmt.maxFin, Quanto.e5m2, pow2_eq]

theorem QT.fmt_mem (Q : QT) : Q.fmt ∈ [f32, f16, bf16, Quanto.e4m3, Quanto.e5m2] := by
  cases Q <;> simp [QT.fmt]

theorem QT.fmt_one_le_p (Q : QT) : 1 ≤ Q.fmt.p := one_le_p _ Q.fmt_mem

theorem QT.fmt_pow2_p_le (Q : QT) : pow2 (Q.fmt.p : Int) ≤ 16 := by
  cases Q <;> norm_num [QT.fmt, Quanto.e4m3, Quanto.e5m2, pow2_eq]

theorem QT.fmt_min_ge (Q : QT) : pow2 (-16) ≤ pow2 (Q.fmt.emin - (Q.fmt.p : Int) + 1) := by
  cases Q <;> exact pow2_le_pow2 (by decide)

theorem QT.qmax_rep {Q : QT} (h : Q.isFloat = true) : Q.fmt.Rep Q.qmax := by
  rw [← QT.fmt_maxFin h]; exact maxFin_rep _ Q.fmt_mem

theorem qcast_rnd_of_abs_le {Q : QT} (h : Q.isFloat = true) (q : Rat) (hq : |q| ≤ Q.qmax) :
    Q.cast (.fin q) = .fin (Q.fmt.rndFin q) := by
  have : Q.cast (.fin q) = Q.fmt.rnd q := by
    cases Q
    · simp [QT.isFloat] at h
    · rfl
    · rfl
  rw [this]
  exact rnd_of_le_maxFin _ Q.fmt_mem q (by rw [QT.fmt_maxFin h]; exact hq)

theorem abs_clampR_le {Q : QT} (h : Q.isFloat = true) (q : Rat) :
    |clampR Q.qmin Q.qmax q| ≤ Q.qmax := by
  have h1 := clampR_le Q.qmin_le_qmax q
  have h2 := le_clampR Q.qmin_le_qmax q
  rw [QT.qmin_float h] at h2 h1 ⊢
  exact abs_le.mpr ⟨h2, h1⟩

theorem qcast_qmax (Q : QT) : Q.cast (.fin Q.qmax) = .fin Q.qmax := by
  by_cases h : Q.isFloat = true
  · rw [qcast_rnd_of_abs_le h _ (by rw [abs_of_pos Q.qmax_pos]),
      rndFin_of_rep _ Q.fmt_one_le_p _ (QT.qmax_rep h)]
  · cases Q <;> simp_all [QT.isFloat, QT.cast]

theorem qcast_qmin (Q : QT) : Q.cast (.fin Q.qmin) = .fin Q.qmin := by
  by_cases h : Q.isFloat = true
  · rw [QT.qmin_float h, qcast_rnd_of_abs_le h _ (by rw [abs_neg, abs_of_pos Q.qmax_pos]),
      rndFin_of_rep _ Q.fmt_one_le_p _ (Rep_neg (QT.qmax_rep h))]
  · cases Q <;> simp_all [QT.isFloat, QT.cast]

theorem symCode_eq (F : Fmt) (Q : QT) (x s : Rat) (hs : s ≠ 0) :
    symCode F Q (.fin x) (.fin s) =
      Q.cast ((if Q.isFloat then F.fl (.fin (x / s)) else (F.fl (.fin (x / s))).round).clamp
        Q.qmin Q.qmax) := by
  unfold symCode Fmt.div FV.divX
  simp only [if_neg hs]

theorem symCode_of_fin (F : Fmt) (Q : QT) (x s r : Rat) (hs : s ≠ 0)
    (h : F.fl (.fin (x / s)) = .fin r) :
    symCode F Q (.fin x) (.fin s) = .fin (codeOf Q r) := by
  rw [symCode_eq F Q x s hs, h]
  unfold codeOf
  by_cases hq : Q.isFloat = true
  · rw [if_pos hq, if_pos hq]
    show Q.cast (.fin (clampR Q.qmin Q.qmax r)) = _
    rw [qcast_rnd_of_abs_le hq _ (abs_clampR_le hq r)]
  · rw [if_neg hq, if_neg hq]
    show Q.cast (.fin (clampR Q.qmin Q.qmax (rhe r))) = _
    cases Q <;> simp_all [QT.isFloat, QT.cast]

theorem symCode_of_pinf (F : Fmt) (Q : QT) (x s : Rat) (hs : s ≠ 0)
    (h : F.fl (.fin (x / s)) = .pinf) :
    symCode F Q (.fin x) (.fin s) = .fin Q.qmax := by
  rw [symCode_eq F Q x s hs, h]
  have : (if Q.isFloat then FV.pinf else FV.pinf.round) = .pinf := by split_ifs <;> rfl
  rw [this]
  exact qcast_qmax Q

theorem symCode_of_ninf (F : Fmt) (Q : QT) (x s : Rat) (hs : s ≠ 0)
    (h : F.fl (.fin (x / s)) = .ninf) :
    symCode F Q (.fin x) (.fin s) = .fin Q.qmin := by
  rw [symCode_eq F Q x s hs, h]
  have : (if Q.isFloat then FV.ninf else FV.ninf.round) = .ninf := by split_ifs <;> rfl
  rw [this]
  exact qcast_qmin Q

/-- the three possible behaviours of the scalar quantizer on finite inputs -/
theorem symCode_cases (F : Fmt) (hF : WorkFmt F) (Q : QT) (x s : Rat) (hs : 0 < s) :
    (F.fl (.fin (x / s)) = .fin (F.flR (x / s)) ∧ |F.flR (x / s)| ≤ F.maxFin ∧
      symCode F Q (.fin x) (.fin s) = .fin (codeOf Q (F.flR (x / s)))) ∨
    (F.maxFin < x / s ∧ symCode F Q (.fin x) (.fin s) = .fin Q.qmax) ∨
    (x / s < -F.maxFin ∧ symCode F Q (.fin x) (.fin s) = .fin Q.qmin) := by
  rcases fl_cases F hF (x / s) with hc | hc | hc
  · exact Or.inl ⟨hc.1, hc.2, symCode_of_fin F Q x s _ hs.ne' hc.1⟩
  · exact Or.inr (Or.inl ⟨hc.2, symCode_of_pinf F Q x s hs.ne' hc.1⟩)
  · exact Or.inr (Or.inr ⟨hc.2, symCode_of_ninf F Q x s hs.ne' hc.1⟩)

theorem symDeq_eq (F : Fmt) (c s : Rat) : symDeq F (.fin c) (.fin s) = F.fl (.fin (s * c)) := rfl

/-! ### properties of `codeOf` -/

theorem QT.inGrid_float {Q : QT} (h : Q.isFloat = true) (v : Rat) :
    Q.InGrid v ↔ (Q.fmt.Rep v ∧ |v| ≤ Q.qmax) := by
  cases Q
  · simp [QT.isFloat] at h
  · rfl
  · rfl

theorem QT.inGrid_int8 (v : Rat) :
    QT.InGrid .qint8 v ↔ ∃ n : Int, v = (n : Rat) ∧ -128 ≤ n ∧ n ≤ 127 := Iff.rfl

theorem QT.isFloat_eq_false {Q : QT} (h : ¬ Q.isFloat = true) : Q = .qint8 := by
  cases Q <;> simp_all [QT.isFloat]

theorem codeOf_int8 (r : Rat) : codeOf .qint8 r = clampR (-128) 127 (rhe r) := by
  unfold codeOf; simp [QT.isFloat, QT.qmin, QT.qmax]

theorem codeOf_float {Q : QT} (h : Q.isFloat = true) (r : Rat) :
    codeOf Q r = Q.fmt.rndFin (clampR (-Q.qmax) Q.qmax r) := by
  unfold codeOf; rw [if_pos h, QT.qmin_float h]

theorem clampR_int (n : Int) :
    clampR (-128) 127 (n : Rat) =
      ((if n < -128 then -128 else if n > 127 then 127 else n : Int) : Rat) := by
  unfold clampR
  by_cases h1 : n < -128
  · rw [if_pos h1, if_pos (by exact_mod_cast h1)]; norm_num
  · rw [if_neg h1, if_neg (by exact_mod_cast h1)]
    by_cases h2 : n > 127
    · rw [if_pos h2, if_pos (by exact_mod_cast h2)]; norm_num
    · rw [if_neg h2, if_neg (by exact_mod_cast h2)]

theorem codeOf_inGrid (Q : QT) (r : Rat) : Q.InGrid (codeOf Q r) := by
  by_cases h : Q.isFloat = true
  · rw [QT.inGrid_float h, codeOf_float h]
    have hc1 := clampR_le (by linarith [Q.qmax_pos] : -Q.qmax ≤ Q.qmax) r
    have hc2 := le_clampR (by linarith [Q.qmax_pos] : -Q.qmax ≤ Q.qmax) r
    refine ⟨rndFin_rep _ Q.fmt_one_le_p _, abs_le.mpr ⟨?_, ?_⟩⟩
    · exact le_rndFin_of_rep _ Q.fmt_one_le_p (Rep_neg (QT.qmax_rep h)) hc2
    · exact rndFin_le_of_rep _ Q.fmt_one_le_p (QT.qmax_rep h) hc1
  · rw [QT.isFloat_eq_false h, codeOf_int8, clampR_int]
    refine ⟨_, rfl, ?_, ?_⟩ <;> split_ifs <;> omega

theorem codeOf_sat_hi (Q : QT) (r : Rat) (h : Q.qmax ≤ r) : codeOf Q r = Q.qmax := by
  by_cases hq : Q.isFloat = true
  · rw [codeOf_float hq, clampR_of_ge (by linarith [Q.qmax_pos]) h,
      rndFin_of_rep _ Q.fmt_one_le_p _ (QT.qmax_rep hq)]
  · rw [QT.isFloat_eq_false hq] at h ⊢
    rw [codeOf_int8]
    have h' : ((127 : Int) : Rat) ≤ r := by simpa [QT.qmax] using h
    have := rhe_mono h'
    rw [rhe_int] at this
    have h2 : (127 : Rat) ≤ (rhe r : Rat) := by exact_mod_cast this
    rw [clampR_of_ge (by norm_num) h2]; rfl

theorem codeOf_sat_lo (Q : QT) (r : Rat) (h : r ≤ Q.qmin) : codeOf Q r = Q.qmin := by
  by_cases hq : Q.isFloat = true
  · rw [QT.qmin_float hq] at h ⊢
    rw [codeOf_float hq, clampR_of_le (by linarith [Q.qmax_pos]) h,
      rndFin_of_rep _ Q.fmt_one_le_p _ (Rep_neg (QT.qmax_rep hq))]
  · rw [QT.isFloat_eq_false hq] at h ⊢
    rw [codeOf_int8]
    have h' : r ≤ ((-128 : Int) : Rat) := by simpa [QT.qmin] using h
    have := rhe_mono h'
    rw [rhe_int] at this
    have h2 : (rhe r : Rat) ≤ (-128 : Rat) := by exact_mod_cast this
    rw [clampR_of_le (by norm_num) h2]; rfl

/-- every grid value lies in `[qmin, qmax]` -/
theorem QT.inGrid_bounds {Q : QT} {v : Rat} (hv : Q.InGrid v) : Q.qmin ≤ v ∧ v ≤ Q.qmax := by
  by_cases hq : Q.isFloat = true
  · rw [QT.inGrid_float hq] at hv
    rw [QT.qmin_float hq]
    exact abs_le.mp hv.2
  · rw [QT.isFloat_eq_false hq] at hv ⊢
    obtain ⟨n, rfl, h1, h2⟩ := hv
    constructor
    · have : ((-128 : Int) : Rat) ≤ (n : Rat) := by exact_mod_cast h1
      simpa [QT.qmin] using this
    · have : (n : Rat) ≤ ((127 : Int) : Rat) := by exact_mod_cast h2
      simpa [QT.qmax] using this

/-- the code is a nearest grid point to the rounded quotient -/
theorem codeOf_nearest (Q : QT) (r v : Rat) (hv : Q.InGrid v) : |codeOf Q r - r| ≤ |v - r| := by
  obtain ⟨hv1, hv2⟩ := QT.inGrid_bounds hv
  by_cases hq : Q.isFloat = true
  · rw [QT.inGrid_float hq] at hv
    rw [QT.qmin_float hq] at hv1
    rw [codeOf_float hq]
    have hpos := Q.qmax_pos
    rcases lt_or_ge r (-Q.qmax) with h1 | h1
    · rw [clampR_of_le (by linarith) h1.le,
        rndFin_of_rep _ Q.fmt_one_le_p _ (Rep_neg (QT.qmax_rep hq)),
        abs_of_nonneg (by linarith), abs_of_nonneg (by linarith)]
      linarith
    rcases lt_or_ge Q.qmax r with h2 | h2
    · rw [clampR_of_ge (by linarith) h2.le,
        rndFin_of_rep _ Q.fmt_one_le_p _ (QT.qmax_rep hq),
        abs_of_nonpos (by linarith), abs_of_nonpos (by linarith)]
      linarith
    · rw [clampR_of_mem h1 h2]
      exact rndFin_nearest _ Q.fmt_one_le_p r v hv.1
  · rw [QT.isFloat_eq_false hq] at hv hv1 hv2 ⊢
    obtain ⟨n, rfl, hn1, hn2⟩ := hv
    rw [codeOf_int8]
    have he := rhe_err r
    obtain ⟨he1, he2⟩ := abs_le.mp he
    rcases lt_or_ge (rhe r : Rat) (-128) with h1 | h1
    · have : (rhe r : Rat) ≤ -129 := by
        have : rhe r < -128 := by exact_mod_cast h1
        have : rhe r ≤ -129 := by omega
        exact_mod_cast this
      have hn : (-128 : Rat) ≤ (n : Rat) := by exact_mod_cast hn1
      rw [clampR_of_le (by norm_num) h1.le, abs_of_nonneg (by linarith),
        abs_of_nonneg (by linarith)]
      linarith
    rcases lt_or_ge (127 : Rat) (rhe r : Rat) with h2 | h2
    · have : (128 : Rat) ≤ (rhe r : Rat) := by
        have : 127 < rhe r := by exact_mod_cast h2
        have : 128 ≤ rhe r := by omega
        exact_mod_cast this
      have hn : (n : Rat) ≤ (127 : Rat) := by exact_mod_cast hn2
      rw [clampR_of_ge (by norm_num) h2.le, abs_of_nonpos (by linarith),
        abs_of_nonpos (by linarith)]
      linarith
    · rw [clampR_of_mem h1 h2]
      exact rhe_nearest r n

/-! ### end points of the grids are representable in every working format -/

theorem work_rep_qmax (F : Fmt) (hF : WorkFmt F) (Q : QT) : F.Rep Q.qmax := by
  cases Q
  · have := rep_work F hF 127 0 (by norm_num); simpa [QT.qmax] using this
  · have := rep_work F hF 7 6 (by norm_num); norm_num at this; simpa [QT.qmax] using this
  · have := rep_work F hF 7 13 (by norm_num); norm_num at this; simpa [QT.qmax] using this

theorem work_rep_qmin (F : Fmt) (hF : WorkFmt F) (Q : QT) : F.Rep Q.qmin := by
  cases Q
  · have := rep_work F hF (-1) 7 (by norm_num); norm_num at this; simpa [QT.qmin] using this
  · have := rep_work F hF (-7) 6 (by norm_num); norm_num at this; simpa [QT.qmin] using this
  · have := rep_work F hF (-7) 13 (by norm_num); norm_num at this; simpa [QT.qmin] using this

theorem QT.qmax_le_work (F : Fmt) (hF : WorkFmt F) (Q : QT) : Q.qmax ≤ F.maxFin := by
  have := work_maxFin_ge F hF
  cases Q <;> simp only [QT.qmax] <;> linarith

theorem QT.neg_work_le_qmin (F : Fmt) (hF : WorkFmt F) (Q : QT) : -F.maxFin ≤ Q.qmin := by
  have := work_maxFin_ge F hF
  cases Q <;> simp only [QT.qmin] <;> linarith

/-! ### nearest grid point (T4 core) -/

theorem nearest_core (F : Fmt) (hF : WorkFmt F) (Q : QT) (x s : Rat) (hs : 0 < s) (c y : Rat)
    (hc : symCode F Q (.fin x) (.fin s) = .fin c) (hy : symDeq F (.fin c) (.fin s) = .fin y)
    (v : Rat) (hv : Q.InGrid v) :
    |y - x| ≤ |s * v - x| + (2 * F.u * |x| + F.u * (s * |c|) + (2 * s + 1) * F.eta) := by
  have hu := F.u_nonneg
  have he := F.eta_nonneg
  have hyerr : |y - s * c| ≤ F.u * (s * |c|) + F.eta := by
    rw [symDeq_eq] at hy
    have := fl_err F hF _ _ hy
    rwa [abs_mul, abs_of_pos hs] at this
  obtain ⟨q, hq⟩ : ∃ q, q = x / s := ⟨_, rfl⟩
  have hx : x = s * q := by rw [hq]; field_simp
  have A : |s * c - x| = s * |c - q| := by rw [hx, ← mul_sub, abs_mul, abs_of_pos hs]
  have B : |s * v - x| = s * |v - q| := by rw [hx, ← mul_sub, abs_mul, abs_of_pos hs]
  have C : |x| = s * |q| := by rw [hx, abs_mul, abs_of_pos hs]
  have tri : |y - x| ≤ |y - s * c| + |s * c - x| := by
    have := abs_add_le (y - s * c) (s * c - x); rwa [sub_add_sub_cancel] at this
  have hq0 : 0 ≤ |q| := abs_nonneg q
  have hc0 : 0 ≤ |c| := abs_nonneg c
  have huq : 0 ≤ F.u * (s * |q|) := by positivity
  have hse : 0 ≤ s * F.eta := by positivity
  obtain ⟨hv1, hv2⟩ := QT.inGrid_bounds hv
  rw [A] at tri
  rw [B, C]
  rcases symCode_cases F hF Q x s hs with h | h | h
  · rw [← hq] at h
    obtain ⟨hfl, -, hcode⟩ := h
    rw [hcode] at hc
    have hc' : codeOf Q (F.flR q) = c := FV.fin.inj hc
    have herr := fl_err F hF _ _ hfl
    have hnear := codeOf_nearest Q (F.flR q) v hv
    rw [hc'] at hnear
    generalize F.flR q = r at *
    have t1 : |c - q| ≤ |c - r| + |r - q| := by
      have := abs_add_le (c - r) (r - q); rwa [sub_add_sub_cancel] at this
    have t2 : |v - r| ≤ |v - q| + |r - q| := by
      have := abs_add_le (v - q) (q - r)
      rwa [sub_add_sub_cancel, abs_sub_comm q r] at this
    have D : s * |c - q| ≤ s * (|v - q| + 2 * (F.u * |q| + F.eta)) :=
      mul_le_mul_of_nonneg_left (by linarith) hs.le
    linarith
  · rw [← hq] at h
    obtain ⟨hgt, hcode⟩ := h
    rw [hcode] at hc
    have hc' : Q.qmax = c := FV.fin.inj hc
    have := QT.qmax_le_work F hF Q
    have e1 : |c - q| = q - c := by rw [abs_of_nonpos (by linarith)]; ring
    have e2 : |v - q| = q - v := by rw [abs_of_nonpos (by linarith)]; ring
    have D : s * |c - q| ≤ s * |v - q| :=
      mul_le_mul_of_nonneg_left (by rw [e1, e2]; linarith) hs.le
    linarith
  · rw [← hq] at h
    obtain ⟨hlt, hcode⟩ := h
    rw [hcode] at hc
    have hc' : Q.qmin = c := FV.fin.inj hc
    have := QT.neg_work_le_qmin F hF Q
    have e1 : |c - q| = c - q := abs_of_nonneg (by linarith)
    have e2 : |v - q| = v - q := abs_of_nonneg (by linarith)
    have D : s * |c - q| ≤ s * |v - q| :=
      mul_le_mul_of_nonneg_left (by rw [e1, e2]; linarith) hs.le
    linarith

/-! ### idempotence (T7 / T8 cores) -/

theorem idem_int8_core (F : Fmt) (hF : WorkFmt F) (hu : F.u ≤ 1 / 2000) (he : F.eta ≤ 1 / 1000)
    (s : Rat) (hs : 0 < s) (n : Int) (hn1 : -128 ≤ n) (hn2 : n ≤ 127)
    (hnorm : pow2 F.emin ≤ s * |(n : Rat)| ∨ n = 0) (y : Rat)
    (hy : symDeq F (.fin n) (.fin s) = .fin y) :
    symCode F .qint8 (.fin y) (.fin s) = .fin n := by
  rw [symDeq_eq] at hy
  have hu0 := F.u_nonneg
  have he0 := F.eta_nonneg
  have hnabs : |(n : Rat)| ≤ 128 := by
    rw [abs_le]; constructor
    · have : ((-128 : Int) : Rat) ≤ (n : Rat) := by exact_mod_cast hn1
      simpa using this
    · have : (n : Rat) ≤ ((127 : Int) : Rat) := by exact_mod_cast hn2
      have h' : (n : Rat) ≤ 127 := by simpa using this
      linarith
  -- relative error of the product
  have herr1 : |y - s * (n : Rat)| ≤ F.u * (s * |(n : Rat)|) := by
    rcases hnorm with hnorm | rfl
    · have := fl_err_normal F hF _ _ (by rwa [abs_mul, abs_of_pos hs]) hy
      rwa [abs_mul, abs_of_pos hs] at this
    · simp only [Int.cast_zero, mul_zero] at hy ⊢
      rw [fl_zero F hF] at hy
      rw [← FV.fin.inj hy]; simp
  obtain ⟨q, hq⟩ : ∃ q, q = y / s := ⟨_, rfl⟩
  have hqn : |q - (n : Rat)| ≤ F.u * |(n : Rat)| := by
    have e : q - (n : Rat) = (y - s * (n : Rat)) / s := by rw [hq]; field_simp
    rw [e, abs_div, abs_of_pos hs, div_le_iff₀ hs]
    linarith
  have hun : F.u * |(n : Rat)| ≤ 128 / 2000 := by
    calc F.u * |(n : Rat)| ≤ (1 / 2000) * 128 :=
          mul_le_mul hu hnabs (abs_nonneg _) (by norm_num)
      _ = 128 / 2000 := by norm_num
  have hqabs : |q| ≤ 129 := by
    have := abs_add_le (n : Rat) (q - (n : Rat))
    rw [add_sub_cancel] at this
    linarith
  have hfin : F.fl (.fin q) = .fin (F.flR q) :=
    fl_fin_of_le F hF q (by linarith [work_maxFin_ge F hF])
  have herr2 := fl_err F hF _ _ hfin
  have huq : F.u * |q| ≤ 129 / 2000 := by
    calc F.u * |q| ≤ (1 / 2000) * 129 := mul_le_mul hu hqabs (abs_nonneg _) (by norm_num)
      _ = 129 / 2000 := by norm_num
  have hclose : |F.flR q - (n : Rat)| < 1 / 2 := by
    have := abs_add_le (F.flR q - q) (q - (n : Rat))
    rw [sub_add_sub_cancel] at this
    linarith
  have hr := rhe_eq_of_abs_lt hclose
  rw [hq] at hfin
  rw [symCode_of_fin F .qint8 y s _ hs.ne' hfin, codeOf_int8, ← hq, hr, clampR_of_mem]
  · have : ((-128 : Int) : Rat) ≤ (n : Rat) := by exact_mod_cast hn1
    simpa using this
  · have : (n : Rat) ≤ ((127 : Int) : Rat) := by exact_mod_cast hn2
    simpa using this

theorem idem_float8_core (F : Fmt) (hF : WorkFmt F) (hu : F.u ≤ 1 / 250)
    (he : F.eta ≤ pow2 (-24)) (Q : QT) (hQ : Q.isFloat = true)
    (s : Rat) (hs : 0 < s) (c : Rat) (hc : Q.InGrid c)
    (hnorm : pow2 F.emin ≤ s * |c| ∨ c = 0) (y : Rat)
    (hy : symDeq F (.fin c) (.fin s) = .fin y) :
    symCode F Q (.fin y) (.fin s) = .fin c := by
  rw [symDeq_eq] at hy
  have hu0 := F.u_nonneg
  have he0 := F.eta_nonneg
  obtain ⟨hb1, hb2⟩ := QT.inGrid_bounds hc
  rw [QT.inGrid_float hQ] at hc
  obtain ⟨hrep, hcabs⟩ := hc
  rw [QT.qmin_float hQ] at hb1
  have hqm := Q.qmax_le
  have hc0 : 0 ≤ |c| := abs_nonneg c
  -- relative error of the product
  have herr1 : |y - s * c| ≤ F.u * (s * |c|) := by
    rcases hnorm with hnorm | rfl
    · have := fl_err_normal F hF _ _ (by rwa [abs_mul, abs_of_pos hs]) hy
      rwa [abs_mul, abs_of_pos hs] at this
    · simp only [mul_zero] at hy ⊢
      rw [fl_zero F hF] at hy
      rw [← FV.fin.inj hy]; simp
  obtain ⟨q, hq⟩ : ∃ q, q = y / s := ⟨_, rfl⟩
  have hqc : |q - c| ≤ F.u * |c| := by
    have e : q - c = (y - s * c) / s := by rw [hq]; field_simp
    rw [e, abs_div, abs_of_pos hs, div_le_iff₀ hs]
    linarith
  have huc : F.u * |c| ≤ |c| / 250 := by
    have := mul_le_mul_of_nonneg_right hu hc0
    linarith
  have hqabs : |q| ≤ |c| + |c| / 250 := by
    have := abs_add_le c (q - c)
    rw [add_sub_cancel] at this
    linarith
  have hfin : F.fl (.fin q) = .fin (F.flR q) :=
    fl_fin_of_le F hF q (by linarith [work_maxFin_ge F hF])
  have herr2 := fl_err F hF _ _ hfin
  have huq : F.u * |q| ≤ (|c| + |c| / 250) / 250 := by
    have h1 := mul_le_mul_of_nonneg_right hu (abs_nonneg q)
    linarith
  have hclose : |F.flR q - c| ≤ |c| * (501 / 62500) + F.eta := by
    have := abs_add_le (F.flR q - q) (q - c)
    rw [sub_add_sub_cancel] at this
    linarith
  have hclamp := clampR_dist hb1 hb2 (F.flR q)
  have hr0 : c = 0 → F.flR q = 0 := by
    intro hz
    have hy0 : y = 0 := by
      simp only [hz, abs_zero, mul_zero, sub_zero] at herr1
      exact abs_eq_zero.mp (le_antisymm herr1 (abs_nonneg y))
    have hq0 : q = 0 := by rw [hq, hy0, zero_div]
    have := fl_zero F hF
    rw [hq0] at hfin
    rw [hfin] at this
    rw [hq0]
    exact FV.fin.inj this
  rw [hq] at hfin
  rw [symCode_of_fin F Q y s _ hs.ne' hfin, codeOf_float hQ, ← hq]
  congr 1
  apply rndFin_eq_of_close _ Q.fmt_one_le_p hrep
  have hP := Q.fmt_pow2_p_le
  have hP0 := pow2_pos (Q.fmt.p : Int)
  generalize pow2 (Q.fmt.p : Int) = P at *
  generalize clampR (-Q.qmax) Q.qmax (F.flR q) = t at *
  have ht0 : 0 ≤ |t - c| := abs_nonneg _
  by_cases hz : c = 0
  · have h0 : |t - c| = 0 := by
      rw [hr0 hz, hz, sub_self, abs_zero] at hclamp
      rw [hz]
      exact le_antisymm hclamp (abs_nonneg _)
    rw [h0, hz]; simp
  · have hmin := (Q.fmt_min_ge).trans (rep_abs_ge _ hrep hz)
    have h16 : pow2 (-16) = 1 / 65536 := by norm_num [pow2_eq]
    have h24 : pow2 (-24) = 1 / 16777216 := by norm_num [pow2_eq]
    rw [h16] at hmin
    rw [h24] at he
    have hb : 2 * (P + 1) * |t - c| ≤ 34 * |t - c| := by nlinarith
    linarith

/-! ### soundness of the executable grid (T10 core) -/

/-- executable grid membership test for a float8 format -/
def gridB (F : Fmt) (qmax : Rat) (v : Rat) : Bool :=
  repB F v && decide (-qmax ≤ v) && decide (v ≤ qmax)

theorem gridB_sound (F : Fmt) (qmax v : Rat) (h : gridB F qmax v = true) :
    F.Rep v ∧ |v| ≤ qmax := by
  unfold gridB at h
  simp only [Bool.and_eq_true, decide_eq_true_eq] at h
  exact ⟨repB_sound F v h.1.1, abs_le.mpr ⟨h.1.2, h.2⟩⟩

theorem grid_e4m3_check : (Fmt.finiteValues e4m3).all (gridB e4m3 448) = true := by
  decide +kernel

theorem grid_e5m2_check : (Fmt.finiteValues e5m2).all (gridB e5m2 57344) = true := by
  decide +kernel

theorem grid_sound (Q : QT) (v : Rat) (hv : v ∈ Q.grid) : Q.InGrid v := by
  cases Q
  · simp only [QT.grid, List.mem_map, List.mem_range] at hv
    obtain ⟨n, hn, rfl⟩ := hv
    exact ⟨(n : Int) - 128, rfl, by omega, by omega⟩
  · exact gridB_sound _ _ _ (List.all_eq_true.mp grid_e4m3_check v hv)
  · exact gridB_sound _ _ _ (List.all_eq_true.mp grid_e5m2_check v hv)

theorem grid_complete_int8 (v : Rat) (hv : QT.InGrid .qint8 v) : v ∈ QT.grid .qint8 := by
  obtain ⟨n, rfl, h1, h2⟩ := hv
  simp only [QT.grid, List.mem_map, List.mem_range]
  refine ⟨(n + 128).toNat, by omega, ?_⟩
  congr 1
  omega

end Quanto

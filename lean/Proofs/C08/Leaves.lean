import Proofs.C08.Flat
namespace Quanto

def Mod.isLeaf : Mod → Bool
  | .leaf .. => true
  | .node .. => false

theorem namedChildren_mem : ∀ (cs : List (String × Mod)), namesOkChildren cs = true →
    ∀ (n : String) (p : List String) (x : Mod), (n :: p, x) ∈ namedChildren cs →
      ∃ c, childAt? cs n [] = some c ∧ (p, x) ∈ c.named ∧ c.namesOk = true
  | [], _, n, p, x, h => by simp [namedChildren] at h
  | (n0, c0) :: rest, hok, n, p, x, h => by
    simp only [namesOkChildren, Bool.and_eq_true, Bool.not_eq_true', List.any_eq_false] at hok
    obtain ⟨⟨hc, hn⟩, hr⟩ := hok
    simp only [namedChildren, List.mem_append, List.mem_map] at h
    rcases h with ⟨qm, hq, he⟩ | h
    · simp only [Prod.mk.injEq, List.cons.injEq] at he
      obtain ⟨⟨rfl, rfl⟩, rfl⟩ := he
      exact ⟨c0, by simp [childAt?, C08.Mod.at?_nil], hq, hc⟩
    · obtain ⟨c, h1, h2, h3⟩ := namedChildren_mem rest hr n p x h
      obtain ⟨n', q, hp, hmem⟩ := namedChildren_head_mem rest (n :: p, x) h
      simp only [List.cons.injEq] at hp
      obtain ⟨rfl, _⟩ := hp
      have hne : n0 ≠ n := by
        intro e
        obtain ⟨d, hd, hdn⟩ := List.mem_map.mp hmem
        have := hn d hd
        simp at this
        exact this (by rw [hdn, e])
      exact ⟨c, by simpa [childAt?, hne] using h1, h2, h3⟩

/-- a leaf has no descendants: no yielded path extends the path of a leaf -/
theorem leaf_path_not_proper_prefix : ∀ t : Mod, t.namesOk = true →
    ∀ (p q : List String) (x m : Mod), (p, x) ∈ t.named → (q, m) ∈ t.named → x.isLeaf = true →
      p <+: q → q = p
  | .leaf id k c, _, p, q, x, m, hp, hq, _, _ => by
    simp only [Mod.named, List.mem_singleton, Prod.mk.injEq] at hp hq
    rw [hp.1, hq.1]
  | .node id cls cs, hok, p, q, x, m, hp, hq, hx, hpre => by
    have hc : namesOkChildren cs = true := by simpa [Mod.namesOk] using hok
    simp only [Mod.named, List.mem_cons, Prod.mk.injEq] at hp hq
    rcases hp with ⟨_, rfl⟩ | hp
    · simp [Mod.isLeaf] at hx
    · obtain ⟨n, p', hpe, _⟩ := namedChildren_head_mem cs (p, x) hp
      simp only at hpe
      subst hpe
      rcases hq with ⟨rfl, _⟩ | hq
      · simp at hpre
      · obtain ⟨n2, q', hqe, _⟩ := namedChildren_head_mem cs (q, m) hq
        simp only at hqe
        subst hqe
        have hnn : n = n2 ∧ p' <+: q' := by
          obtain ⟨r, hr⟩ := hpre
          simp only [List.cons_append, List.cons.injEq] at hr
          exact ⟨hr.1, ⟨r, hr.2⟩⟩
        obtain ⟨rfl, hpq⟩ := hnn
        obtain ⟨c1, h1, hm1, hok1⟩ := namedChildren_mem cs hc n p' x hp
        obtain ⟨c2, h2, hm2, _⟩ := namedChildren_mem cs hc n q' m hq
        rw [h1] at h2
        cases h2
        rw [leaf_path_not_proper_prefix c1 hok1 p' q' x m hm1 hm2 hx hpq]

end Quanto

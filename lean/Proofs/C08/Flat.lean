import Quanto.Flat
import Proofs.C08.Lemmas
namespace Quanto

theorem setAtChildren_split (pre post : List (String × Mod)) (n : String) (c : Mod) (q : List String)
    (x : Mod) (h : ∀ p ∈ pre, p.1 ≠ n) :
    setAtChildren (pre ++ (n, c) :: post) n q x = pre ++ (n, c.setAt q x) :: post := by
  induction pre with
  | nil => simp [setAtChildren]
  | cons p pre ih =>
    obtain ⟨m, d⟩ := p
    have hm : m ≠ n := h (m, d) (by simp)
    simp only [List.cons_append, setAtChildren, hm, if_false]
    rw [ih (fun p hp => h p (by simp [hp]))]

/-- a run of loop iterations that all lie below the child `n` acts on that child alone -/
theorem foldl_flatStep_lift (a : QuantizeArgs) (id : Nat) (cls : String)
    (pre post : List (String × Mod)) (n : String) (h : ∀ p ∈ pre, p.1 ≠ n)
    (L : List (List String × Mod)) (c : Mod) :
    (L.map fun pm => (n :: pm.1, pm.2)).foldl (flatStep a) (.node id cls (pre ++ (n, c) :: post))
      = .node id cls (pre ++ (n, L.foldl (flatStep a) c) :: post) := by
  induction L generalizing c with
  | nil => simp
  | cons pm L ih =>
    obtain ⟨q, m⟩ := pm
    simp only [List.map_cons, List.foldl_cons]
    cases m with
    | node i cl ch => simpa [flatStep] using ih c
    | leaf i k cfg =>
      by_cases hs : (selected a i && eligible a k) = true
      · have e1 : flatStep a (.node id cls (pre ++ (n, c) :: post)) (n :: q, .leaf i k cfg)
            = .node id cls (pre ++ (n, c.setAt q (.leaf i k (some (twinCfg a k)))) :: post) := by
          simp only [flatStep, hs, if_true, Mod.setAt]
          rw [setAtChildren_split pre post n c q _ h]
        have e2 : flatStep a c (q, .leaf i k cfg) = c.setAt q (.leaf i k (some (twinCfg a k))) := by
          simp only [flatStep, hs, if_true]
        rw [e1, e2]; exact ih _
      · have e1 : flatStep a (.node id cls (pre ++ (n, c) :: post)) (n :: q, .leaf i k cfg)
            = .node id cls (pre ++ (n, c) :: post) := by
          simp only [flatStep, hs]; rfl
        have e2 : flatStep a c (q, .leaf i k cfg) = c := by
          simp only [flatStep, hs]; rfl
        rw [e1, e2]; exact ih _

theorem flatStep_node (a : QuantizeArgs) (cur : Mod) (p : List String) (id : Nat) (cls : String)
    (cs : List (String × Mod)) : flatStep a cur (p, .node id cls cs) = cur := rfl

mutual
theorem quantizeFlat_eq_tree (a : QuantizeArgs) : ∀ t : Mod, t.namesOk = true →
    t.named.foldl (flatStep a) t = quantizeTree a t
  | .leaf id k q, _ => by
    by_cases hs : (selected a id && eligible a k) = true
    · simp [Mod.named, flatStep, quantizeTree, hs, Mod.setAt]
    · simp [Mod.named, flatStep, quantizeTree, hs]
  | .node id cls cs, h => by
    have hc : namesOkChildren cs = true := by simpa [Mod.namesOk] using h
    have := quantizeFlat_children a id cls [] cs hc (by simp)
    simpa [Mod.named, flatStep_node, quantizeTree] using this
theorem quantizeFlat_children (a : QuantizeArgs) (id : Nat) (cls : String) :
    ∀ (pre cs : List (String × Mod)), namesOkChildren cs = true →
      (∀ p ∈ pre, ∀ c ∈ cs, p.1 ≠ c.1) →
      (namedChildren cs).foldl (flatStep a) (.node id cls (pre ++ cs))
        = .node id cls (pre ++ quantizeChildren a cs)
  | pre, [], _, _ => by simp [namedChildren, quantizeChildren]
  | pre, (n, c) :: rest, h, hd => by
    simp only [namesOkChildren, Bool.and_eq_true, Bool.not_eq_true', List.any_eq_false] at h
    obtain ⟨⟨hc, hn⟩, hr⟩ := h
    simp only [namedChildren, List.foldl_append, quantizeChildren]
    rw [foldl_flatStep_lift a id cls pre rest n (fun p hp => hd p hp (n, c) (by simp)) c.named c]
    rw [quantizeFlat_eq_tree a c hc]
    have := quantizeFlat_children a id cls (pre ++ [(n, quantizeTree a c)]) rest hr (by
      intro p hp d hdm
      rcases List.mem_append.mp hp with hp | hp
      · exact hd p hp d (by simp [hdm])
      · simp only [List.mem_singleton] at hp
        subst hp
        intro e
        have := hn d hdm
        simp at this
        exact this e.symm)
    simpa [List.append_assoc] using this
end

mutual
/-- every name `named_modules()` yields resolves (by `get_submodule`) to the module it was yielded with -/
theorem named_resolves : ∀ t : Mod, t.namesOk = true → ∀ pm ∈ t.named, t.at? pm.1 = some pm.2
  | .leaf id k q, _, pm, hm => by
    simp only [Mod.named, List.mem_singleton] at hm
    subst hm; simp [Mod.at?]
  | .node id cls cs, h, pm, hm => by
    have hc : namesOkChildren cs = true := by simpa [Mod.namesOk] using h
    simp only [Mod.named, List.mem_cons] at hm
    rcases hm with hm | hm
    · subst hm; simp [Mod.at?]
    · obtain ⟨n, q, hp, _, hr⟩ := namedChildren_resolves cs hc pm hm
      rw [hp]; simpa [Mod.at?] using hr
theorem namedChildren_resolves : ∀ cs : List (String × Mod), namesOkChildren cs = true →
    ∀ pm ∈ namedChildren cs, ∃ n q, pm.1 = n :: q ∧ n ∈ cs.map (·.1) ∧ childAt? cs n q = some pm.2
  | [], _, pm, hm => by simp [namedChildren] at hm
  | (n, c) :: rest, h, pm, hm => by
    simp only [namesOkChildren, Bool.and_eq_true, Bool.not_eq_true', List.any_eq_false] at h
    obtain ⟨⟨hc, hn⟩, hr⟩ := h
    simp only [namedChildren, List.mem_append, List.mem_map] at hm
    rcases hm with ⟨qm, hq, rfl⟩ | hm
    · refine ⟨n, qm.1, rfl, by simp, ?_⟩
      simpa [childAt?] using named_resolves c hc qm hq
    · obtain ⟨n', q, hp, hmem, hres⟩ := namedChildren_resolves rest hr pm hm
      refine ⟨n', q, hp, by simp [hmem], ?_⟩
      have hne : n ≠ n' := by
        intro e
        simp only [List.mem_map] at hmem
        obtain ⟨d, hd, hdn⟩ := hmem
        have := hn d hd
        simp at this
        exact this (by rw [hdn, e])
      simpa [childAt?, hne] using hres
end

theorem dedupFirst_nodup (l : List (List String × Mod)) (seen : List Nat)
    (hn : (l.map fun pm => pm.2.rootId).Nodup) (hs : ∀ pm ∈ l, pm.2.rootId ∉ seen) :
    dedupFirst l seen = l := by
  induction l generalizing seen with
  | nil => rfl
  | cons pm rest ih =>
    simp only [List.map_cons, List.nodup_cons] at hn
    have h1 : seen.contains pm.2.rootId = false := by
      simpa using hs pm (by simp)
    simp only [dedupFirst, h1]
    rw [ih (pm.2.rootId :: seen) hn.2 (by
      intro qm hq
      simp only [List.mem_cons, not_or]
      refine ⟨?_, hs qm (by simp [hq])⟩
      intro e
      exact hn.1 (by rw [← e]; exact List.mem_map_of_mem hq))]
    simp

end Quanto

namespace Quanto

theorem namedChildren_head_mem : ∀ (cs : List (String × Mod)) (pm : List String × Mod),
    pm ∈ namedChildren cs → ∃ n q, pm.1 = n :: q ∧ n ∈ cs.map (·.1)
  | [], pm, h => by simp [namedChildren] at h
  | (n, c) :: rest, pm, h => by
    simp only [namedChildren, List.mem_append, List.mem_map] at h
    rcases h with ⟨qm, _, rfl⟩ | h
    · exact ⟨n, qm.1, rfl, by simp⟩
    · obtain ⟨n', q, hp, hm⟩ := namedChildren_head_mem rest pm h
      exact ⟨n', q, hp, by simp [hm]⟩

mutual
/-- no dotted name is yielded twice -/
theorem named_paths_nodup : ∀ t : Mod, t.namesOk = true → (t.named.map (·.1)).Nodup
  | .leaf id k q, _ => by simp [Mod.named]
  | .node id cls cs, h => by
    have hc : namesOkChildren cs = true := by simpa [Mod.namesOk] using h
    simp only [Mod.named, List.map_cons, List.nodup_cons]
    refine ⟨?_, namedChildren_paths_nodup cs hc⟩
    intro hm
    obtain ⟨pm, hpm, he⟩ := List.mem_map.mp hm
    obtain ⟨n, q, hp, _⟩ := namedChildren_head_mem cs pm hpm
    rw [hp] at he; cases he
theorem namedChildren_paths_nodup : ∀ cs : List (String × Mod), namesOkChildren cs = true →
    ((namedChildren cs).map (·.1)).Nodup
  | [], _ => by simp [namedChildren]
  | (n, c) :: rest, h => by
    simp only [namesOkChildren, Bool.and_eq_true, Bool.not_eq_true', List.any_eq_false] at h
    obtain ⟨⟨hc, hn⟩, hr⟩ := h
    simp only [namedChildren, List.map_append, List.map_map]
    rw [List.nodup_append]
    refine ⟨?_, namedChildren_paths_nodup rest hr, ?_⟩
    · have := named_paths_nodup c hc
      have := List.Pairwise.map (S := fun a b : List String => a ≠ b) (fun q : List String => n :: q)
        (fun a b hab e => hab (by simpa using e)) this
      simpa [List.Nodup, List.map_map, Function.comp_def] using this
    · intro p hp1 p' hp2 e
      subst e
      obtain ⟨qm, _, hq⟩ := List.mem_map.mp hp1
      obtain ⟨pm, hpm, he⟩ := List.mem_map.mp hp2
      obtain ⟨n', q, hp, hmem⟩ := namedChildren_head_mem rest pm hpm
      simp only [Function.comp_def] at hq
      rw [hp, ← hq] at he
      have hnn : n' = n := by injection he
      obtain ⟨d, hd, hdn⟩ := List.mem_map.mp hmem
      have := hn d hd
      simp at this
      exact this (by rw [hdn, hnn])
end

end Quanto

/-
Helper definitions and lemmas for property C08 (`quantize()` swaps exactly the selected eligible
leaves of a module tree, at any depth, and keeps everything else).
-/
import Quanto.Module
namespace Quanto

/-! ### path access, skeleton, identities -/

mutual
/-- the sub-module reached by descending along child names (`[]` = the module itself, the first
child of that name wins, like `named_children`) -/
def Mod.at? : Mod → List String → Option Mod
  | m, [] => some m
  | .leaf _ _ _, _ :: _ => none
  | .node _ _ cs, n :: rest => childAt? cs n rest
/-- `Mod.at?` through the child called `n` of a child list -/
def childAt? : List (String × Mod) → String → List String → Option Mod
  | [], _, _ => none
  | (n', m) :: cs, n, rest => if n' = n then m.at? rest else childAt? cs n rest
end

mutual
/-- the tree with every leaf configuration erased: classes, names, order, identities -/
def Mod.skeleton : Mod → Mod
  | .leaf id k _ => .leaf id k none
  | .node id cls cs => .node id cls (skeletonChildren cs)
def skeletonChildren : List (String × Mod) → List (String × Mod)
  | [] => []
  | (n, m) :: rest => (n, m.skeleton) :: skeletonChildren rest
end

mutual
/-- identities of all modules, in pre-order (`named_modules` order) -/
def Mod.ids : Mod → List Nat
  | .leaf id _ _ => [id]
  | .node id _ cs => id :: idsChildren cs
def idsChildren : List (String × Mod) → List Nat
  | [] => []
  | (_, m) :: rest => m.ids ++ idsChildren rest
end

namespace C08

/-! ### decidable equality of trees (`Mod` is a nested inductive: no deriving handler) -/

mutual
def Mod.beq : Mod → Mod → Bool
  | .leaf i k q, .leaf i' k' q' => decide (i = i') && decide (k = k') && decide (q = q')
  | .node i c cs, .node i' c' cs' => decide (i = i') && decide (c = c') && childrenBeq cs cs'
  | _, _ => false
def childrenBeq : List (String × Mod) → List (String × Mod) → Bool
  | [], [] => true
  | (n, m) :: r, (n', m') :: r' => decide (n = n') && Mod.beq m m' && childrenBeq r r'
  | _, _ => false
end

mutual
theorem Mod.beq_iff : ∀ (a b : Mod), Mod.beq a b = true ↔ a = b
  | .leaf i k q, .leaf i' k' q' => by simp [Mod.beq, and_assoc]
  | .node i c cs, .node i' c' cs' => by simp [Mod.beq, and_assoc, childrenBeq_iff cs cs']
  | .leaf .., .node .. => by simp [Mod.beq]
  | .node .., .leaf .. => by simp [Mod.beq]
theorem childrenBeq_iff : ∀ (a b : List (String × Mod)), childrenBeq a b = true ↔ a = b
  | [], [] => by simp [childrenBeq]
  | (n, m) :: r, (n', m') :: r' => by
    simp [childrenBeq, and_assoc, Mod.beq_iff m m', childrenBeq_iff r r']
  | [], _ :: _ => by simp [childrenBeq]
  | _ :: _, [] => by simp [childrenBeq]
end

instance : DecidableEq Mod := fun a b => decidable_of_iff _ (Mod.beq_iff a b)

/-! ### `quantizeChildren` is a map over the children -/

theorem quantizeChildren_eq_map (a : QuantizeArgs) :
    ∀ cs, quantizeChildren a cs = cs.map (fun p => (p.1, quantizeTree a p.2))
  | [] => by simp [quantizeChildren]
  | (n, m) :: rest => by simp [quantizeChildren, quantizeChildren_eq_map a rest]

theorem quantizeChildren_names (a : QuantizeArgs) (cs : List (String × Mod)) :
    (quantizeChildren a cs).map (·.1) = cs.map (·.1) := by
  rw [quantizeChildren_eq_map]; simp [List.map_map, Function.comp_def]

theorem quantizeTree_leaf (a : QuantizeArgs) (id : Nat) (k : LeafKind) (q : Option QCfg) :
    quantizeTree a (.leaf id k q) =
      if selected a id && eligible a k then .leaf id k (some (twinCfg a k)) else .leaf id k q := by
  simp [quantizeTree]

theorem quantizeTree_node (a : QuantizeArgs) (id : Nat) (cls : String) (cs : List (String × Mod)) :
    quantizeTree a (.node id cls cs) = .node id cls (quantizeChildren a cs) := by
  simp [quantizeTree]

/-! ### the swap relation between a sub-module before and after `quantize()` -/

/-- what `quantize()` does to the sub-module found at a path -/
def SwapSpec (a : QuantizeArgs) (before after : Option Mod) : Prop :=
  match before with
  | some (.leaf id k q) =>
    after = some (if selected a id && eligible a k then .leaf id k (some (twinCfg a k)) else .leaf id k q)
  | some (.node id cls cs) => ∃ cs', after = some (.node id cls cs') ∧ cs'.map (·.1) = cs.map (·.1)
  | none => after = none

theorem Mod.at?_nil (m : Mod) : m.at? [] = some m := by cases m <;> simp [Mod.at?]

theorem Mod.at?_leaf_cons (id : Nat) (k : LeafKind) (q : Option QCfg) (n : String) (r : List String) :
    (Mod.leaf id k q).at? (n :: r) = none := by simp [Mod.at?]

mutual
theorem swapSpec_tree (a : QuantizeArgs) : ∀ (t : Mod) (path : List String),
    SwapSpec a (t.at? path) ((quantizeTree a t).at? path)
  | .leaf id k q, [] => by
    rw [Mod.at?_nil, Mod.at?_nil, quantizeTree_leaf]; simp [SwapSpec]
  | .node id cls cs, [] => by
    rw [Mod.at?_nil, Mod.at?_nil, quantizeTree_node]
    exact ⟨_, rfl, quantizeChildren_names a cs⟩
  | .leaf id k q, n :: r => by
    rw [Mod.at?_leaf_cons, quantizeTree_leaf]
    split <;> simp [SwapSpec, Mod.at?]
  | .node id cls cs, n :: r => by
    rw [quantizeTree_node]
    simp only [Mod.at?]
    exact swapSpec_children a cs n r
theorem swapSpec_children (a : QuantizeArgs) : ∀ (cs : List (String × Mod)) (n : String) (r : List String),
    SwapSpec a (childAt? cs n r) (childAt? (quantizeChildren a cs) n r)
  | [], n, r => by simp [quantizeChildren, childAt?, SwapSpec]
  | (n', m) :: rest, n, r => by
    simp only [quantizeChildren, childAt?]
    by_cases h : n' = n
    · rw [if_pos h, if_pos h]; exact swapSpec_tree a m r
    · rw [if_neg h, if_neg h]; exact swapSpec_children a rest n r
end

/-! ### skeleton and identities are invariant -/

mutual
theorem skeleton_quantizeTree (a : QuantizeArgs) : ∀ t : Mod, (quantizeTree a t).skeleton = t.skeleton
  | .leaf id k q => by rw [quantizeTree_leaf]; split <;> simp [Mod.skeleton]
  | .node id cls cs => by
    rw [quantizeTree_node]; simp only [Mod.skeleton]; rw [skeleton_quantizeChildren a cs]
theorem skeleton_quantizeChildren (a : QuantizeArgs) : ∀ cs : List (String × Mod),
    skeletonChildren (quantizeChildren a cs) = skeletonChildren cs
  | [] => by simp [quantizeChildren]
  | (n, m) :: rest => by
    simp only [quantizeChildren, skeletonChildren]
    rw [skeleton_quantizeTree a m, skeleton_quantizeChildren a rest]
end

mutual
theorem ids_quantizeTree (a : QuantizeArgs) : ∀ t : Mod, (quantizeTree a t).ids = t.ids
  | .leaf id k q => by rw [quantizeTree_leaf]; split <;> simp [Mod.ids]
  | .node id cls cs => by
    rw [quantizeTree_node]; simp only [Mod.ids]; rw [ids_quantizeChildren a cs]
theorem ids_quantizeChildren (a : QuantizeArgs) : ∀ cs : List (String × Mod),
    idsChildren (quantizeChildren a cs) = idsChildren cs
  | [] => by simp [quantizeChildren]
  | (n, m) :: rest => by
    simp only [quantizeChildren, idsChildren]
    rw [ids_quantizeTree a m, ids_quantizeChildren a rest]
end

/-! ### idempotence -/

mutual
theorem quantizeTree_idem (a : QuantizeArgs) : ∀ t : Mod, quantizeTree a (quantizeTree a t) = quantizeTree a t
  | .leaf id k q => by
    rw [quantizeTree_leaf]
    split
    · rename_i h; rw [quantizeTree_leaf, if_pos h]
    · rename_i h; rw [quantizeTree_leaf, if_neg h]
  | .node id cls cs => by
    rw [quantizeTree_node, quantizeTree_node, quantizeChildren_idem a cs]
theorem quantizeChildren_idem (a : QuantizeArgs) : ∀ cs : List (String × Mod),
    quantizeChildren a (quantizeChildren a cs) = quantizeChildren a cs
  | [] => by simp [quantizeChildren]
  | (n, m) :: rest => by
    simp only [quantizeChildren]
    rw [quantizeTree_idem a m, quantizeChildren_idem a rest]
end

end C08
end Quanto

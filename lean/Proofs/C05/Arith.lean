/-
C05 helpers: elementwise facts behind `neg`, `relu`, `lt`, re-quantization and the integer matmul.
-/
import Proofs.C05.Lemmas
import Proofs.Properties.C01
import Proofs.C02.Lemmas

namespace Quanto

/-- the float `relu` (the function `qbRelu` applies to the dequantized tensor on its float8 branch) -/
def reluV (v : FV) : FV :=
  match v with
  | .fin x => .fin (if x < 0 then 0 else x)
  | .ninf => .fin 0
  | w => w

namespace C05

/-! ### rounding is odd -/

theorem rnd_neg (F : Fmt) (hm : 0 ≤ F.maxFin) (q : Rat) : F.rnd (-q) = (F.rnd q).neg := by
  unfold Fmt.rnd
  simp only [rndFin_neg]
  by_cases h1 : F.rndFin q > F.maxFin
  · rw [if_neg (by linarith), if_pos (by linarith), if_pos h1]
    cases F.ieee <;> rfl
  · by_cases h2 : F.rndFin q < -F.maxFin
    · rw [if_pos (by linarith), if_neg h1, if_pos h2]
      cases F.ieee <;> rfl
    · rw [if_neg (by linarith), if_neg (by linarith), if_neg h1, if_neg h2]
      rfl

theorem rndV_neg (F : Fmt) (hm : 0 ≤ F.maxFin) (v : FV) : F.rndV v.neg = (F.rndV v).neg := by
  cases v with
  | fin q => exact rnd_neg F hm q
  | pinf => simp only [FV.neg, Fmt.rndV]; cases F.ieee <;> rfl
  | ninf => simp only [FV.neg, Fmt.rndV]; cases F.ieee <;> rfl
  | nan => rfl

theorem work_maxFin_nonneg (F : Fmt) (hF : WorkFmt F) : 0 ≤ F.maxFin := by
  linarith [work_maxFin_ge F hF]

theorem fl_neg (F : Fmt) (hF : WorkFmt F) (v : FV) : F.fl v.neg = (F.fl v).neg := by
  have h32 : 0 ≤ f32.maxFin := work_maxFin_nonneg f32 (by simp [WorkFmt])
  have hm := work_maxFin_nonneg F hF
  unfold Fmt.fl
  split
  · rw [rndV_neg f32 h32, rndV_neg F hm]
  · rw [rndV_neg F hm]

theorem sgn_neg (v : FV) : v.neg.sgn = -v.sgn := by
  cases v with
  | fin q =>
    simp only [FV.neg, FV.sgn]
    rcases lt_trichotomy q 0 with h | h | h
    · rw [if_pos (by linarith), if_neg (by linarith), if_pos h]; rfl
    · subst h; simp
    · rw [if_neg (by linarith), if_pos (by linarith), if_pos h]
  | pinf => rfl
  | ninf => rfl
  | nan => rfl

theorem ofSign_neg (s : Int) : FV.ofSign (-s) = (FV.ofSign s).neg := by
  unfold FV.ofSign
  rcases lt_trichotomy s 0 with h | h | h
  · rw [if_pos (by omega), if_neg (by omega), if_pos h]; rfl
  · subst h; rfl
  · rw [if_neg (by omega), if_pos (by omega), if_pos h]; rfl

theorem mulX_neg_right (a b : FV) : a.mulX b.neg = (a.mulX b).neg := by
  have key : ∀ a b : FV, FV.ofSign (a.sgn * b.neg.sgn) = (FV.ofSign (a.sgn * b.sgn)).neg := by
    intro a b; rw [sgn_neg, Int.mul_neg, ofSign_neg]
  cases a with
  | fin x =>
    cases b with
    | fin y => simp only [FV.mulX, FV.neg, mul_neg]
    | pinf => exact key (.fin x) .pinf
    | ninf => exact key (.fin x) .ninf
    | nan => rfl
  | pinf =>
    cases b with
    | fin y => exact key .pinf (.fin y)
    | pinf => rfl
    | ninf => rfl
    | nan => rfl
  | ninf =>
    cases b with
    | fin y => exact key .ninf (.fin y)
    | pinf => rfl
    | ninf => rfl
    | nan => rfl
  | nan => cases b <;> rfl

theorem mul_neg_right (F : Fmt) (hF : WorkFmt F) (s c : FV) : F.mul s c.neg = (F.mul s c).neg := by
  unfold Fmt.mul
  rw [mulX_neg_right, fl_neg F hF]

/-! ### `neg` on int8 codes -/

theorem negCode_int (c : Int) (h1 : -127 ≤ c) (h2 : c ≤ 127) :
    negCode (.fin (c : Rat)) = (FV.fin (c : Rat)).neg := by
  simp only [negCode, FV.neg, floor_intCast]
  rw [wrapInt8_id _ (by omega) (by omega)]
  push_cast
  rfl

/-! ### `relu` on int8 codes -/


theorem mul_fin (F : Fmt) (s c : Rat) : F.mul (.fin s) (.fin c) = F.fl (.fin (s * c)) := rfl

theorem relu_elem (F : Fmt) (hF : WorkFmt F) (s : Rat) (hs : 0 < s) (c : Rat) :
    F.mul (.fin s) (reluCode (.fin c)) = reluV (F.mul (.fin s) (.fin c)) := by
  have hM := work_maxFin_ge F hF
  simp only [reluCode, mul_fin]
  by_cases hc : c < 0
  · rw [if_pos hc, mul_zero, fl_zero F hF]
    have hz : s * c < 0 := mul_neg_of_pos_of_neg hs hc
    rcases fl_cases F hF (s * c) with h | h | h
    · rw [h.1]
      have hr := flR_le_of_rep F hF (Rep_zero F) hz.le
      simp only [reluV]
      congr 1
      split_ifs with h0
      · rfl
      · linarith
    · linarith [h.2]
    · rw [h.1]; rfl
  · rw [if_neg hc]
    have hz : 0 ≤ s * c := mul_nonneg hs.le (not_lt.1 hc)
    rcases fl_cases F hF (s * c) with h | h | h
    · rw [h.1]
      have hr := le_flR_of_rep F hF (Rep_zero F) hz
      simp only [reluV]
      rw [if_neg (by linarith)]
    · rw [h.1]; rfl
    · linarith [h.2]

/-! ### comparison -/

theorem flR_mono (F : Fmt) (hF : WorkFmt F) {a b : Rat} (h : a ≤ b) : F.flR a ≤ F.flR b := by
  have hp := work_one_le_p F hF
  unfold Fmt.flR
  split
  · exact rndFin_mono F hp (rndFin_mono f32 f32_one_le_p h)
  · exact rndFin_mono F hp h

theorem lt_float_monotone_core (F : Fmt) (hF : WorkFmt F) (s : Rat) (hs : 0 < s) (c1 c2 : Rat)
    (h : c1 ≤ c2) : ltCodes (symDeq F (.fin c2) (.fin s)) (symDeq F (.fin c1) (.fin s)) = false := by
  rw [symDeq_eq, symDeq_eq]
  have hz : s * c1 ≤ s * c2 := mul_le_mul_of_nonneg_left h hs.le
  have hM := work_maxFin_ge F hF
  rcases fl_cases F hF (s * c2) with h2 | h2 | h2 <;> rcases fl_cases F hF (s * c1) with h1 | h1 | h1 <;>
    rw [h1.1, h2.1] <;> simp only [ltCodes]
  · have := flR_mono F hF hz
    simp only [decide_eq_false_iff_not, not_lt]
    exact this

/-! ### re-quantization with a scalar scale -/

theorem requant_eq (F : Fmt) (Q : QT) (x : T FV) (scale : FV) :
    ∃ r, requant F Q x scale = .qb r ∧ r.F = F ∧ r.Q = Q ∧ r.axis = none ∧ r.size = x.shape ∧
      r.scale = ⟨[], #[scale]⟩ ∧ r.data.shape = x.shape ∧ r.data.data.size = prod x.shape ∧
      ∀ n, n < prod x.shape → r.data.get n = symCode F Q (x.get n) scale := by
  unfold requant symQuantize
  simp only [symValidate, List.length_nil, Nat.lt_irrefl, if_false, bcastShape_nil_right]
  refine ⟨_, rfl, rfl, rfl, rfl, rfl, rfl, rfl, T.size_ofFn _ _, ?_⟩
  intro n hn
  show (T.ofFn x.shape _).get n = _
  rw [T.get_ofFn _ _ _ hn, bcastSrc_self _ _ hn, bcastSrc_nil]
  rfl

/-! ### the integer matrix product -/

theorem foldl_add_sum (g : Nat → Int) (l : List Nat) (a : Int) :
    l.foldl (fun acc k => acc + g k) a = a + (l.map g).sum := by
  induction l generalizing a with
  | nil => simp
  | cons x xs ih => simp only [List.foldl_cons, List.map_cons, List.sum_cons]; rw [ih]; ring

theorem foldl_congr_mem {β : Type} (f g : β → Nat → β) (l : List Nat) (a : β)
    (h : ∀ acc k, k ∈ l → f acc k = g acc k) : l.foldl f a = l.foldl g a := by
  induction l generalizing a with
  | nil => rfl
  | cons x xs ih =>
    simp only [List.foldl_cons]
    rw [h a x (by simp)]
    exact ih _ (fun acc k hk => h acc k (by simp [hk]))

theorem abs_sum_le (g : Nat → Int) (l : List Nat) (B : Int) (h : ∀ k ∈ l, |g k| ≤ B) :
    |(l.map g).sum| ≤ l.length * B := by
  induction l with
  | nil => simp
  | cons x xs ih =>
    simp only [List.map_cons, List.sum_cons, List.length_cons]
    have h1 := h x (by simp)
    have h2 := ih (fun k hk => h k (by simp [hk]))
    have := abs_add_le (g x) (xs.map g).sum
    push_cast
    linarith

theorem intMm_eq (a b : T FV) (n m p : Nat) (ha : a.shape = [n, m]) (hb : b.shape = [m, p])
    (ca cb : Nat → Int) (hca : ∀ idx, idx < n * m → a.get idx = .fin (ca idx))
    (hcb : ∀ idx, idx < m * p → b.get idx = .fin (cb idx)) :
    ∃ o, intMm a b = some o ∧ o.shape = [n, p] ∧ o.data.size = n * p ∧
      ∀ i j, i < n → j < p →
        o.get (i * p + j) = ((List.range m).map fun k => ca (i * m + k) * cb (k * p + j)).sum := by
  unfold intMm
  rw [ha, hb]
  simp only [ne_eq, not_true_eq_false, if_false]
  refine ⟨_, rfl, rfl, by rw [T.size_ofFn]; simp [prod], ?_⟩
  intro i j hi hj
  have hidx : i * p + j < prod [n, p] := by
    simp only [prod, Nat.mul_one]
    calc i * p + j < i * p + p := by omega
      _ = (i + 1) * p := by ring
      _ ≤ n * p := Nat.mul_le_mul_right _ (by omega)
  rw [T.get_ofFn _ _ _ hidx]
  simp only [idx_div _ _ _ hj, idx_mod _ _ _ hj]
  rw [foldl_congr_mem _ (fun acc k => acc + ca (i * m + k) * cb (k * p + j))]
  · rw [foldl_add_sum]; simp
  · intro acc k hk
    have hk' : k < m := List.mem_range.1 hk
    have h1 : i * m + k < n * m := by
      calc i * m + k < i * m + m := by omega
        _ = (i + 1) * m := by ring
        _ ≤ n * m := Nat.mul_le_mul_right _ (by omega)
    have h2 : k * p + j < m * p := by
      calc k * p + j < k * p + p := by omega
        _ = (k + 1) * p := by ring
        _ ≤ m * p := Nat.mul_le_mul_right _ (by omega)
    rw [hca _ h1, hcb _ h2]
    simp only [floor_intCast]

end C05
end Quanto

/-
C05 helpers: rescaling a quantized tensor by a scalar (`mul` / `div` by a Python number) multiplies
the scale first, the float program multiplies the dequantized values; both are two roundings away
from the exact value.
-/
import Proofs.C05.Arith

namespace Quanto.C05

/-! ### pure inequalities -/

/-- two successive roundings: `w ≈ x`, then `v ≈ w·m` -/
theorem two_step (u x m w v E1 E2 : Rat) (hu0 : 0 ≤ u)
    (h1 : |w - x| ≤ u * |x| + E1) (h2 : |v - w * m| ≤ u * |w * m| + E2) :
    |v - x * m| ≤ (2 * u + u ^ 2) * |x * m| + (1 + u) * |m| * E1 + E2 := by
  have hm := abs_nonneg m
  have hx := abs_nonneg x
  have t1 : |v - x * m| ≤ |v - w * m| + |w - x| * |m| := by
    have := abs_sub_le v (w * m) (x * m)
    rwa [← sub_mul, abs_mul] at this
  have t2 : |w| ≤ |x| + |w - x| := by
    have := abs_add_le x (w - x); rwa [add_sub_cancel] at this
  rw [abs_mul] at h2
  rw [abs_mul]
  have t3 : |w - x| * |m| ≤ (u * |x| + E1) * |m| := mul_le_mul_of_nonneg_right h1 hm
  have t4 : |w| * |m| ≤ (|x| + |w - x|) * |m| := mul_le_mul_of_nonneg_right t2 hm
  have t5 : u * (|w| * |m|) ≤ u * ((|x| + |w - x|) * |m|) := mul_le_mul_of_nonneg_left t4 hu0
  have t6 : u * (|w - x| * |m|) ≤ u * ((u * |x| + E1) * |m|) := mul_le_mul_of_nonneg_left t3 hu0
  nlinarith

/-- both results are close to the exact value `z`: they are close to each other, relative to `rq` -/
theorem rescale_core (u z yq rq A B : Rat) (hu0 : 0 ≤ u) (hu : u ≤ 1 / 250)
    (hy : |yq - z| ≤ (2 * u + u ^ 2) * |z| + A) (hr : |rq - z| ≤ (2 * u + u ^ 2) * |z| + B) :
    |yq - rq| ≤ 5 * u * |rq| + A + (1 + 5 * u) * B := by
  have hz := abs_nonneg z
  have t1 : |z| ≤ |rq| + |rq - z| := by
    have := abs_add_le rq (z - rq); rw [add_sub_cancel] at this
    rwa [abs_sub_comm z rq] at this
  have t2 : |yq - rq| ≤ |yq - z| + |rq - z| := by
    have := abs_sub_le yq z rq; rwa [abs_sub_comm z rq] at this
  have h1 : (1 - 2 * u - u ^ 2) * |z| ≤ |rq| + B := by nlinarith
  have h2 : 0 ≤ u * (1 - 12 * u - 5 * u ^ 2) := mul_nonneg hu0 (by nlinarith)
  have h3 : 0 ≤ u * (1 - 12 * u - 5 * u ^ 2) * |z| := mul_nonneg h2 hz
  have h4 : 5 * u * ((1 - 2 * u - u ^ 2) * |z|) ≤ 5 * u * (|rq| + B) :=
    mul_le_mul_of_nonneg_left h1 (by linarith)
  nlinarith

/-- the four roundings of the two programs -/
theorem rescale_pure (u η κ s c a b yq rq Ey Er : Rat) (hu0 : 0 ≤ u) (hu : u ≤ 1 / 250)
    (h1 : |a - κ * s| ≤ u * |κ * s| + η) (h2 : |yq - a * c| ≤ u * |a * c| + Ey)
    (h3 : |b - s * c| ≤ u * |s * c| + Er) (h4 : |rq - b * κ| ≤ u * |b * κ| + η) :
    |yq - rq| ≤ 5 * u * |rq| + ((1 + u) * |c| * η + Ey) + (1 + 5 * u) * ((1 + u) * |κ| * Er + η) := by
  have y := two_step u (κ * s) c a yq η Ey hu0 h1 h2
  have r := two_step u (s * c) κ b rq Er η hu0 h3 h4
  have e : s * c * κ = κ * s * c := by ring
  rw [e] at r
  have := rescale_core u (κ * s * c) yq rq ((1 + u) * |c| * η + Ey) ((1 + u) * |κ| * Er + η) hu0 hu
    (by linarith) (by linarith)
  linarith

/-! ### finite results come from finite operands -/

theorem fl_nan_work (F : Fmt) (hF : WorkFmt F) : F.fl .nan = .nan := by
  rcases hF.cases with rfl | rfl | rfl <;> rfl

theorem fl_fin_inv (F : Fmt) (hF : WorkFmt F) (v : FV) (y : Rat) (h : F.fl v = .fin y) :
    ∃ z, v = .fin z := by
  cases v with
  | fin z => exact ⟨z, rfl⟩
  | pinf => rw [fl_pinf_work F hF] at h; cases h
  | ninf => rw [fl_ninf_work F hF] at h; cases h
  | nan => rw [fl_nan_work F hF] at h; cases h

theorem ofSign_ne_fin (s : Int) (z : Rat) : FV.ofSign s ≠ .fin z := by
  unfold FV.ofSign
  split_ifs <;> simp

theorem mulX_fin_inv (a b : FV) (z : Rat) (h : a.mulX b = .fin z) :
    ∃ x y, a = .fin x ∧ b = .fin y := by
  cases a <;> cases b <;> simp only [FV.mulX] at h <;>
    first
      | exact ⟨_, _, rfl, rfl⟩
      | exact absurd h (ofSign_ne_fin _ _)
      | cases h

theorem divX_fin_inv (a : FV) (k z : Rat) (h : a.divX (.fin k) = .fin z) :
    ∃ x, a = .fin x := by
  cases a with
  | fin x => exact ⟨x, rfl⟩
  | pinf =>
    simp only [FV.divX] at h
    split_ifs at h
    exact absurd h (ofSign_ne_fin _ _)
  | ninf =>
    simp only [FV.divX] at h
    split_ifs at h
    exact absurd h (ofSign_ne_fin _ _)
  | nan => simp only [FV.divX] at h; cases h

theorem mul_fin_inv (F : Fmt) (hF : WorkFmt F) (a b : FV) (y : Rat) (h : F.mul a b = .fin y) :
    ∃ x z, a = .fin x ∧ b = .fin z := by
  unfold Fmt.mul at h
  obtain ⟨w, hw⟩ := fl_fin_inv F hF _ y h
  exact mulX_fin_inv a b w hw

theorem div_fin_inv (F : Fmt) (hF : WorkFmt F) (a : FV) (k y : Rat)
    (h : F.div a (.fin k) = .fin y) : ∃ x, a = .fin x := by
  unfold Fmt.div at h
  obtain ⟨w, hw⟩ := fl_fin_inv F hF _ y h
  exact divX_fin_inv a k w hw

/-! ### representable × integer, any sign -/

theorem mul_int_err_signed (F : Fmt) (hF : WorkFmt F) (a : Rat) (hrep : F.Rep a) (n : Int) (y : Rat)
    (hy : F.fl (.fin (a * n)) = .fin y) : |y - a * n| ≤ F.u * |a * n| + 0 := by
  rw [add_zero]
  rcases lt_trichotomy a 0 with ha | ha | ha
  · have e : a * (n : Rat) = (-a) * ((-n : Int) : Rat) := by push_cast; ring
    rw [e] at hy ⊢
    have := mul_int_err F hF (-a) (Rep_neg hrep) (by linarith) (-n) y hy
    rwa [abs_mul, abs_of_pos (by linarith : 0 < -a)]
  · subst ha
    rw [zero_mul] at hy ⊢
    rw [fl_zero F hF] at hy
    rw [← FV.fin.inj hy]; simp
  · have := mul_int_err F hF a hrep ha n y hy
    rwa [abs_mul, abs_of_pos ha]

/-! ### the two programs, float level -/

/-- the rounding facts of `fl(fl(x)·c)` -/
theorem fin_of_fl (F : Fmt) (hF : WorkFmt F) (z r : Rat) (h : F.fl (.fin z) = .fin r) :
    F.Rep r ∧ |r - z| ≤ F.u * |z| + F.eta := by
  obtain ⟨rfl, -⟩ := fl_fin F hF z r h
  exact ⟨flR_rep F hF z, fl_err F hF z _ h⟩

/-- multiplication, general codes: constants `(1+u)|c| + 1` and `(1+5u)((1+u)|k| + 1)` -/
theorem rescale_mul_general (F : Fmt) (hF : WorkFmt F) (k s c yq rq : Rat)
    (hy : F.mul (F.mul (.fin k) (.fin s)) (.fin c) = .fin yq)
    (hr : F.mul (.fin k) (F.mul (.fin s) (.fin c)) = .fin rq) :
    |yq - rq| ≤ 5 * F.u * |rq| + ((1 + F.u) * |c| * F.eta + F.eta) +
      (1 + 5 * F.u) * ((1 + F.u) * |k| * F.eta + F.eta) := by
  obtain ⟨a, _, ha, -⟩ := mul_fin_inv F hF _ _ _ hy
  obtain ⟨_, b, -, hb⟩ := mul_fin_inv F hF _ _ _ hr
  rw [ha, mul_fin] at hy
  rw [hb, mul_fin] at hr
  rw [mul_fin] at ha hb
  have h1 := (fin_of_fl F hF _ _ ha).2
  have h2 := (fin_of_fl F hF _ _ hy).2
  have h3 := (fin_of_fl F hF _ _ hb).2
  have h4 := (fin_of_fl F hF _ _ hr).2
  rw [mul_comm k b] at h4
  exact rescale_pure F.u F.eta k s c a b yq rq F.eta F.eta F.u_nonneg (u_eta_work F hF).1
    h1 h2 h3 h4

/-- multiplication, integer codes and a representable scale -/
theorem rescale_mul_int (F : Fmt) (hF : WorkFmt F) (k s : Rat) (hs : F.Rep s) (n : Int) (yq rq : Rat)
    (hy : F.mul (F.mul (.fin k) (.fin s)) (.fin n) = .fin yq)
    (hr : F.mul (.fin k) (F.mul (.fin s) (.fin n)) = .fin rq) :
    |yq - rq| ≤ 5 * F.u * |rq| + ((1 + F.u) * |(n : Rat)| * F.eta + 0) +
      (1 + 5 * F.u) * ((1 + F.u) * |k| * 0 + F.eta) := by
  obtain ⟨a, _, ha, -⟩ := mul_fin_inv F hF _ _ _ hy
  obtain ⟨_, b, -, hb⟩ := mul_fin_inv F hF _ _ _ hr
  rw [ha, mul_fin] at hy
  rw [hb, mul_fin] at hr
  rw [mul_fin] at ha hb
  obtain ⟨hra, h1⟩ := fin_of_fl F hF _ _ ha
  have h2 := mul_int_err_signed F hF a hra n yq hy
  have h3 := mul_int_err_signed F hF s hs n b hb
  have h4 := (fin_of_fl F hF _ _ hr).2
  rw [mul_comm k b] at h4
  exact rescale_pure F.u F.eta k s n a b yq rq 0 0 F.u_nonneg (u_eta_work F hF).1
    h1 h2 h3 h4

/-- division, general codes -/
theorem rescale_div_general (F : Fmt) (hF : WorkFmt F) (k s c yq rq : Rat) (hk : k ≠ 0)
    (hy : F.mul (F.div (.fin s) (.fin k)) (.fin c) = .fin yq)
    (hr : F.div (F.mul (.fin s) (.fin c)) (.fin k) = .fin rq) :
    |yq - rq| ≤ 5 * F.u * |rq| + ((1 + F.u) * |c| * F.eta + F.eta) +
      (1 + 5 * F.u) * ((1 + F.u) * |k⁻¹| * F.eta + F.eta) := by
  obtain ⟨a, _, ha, -⟩ := mul_fin_inv F hF _ _ _ hy
  obtain ⟨b, hb⟩ := div_fin_inv F hF _ _ _ hr
  rw [ha, mul_fin] at hy
  rw [hb, div_fin F _ _ hk] at hr
  rw [div_fin F _ _ hk] at ha
  rw [mul_fin] at hb
  have h1 := (fin_of_fl F hF _ _ ha).2
  have h2 := (fin_of_fl F hF _ _ hy).2
  have h3 := (fin_of_fl F hF _ _ hb).2
  have h4 := (fin_of_fl F hF _ _ hr).2
  rw [div_eq_mul_inv] at h4
  rw [div_eq_mul_inv, mul_comm s k⁻¹] at h1
  exact rescale_pure F.u F.eta k⁻¹ s c a b yq rq F.eta F.eta F.u_nonneg (u_eta_work F hF).1
    h1 h2 h3 h4

/-- division, integer codes and a representable scale -/
theorem rescale_div_int (F : Fmt) (hF : WorkFmt F) (k s : Rat) (hk : k ≠ 0) (hs : F.Rep s) (n : Int)
    (yq rq : Rat)
    (hy : F.mul (F.div (.fin s) (.fin k)) (.fin n) = .fin yq)
    (hr : F.div (F.mul (.fin s) (.fin n)) (.fin k) = .fin rq) :
    |yq - rq| ≤ 5 * F.u * |rq| + ((1 + F.u) * |(n : Rat)| * F.eta + 0) +
      (1 + 5 * F.u) * ((1 + F.u) * |k⁻¹| * 0 + F.eta) := by
  obtain ⟨a, _, ha, -⟩ := mul_fin_inv F hF _ _ _ hy
  obtain ⟨b, hb⟩ := div_fin_inv F hF _ _ _ hr
  rw [ha, mul_fin] at hy
  rw [hb, div_fin F _ _ hk] at hr
  rw [div_fin F _ _ hk] at ha
  rw [mul_fin] at hb
  obtain ⟨hra, h1⟩ := fin_of_fl F hF _ _ ha
  have h2 := mul_int_err_signed F hF a hra n yq hy
  have h3 := mul_int_err_signed F hF s hs n b hb
  have h4 := (fin_of_fl F hF _ _ hr).2
  rw [div_eq_mul_inv] at h4
  rw [div_eq_mul_inv, mul_comm s k⁻¹] at h1
  exact rescale_pure F.u F.eta k⁻¹ s n a b yq rq 0 0 F.u_nonneg (u_eta_work F hF).1
    h1 h2 h3 h4

/-! ### from the inequality to the executable predicate -/

theorem specRescale_of_le (F : Fmt) (qm k yq rq : Rat)
    (h : |yq - rq| ≤ 5 * F.u * |rq| + (qm + 4 + |k| + (if |k| = 0 then 0 else 1 / |k|)) * F.eta) :
    specRescale F qm k (.fin yq) (.fin rq) = true := by
  simp only [specRescale, specRescale2, rabs_eq, decide_eq_true_eq]
  exact h

/-- integer codes: the allowance of `specRescale` covers the bound -/
theorem int_allowance (u η qm c K : Rat) (hu : u ≤ 1 / 250) (hη : 0 ≤ η)
    (hc : |c| ≤ qm) (hqm : qm ≤ 500) (hK : 0 ≤ K) :
    ((1 + u) * |c| * η + 0) + (1 + 5 * u) * (0 + η) ≤ (qm + 4 + K) * η := by
  have h1 : u * |c| ≤ 1 / 250 * 500 :=
    mul_le_mul hu (hc.trans hqm) (abs_nonneg _) (by norm_num)
  have h2 : (1 + u) * |c| + (1 + 5 * u) ≤ qm + 4 + K := by nlinarith
  have := mul_le_mul_of_nonneg_right h2 hη
  nlinarith

end Quanto.C05

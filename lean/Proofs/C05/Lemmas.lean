/-
Helper lemmas for property C05 (operations on quantized tensors agree with the same operations on
the dequantized values): per-tensor dequantization as an elementwise map, commutation of the
quantized movement / cat / stack / split implementations, programs of movement operations.
-/
import Quanto.Spec.C05
import Proofs.Move.Cat

namespace Quanto

/-! ### per-tensor values -/

/-- a per-tensor quantized value whose data has the size announced by its shape and whose scale
is a 0-dimensional tensor -/
structure QB.PerTensor (q : QB) : Prop where
  axis : q.axis = none
  sshape : q.scale.shape = []
  ssize : q.scale.data.size = 1
  wf : q.data.data.size = prod q.data.shape

/-- the elementwise dequantizer of a per-tensor value -/
def QB.deqFn (q : QB) : FV → FV := fun c => symDeq q.F c (q.scale.get 0)

namespace C05

/-! ### composing elementwise maps -/

theorem T.map_map {α β γ : Type} (g : β → γ) (f : α → β) (t : T α) :
    (t.map f).map g = t.map (fun v => g (f v)) := by
  simp only [T.map, Array.map_map]
  rfl

theorem T.map_congr {α β : Type} (f g : α → β) (t : T α) (h : ∀ v ∈ t.data, f v = g v) :
    t.map f = t.map g := by
  unfold T.map
  rw [Array.map_congr_left h]

/-! ### broadcasting against a scalar -/

theorem bcastDims_ones_left : ∀ s : List Nat, bcastDims (List.replicate s.length 1) s = some s
  | [] => rfl
  | b :: bs => by
      simp only [List.length_cons, List.replicate_succ, bcastDims, bcastDims_ones_left bs]
      split_ifs with h
      · rw [h]
      · rfl

theorem bcastDims_ones_right : ∀ s : List Nat, bcastDims s (List.replicate s.length 1) = some s
  | [] => rfl
  | b :: bs => by
      simp only [List.length_cons, List.replicate_succ, bcastDims, bcastDims_ones_right bs]
      split_ifs <;> rfl

theorem bcastShape_nil_left (s : List Nat) : bcastShape [] s = some s := by
  simp [bcastShape, padShape, bcastDims_ones_left]

theorem bcastShape_nil_right (s : List Nat) : bcastShape s [] = some s := by
  simp [bcastShape, padShape, bcastDims_ones_right]

theorem bcastIdx_self : ∀ (s i : List Nat), validIdx s i → bcastIdx s i = i
  | [], [], _ => rfl
  | [], _ :: _, h => by simp [validIdx] at h
  | _ :: _, [], h => by simp [validIdx] at h
  | d :: ds, j :: js, h => by
      simp only [validIdx] at h
      simp only [bcastIdx, bcastIdx_self ds js h.2]
      split
      · congr 1; omega
      · rfl

theorem bcastSrc_self (s : List Nat) (n : Nat) (hn : n < prod s) : bcastSrc s s n = n := by
  unfold bcastSrc
  simp only [padShape, Nat.sub_self, List.replicate_zero, List.nil_append]
  rw [bcastIdx_self _ _ (valid_unflat s n hn), flat_unflat s n hn]

theorem flat_ones : ∀ (k : Nat) (i : List Nat), flat (List.replicate k 1) (bcastIdx (List.replicate k 1) i) = 0
  | 0, _ => by simp [flat, bcastIdx]
  | k + 1, [] => by simp [List.replicate_succ, bcastIdx, flat]
  | k + 1, j :: js => by
      simp only [List.replicate_succ, bcastIdx, flat, if_true, Nat.zero_mul, Nat.zero_add]
      exact flat_ones k js

theorem bcastSrc_nil (s : List Nat) (n : Nat) : bcastSrc s [] n = 0 := by
  unfold bcastSrc
  simp only [padShape, List.length_nil, Nat.sub_zero, List.append_nil]
  exact flat_ones _ _

end C05
open C05

/-- **B.** a per-tensor value dequantizes elementwise -/
theorem deq_per_tensor (q : QB) (hq : q.PerTensor) : q.deq = .ok (q.data.map q.deqFn) := by
  unfold QB.deq
  rw [hq.sshape, bcastShape_nil_left]
  simp only []
  congr 1
  conv_rhs => rw [← T.eq_ofFn_get q.data hq.wf]
  rw [T.map_ofFn]
  apply T.ofFn_congr
  intro n hn
  rw [bcastSrc_self _ _ hn, bcastSrc_nil]
  rfl

/-! ### movement operations -/

namespace C05

theorem move_commutes_core (q : QB) (hq : q.PerTensor) (m : MoveOp) (d : T FV) (hd : q.deq = .ok d) :
    (∀ d', m.apply d = some d' → ∃ r, qbMove m q = .qb r ∧ r.PerTensor ∧ r.deq = .ok d' ∧
        r.size = d'.shape ∧ r.F = q.F ∧ r.Q = q.Q ∧ r.scale = q.scale) ∧
      (m.apply d = none → qbMove m q = .fail .runtimeError) := by
  rw [deq_per_tensor q hq] at hd
  injection hd with hd
  subst hd
  rw [← move_map m q.data q.deqFn hq.wf]
  have hpt : q.isPerTensor = true := by simp [QB.isPerTensor, hq.axis]
  unfold qbMove
  rw [if_pos hpt]
  cases he : m.apply q.data with
  | none => exact ⟨fun d' h => (by cases h), fun _ => rfl⟩
  | some e =>
    refine ⟨fun d' h => ?_, fun h => (by cases h)⟩
    simp only [Option.map_some, Option.some.injEq] at h
    subst h
    have hr : QB.PerTensor { q with axis := none, size := e.shape, data := e } :=
      ⟨rfl, hq.sshape, hq.ssize, move_wf m q.data e hq.wf he⟩
    exact ⟨_, rfl, hr, deq_per_tensor _ hr, rfl, rfl, rfl, rfl⟩

end C05
open C05

/-! ### programs of movement operations -/

/-- the float program: apply the operations in turn -/
def runF : List MoveOp → T FV → Option (T FV)
  | [], t => some t
  | m :: ms, t =>
    match m.apply t with
    | none => none
    | some t' => runF ms t'

/-- the quantized program: `qbMove` on quantized values, the plain operation on plain tensors,
errors propagate -/
def runQ : List MoveOp → Val → Val
  | [], v => v
  | m :: ms, v =>
    match v with
    | .qb q => runQ ms (qbMove m q)
    | .plain F t => runQ ms (optToVal F (m.apply t))
    | .fail e => .fail e
    | _ => .fail .typeError

namespace C05

theorem deq_shape (q : QB) (hq : q.PerTensor) (d : T FV) (hd : q.deq = .ok d) :
    d.shape = q.data.shape := by
  rw [deq_per_tensor q hq] at hd
  injection hd with hd
  subst hd
  rfl

theorem programs_move_core (prog : List MoveOp) : ∀ (q : QB), q.PerTensor → ∀ d d', q.deq = .ok d →
    runF prog d = some d' →
    ∃ r, runQ prog (.qb q) = .qb r ∧ r.PerTensor ∧ r.deq = .ok d' ∧
      (q.size = q.data.shape → r.size = d'.shape) := by
  induction prog with
  | nil =>
    intro q hq d d' hd h
    simp only [runF, Option.some.injEq] at h
    subst h
    exact ⟨q, rfl, hq, hd, fun h => by rw [h, deq_shape q hq d hd]⟩
  | cons m ms ih =>
    intro q hq d d' hd h
    simp only [runF] at h
    cases hm : m.apply d with
    | none => rw [hm] at h; cases h
    | some t' =>
      rw [hm] at h
      obtain ⟨r, hr1, hr2, hr3, hr4, -⟩ := (move_commutes_core q hq m d hd).1 t' hm
      obtain ⟨r', h1, h2, h3, h4⟩ := ih r hr2 t' d' hr3 h
      refine ⟨r', by simp only [runQ, hr1, h1], h2, h3, fun _ => h4 ?_⟩
      rw [hr4, deq_shape r hr2 t' hr3]

end C05

/-! ### a concrete value for the non-vacuity examples -/

/-- float16 / qint8 per-tensor value: codes `[[1, -2, 3], [4, 5, -6]]`, scale `1/4` -/
def exQ : QB :=
  ⟨f16, .qint8, none, [2, 3],
    ⟨[2, 3], #[.fin 1, .fin (-2), .fin 3, .fin 4, .fin 5, .fin (-6)]⟩, ⟨[], #[.fin (1 / 4)]⟩⟩

theorem exQ_perTensor : exQ.PerTensor := ⟨rfl, rfl, rfl, rfl⟩

end Quanto

/-
C05 helpers: `cat`, `stack`, `split` on per-tensor quantized values.
-/
import Proofs.C05.Lemmas

namespace Quanto.C05

theorem scaleEqual_eq (a b : T FV) (h : scaleEqual a b = true) : a = b := by
  simp only [scaleEqual, Bool.and_eq_true, beq_iff_eq] at h
  exact T.ext' h.1 (Array.toList_inj.1 h.2)

theorem qt_beq_self (Q : QT) : (Q == Q) = true := by simp

theorem deqAll_pair (a b : QB) (da db : T FV) (ha : a.deq = .ok da) (hb : b.deq = .ok db) :
    deqAll [.qb a, .qb b] = .ok [(a.F, da), (b.F, db)] := by
  simp only [deqAll, List.mapM_cons, List.mapM_nil, ha, hb]
  rfl

/-- the quantized path of `cat` -/
theorem cat_commutes_core (a b : QB) (ha : a.PerTensor) (hb : b.PerTensor) (hF : a.F = b.F)
    (hQ : a.Q = .qint8) (hQb : b.Q = .qint8) (hs : scaleEqual a.scale b.scale = true)
    (da db : T FV) (hda : a.deq = .ok da) (hdb : b.deq = .ok db) (dim : Int) :
    (∀ d', T.cat? [da, db] dim = some d' →
      ∃ r, qbCat [.qb a, .qb b] dim = .qb r ∧ r.PerTensor ∧ r.deq = .ok d' ∧ r.size = d'.shape) ∧
    (T.cat? [da, db] dim = none → qbCat [.qb a, .qb b] dim = .fail .runtimeError) := by
  have hsc := scaleEqual_eq _ _ hs
  rw [deq_per_tensor a ha] at hda
  rw [deq_per_tensor b hb] at hdb
  injection hda with hda
  injection hdb with hdb
  have hfn : b.deqFn = a.deqFn := by unfold QB.deqFn; rw [hF, hsc]
  rw [hfn] at hdb
  subst hda hdb
  have hpath : (catQuantizedPath a b && !a.Q.isFloat) = true := by
    simp [catQuantizedPath, QB.isPerTensor, ha.axis, hb.axis, hs, hQ, hQb, QT.isFloat]
  have hmap := T.cat?_map [a.data, b.data] a.deqFn
    (by intro t ht; simp only [List.mem_cons, List.not_mem_nil, or_false] at ht
        rcases ht with rfl | rfl
        · exact ha.wf
        · exact hb.wf) dim
  simp only [List.map_cons, List.map_nil] at hmap
  rw [← hmap]
  simp only [qbCat]
  rw [if_pos hpath]
  cases he : T.cat? [a.data, b.data] dim with
  | none => exact ⟨fun d' h => (by cases h), fun _ => rfl⟩
  | some e =>
    refine ⟨fun d' h => ?_, fun h => (by cases h)⟩
    simp only [Option.map_some, Option.some.injEq] at h
    subst h
    have hr : QB.PerTensor { a with size := e.shape, data := e } :=
      ⟨ha.axis, ha.sshape, ha.ssize, T.cat?_wf _ _ _ he⟩
    exact ⟨_, rfl, hr, deq_per_tensor _ hr, rfl⟩

/-- the quantized path of `stack` (repaired fallback or not: the quantized path is the same) -/
theorem stack_commutes_core (fixed : Bool) (a b : QB) (ha : a.PerTensor) (hb : b.PerTensor)
    (hF : a.F = b.F) (hQ : a.Q = b.Q) (hs : scaleEqual a.scale b.scale = true)
    (da db : T FV) (hda : a.deq = .ok da) (hdb : b.deq = .ok db) (dim : Int) :
    (∀ d', T.stack? [da, db] dim = some d' →
      ∃ r, qbStack fixed [.qb a, .qb b] dim = .qb r ∧ r.PerTensor ∧ r.deq = .ok d' ∧
        r.size = d'.shape) ∧
    (T.stack? [da, db] dim = none → qbStack fixed [.qb a, .qb b] dim = .fail .runtimeError) := by
  have hsc := scaleEqual_eq _ _ hs
  rw [deq_per_tensor a ha] at hda
  rw [deq_per_tensor b hb] at hdb
  injection hda with hda
  injection hdb with hdb
  have hfn : b.deqFn = a.deqFn := by unfold QB.deqFn; rw [hF, hsc]
  rw [hfn] at hdb
  subst hda hdb
  have hpath : catQuantizedPath a b = true := by
    simp [catQuantizedPath, QB.isPerTensor, ha.axis, hb.axis, hs, hQ]
  have hmap := T.stack?_map [a.data, b.data] a.deqFn
    (by intro t ht; simp only [List.mem_cons, List.not_mem_nil, or_false] at ht
        rcases ht with rfl | rfl
        · exact ha.wf
        · exact hb.wf) dim
  simp only [List.map_cons, List.map_nil] at hmap
  rw [← hmap]
  simp only [qbStack]
  rw [if_pos hpath]
  cases he : T.stack? [a.data, b.data] dim with
  | none => exact ⟨fun d' h => (by cases h), fun _ => rfl⟩
  | some e =>
    refine ⟨fun d' h => ?_, fun h => (by cases h)⟩
    simp only [Option.map_some, Option.some.injEq] at h
    subst h
    have hr : QB.PerTensor { a with size := e.shape, data := e } :=
      ⟨ha.axis, ha.sshape, ha.ssize, T.stack?_wf _ _ _ he⟩
    exact ⟨_, rfl, hr, deq_per_tensor _ hr, rfl⟩

/-- `split` on a per-tensor value: chunk by chunk -/
theorem split_commutes_core (q : QB) (hq : q.PerTensor) (d : T FV) (hd : q.deq = .ok d) (sz : Nat)
    (dim : Int) :
    (∀ ds, d.split? sz dim = some ds →
      ∃ rs : List QB, qbSplit true q sz dim = .listV (rs.map Val.qb) ∧
        rs.map QB.deq = ds.map Except.ok ∧ rs.map QB.size = ds.map T.shape ∧
        (∀ r ∈ rs, r.PerTensor)) ∧
    (d.split? sz dim = none → qbSplit true q sz dim = .fail .runtimeError) := by
  rw [deq_per_tensor q hq] at hd
  injection hd with hd
  subst hd
  rw [← T.split?_map q.data q.deqFn hq.wf]
  have hpt : q.isPerTensor = true := by simp [QB.isPerTensor, hq.axis]
  unfold qbSplit
  rw [if_pos hpt]
  cases he : q.data.split? sz dim with
  | none => exact ⟨fun d' h => (by cases h), fun _ => rfl⟩
  | some cs =>
    refine ⟨fun ds h => ?_, fun h => (by cases h)⟩
    simp only [Option.map_some, Option.some.injEq] at h
    subst h
    have hwf := T.split?_wf q.data hq.wf sz dim cs he
    have hpt' : ∀ c ∈ cs, QB.PerTensor { q with size := c.shape, data := c } :=
      fun c hc => ⟨hq.axis, hq.sshape, hq.ssize, hwf c hc⟩
    refine ⟨cs.map fun c => { q with size := c.shape, data := c }, ?_, ?_, ?_, ?_⟩
    · simp only [List.map_map, if_true]; rfl
    · rw [List.map_map, List.map_map]
      apply List.map_congr_left
      intro c hc
      exact deq_per_tensor _ (hpt' c hc)
    · rw [List.map_map, List.map_map]; rfl
    · intro r hr
      obtain ⟨c, hc, rfl⟩ := List.mem_map.1 hr
      exact hpt' c hc

/-- the fallback of `cat`: dequantize, then concatenate -/
theorem cat_fallback_core (a b : QB) (da db : T FV) (hda : a.deq = .ok da) (hdb : b.deq = .ok db)
    (hp : (catQuantizedPath a b && !a.Q.isFloat) = false) (dim : Int) :
    qbCat [.qb a, .qb b] dim = optToVal a.F (T.cat? [da, db] dim) := by
  simp only [qbCat]
  rw [hp]
  simp only [Bool.false_eq_true, if_false, deqAll_pair a b da db hda hdb, List.map_cons, List.map_nil]

theorem stack_fallback_core (a b : QB) (da db : T FV) (hda : a.deq = .ok da) (hdb : b.deq = .ok db)
    (hp : catQuantizedPath a b = false) (dim : Int) :
    qbStack true [.qb a, .qb b] dim = optToVal a.F (T.stack? [da, db] dim) := by
  simp only [qbStack]
  rw [hp]
  simp only [Bool.false_eq_true, if_false, Bool.not_true, deqAll_pair a b da db hda hdb,
    List.map_cons, List.map_nil]

end Quanto.C05

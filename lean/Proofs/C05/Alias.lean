import Quanto.Alias
namespace Quanto

theorem set_get_ne (h : Heap) (c v i : Nat) (hne : i ≠ c) : (h.set c v) i = h i := by
  simp [Heap.set, hne]

theorem set_get_eq (h : Heap) (c v : Nat) : (h.set c v) c = v := by
  simp [Heap.set]

/-- a tensor that shares no cell with the destination is not affected -/
theorem copy_independent (a b c : QRef) (h : Heap) (hd : b.data ≠ a.data) (hds : b.data ≠ a.scale)
    (hs : b.scale ≠ a.scale) (hsd : b.scale ≠ a.data) :
    b.value (copyInto a c h) = b.value h := by
  simp [QRef.value, copyInto, Heap.set, hd, hds, hs, hsd]

/-- a tensor made of the same two cells sees the written contents -/
theorem copy_follows (a c : QRef) (h : Heap) (hne : a.data ≠ a.scale) :
    a.value (copyInto a c h) = (h c.data, h c.scale) := by
  simp [QRef.value, copyInto, Heap.set, hne]

/-- sharing the scale cell only: the other tensor's scale is overwritten -/
theorem copy_changes_shared_scale (a c : QRef) (d : Nat) (h : Heap) (hd : d ≠ a.data) (hds : d ≠ a.scale)
    (hdiff : h c.scale ≠ h a.scale) :
    (⟨d, a.scale⟩ : QRef).value (copyInto a c h) ≠ (⟨d, a.scale⟩ : QRef).value h := by
  simp [QRef.value, copyInto, Heap.set, hd, hds]
  exact hdiff

/-- sharing the payload cell only: the other tensor's payload is overwritten -/
theorem copy_changes_shared_data (a c : QRef) (s : Nat) (h : Heap) (hs : s ≠ a.scale) (hsd : s ≠ a.data)
    (hne : a.data ≠ a.scale) (hdiff : h c.data ≠ h a.data) :
    (⟨a.data, s⟩ : QRef).value (copyInto a c h) ≠ (⟨a.data, s⟩ : QRef).value h := by
  simp [QRef.value, copyInto, Heap.set, hs, hsd, hne]
  exact hdiff

end Quanto

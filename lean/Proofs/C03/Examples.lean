/-
Concrete data for the non-vacuity examples of property C03.
-/
import Proofs.C03.Lemmas

namespace Quanto.C03Ex

/-- the example tensor: shape `[4, 6]`, position `n` holds `n` -/
def exT : T FV := T.ofFn [4, 6] fun n => .fin n

theorem exT_wf : exT.data.size = prod exT.shape := by simp [exT, T.ofFn]

theorem exAmax : listAbsMax [1 / 3, -2, 5 / 4] = 2 := by
  norm_num [listAbsMax]

theorem exScale :
    f16.div (.fin (listAbsMax [1 / 3, -2, 5 / 4])) (.fin 127) = .fin (129 / 8192) := by
  rw [exAmax]; decide +kernel

end Quanto.C03Ex

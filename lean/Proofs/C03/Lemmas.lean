/-
Helper lemmas for property C03: absmax scale selection (slice level), locality of the slice
reductions (tensor level).
-/
import Quanto.Spec.C02
import Proofs.C01.Lemmas
import Proofs.Tensor.Index

namespace Quanto

/-! ### the largest magnitude of a slice -/

/-- `max |x|` over a list (0 for the empty list) -/
def listAbsMax (xs : List Rat) : Rat := xs.foldl (fun a x => max a |x|) 0

theorem ratMax_eq (a b : Rat) : ratMax a b = max a b := by
  unfold ratMax
  split_ifs with h
  · exact (max_eq_right h).symm
  · exact (max_eq_left (le_of_not_ge h)).symm

/-- the running maximum used by the executable predicate `specC03Slice` is `listAbsMax` -/
theorem specAmax_eq (xs : List Rat) :
    xs.foldl (fun a x => ratMax a (rabs x)) 0 = listAbsMax xs := by
  unfold listAbsMax
  congr 1
  funext a x
  rw [ratMax_eq, rabs_eq]

theorem foldl_absmax_ge_init (xs : List Rat) (a : Rat) :
    a ≤ xs.foldl (fun a x => max a |x|) a := by
  induction xs generalizing a with
  | nil => exact le_refl _
  | cons y ys ih => exact le_trans (le_max_left _ _) (ih _)

theorem foldl_absmax_ge_mem (xs : List Rat) (a x : Rat) (hx : x ∈ xs) :
    |x| ≤ xs.foldl (fun a x => max a |x|) a := by
  induction xs generalizing a with
  | nil => cases hx
  | cons y ys ih =>
    rcases List.mem_cons.mp hx with rfl | h
    · exact le_trans (le_max_right _ _) (foldl_absmax_ge_init ys _)
    · exact ih _ h

theorem listAbsMax_nonneg (xs : List Rat) : 0 ≤ listAbsMax xs := foldl_absmax_ge_init xs 0

theorem le_listAbsMax (xs : List Rat) (x : Rat) (hx : x ∈ xs) : |x| ≤ listAbsMax xs :=
  foldl_absmax_ge_mem xs 0 x hx

theorem listAbsMax_cons (x : Rat) (xs : List Rat) :
    listAbsMax (x :: xs) = xs.foldl (fun a x => max a |x|) |x| := by
  unfold listAbsMax
  rw [List.foldl_cons, max_eq_right (abs_nonneg x)]

/-! ### `FV.max` on finite values -/

theorem FVmax_fin (a b : Rat) : FV.max (.fin a) (.fin b) = .fin (max a b) := by
  unfold FV.max
  simp only [FV.isNan, FV.le, Bool.false_eq_true, if_false, decide_eq_true_eq]
  split_ifs with h
  · rw [max_eq_right h]
  · rw [max_eq_left (le_of_not_ge h)]

theorem foldl_FVmax_fin (xs : List Rat) (a : Rat) :
    (xs.map fun x => FV.abs (.fin x)).foldl FV.max (.fin a) =
      .fin (xs.foldl (fun a x => max a |x|) a) := by
  induction xs generalizing a with
  | nil => rfl
  | cons y ys ih =>
    rw [List.map_cons, List.foldl_cons, List.foldl_cons]
    show List.foldl FV.max (FV.max (.fin a) (.fin (rabs y))) _ = _
    rw [FVmax_fin, rabs_eq]
    exact ih _

theorem foldSlice_absmax (xs : List Rat) (h : xs ≠ []) :
    foldSlice FV.max (xs.map fun x => FV.abs (.fin x)) = .fin (listAbsMax xs) := by
  cases xs with
  | nil => exact absurd rfl h
  | cons x xs =>
    rw [listAbsMax_cons]
    show (xs.map fun x => FV.abs (.fin x)).foldl FV.max (.fin (rabs x)) = _
    rw [rabs_eq]
    exact foldl_FVmax_fin xs _

/-! ### the scale `fl(amax / qmax)` -/

theorem div_fin_fin (F : Fmt) (a q : Rat) (hq : q ≠ 0) :
    F.div (.fin a) (.fin q) = F.fl (.fin (a / q)) := by
  simp [Fmt.div, FV.divX, hq]

theorem scale_finite (F : Fmt) (hF : WorkFmt F) (qmax : Rat) (hq : 1 ≤ qmax) (a : Rat)
    (ha0 : 0 ≤ a) (ha : a ≤ F.maxFin) :
    F.div (.fin a) (.fin qmax) = .fin (F.flR (a / qmax)) ∧ 0 ≤ F.flR (a / qmax) := by
  have hq0 : 0 < qmax := by linarith
  have hz0 : 0 ≤ a / qmax := div_nonneg ha0 hq0.le
  have hz1 : a / qmax ≤ a := div_le_self ha0 hq
  rw [div_fin_fin F a qmax hq0.ne']
  constructor
  · apply fl_fin_of_le F hF
    rw [abs_of_nonneg hz0]; linarith
  · exact le_flR_of_rep F hF (Rep_zero F) hz0

theorem scale_err (F : Fmt) (hF : WorkFmt F) (qmax : Rat) (hq : 1 ≤ qmax) (a sq : Rat)
    (h : F.div (.fin a) (.fin qmax) = .fin sq) :
    |sq - a / qmax| ≤ F.u * |a / qmax| + F.eta := by
  have hq0 : 0 < qmax := by linarith
  rw [div_fin_fin F a qmax hq0.ne'] at h
  exact fl_err F hF _ _ h

theorem scale_nonneg (F : Fmt) (hF : WorkFmt F) (qmax : Rat) (hq : 1 ≤ qmax) (a sq : Rat)
    (ha0 : 0 ≤ a) (h : F.div (.fin a) (.fin qmax) = .fin sq) : 0 ≤ sq := by
  have hq0 : 0 < qmax := by linarith
  rw [div_fin_fin F a qmax hq0.ne'] at h
  obtain ⟨rfl, -⟩ := fl_fin F hF _ _ h
  exact le_flR_of_rep F hF (Rep_zero F) (div_nonneg ha0 hq0.le)

/-- `1 ≤ (1 - u)(1 + 2u)` for `0 ≤ u ≤ 1/2`, in the form used below -/
theorem le_of_mul_one_sub_le (u z w : Rat) (hu0 : 0 ≤ u) (hu : u ≤ 1 / 2) (hz : 0 ≤ z)
    (h : z * (1 - u) ≤ w) : z ≤ w * (1 + 2 * u) := by
  have h3 : z * (1 - u) * (1 + 2 * u) ≤ w * (1 + 2 * u) :=
    mul_le_mul_of_nonneg_right h (by linarith)
  have h4 : 0 ≤ z * (u * (1 - 2 * u)) := mul_nonneg hz (mul_nonneg hu0 (by linarith))
  have h5 : z * (1 - u) * (1 + 2 * u) = z + z * (u * (1 - 2 * u)) := by ring
  linarith

/-- arithmetic core of "non saturating", loose absolute term -/
theorem nonsat_core_loose (u η z sq qmax : Rat) (hu0 : 0 ≤ u) (hu : u ≤ 1 / 2) (hq : 0 < qmax)
    (hz : 0 ≤ z) (h : z - sq ≤ u * z + η) :
    z * qmax ≤ sq * qmax * (1 + 2 * u) + η * qmax * (1 + 2 * u) := by
  have h2 : z ≤ (sq + η) * (1 + 2 * u) :=
    le_of_mul_one_sub_le u z _ hu0 hu hz (by linarith)
  calc z * qmax ≤ (sq + η) * (1 + 2 * u) * qmax := mul_le_mul_of_nonneg_right h2 hq.le
    _ = _ := by ring

/-! ### the executable predicate -/

theorem specC03Slice_ok_of (F : Fmt) (qmax : Rat) (xs : List Rat) (sq : Rat) (h0 : 0 ≤ sq)
    (hz : listAbsMax xs = 0 → sq ≤ 2 * F.eta)
    (hsat : ∀ x ∈ xs, |x| ≤ sq * qmax * (1 + 2 * F.u) + F.eta * qmax)
    (hfull : sq ≤ listAbsMax xs / qmax * (1 + F.u) + 2 * F.eta) :
    specC03Slice F qmax xs (.fin sq) = .ok := by
  unfold specC03Slice
  simp only [specAmax_eq]
  rw [if_neg (not_lt.mpr h0)]
  by_cases ha : listAbsMax xs = 0
  · rw [if_pos ha, if_pos (hz ha)]
  · rw [if_neg ha]
    have hall : (xs.all fun x => decide (rabs x ≤ sq * qmax * (1 + 2 * F.u) + F.eta * qmax)) = true := by
      rw [List.all_eq_true]
      intro x hx
      rw [decide_eq_true_eq, rabs_eq]
      exact hsat x hx
    rw [hall]
    simp only [Bool.not_true, Bool.false_eq_true, if_false]
    rw [if_neg (not_lt.mpr hfull)]

/-! ### tensor level: slices and their reductions -/

theorem sliceVals_congr (t t' : T FV) (af : Bool) (k : Nat) (hs : t.shape = t'.shape)
    (hd : t.data.size = t'.data.size)
    (h : ∀ n, n < t.data.size → keyAt t.shape af n = k → t.get n = t'.get n) :
    sliceVals t af k = sliceVals t' af k := by
  unfold sliceVals
  rw [← hd, ← hs]
  apply List.filterMap_congr
  intro n hn
  rw [List.mem_range] at hn
  by_cases hk : keyAt t.shape af n = k
  · rw [if_pos hk, if_pos hk, h n hn hk]
  · rw [if_neg hk, if_neg hk]

theorem reduceSlices_shape (t : T FV) (af : Bool) (f : FV → FV → FV) :
    (reduceSlices t af f).shape = keptShape t.shape af := rfl

theorem reduceSlices_size (t : T FV) (af : Bool) (f : FV → FV → FV) :
    (reduceSlices t af f).data.size = prod (keptShape t.shape af) := T.size_ofFn _ _

theorem reduceSlices_get (t : T FV) (af : Bool) (f : FV → FV → FV) (k : Nat)
    (hk : k < prod (keptShape t.shape af)) :
    (reduceSlices t af f).get k = foldSlice f (sliceVals t af k) := T.get_ofFn _ _ _ hk

theorem reduceSlices_local (t t' : T FV) (af : Bool) (f : FV → FV → FV) (k : Nat)
    (hs : t.shape = t'.shape) (hd : t.data.size = t'.data.size)
    (h : ∀ n, n < t.data.size → keyAt t.shape af n = k → t.get n = t'.get n)
    (hk : k < prod (keptShape t.shape af)) :
    (reduceSlices t af f).get k = (reduceSlices t' af f).get k := by
  rw [reduceSlices_get t af f k hk, reduceSlices_get t' af f k (by rw [← hs]; exact hk),
    sliceVals_congr t t' af k hs hd h]

theorem absmaxScale_some (F : Fmt) (qmax : Rat) (t : T FV) (af c : Bool) :
    absmaxScale F qmax t (some af) c =
      (reduceSlices (t.map FV.abs) af FV.max).map fun r => absmaxOf F qmax c r := rfl

theorem absmaxScale_none (F : Fmt) (qmax : Rat) (t : T FV) (c : Bool) :
    absmaxScale F qmax t none c =
      ⟨[], #[absmaxOf F qmax c (reduceAll (t.map FV.abs) FV.max)]⟩ := rfl

theorem absmaxScale_get (F : Fmt) (qmax : Rat) (t : T FV) (af c : Bool) (k : Nat)
    (hk : k < prod (keptShape t.shape af)) :
    (absmaxScale F qmax t (some af) c).get k =
      absmaxOf F qmax c (foldSlice FV.max (sliceVals (t.map FV.abs) af k)) := by
  have hk' : k < prod (keptShape (t.map FV.abs).shape af) := hk
  rw [absmaxScale_some, T.get_map _ _ _ (by rw [reduceSlices_size]; exact hk),
    reduceSlices_get _ _ _ _ hk']

/-! ### `maxOptimize`: the per-slice values -/

theorem T.get_mk_toArray {α : Type} [Inhabited α] (s : List Nat) (l : List α) (k : Nat)
    (hk : k < l.length) : (T.mk s l.toArray).get k = l[k] := by
  simp [T.get, hk]

theorem maxOptimize_scale_get (F : Fmt) (bits : Nat) (ext : Bool) (m : T FV) (af : Bool) (k : Nat)
    (hk : k < prod (keptShape m.shape af)) :
    (maxOptimize F bits ext m af).scale.get k =
      maxOptScale F bits
        (extendRange ext ((reduceSlices m af FV.min).get k) ((reduceSlices m af FV.max).get k)).1
        (extendRange ext ((reduceSlices m af FV.min).get k) ((reduceSlices m af FV.max).get k)).2 := by
  unfold maxOptimize
  simp only []
  rw [T.get_mk_toArray _ _ _ (by simp [reduceSlices_size, hk])]
  simp

theorem maxOptimize_zero_get (F : Fmt) (bits : Nat) (ext : Bool) (m : T FV) (af : Bool) (k : Nat)
    (hk : k < prod (keptShape m.shape af)) :
    (maxOptimize F bits ext m af).zero.get k =
      maxOptZero F
        (extendRange ext ((reduceSlices m af FV.min).get k) ((reduceSlices m af FV.max).get k)).1
        (maxOptScale F bits
          (extendRange ext ((reduceSlices m af FV.min).get k) ((reduceSlices m af FV.max).get k)).1
          (extendRange ext ((reduceSlices m af FV.min).get k) ((reduceSlices m af FV.max).get k)).2) := by
  unfold maxOptimize
  simp only []
  rw [T.get_mk_toArray _ _ _ (by simp [reduceSlices_size, hk])]
  simp

end Quanto

/-
Helper lemmas for property C03: the scale clamped to the smallest positive value of the format
(`absmaxOf F qmax true`), and the sharp non-saturation bound it satisfies.
-/
import Proofs.C03.Lemmas

namespace Quanto

/-! ### rounding error below the normal range is purely absolute -/

theorem rndFin_err_sub (F : Fmt) (q : Rat) (h : |q| < pow2 (F.emin + 1)) :
    |F.rndFin q - q| ≤ F.eta1 := by
  by_cases hq : q = 0
  · subst hq
    rw [rndFin_zero]
    simp only [sub_self, abs_zero]
    exact (pow2_pos _).le
  · have h' := rndFin_err_ulp F hq
    rw [ulpOf_eq] at h'
    have h1 := ilog2_abs_le hq
    have hle : ilog2 |q| ≤ F.emin := by
      by_contra hc
      have h2 : F.emin + 1 ≤ ilog2 |q| := by omega
      have := pow2_le_pow2 h2
      linarith
    rw [max_eq_right hle, half_pow2] at h'
    exact h'

theorem eta_f32 : f32.eta = f32.eta1 := by unfold Fmt.eta; rw [f32_not_half]; rfl

theorem fl_err_sub_f32 (z r : Rat) (hz : |z| < pow2 f32.emin) (h : f32.fl (.fin z) = .fin r) :
    |r - z| ≤ f32.eta := by
  rw [fl_f32, rndV_fin] at h
  obtain ⟨rfl, -⟩ := rnd_fin _ _ _ h
  rw [eta_f32]
  exact rndFin_err_sub f32 z (lt_trans hz (pow2_lt_pow2 (by omega)))

theorem fl_err_sub_half {F : Fmt} (hF : F.HalfOK) (hmin : f32.Rep (pow2 F.emin)) (z r : Rat)
    (hz : |z| < pow2 F.emin) (h : F.fl (.fin z) = .fin r) :
    |r - z| ≤ f32.u1 * |z| + f32.eta1 + F.eta1 := by
  obtain ⟨rfl, -⟩ := fl_fin_half hF z r h
  rw [flR_half hF]
  have e1 := rndFin_err f32 z
  have hw : |f32.rndFin z| ≤ pow2 F.emin := by
    obtain ⟨h1, h2⟩ := abs_lt.mp hz
    rw [abs_le]
    exact ⟨le_rndFin_of_rep f32 f32_one_le_p (Rep_neg hmin) h1.le,
      rndFin_le_of_rep f32 f32_one_le_p hmin h2.le⟩
  have e2 := rndFin_err_sub F (f32.rndFin z) (lt_of_le_of_lt hw (pow2_lt_pow2 (by omega)))
  generalize f32.rndFin z = w at *
  have t2 : |F.rndFin w - z| ≤ |F.rndFin w - w| + |w - z| := by
    have := abs_add_le (F.rndFin w - w) (w - z); rwa [sub_add_sub_cancel] at this
  linarith

/-! ### the smallest positive value -/

theorem minPos_eq (F : Fmt) : F.minPos = 2 * F.eta1 := by
  unfold Fmt.minPos Fmt.eta1
  rw [pow2_succ]

theorem minPos_pos (F : Fmt) : 0 < F.minPos := pow2_pos _

theorem eta1_le_eta (F : Fmt) : F.eta1 ≤ F.eta := by
  unfold Fmt.eta
  split_ifs
  · have h1 : 0 < F.u1 := pow2_pos _
    have h2 : 0 < f32.eta1 := pow2_pos _
    have : 0 ≤ (1 + F.u1) * f32.eta1 := by positivity
    linarith
  · exact le_refl _

theorem minPos_le (F : Fmt) : F.minPos ≤ 2 * F.eta := by
  rw [minPos_eq]; linarith [eta1_le_eta F]

/-! ### `absmaxOf` on a finite maximum -/

theorem clampMin_fin (m q : Rat) : FV.clampMin m (.fin q) = .fin (max q m) := by
  unfold FV.clampMin
  simp only
  split_ifs with h
  · rw [max_eq_right h.le]
  · rw [max_eq_left (not_lt.mp h)]

theorem absmaxOf_true (F : Fmt) (qmax : Rat) (r : FV) :
    absmaxOf F qmax true r = (F.div r (.fin qmax)).clampMin F.minPos := by
  simp [absmaxOf]

theorem absmaxOf_false (F : Fmt) (qmax : Rat) (r : FV) :
    absmaxOf F qmax false r = F.div r (.fin qmax) := by
  simp [absmaxOf]

theorem absmaxOf_fin (F : Fmt) (hF : WorkFmt F) (qmax : Rat) (hq : 1 ≤ qmax) (a : Rat)
    (ha0 : 0 ≤ a) (ha : a ≤ F.maxFin) :
    absmaxOf F qmax true (.fin a) = .fin (max (F.flR (a / qmax)) F.minPos) := by
  rw [absmaxOf_true, (scale_finite F hF qmax hq a ha0 ha).1, clampMin_fin]

/-! ### the sharp bound -/

/-- numeric core for a half format: constants `b = u32`, `d = η32`, `e = ηF`, with the
total constants `u ≥ a + b`, `η = e + (1 + a) d`, and the clamp `2e ≤ r'` -/
theorem tight_half_core (a b d e u η z r r' : Rat) (ha : b ≤ a) (hb0 : 0 ≤ b) (hb : b ≤ 1 / 2)
    (hd0 : 0 ≤ d) (hde : d ≤ e) (hu : u = a + b + a * b) (hη : η = e + (1 + a) * d)
    (hz : 0 ≤ z) (hrr : r ≤ r') (hm : 2 * e ≤ r') (h : z - r ≤ b * z + d + e) :
    z ≤ r' * (1 + 2 * u) + η := by
  have h2 : z ≤ (r + e + d) * (1 + 2 * b) :=
    le_of_mul_one_sub_le b z _ hb0 hb hz (by linarith)
  have ha0 : 0 ≤ a := le_trans hb0 ha
  have he0 : 0 ≤ e := le_trans hd0 hde
  have p1 : 0 ≤ (a - b) * e := mul_nonneg (by linarith) he0
  have p2 : 0 ≤ b * (e - d) := mul_nonneg hb0 (by linarith)
  have p3 : 0 ≤ (a + a * b) * (r' - 2 * e) :=
    mul_nonneg (by positivity) (by linarith)
  have p4 : 0 ≤ b * (r' - r) := mul_nonneg hb0 (by linarith)
  have p5 : 0 ≤ a * d := mul_nonneg ha0 hd0
  have p6 : 0 ≤ a * b * e := mul_nonneg (mul_nonneg ha0 hb0) he0
  subst hu hη
  nlinarith

theorem half_consts {F : Fmt} (hF : F.HalfOK) :
    F.u = F.u1 + f32.u1 + F.u1 * f32.u1 ∧ F.eta = F.eta1 + (1 + F.u1) * f32.eta1 := by
  constructor
  · unfold Fmt.u; rw [hF.half]; rfl
  · unfold Fmt.eta; rw [hF.half]; rfl

theorem clamped_tight_half {F : Fmt} (hF : F.HalfOK) (hmin : f32.Rep (pow2 F.emin))
    (hu : f32.u1 ≤ F.u1) (he : f32.eta1 ≤ F.eta1) (z r : Rat) (hz0 : 0 ≤ z)
    (hz : |z| < pow2 F.emin) (h : F.fl (.fin z) = .fin r) :
    z ≤ max r F.minPos * (1 + 2 * F.u) + F.eta := by
  have e := fl_err_sub_half hF hmin z r hz h
  rw [abs_of_nonneg hz0] at e
  have e' : z - r ≤ f32.u1 * z + f32.eta1 + F.eta1 := by
    have := neg_le_abs (r - z); linarith
  obtain ⟨c1, c2⟩ := half_consts hF
  have hb0 : 0 ≤ f32.u1 := (pow2_pos _).le
  have hb : f32.u1 ≤ 1 / 2 := by norm_num [Fmt.u1, f32, pow2_eq]
  have hd0 : 0 ≤ f32.eta1 := (pow2_pos _).le
  exact tight_half_core F.u1 f32.u1 f32.eta1 F.eta1 F.u F.eta z r (max r F.minPos) hu hb0 hb hd0 he
    c1 c2 hz0 (le_max_left _ _) (by rw [← minPos_eq]; exact le_max_right _ _) e'

/-- the clamped scale never saturates by more than rounding (sharp absolute term) -/
theorem clamped_tight (F : Fmt) (hF : WorkFmt F) (z r : Rat) (hz0 : 0 ≤ z)
    (h : F.fl (.fin z) = .fin r) : z ≤ max r F.minPos * (1 + 2 * F.u) + F.eta := by
  have hr0 : 0 ≤ r := by
    obtain ⟨rfl, -⟩ := fl_fin F hF z r h
    exact le_flR_of_rep F hF (Rep_zero F) hz0
  have hu0 := F.u_nonneg
  have hu : F.u ≤ 1 / 2 := by linarith [(u_eta_work F hF).1]
  have hη := F.eta_nonneg
  have hr' : r ≤ max r F.minPos := le_max_left _ _
  have hr'0 : 0 ≤ max r F.minPos := le_trans hr0 hr'
  have hmono : r * (1 + 2 * F.u) ≤ max r F.minPos * (1 + 2 * F.u) :=
    mul_le_mul_of_nonneg_right hr' (by linarith)
  by_cases hn : pow2 F.emin ≤ |z|
  · -- normal range: purely relative error
    have e := fl_err_normal F hF z r hn h
    rw [abs_of_nonneg hz0] at e
    have e' : z - r ≤ F.u * z := by
      have := neg_le_abs (r - z); linarith
    have := le_of_mul_one_sub_le F.u z r hu0 hu hz0 (by linarith)
    linarith
  · have hz : |z| < pow2 F.emin := not_le.mp hn
    rcases hF.cases with rfl | rfl | rfl
    · have e := fl_err_sub_f32 z r hz h
      have e' : z - r ≤ f32.eta := by
        have := neg_le_abs (r - z); linarith
      have : 0 ≤ max r f32.minPos * (2 * f32.u) := mul_nonneg hr'0 (by linarith)
      linarith
    · exact clamped_tight_half f16_halfOK (rep_pow2 f32 f32_one_le_p _ (by decide))
        (by norm_num [Fmt.u1, f16, f32, pow2_eq]) (by norm_num [Fmt.eta1, f16, f32, pow2_eq])
        z r hz0 hz h
    · exact clamped_tight_half bf16_halfOK (rep_pow2 f32 f32_one_le_p _ (by decide))
        (by norm_num [Fmt.u1, bf16, f32, pow2_eq]) (by norm_num [Fmt.eta1, bf16, f32, pow2_eq])
        z r hz0 hz h

end Quanto

/-
Helper lemmas for property C03, part D: `group` / `ungroup` as index maps.
-/
import Quanto.Affine
import Proofs.Tensor.Index

namespace Quanto

/-! ### shapes: first / last dimension factor out of `prod` -/

theorem prod_eq_head_mul_tail : ∀ (s : List Nat), s ≠ [] → prod s = s.headD 0 * prod s.tail
  | [], h => absurd rfl h
  | _ :: _, _ => rfl

theorem prod_eq_dropLast_mul_getLast : ∀ (s : List Nat), s ≠ [] →
    prod s = prod s.dropLast * s.getLastD 0
  | [], h => absurd rfl h
  | [d] , _ => by simp [prod, List.getLastD]
  | d :: e :: r, _ => by
      have ih := prod_eq_dropLast_mul_getLast (e :: r) (by simp)
      have e1 : (d :: e :: r).getLastD 0 = (e :: r).getLastD 0 := by simp [List.getLastD]
      have e2 : (d :: e :: r).dropLast = d :: (e :: r).dropLast := by simp [List.dropLast]
      rw [e1, e2, prod_cons, prod_cons d, ih, Nat.mul_assoc]

/-! ### what a successful `groupShape` tells -/

theorem groupShape_first_spec {shape : List Nat} {gs : Nat} {s : List Nat}
    (h : groupShape shape true gs = some s) :
    shape ≠ [] ∧ 0 < shape.headD 0 ∧ 0 < gs ∧ gs ∣ prod shape.tail ∧ gs ≤ prod shape.tail ∧
      s = [prod shape / gs, gs] := by
  unfold groupShape at h
  simp only [if_true] at h
  split_ifs at h with h1 h2 h3
  have hne : shape ≠ [] := by
    rintro rfl; exact h1 rfl
  have hD : 0 < shape.headD 0 := Nat.pos_of_ne_zero h1
  have hp := prod_eq_head_mul_tail shape hne
  have hq : prod shape / shape.headD 0 = prod shape.tail := by
    rw [hp, Nat.mul_div_cancel_left _ hD]
  rw [hq] at h3
  have h3' : gs ≤ prod shape.tail ∧ prod shape.tail % gs = 0 := by omega
  exact ⟨hne, hD, Nat.pos_of_ne_zero h2, Nat.dvd_of_mod_eq_zero h3'.2, h3'.1,
    (Option.some.inj h).symm⟩

theorem groupShape_last_spec {shape : List Nat} {gs : Nat} {s : List Nat}
    (h : groupShape shape false gs = some s) :
    0 < shape.getLastD 0 ∧ 0 < gs ∧ 0 < prod shape / shape.getLastD 0 / gs ∧
      prod shape = prod shape / shape.getLastD 0 / gs * gs * shape.getLastD 0 ∧
      s = [gs, shape.getLastD 0 * (prod shape / shape.getLastD 0 / gs)] := by
  unfold groupShape at h
  simp only [Bool.false_eq_true, if_false] at h
  split_ifs at h with h1 h2 h3
  have hne : shape ≠ [] := by
    rintro rfl; exact h1 rfl
  have hD : 0 < shape.getLastD 0 := Nat.pos_of_ne_zero h1
  have hgs : 0 < gs := Nat.pos_of_ne_zero h2
  have hp := prod_eq_dropLast_mul_getLast shape hne
  have hq : prod shape / shape.getLastD 0 = prod shape.dropLast := by
    rw [hp, Nat.mul_div_cancel _ hD]
  rw [hq] at h3 h ⊢
  have h3' : gs ≤ prod shape.dropLast ∧ prod shape.dropLast % gs = 0 := by omega
  have hdvd : prod shape.dropLast / gs * gs = prod shape.dropLast :=
    Nat.div_mul_cancel (Nat.dvd_of_mod_eq_zero h3'.2)
  refine ⟨hD, hgs, Nat.div_pos h3'.1 hgs, ?_, (Option.some.inj h).symm⟩
  rw [hdvd]; exact hp

/-! ### the axis -1 index maps on an abstract `(G, gs, D)` view -/

/-- `groupSrc` for axis -1 with the three extents made explicit -/
def gSrc3 (G gs D n : Nat) : Nat :=
  match unflat [gs, D, G] n with
  | [a, b, c] => flat [G, gs, D] [c, a, b]
  | _ => 0

/-- `ungroupSrc` for axis -1 with the three extents made explicit -/
def uSrc3 (G gs D n : Nat) : Nat :=
  match unflat [G, gs, D] n with
  | [c, a, b] => flat [gs, D, G] [a, b, c]
  | _ => 0

theorem groupSrc_last (shape : List Nat) (gs n : Nat) :
    groupSrc shape false gs n =
      gSrc3 (prod shape / shape.getLastD 0 / gs) gs (shape.getLastD 0) n := by
  unfold groupSrc
  simp only [Bool.false_eq_true, if_false]
  rfl

theorem ungroupSrc_last (shape : List Nat) (gs n : Nat) :
    ungroupSrc shape false gs n =
      uSrc3 (prod shape / shape.getLastD 0 / gs) gs (shape.getLastD 0) n := by
  unfold ungroupSrc
  simp only [Bool.false_eq_true, if_false]
  rfl

theorem groupSrc_first (shape : List Nat) (gs n : Nat) : groupSrc shape true gs n = n := by
  simp [groupSrc]

theorem ungroupSrc_first (shape : List Nat) (gs n : Nat) : ungroupSrc shape true gs n = n := by
  simp [ungroupSrc]

theorem gSrc3_eq (G gs D n : Nat) :
    gSrc3 G gs D n = n % (D * G) % G * (gs * D) + (n / (D * G) * D + n % (D * G) / G) := by
  unfold gSrc3
  rw [unflat3]
  simp only [flat3]

theorem uSrc3_eq (G gs D n : Nat) :
    uSrc3 G gs D n = n % (gs * D) / D * (D * G) + (n % (gs * D) % D * G + n / (gs * D)) := by
  unfold uSrc3
  rw [unflat3]
  simp only [flat3]

theorem uSrc3_lt (G gs D n : Nat) (h : n < G * gs * D) : uSrc3 G gs D n < gs * D * G := by
  have hn : n < prod [G, gs, D] := by rw [prod3]; exact h
  have hv := valid_unflat [G, gs, D] n hn
  unfold uSrc3
  generalize unflat [G, gs, D] n = idx at *
  match idx, hv with
  | [c, a, b], hv =>
    simp only [validIdx] at hv
    have hv' : validIdx [gs, D, G] [a, b, c] := by simp [validIdx]; omega
    have := flat_lt _ _ hv'
    rw [prod3] at this
    exact this

theorem gSrc3_lt (G gs D n : Nat) (h : n < gs * D * G) : gSrc3 G gs D n < G * gs * D := by
  have hn : n < prod [gs, D, G] := by rw [prod3]; exact h
  have hv := valid_unflat [gs, D, G] n hn
  unfold gSrc3
  generalize unflat [gs, D, G] n = idx at *
  match idx, hv with
  | [a, b, c], hv =>
    simp only [validIdx] at hv
    have hv' : validIdx [G, gs, D] [c, a, b] := by simp [validIdx]; omega
    have := flat_lt _ _ hv'
    rw [prod3] at this
    exact this

theorem gSrc3_uSrc3 (G gs D n : Nat) (h : n < G * gs * D) : gSrc3 G gs D (uSrc3 G gs D n) = n := by
  have hn : n < prod [G, gs, D] := by rw [prod3]; exact h
  have hv := valid_unflat [G, gs, D] n hn
  have hfu := flat_unflat [G, gs, D] n hn
  unfold uSrc3
  generalize unflat [G, gs, D] n = idx at *
  match idx, hv with
  | [c, a, b], hv =>
    simp only [validIdx] at hv
    have hv' : validIdx [gs, D, G] [a, b, c] := by simp [validIdx]; omega
    simp only
    unfold gSrc3
    rw [unflat_flat _ _ hv']
    exact hfu

theorem uSrc3_gSrc3 (G gs D n : Nat) (h : n < gs * D * G) : uSrc3 G gs D (gSrc3 G gs D n) = n := by
  have hn : n < prod [gs, D, G] := by rw [prod3]; exact h
  have hv := valid_unflat [gs, D, G] n hn
  have hfu := flat_unflat [gs, D, G] n hn
  unfold gSrc3
  generalize unflat [gs, D, G] n = idx at *
  match idx, hv with
  | [a, b, c], hv =>
    simp only [validIdx] at hv
    have hv' : validIdx [G, gs, D] [c, a, b] := by simp [validIdx]; omega
    simp only
    unfold uSrc3
    rw [unflat_flat _ _ hv']
    exact hfu

/-- with a single group the axis -1 permutation is the identity -/
theorem gSrc3_one (gs D n : Nat) : gSrc3 1 gs D n = n := by
  rw [gSrc3_eq]
  simp only [Nat.mul_one, Nat.mod_one, Nat.zero_mul, Nat.div_one, Nat.zero_add]
  have := Nat.div_add_mod' n D
  omega

/-! ### G1: grouping keeps the number of elements -/

theorem groupShape_numel {shape : List Nat} {af : Bool} {gs : Nat} {s : List Nat}
    (h : groupShape shape af gs = some s) : prod s = prod shape := by
  cases af with
  | true =>
    obtain ⟨hne, -, hgs, hdvd, -, rfl⟩ := groupShape_first_spec h
    have hp := prod_eq_head_mul_tail shape hne
    have : gs ∣ prod shape := by rw [hp]; exact Dvd.dvd.mul_left hdvd _
    simp only [prod, Nat.mul_one]
    exact Nat.div_mul_cancel this
  | false =>
    obtain ⟨hD, hgs, hG, hp, rfl⟩ := groupShape_last_spec h
    simp only [prod, Nat.mul_one]
    conv_rhs => rw [hp]
    generalize prod shape / shape.getLastD 0 / gs = G
    generalize shape.getLastD 0 = D
    rw [Nat.mul_comm G gs, Nat.mul_assoc, Nat.mul_comm G D]

/-! ### G3: `ungroup ∘ group = id` -/

theorem ungroup_group_eq {α : Type} [Inhabited α] (t : T α) (af : Bool) (gs : Nat) (g : T α)
    (hwf : t.data.size = prod t.shape) (h : group t af gs = .ok g) :
    ungroup g af t.shape = t := by
  unfold group at h
  split at h
  · cases h
  · rename_i s hs
    have hg : g = t.gather s (groupSrc t.shape af gs) := (Except.ok.inj h).symm
    have hnum := groupShape_numel hs
    cases af with
    | true =>
      -- a reshape: same data
      have hdata : g.data = t.data := by
        rw [hg]
        apply Array.ext
        · rw [T.size_gather, hnum, hwf]
        · intro i h1 h2
          simp [T.gather, T.ofFn, T.get, groupSrc_first, h2]
      have hshape : g.shape = s := by rw [hg]; rfl
      unfold ungroup
      by_cases h1 : g.shape = t.shape
      · rw [if_pos h1]; exact T.ext' h1 hdata
      · rw [if_neg h1, if_pos rfl]; exact T.ext' rfl hdata
    | false =>
      obtain ⟨hD, hgs, hG, hp, hs'⟩ := groupShape_last_spec hs
      have hshape : g.shape = s := by rw [hg]; rfl
      have hps : prod s = gs * t.shape.getLastD 0 * (prod t.shape / t.shape.getLastD 0 / gs) := by
        rw [hs']; simp [prod, Nat.mul_assoc]
      by_cases h1 : s = t.shape
      · -- grouped shape = original shape: a single group, the permutation is trivial
        have hlast : t.shape.getLastD 0 * (prod t.shape / t.shape.getLastD 0 / gs) =
            t.shape.getLastD 0 := by
          have := congrArg (fun l => List.getLastD l 0) (hs'.symm.trans h1)
          simpa [List.getLastD] using this
        have hG1 : prod t.shape / t.shape.getLastD 0 / gs = 1 := by
          have := Nat.eq_of_mul_eq_mul_left hD (hlast.trans (Nat.mul_one _).symm)
          exact this
        have hgt : g = t := by
          rw [hg, ← T.eq_ofFn_get t hwf]
          unfold T.gather
          apply T.ofFn_congr_shape _ _ _ _ h1
          intro n _
          rw [T.eq_ofFn_get t hwf, groupSrc_last, hG1, gSrc3_one]
        unfold ungroup
        rw [if_pos (by rw [hgt])]
        exact hgt
      · unfold ungroup
        rw [if_neg (by rw [hshape]; exact h1)]
        simp only [Bool.false_eq_true, if_false]
        have hhead : g.shape.headD 0 = gs := by rw [hshape, hs']; rfl
        rw [hhead]
        conv_rhs => rw [← T.eq_ofFn_get t hwf]
        unfold T.gather
        apply T.ofFn_congr
        intro n hn
        rw [hp] at hn
        have hlt : ungroupSrc t.shape false gs n < prod s := by
          rw [ungroupSrc_last, hps]; exact uSrc3_lt _ _ _ _ hn
        rw [hg, T.get_gather _ _ _ _ hlt, ungroupSrc_last, groupSrc_last, gSrc3_uSrc3 _ _ _ _ hn]

end Quanto

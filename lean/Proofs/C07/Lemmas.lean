/-
Helper lemmas for property C07 (quantized linear = product of the dequantized operands within the
error of one accumulation; all kernel routes agree):
* dtype bookkeeping of `mmElement` (`mmDtype`, `promote`) and the common closed form of the three
  kernels when a payload is int8;
* the three rounding stages of an element and the pure arithmetic of their error composition;
* `dotRows` as a fold of per-position terms, its behaviour under scaling, its magnitude;
* `linearQBytes` unfolded into one `T.ofFn`;
* `flat` / `unflat` on a shape with one trailing dimension (`view(-1, in_features)`).
-/
import Quanto.Linear
import Proofs.C01.Lemmas
import Proofs.Tensor.Index

namespace Quanto

/-! ### dtype bookkeeping -/

theorem mmDtype_of_int8 (outF : Fmt) {act weight : Payload} (h : act = .int8 ∨ weight = .int8) :
    mmDtype outF act weight = f32 := by
  unfold mmDtype
  rcases h with rfl | rfl
  · simp
  · simp

theorem promote_f32 (F : Fmt) (hp : F.p ≤ 24) : promote f32 F = f32 := by
  unfold promote
  rw [if_pos]
  exact hp

theorem work_p_le (F : Fmt) (hF : WorkFmt F) : F.p ≤ 24 := by
  rcases WorkFmt.cases hF with rfl | rfl | rfl <;> decide

/-- closed form shared by the three kernels -/
def mmCore (outF : Fmt) (acc : Rat) (s : FV) : FV :=
  outF.rndV (f32.fl ((f32.rnd acc).mulX s))

theorem mmElement_int (outF : Fmt) (act weight : Payload) (acc : Rat) (s : FV) :
    mmElement .intMm outF act weight acc s = mmCore outF acc s := rfl

theorem mmElement_pack (outF : Fmt) (act weight : Payload) (acc : Rat) (s : FV) :
    mmElement .int8packMm outF act weight acc s = mmCore outF acc s := rfl

theorem mmElement_float_of_int8 (outF : Fmt) (hp : outF.p ≤ 24) {act weight : Payload}
    (h : act = .int8 ∨ weight = .int8) (acc : Rat) (s : FV) :
    mmElement .floatMm outF act weight acc s = mmCore outF acc s := by
  unfold mmElement mmCore
  simp only [mmDtype_of_int8 outF h, promote_f32 outF hp, fl_f32, rndV_fin]

/-! ### non-finite values stay non-finite through the pipeline -/

theorem ofSign_not_fin (s : Int) : (FV.ofSign s).isFinite = false := by
  unfold FV.ofSign
  split_ifs <;> rfl

theorem rndV_not_fin (F : Fmt) {v : FV} (h : v.isFinite = false) : (F.rndV v).isFinite = false := by
  cases v with
  | fin q => simp [FV.isFinite] at h
  | pinf => unfold Fmt.rndV; split_ifs <;> rfl
  | ninf => unfold Fmt.rndV; split_ifs <;> rfl
  | nan => rfl

theorem fl_not_fin (F : Fmt) {v : FV} (h : v.isFinite = false) : (F.fl v).isFinite = false := by
  unfold Fmt.fl
  split_ifs
  · exact rndV_not_fin F (rndV_not_fin f32 h)
  · exact rndV_not_fin F h

theorem mulX_not_fin_left {a : FV} (b : FV) (h : a.isFinite = false) :
    (a.mulX b).isFinite = false := by
  cases a with
  | fin q => simp [FV.isFinite] at h
  | pinf => cases b <;> first | rfl | exact ofSign_not_fin _
  | ninf => cases b <;> first | rfl | exact ofSign_not_fin _
  | nan => cases b <;> rfl

theorem fin_isFinite {v : FV} {y : Rat} (h : v = .fin y) : v.isFinite = true := by
  subst h; rfl

/-- a finite element went through three finite stages -/
theorem mmCore_fin_stages (outF : Fmt) (acc sq y : Rat) (h : mmCore outF acc (.fin sq) = .fin y) :
    ∃ a1 p1, f32.rnd acc = .fin a1 ∧ f32.fl (.fin (a1 * sq)) = .fin p1 ∧ outF.rnd p1 = .fin y := by
  unfold mmCore at h
  cases h1 : f32.rnd acc with
  | fin a1 =>
    rw [h1] at h
    have hm : (FV.fin a1).mulX (.fin sq) = .fin (a1 * sq) := rfl
    rw [hm] at h
    cases h2 : f32.fl (.fin (a1 * sq)) with
    | fin p1 =>
      rw [h2, rndV_fin] at h
      exact ⟨a1, p1, rfl, h2, h⟩
    | pinf =>
      have := fin_isFinite h
      rw [rndV_not_fin outF (by rw [h2]; rfl)] at this
      exact absurd this (by decide)
    | ninf =>
      have := fin_isFinite h
      rw [rndV_not_fin outF (by rw [h2]; rfl)] at this
      exact absurd this (by decide)
    | nan =>
      have := fin_isFinite h
      rw [rndV_not_fin outF (by rw [h2]; rfl)] at this
      exact absurd this (by decide)
  | pinf =>
    have := fin_isFinite h
    rw [rndV_not_fin outF (fl_not_fin f32 (mulX_not_fin_left _ (by rw [h1]; rfl)))] at this
    exact absurd this (by decide)
  | ninf =>
    have := fin_isFinite h
    rw [rndV_not_fin outF (fl_not_fin f32 (mulX_not_fin_left _ (by rw [h1]; rfl)))] at this
    exact absurd this (by decide)
  | nan =>
    have := fin_isFinite h
    rw [rndV_not_fin outF (fl_not_fin f32 (mulX_not_fin_left _ (by rw [h1]; rfl)))] at this
    exact absurd this (by decide)

theorem mulX_not_fin_right (a : FV) {b : FV} (h : b.isFinite = false) :
    (a.mulX b).isFinite = false := by
  cases b with
  | fin q => simp [FV.isFinite] at h
  | pinf => cases a <;> first | rfl | exact ofSign_not_fin _
  | ninf => cases a <;> first | rfl | exact ofSign_not_fin _
  | nan => cases a <;> rfl

/-- a finite element was computed with a finite scale -/
theorem mmCore_fin_scale (outF : Fmt) (acc : Rat) (s : FV) (y : Rat)
    (h : mmCore outF acc s = .fin y) : ∃ sq, s = .fin sq := by
  cases s with
  | fin sq => exact ⟨sq, rfl⟩
  | pinf =>
    have := fin_isFinite h
    unfold mmCore at this
    rw [rndV_not_fin outF (fl_not_fin f32 (mulX_not_fin_right _ rfl))] at this
    exact absurd this (by decide)
  | ninf =>
    have := fin_isFinite h
    unfold mmCore at this
    rw [rndV_not_fin outF (fl_not_fin f32 (mulX_not_fin_right _ rfl))] at this
    exact absurd this (by decide)
  | nan =>
    have := fin_isFinite h
    unfold mmCore at this
    rw [rndV_not_fin outF (fl_not_fin f32 (mulX_not_fin_right _ rfl))] at this
    exact absurd this (by decide)

/-- f32 values representable in a working format: its largest finite value -/
theorem work_maxFin_rep_f32 (F : Fmt) (hF : WorkFmt F) : f32.Rep F.maxFin := by
  rcases WorkFmt.cases hF with rfl | rfl | rfl
  · exact maxFin_rep_f32
  · exact f16_halfOK.sub _ f16_halfOK.maxRep
  · exact bf16_halfOK.sub _ bf16_halfOK.maxRep

theorem work_maxFin_le_f32 (F : Fmt) (hF : WorkFmt F) : F.maxFin ≤ f32.maxFin := by
  rcases WorkFmt.cases hF with rfl | rfl | rfl
  · exact le_refl _
  · exact f16_halfOK.maxLe
  · exact bf16_halfOK.maxLe

theorem work_one_le_p (F : Fmt) (hF : WorkFmt F) : 1 ≤ F.p := by
  rcases WorkFmt.cases hF with rfl | rfl | rfl <;> decide

theorem eta_f32 : f32.eta = f32.eta1 := by unfold Fmt.eta; rw [f32_not_half]; rfl

/-! ### composition of three rounding errors (pure arithmetic) -/

theorem three_stage_err {u e v h acc sq a1 p1 y : Rat} (hu : 0 ≤ u) (hv : 0 ≤ v)
    (h1 : |a1 - acc| ≤ u * |acc| + e)
    (h2 : |p1 - a1 * sq| ≤ u * |a1 * sq| + e)
    (h3 : |y - p1| ≤ v * |p1| + h) :
    |y - acc * sq| ≤ ((1 + u) ^ 2 * (1 + v) - 1) * |acc * sq| + (1 + v) * ((1 + u) * |sq| + 1) * e + h := by
  have hS : 0 ≤ |sq| := abs_nonneg _
  have ht : |acc * sq| = |acc| * |sq| := abs_mul _ _
  -- stage 1 carried through the multiplication by `sq`
  have d1 : |a1 * sq - acc * sq| ≤ u * |acc * sq| + e * |sq| := by
    have : a1 * sq - acc * sq = (a1 - acc) * sq := by ring
    rw [this, abs_mul, ht]
    have := mul_le_mul_of_nonneg_right h1 hS
    linarith
  have b1 : |a1 * sq| ≤ |acc * sq| + (u * |acc * sq| + e * |sq|) := by
    have := abs_add_le (acc * sq) (a1 * sq - acc * sq)
    rw [add_sub_cancel] at this
    linarith
  have d2 : |p1 - a1 * sq| ≤ u * (|acc * sq| + (u * |acc * sq| + e * |sq|)) + e := by
    have := mul_le_mul_of_nonneg_left b1 hu
    linarith
  have d12 : |p1 - acc * sq| ≤
      (u * |acc * sq| + e * |sq|) + (u * (|acc * sq| + (u * |acc * sq| + e * |sq|)) + e) := by
    have := abs_add_le (p1 - a1 * sq) (a1 * sq - acc * sq)
    rw [sub_add_sub_cancel] at this
    linarith
  have b2 : |p1| ≤ |acc * sq| +
      ((u * |acc * sq| + e * |sq|) + (u * (|acc * sq| + (u * |acc * sq| + e * |sq|)) + e)) := by
    have := abs_add_le (acc * sq) (p1 - acc * sq)
    rw [add_sub_cancel] at this
    linarith
  have d3 := mul_le_mul_of_nonneg_left b2 hv
  have tot : |y - acc * sq| ≤ |y - p1| + |p1 - acc * sq| := by
    have := abs_add_le (y - p1) (p1 - acc * sq)
    rwa [sub_add_sub_cancel] at this
  generalize |acc * sq| = t at *
  generalize |sq| = S at *
  have key : (u * t + e * S) + (u * (t + (u * t + e * S)) + e)
      + (v * (t + ((u * t + e * S) + (u * (t + (u * t + e * S)) + e))) + h)
      = ((1 + u) ^ 2 * (1 + v) - 1) * t + (1 + v) * ((1 + u) * S + 1) * e + h := by ring
  linarith

/-! ### `dotRows` as a fold of per-position terms -/

/-- contribution of position `k` to `dotRows a w K i j` -/
def dotTerm (a w : T FV) (K i j k : Nat) : Rat :=
  match a.get (i * K + k), w.get (j * K + k) with
  | .fin x, .fin y => x * y
  | _, _ => 0

theorem dotRows_eq_fold (a w : T FV) (K i j : Nat) :
    dotRows a w K i j = (List.range K).foldl (fun acc k => acc + dotTerm a w K i j k) 0 := by
  unfold dotRows
  congr 1
  funext acc k
  unfold dotTerm
  split <;> simp_all

theorem foldl_add_scale (f g : Nat → Rat) (c : Rat) (l : List Nat) (hfg : ∀ k ∈ l, f k = c * g k)
    (i0 : Rat) :
    l.foldl (fun acc k => acc + f k) (c * i0) = c * l.foldl (fun acc k => acc + g k) i0 := by
  induction l generalizing i0 with
  | nil => rfl
  | cons k ks ih =>
    rw [List.foldl_cons, List.foldl_cons]
    have : c * i0 + f k = c * (i0 + g k) := by rw [hfg k (by simp)]; ring
    rw [this]
    exact ih (fun k' hk' => hfg k' (by simp [hk'])) _

theorem foldl_add_congr (f g : Nat → Rat) (l : List Nat) (hfg : ∀ k ∈ l, f k = g k) (i0 : Rat) :
    l.foldl (fun acc k => acc + f k) i0 = l.foldl (fun acc k => acc + g k) i0 := by
  have := foldl_add_scale f g 1 l (fun k hk => by rw [hfg k hk, one_mul]) i0
  rwa [one_mul, one_mul] at this

theorem foldl_add_abs_le (f : Nat → Rat) (B : Rat) (l : List Nat) (hf : ∀ k ∈ l, |f k| ≤ B)
    (i0 : Rat) :
    |l.foldl (fun acc k => acc + f k) i0| ≤ |i0| + (l.length : Rat) * B := by
  induction l generalizing i0 with
  | nil => simp
  | cons k ks ih =>
    rw [List.foldl_cons]
    have h1 := ih (fun k' hk' => hf k' (by simp [hk'])) (i0 + f k)
    have h2 := abs_add_le i0 (f k)
    have h3 := hf k (by simp)
    rw [List.length_cons]
    push_cast
    linarith

theorem foldl_add_const (c : Rat) (l : List Nat) (i0 : Rat) :
    l.foldl (fun acc _ => acc + c) i0 = i0 + (l.length : Rat) * c := by
  induction l generalizing i0 with
  | nil => simp
  | cons k ks ih =>
    rw [List.foldl_cons, ih, List.length_cons]
    push_cast; ring

/-- multiplication of a payload value by a finite scale (exact dequantization) -/
def scaleV (s : Rat) (v : FV) : FV := (FV.fin s).mulX v

theorem scaleV_fin (s x : Rat) : scaleV s (.fin x) = .fin (s * x) := rfl

theorem scaleV_not_fin (s : Rat) {v : FV} (h : v.isFinite = false) :
    (scaleV s v).isFinite = false := by
  cases v with
  | fin q => simp [FV.isFinite] at h
  | pinf => exact ofSign_not_fin _
  | ninf => exact ofSign_not_fin _
  | nan => rfl

theorem dotTerm_scaled (a w : T FV) (sa sw : Rat) (K i j k : Nat)
    (ha : i * K + k < a.data.size) (hw : j * K + k < w.data.size) :
    dotTerm (a.map (scaleV sa)) (w.map (scaleV sw)) K i j k = sa * sw * dotTerm a w K i j k := by
  unfold dotTerm
  rw [T.get_map _ _ _ ha, T.get_map _ _ _ hw]
  cases hx : a.get (i * K + k) with
  | fin x =>
    cases hy : w.get (j * K + k) with
    | fin y => simp only [scaleV_fin]; ring
    | pinf => simp [scaleV, FV.mulX, FV.ofSign]; split_ifs <;> simp
    | ninf => simp [scaleV, FV.mulX, FV.ofSign]; split_ifs <;> simp
    | nan => simp [scaleV, FV.mulX]
  | pinf =>
    have h := scaleV_not_fin sa (v := .pinf) rfl
    cases hs : scaleV sa .pinf with
    | fin q => rw [hs] at h; simp [FV.isFinite] at h
    | _ => simp
  | ninf =>
    have h := scaleV_not_fin sa (v := .ninf) rfl
    cases hs : scaleV sa .ninf with
    | fin q => rw [hs] at h; simp [FV.isFinite] at h
    | _ => simp
  | nan =>
    have hs : scaleV sa .nan = .nan := rfl
    rw [hs]; simp

/-- scales factor out of the contraction: the dot product of the exactly dequantized rows is the
product of the scales times the dot product of the payloads -/
theorem dotRows_scaled (a w : T FV) (sa sw : Rat) (K i j : Nat)
    (ha : (i + 1) * K ≤ a.data.size) (hw : (j + 1) * K ≤ w.data.size) :
    dotRows (a.map (scaleV sa)) (w.map (scaleV sw)) K i j = sa * sw * dotRows a w K i j := by
  rw [dotRows_eq_fold, dotRows_eq_fold]
  have := foldl_add_scale (dotTerm (a.map (scaleV sa)) (w.map (scaleV sw)) K i j)
    (dotTerm a w K i j) (sa * sw) (List.range K) (fun k hk => by
      have hk' : k < K := List.mem_range.mp hk
      refine dotTerm_scaled a w sa sw K i j k ?_ ?_
      · have : (i + 1) * K = i * K + K := by ring
        omega
      · have : (j + 1) * K = j * K + K := by ring
        omega) 0
  rw [mul_zero] at this
  exact this

theorem dotTerm_abs_le (a w : T FV) (A W : Rat) (hA : 0 ≤ A) (hW : 0 ≤ W)
    (ha : ∀ n x, a.get n = .fin x → |x| ≤ A) (hw : ∀ n y, w.get n = .fin y → |y| ≤ W)
    (K i j k : Nat) : |dotTerm a w K i j k| ≤ A * W := by
  unfold dotTerm
  split
  · rename_i x y hx hy
    rw [abs_mul]
    exact mul_le_mul (ha _ _ hx) (hw _ _ hy) (abs_nonneg _) hA
  · rw [abs_zero]; exact mul_nonneg hA hW

/-- magnitude of the exact accumulator -/
theorem dotRows_abs_le (a w : T FV) (A W : Rat) (hA : 0 ≤ A) (hW : 0 ≤ W)
    (ha : ∀ n x, a.get n = .fin x → |x| ≤ A) (hw : ∀ n y, w.get n = .fin y → |y| ≤ W)
    (K i j : Nat) : |dotRows a w K i j| ≤ (K : Rat) * (A * W) := by
  rw [dotRows_eq_fold]
  have := foldl_add_abs_le (dotTerm a w K i j) (A * W) (List.range K)
    (fun k _ => dotTerm_abs_le a w A W hA hW ha hw K i j k) 0
  rwa [abs_zero, zero_add, List.length_range] at this

/-- a one-row tensor filled with a constant payload value -/
def constRow (K : Nat) (c : Rat) : T FV := T.ofFn [1, K] fun _ => FV.fin c

theorem constRow_get (K : Nat) (c : Rat) (n : Nat) :
    (constRow K c).get n = .fin c ∨ (constRow K c).get n = .fin 0 := by
  unfold constRow
  by_cases hn : n < prod [1, K]
  · left; exact T.get_ofFn _ _ _ hn
  · right
    rw [T.get_ofFn_ge _ _ _ (not_lt.mp hn)]
    rfl

theorem dotRows_constRow (K : Nat) (c d : Rat) :
    dotRows (constRow K c) (constRow K d) K 0 0 = (K : Rat) * (c * d) := by
  rw [dotRows_eq_fold]
  have hterm : ∀ k ∈ List.range K, dotTerm (constRow K c) (constRow K d) K 0 0 k = c * d := by
    intro k hk
    have hk' : 0 * K + k < prod [1, K] := by
      have := List.mem_range.mp hk
      simp [prod]; omega
    unfold dotTerm constRow
    rw [T.get_ofFn _ _ _ hk', T.get_ofFn _ _ _ hk']
  rw [foldl_add_congr _ (fun _ => c * d) _ hterm, foldl_add_const, List.length_range, zero_add]

/-! ### `linearQBytes` unfolded -/

/-- payload tensor of the activation operand -/
def ActOperand.data : ActOperand → T FV
  | .plain t => t
  | .quant q => q.data

/-- payload tag of the activation operand for the working dtype `F` -/
def ActOperand.payload (F : Fmt) : ActOperand → Payload
  | .plain _ => if F == f32 then Payload.f32 else if F == f16 then .f16 else .bf16
  | .quant q => if q.Q.isFloat then Payload.float8 else .int8

/-- payload tag of a QBytes weight -/
def QB.payload (w : QB) : Payload := if w.Q.isFloat then .float8 else .int8

/-- output scale of column `j`: the weight scale (per-tensor or per output feature), multiplied in
the working dtype by the activation scale when the activations are quantized -/
def linScale (F : Fmt) (x : ActOperand) (w : QB) (j : Nat) : FV :=
  match x with
  | .plain _ => w.scale.get (if w.scale.data.size = 1 then 0 else j)
  | .quant q => F.mul (q.scale.get 0) (w.scale.get (if w.scale.data.size = 1 then 0 else j))

/-- bias addition in the working dtype -/
def addBias (F : Fmt) (bias : Option (T FV)) (j : Nat) (y : FV) : FV :=
  match bias with
  | none => y
  | some b => F.add y (b.get j)

theorem linearQBytes_eq (k : MmKernel) (F : Fmt) (x : ActOperand) (w : QB) (bias : Option (T FV)) :
    linearQBytes k F x w bias =
      T.ofFn (x.data.shape.dropLast ++ [w.size.headD 0]) fun n =>
        addBias F bias (n % w.size.headD 0)
          (mmElement k F (x.payload F) w.payload
            (dotRows x.data w.data (w.size.getD 1 0) (n / w.size.headD 0) (n % w.size.headD 0))
            (linScale F x w (n % w.size.headD 0))) := by
  cases x <;> cases bias <;> rfl

/-! ### a trailing dimension: `view(-1, K)` -/

theorem prod_snoc (b : List Nat) (K : Nat) : prod (b ++ [K]) = prod b * K := by
  rw [prod_append]; simp [prod]

theorem flat_snoc : ∀ (b idx : List Nat) (K k : Nat), b.length = idx.length →
    flat (b ++ [K]) (idx ++ [k]) = flat b idx * K + k
  | [], [], K, k, _ => by simp [flat, prod]
  | [], _ :: _, _, _, h => by simp at h
  | _ :: _, [], _, _, h => by simp at h
  | d :: ds, i :: is, K, k, h => by
    have ih := flat_snoc ds is K k (by simpa using h)
    simp only [List.cons_append, flat, ih, prod_snoc]
    ring

theorem validIdx_length : ∀ (s idx : List Nat), validIdx s idx → s.length = idx.length
  | [], [], _ => rfl
  | [], _ :: _, h => by simp [validIdx] at h
  | _ :: _, [], h => by simp [validIdx] at h
  | _ :: ds, _ :: is, h => by
    simp only [List.length_cons]
    rw [validIdx_length ds is h.2]

theorem validIdx_snoc : ∀ (b idx : List Nat) (K k : Nat), validIdx b idx → k < K →
    validIdx (b ++ [K]) (idx ++ [k])
  | [], [], K, k, _, hk => by simp [validIdx, hk]
  | [], _ :: _, _, _, h, _ => by simp [validIdx] at h
  | _ :: _, [], _, _, h, _ => by simp [validIdx] at h
  | d :: ds, i :: is, K, k, h, hk => by
    simp only [List.cons_append, validIdx]
    exact ⟨h.1, validIdx_snoc ds is K k h.2 hk⟩

/-- position `i * K + k` of a tensor of shape `b ++ [K]` is element `k` of the row whose batch
multi-index is `unflat b i` -/
theorem unflat_snoc (b : List Nat) (K i k : Nat) (hi : i < prod b) (hk : k < K) :
    unflat (b ++ [K]) (i * K + k) = unflat b i ++ [k] := by
  have hv := valid_unflat b i hi
  have hf := flat_snoc b (unflat b i) K k (length_unflat b i).symm
  rw [flat_unflat b i hi] at hf
  rw [← hf]
  exact unflat_flat _ _ (validIdx_snoc b _ K k hv hk)

end Quanto

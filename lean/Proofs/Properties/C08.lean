import Quanto.Module
namespace Quanto

/-- placeholder until the tree proofs land: a leaf outside the filter is kept -/
theorem C08_unselected_leaf_kept (a : QuantizeArgs) (id : Nat) (k : LeafKind) (q : Option QCfg)
    (h : selected a id = false) : quantizeTree a (.leaf id k q) = .leaf id k q := by
  simp [quantizeTree, h]

end Quanto

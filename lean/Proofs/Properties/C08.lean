/-
C08 — `quantize(model, modules=…, weights=…, activations=…)` replaces, in place and at any nesting
depth, exactly the Linear and Conv2d modules (and LayerNorm only when activations are quantized)
selected by the optional filter, and leaves every other module untouched; plus the decision
table of `QModuleMixin.forward`.  Helper definitions (`Mod.at?`, `Mod.skeleton`, `Mod.ids`,
`DecidableEq Mod`) and the mutual inductions live in `Proofs/C08/Lemmas.lean`.
-/
import Quanto.Tables
import Quanto.Generated
import Proofs.C08.Lemmas
import Proofs.C08.Flat
import Proofs.C08.Leaves
namespace Quanto
open C08

/-- a leaf outside the filter is kept -/
theorem C08_unselected_leaf_kept (a : QuantizeArgs) (id : Nat) (k : LeafKind) (q : Option QCfg)
    (h : selected a id = false) : quantizeTree a (.leaf id k q) = .leaf id k q := by
  simp [quantizeTree, h]

/-! ### T1 — exactly the selected eligible leaves are swapped, at any depth -/

theorem C08_exact_swap (a : QuantizeArgs) (t : Mod) (path : List String) :
    match t.at? path with
    | some (.leaf id k q) =>
      (quantizeTree a t).at? path =
        some (if selected a id && eligible a k then .leaf id k (some (twinCfg a k)) else .leaf id k q)
    | some (.node id cls cs) =>
      ∃ cs', (quantizeTree a t).at? path = some (.node id cls cs') ∧ cs'.map (·.1) = cs.map (·.1)
    | none => (quantizeTree a t).at? path = none :=
  swapSpec_tree a t path

/-- the three cases of `C08_exact_swap` as separate implications -/
theorem C08_exact_swap_leaf (a : QuantizeArgs) (t : Mod) (path : List String) (id : Nat)
    (k : LeafKind) (q : Option QCfg) (h : t.at? path = some (.leaf id k q)) :
    (quantizeTree a t).at? path =
      some (if selected a id && eligible a k then .leaf id k (some (twinCfg a k)) else .leaf id k q) := by
  have := C08_exact_swap a t path
  rw [h] at this; exact this

theorem C08_exact_swap_node (a : QuantizeArgs) (t : Mod) (path : List String) (id : Nat)
    (cls : String) (cs : List (String × Mod)) (h : t.at? path = some (.node id cls cs)) :
    ∃ cs', (quantizeTree a t).at? path = some (.node id cls cs') ∧ cs'.map (·.1) = cs.map (·.1) := by
  have := C08_exact_swap a t path
  rw [h] at this; exact this

theorem C08_exact_swap_none (a : QuantizeArgs) (t : Mod) (path : List String)
    (h : t.at? path = none) : (quantizeTree a t).at? path = none := by
  have := C08_exact_swap a t path
  rw [h] at this; exact this

/-- the children of a container are the quantized children, under the same names -/
theorem C08_children_mapped (a : QuantizeArgs) (id : Nat) (cls : String) (cs : List (String × Mod)) :
    quantizeTree a (.node id cls cs) = .node id cls (cs.map fun p => (p.1, quantizeTree a p.2)) := by
  rw [quantizeTree_node, quantizeChildren_eq_map]

/-! ### T2 — classes, names, order and identities are preserved -/

theorem C08_structure_preserved (a : QuantizeArgs) (t : Mod) :
    (quantizeTree a t).skeleton = t.skeleton ∧ (quantizeTree a t).ids = t.ids :=
  ⟨skeleton_quantizeTree a t, ids_quantizeTree a t⟩

/-! ### T3 — a configuration changes only on a selected eligible leaf -/

theorem C08_only_eligible_change (a : QuantizeArgs) (t : Mod) (path : List String) (id : Nat)
    (k : LeafKind) (q q' : Option QCfg)
    (h' : (quantizeTree a t).at? path = some (.leaf id k q'))
    (h : t.at? path = some (.leaf id k q)) (hne : q' ≠ q) :
    selected a id = true ∧ eligible a k = true ∧ q' = some (twinCfg a k) := by
  have hs := C08_exact_swap_leaf a t path id k q h
  rw [h'] at hs
  by_cases hc : (selected a id && eligible a k) = true
  · rw [if_pos hc] at hs
    simp only [Option.some.injEq, Mod.leaf.injEq, true_and] at hs
    simp only [Bool.and_eq_true] at hc
    exact ⟨hc.1, hc.2, hs⟩
  · rw [if_neg hc] at hs
    simp only [Option.some.injEq, Mod.leaf.injEq, true_and] at hs
    exact absurd hs hne

/-- conversely an unselected or ineligible leaf keeps its configuration, wherever it sits -/
theorem C08_unselected_kept_at (a : QuantizeArgs) (t : Mod) (path : List String) (id : Nat)
    (k : LeafKind) (q : Option QCfg) (h : t.at? path = some (.leaf id k q))
    (hc : selected a id = false ∨ eligible a k = false) :
    (quantizeTree a t).at? path = some (.leaf id k q) := by
  rw [C08_exact_swap_leaf a t path id k q h]
  rcases hc with hc | hc <;> simp [hc]

/-! ### T4 — LayerNorm and unregistered classes -/

theorem C08_layernorm_needs_activations (a : QuantizeArgs) (id : Nat) (q : Option QCfg)
    (h : a.activations = none) : quantizeTree a (.leaf id .layerNorm q) = .leaf id .layerNorm q := by
  simp [quantizeTree, eligible, h]

theorem C08_layernorm_never_quantizes_weights (a : QuantizeArgs) :
    (twinCfg a .layerNorm).weights = none := rfl

theorem C08_other_untouched (a : QuantizeArgs) (id : Nat) (c : String) (q : Option QCfg) :
    quantizeTree a (.leaf id (.other c) q) = .leaf id (.other c) q := by
  simp [quantizeTree, eligible]

/-- Linear / Conv2d twins carry both requested qtypes -/
theorem C08_linear_conv_twin (a : QuantizeArgs) (id : Nat) (k : LeafKind) (q : Option QCfg)
    (hk : k = .linear ∨ k = .conv2d) (hs : selected a id = true) :
    quantizeTree a (.leaf id k q) = .leaf id k (some ⟨a.weights, a.activations⟩) := by
  rcases hk with rfl | rfl <;> simp [quantizeTree, eligible, twinCfg, hs]

/-! ### T5 — idempotence -/

theorem C08_quantize_idempotent (a : QuantizeArgs) (t : Mod) :
    quantizeTree a (quantizeTree a t) = quantizeTree a t :=
  quantizeTree_idem a t

/-! ### T6 — the decision table of `QModuleMixin.forward` -/

theorem C08_forward_cases (kind : LeafKind) (hk : kind = .linear ∨ kind = .conv2d) :
    (∀ inp o, forwardTrace kind false inp o = [.qforward]) ∧
    forwardTrace kind true .float none = [.quantizeInput, .qforward, .quantizeOutput] ∧
    forwardTrace kind true .quantSameQtype none = [.qforward, .quantizeOutput] ∧
    (∀ o, ∃ rest, forwardTrace kind true .quantOther o = .requantInput :: .qforward :: rest) := by
  rcases hk with rfl | rfl
  · refine ⟨?_, by decide, by decide, ?_⟩
    · intro inp o; cases inp <;> rcases o with _ | _ | _ <;> decide
    · intro o; rcases o with _ | _ | _ <;> exact ⟨_, rfl⟩
  · refine ⟨?_, by decide, by decide, ?_⟩
    · intro inp o; cases inp <;> rcases o with _ | _ | _ <;> decide
    · intro o; rcases o with _ | _ | _ <;> exact ⟨_, rfl⟩

/-- the output side of the table: nothing / requantize / quantize according to what `qforward` returned -/
theorem C08_forward_output_cases (kind : LeafKind) (inp : InKind) :
    (forwardTrace kind true inp (some true)).getLast? = some .qforward ∧
    forwardTrace kind true inp (some false) = forwardTrace kind true inp (some true) ++ [.requantOutput] ∧
    forwardTrace kind true inp none = forwardTrace kind true inp (some true) ++ [.quantizeOutput] := by
  simp [forwardTrace]

/-- QLayerNorm (and any non Linear/Conv2d kind) never quantizes its input: its `qforward` is the
float `layer_norm` applied to the dequantized input -/
theorem C08_forward_layernorm (acts : Bool) (inp : InKind) (o : Option Bool) :
    Step.quantizeInput ∉ forwardTrace .layerNorm acts inp o := by
  cases acts <;> cases inp <;> rcases o with _ | _ | _ <;> decide

/-- every trace runs `qforward` exactly once -/
theorem C08_forward_once (kind : LeafKind) (acts : Bool) (inp : InKind) (o : Option Bool) :
    (forwardTrace kind acts inp o).count .qforward = 1 := by
  cases kind <;> cases acts <;> cases inp <;> rcases o with _ | _ | _ <;> simp [forwardTrace]

/-! ### non-vacuity: a three-level model, filter `[1, 3]`, no activation quantization -/

def C08_exTree : Mod :=
  .node 0 "Sequential"
    [("0", .leaf 1 .linear none),
     ("1", .node 2 "Block" [("c0", .leaf 3 .layerNorm none), ("c1", .leaf 4 (.other "ReLU") none)])]

def C08_exArgs : QuantizeArgs := ⟨some [1, 3], some .qint8, none⟩

example : quantizeTree C08_exArgs C08_exTree =
    .node 0 "Sequential"
      [("0", .leaf 1 .linear (some ⟨some .qint8, none⟩)),
       ("1", .node 2 "Block" [("c0", .leaf 3 .layerNorm none), ("c1", .leaf 4 (.other "ReLU") none)])] := by
  decide

example : C08_exTree.at? ["1", "c0"] = some (.leaf 3 .layerNorm none) := by decide
example : (quantizeTree C08_exArgs C08_exTree).at? ["1", "c0"] = some (.leaf 3 .layerNorm none) := by decide
example : (quantizeTree C08_exArgs C08_exTree).at? ["0"] =
    some (.leaf 1 .linear (some ⟨some .qint8, none⟩)) := by decide
example : (quantizeTree C08_exArgs C08_exTree).at? ["1", "zz"] = none := by decide
example : C08_exTree.ids = [0, 1, 2, 3, 4] := by decide
example : (quantizeTree C08_exArgs C08_exTree).skeleton = C08_exTree.skeleton := by decide
/-- with activations the selected LayerNorm is swapped too, without weight quantization -/
example : (quantizeTree ⟨some [1, 3], some .qint8, some .qint8⟩ C08_exTree).at? ["1", "c0"] =
    some (.leaf 3 .layerNorm (some ⟨none, some .qint8⟩)) := by decide
/-- the hypotheses of `C08_only_eligible_change` are met at path `["0"]` -/
example : selected C08_exArgs 1 = true ∧ eligible C08_exArgs .linear = true ∧
    (some ⟨some .qint8, none⟩ : Option QCfg) = some (twinCfg C08_exArgs .linear) :=
  C08_only_eligible_change C08_exArgs C08_exTree ["0"] 1 .linear none _ (by decide) (by decide) (by decide)

/-- the live module registry is the one the model assumes (Linear, Conv2d, LayerNorm) -/
theorem C08_registry_pinned : Generated.qmoduleRegistry = modelQmoduleRegistry := by decide

/-! ### T7 — the loop `quantize()` actually runs (walk `named_modules()`, replace by dotted name) is the
structural map of T1–T6

`quantizeFlat` transcribes quantize.py: a left fold over the preorder list of (name, module) pairs that
replaces, through `set_module_by_name`, every module `quantize_module` accepts.  On every tree whose
sibling names are pairwise distinct (always so in Python: children live in a dict) it equals
`quantizeTree`, so T1–T6 are statements about the loop as written. -/

theorem C08_loop_refines_tree (a : QuantizeArgs) (t : Mod) (h : t.namesOk = true) :
    quantizeFlat a t = quantizeTree a t :=
  quantizeFlat_eq_tree a t h

/-- T1 for the loop: at any path, exactly the selected eligible leaves are swapped -/
theorem C08_loop_exact_swap_leaf (a : QuantizeArgs) (t : Mod) (h : t.namesOk = true)
    (path : List String) (id : Nat) (k : LeafKind) (q : Option QCfg)
    (hp : t.at? path = some (.leaf id k q)) :
    (quantizeFlat a t).at? path =
      some (if selected a id && eligible a k then .leaf id k (some (twinCfg a k)) else .leaf id k q) := by
  rw [C08_loop_refines_tree a t h]; exact C08_exact_swap_leaf a t path id k q hp

/-- the loop preserves classes, names, order and identities -/
theorem C08_loop_structure_preserved (a : QuantizeArgs) (t : Mod) (h : t.namesOk = true) :
    (quantizeFlat a t).skeleton = t.skeleton ∧ (quantizeFlat a t).ids = t.ids := by
  rw [C08_loop_refines_tree a t h]; exact C08_structure_preserved a t

/-- every name yielded by `named_modules()` resolves, through `get_submodule`, to the module it was
yielded with: `set_module_by_name(model, name, …)` replaces the module the loop is looking at -/
theorem C08_loop_names_resolve (t : Mod) (h : t.namesOk = true) :
    ∀ pm ∈ t.named, t.at? pm.1 = some pm.2 :=
  named_resolves t h

/-- no dotted name is yielded twice: every `set_module_by_name` of the loop has its own target -/
theorem C08_loop_names_distinct (t : Mod) (h : t.namesOk = true) : (t.named.map (·.1)).Nodup :=
  named_paths_nodup t h

/-- one iteration never touches anything for a container or an unselected / ineligible leaf -/
theorem C08_loop_step_skips (a : QuantizeArgs) (cur : Mod) (p : List String) (id : Nat) (k : LeafKind)
    (q : Option QCfg) (h : (selected a id && eligible a k) = false) :
    flatStep a cur (p, .leaf id k q) = cur := by
  simp [flatStep, h]

/-- the hypothesis of T7 is needed: with two siblings of one name the loop writes the second module's
twin over the first (cannot arise in Python, where children are dict entries) -/
theorem C08_counterexample_duplicate_names :
    let t : Mod := .node 0 "Seq" [("a", .leaf 1 (.other "ReLU") none), ("a", .leaf 2 .linear none)]
    let a : QuantizeArgs := ⟨none, some .qint8, none⟩
    t.namesOk = false ∧ quantizeFlat a t ≠ quantizeTree a t := by
  decide

/-- non-vacuity: a nested tree with distinct sibling names, quantized by the loop -/
example :
    let t : Mod := .node 0 "Seq" [("0", .leaf 1 .linear none),
      ("1", .node 2 "Block" [("fc", .leaf 3 .linear none), ("ln", .leaf 4 .layerNorm none)])]
    t.namesOk = true ∧
    quantizeFlat ⟨some [3, 4], some .qint8, none⟩ t =
      .node 0 "Seq" [("0", .leaf 1 .linear none),
        ("1", .node 2 "Block" [("fc", .leaf 3 .linear (some ⟨some .qint8, none⟩)), ("ln", .leaf 4 .layerNorm none)])] := by
  decide

/-! ### T8 — `named_modules()` yields every module object once

`Mod.namedMemo` models the memo of `named_modules()`; when no object occurs twice (the identities met in
the traversal are pairwise distinct: a *tree*, the quantifier of C08) it yields exactly `Mod.named`, so
`quantizeLoop` — the loop over what `named_modules()` really yields — is the structural map. -/

theorem C08_memo_is_identity_on_trees (t : Mod) (h : (t.named.map fun pm => pm.2.rootId).Nodup) :
    t.namedMemo = t.named :=
  dedupFirst_nodup t.named [] h (by simp)

theorem C08_quantize_loop_refines_tree (a : QuantizeArgs) (t : Mod) (hn : t.namesOk = true)
    (hi : (t.named.map fun pm => pm.2.rootId).Nodup) : quantizeLoop a t = quantizeTree a t := by
  unfold quantizeLoop
  rw [C08_memo_is_identity_on_trees t hi]
  exact C08_loop_refines_tree a t hn

/-- **Observation outside the quantifier of C08** (module *trees*): a module object reachable along two
paths (a shared / tied layer) is yielded once, so only the first reference is replaced; the second keeps
the float module (whose parameters `quantize()` has set to None — its forward then raises). -/
theorem C08_observation_shared_module_swapped_once :
    let lin : Mod := .leaf 1 .linear none
    let t : Mod := .node 0 "Sequential" [("0", lin), ("1", .leaf 2 (.other "ReLU") none), ("2", lin)]
    let r := quantizeLoop ⟨none, some .qint8, none⟩ t
    r.at? ["0"] = some (.leaf 1 .linear (some ⟨some .qint8, none⟩)) ∧ r.at? ["2"] = some lin := by
  decide

/-! ### T9 — the paths of two different leaves never extend one another

This is the hypothesis of `C10_model_roundtrip_paths` (C10 T8): the key prefixes of the quantized leaves of a
module tree are independent because of the tree, not by assumption. -/

theorem C08_leaf_paths_prefix_free (t : Mod) (h : t.namesOk = true) (p q : List String) (x m : Mod)
    (hp : (p, x) ∈ t.named) (hq : (q, m) ∈ t.named) (hx : x.isLeaf = true) (hm : m.isLeaf = true)
    (hne : p ≠ q) : ¬ p <+: q ∧ ¬ q <+: p :=
  ⟨fun hpre => hne (leaf_path_not_proper_prefix t h p q x m hp hq hx hpre).symm,
   fun hpre => hne (leaf_path_not_proper_prefix t h q p m x hq hp hm hpre)⟩

end Quanto

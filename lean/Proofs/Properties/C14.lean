/-
C14 — configuration validation: `quantize_weight`, `quantize_activation`, the two quantizers'
own sanity ladders and the automatic group size of quantized modules either accept a
configuration and honour it, or reject it with `ValueError` — nothing else.  Helper lemmas live in `Proofs/C14/Lemmas.lean`.
-/
import Proofs.C14.Lemmas
namespace Quanto
open C14

/-! ### T1 — `quantize_weight`: accept-and-honour or `ValueError` -/

theorem C14_weight_total (shape : List Nat) (q : QType) (axis : Option Int) (gs : Option Nat)
    (opt : OptFamily) :
    validateWeight shape q axis gs opt = .error .valueError ∨
    ∃ c, validateWeight shape q axis gs opt = .ok c ∧ c.qtype = q ∧ c.groupSize = gs ∧
      (∀ g, gs = some g → ∃ s, groupShape shape (axis == some 0) g = some s) := by
  unfold validateWeight
  cases axis with
  | none => exact .inl rfl
  | some a =>
    simp only []
    by_cases ha : a ≠ 0 ∧ a ≠ -1
    · simp [ha]
    · rw [if_neg ha]
      have hax : (some a == some (0 : Int)) = decide (a = 0) := by
        by_cases h0 : a = 0 <;> simp [h0]
      by_cases h8 : q.bits = 8
      · rw [if_pos h8]
        by_cases ho : opt = .affine
        · simp [ho]
        · rw [if_neg ho]
          cases gs with
          | some g => simp
          | none =>
            simp only [Option.isSome_none, Bool.false_eq_true, if_false]
            by_cases hd : dimAt shape a = 1
            · rw [if_pos hd]; exact .inr ⟨_, rfl, rfl, rfl, by simp⟩
            · rw [if_neg hd]
              by_cases h1 : shape.length = 1
              · simp [h1]
              · rw [if_neg h1]; exact .inr ⟨_, rfl, rfl, rfl, by simp⟩
      · rw [if_neg h8]
        by_cases ho : opt = .symmetric
        · simp [ho]
        · rw [if_neg ho]
          cases gs with
          | none => exact .inr ⟨_, rfl, rfl, rfl, by simp⟩
          | some g =>
            simp only []
            rw [hax]
            cases hg : groupShape shape (decide (a = 0)) g with
            | none => exact .inl rfl
            | some s =>
              refine .inr ⟨_, rfl, rfl, rfl, ?_⟩
              intro g' hg'
              cases hg'
              exact ⟨s, hg⟩

/-! ### T2 — what is rejected -/

theorem C14_weight_rejects_axis (shape : List Nat) (q : QType) (axis : Option Int)
    (gs : Option Nat) (opt : OptFamily) (h0 : axis ≠ some 0) (h1 : axis ≠ some (-1)) :
    validateWeight shape q axis gs opt = .error .valueError := by
  cases axis with
  | none => rfl
  | some a =>
    have : a ≠ 0 ∧ a ≠ -1 := ⟨fun h => h0 (by rw [h]), fun h => h1 (by rw [h])⟩
    rw [validateWeight_some, if_pos this]

theorem C14_weight_rejects_group_8bit (shape : List Nat) (q : QType) (axis : Option Int)
    (gs : Option Nat) (opt : OptFamily) (h8 : q.bits = 8) (hg : gs.isSome) :
    validateWeight shape q axis gs opt = .error .valueError := by
  cases axis with
  | none => rfl
  | some a =>
    rw [validateWeight_some, if_pos h8, if_pos hg]
    split
    · rfl
    · split <;> rfl

theorem C14_weight_rejects_affine_opt_8bit (shape : List Nat) (q : QType) (axis : Option Int)
    (gs : Option Nat) (h8 : q.bits = 8) :
    validateWeight shape q axis gs .affine = .error .valueError := by
  cases axis with
  | none => rfl
  | some a =>
    rw [validateWeight_some, if_pos h8, if_pos rfl]
    split <;> rfl

theorem C14_weight_rejects_symmetric_opt_lowbit (shape : List Nat) (q : QType)
    (axis : Option Int) (gs : Option Nat) (h8 : q.bits ≠ 8) :
    validateWeight shape q axis gs .symmetric = .error .valueError := by
  cases axis with
  | none => rfl
  | some a =>
    rw [validateWeight_some, if_neg h8, if_pos rfl]
    split <;> rfl

theorem C14_weight_rejects_bad_group (shape : List Nat) (q : QType) (axis : Option Int)
    (g : Nat) (opt : OptFamily) (h8 : q.bits ≠ 8) (hax : axis = some 0 ∨ axis = some (-1))
    (hg : groupShape shape (axis == some 0) g = none) :
    validateWeight shape q axis (some g) opt = .error .valueError := by
  have key : ∀ a : Int, groupShape shape (decide (a = 0)) g = none →
      validateWeight shape q (some a) (some g) opt = .error .valueError := by
    intro a hg'
    rw [validateWeight_some, if_neg h8]
    simp only [hg']
    split
    · rfl
    · split <;> rfl
  rcases hax with rfl | rfl
  · exact key 0 (by simpa using hg)
  · exact key (-1) (by simpa using hg)

theorem C14_group_rejects_non_divisor (shape : List Nat) (af : Bool) (g : Nat) :
    groupShape shape af g = none ↔
      ((if af then shape.headD 0 else shape.getLastD 0) = 0 ∨ g = 0 ∨
        g > prod shape / (if af then shape.headD 0 else shape.getLastD 0) ∨
        (prod shape / (if af then shape.headD 0 else shape.getLastD 0)) % g ≠ 0) := by
  unfold groupShape
  simp only []
  generalize (if af = true then shape.headD 0 else shape.getLastD 0) = D
  by_cases hd : D = 0
  · rw [if_pos hd]; exact ⟨fun _ => .inl hd, fun _ => rfl⟩
  · rw [if_neg hd]
    by_cases hg : g = 0
    · rw [if_pos hg]; exact ⟨fun _ => .inr (.inl hg), fun _ => rfl⟩
    · rw [if_neg hg]
      by_cases hx : g > prod shape / D ∨ (prod shape / D) % g ≠ 0
      · rw [if_pos hx]
        refine ⟨fun _ => ?_, fun _ => rfl⟩
        rcases hx with hx | hx
        · exact .inr (.inr (.inl hx))
        · exact .inr (.inr (.inr hx))
      · rw [if_neg hx]
        constructor
        · intro h; cases af <;> simp at h
        · rintro (h | h | h | h)
          · exact absurd h hd
          · exact absurd h hg
          · exact absurd (.inl h) hx
          · exact absurd (.inr h) hx

/-! ### T3 — the requested axis is honoured -/

theorem C14_weight_axis_honoured (shape : List Nat) (q : QType) (a : Int) (gs : Option Nat)
    (opt : OptFamily) (c : WeightCfg)
    (h : validateWeight shape q (some a) gs opt = .ok c) :
    c.axis = some (decide (a = 0)) ∨ (q.bits = 8 ∧ dimAt shape a = 1 ∧ c.axis = none) := by
  unfold validateWeight at h
  simp only [] at h
  split at h
  · cases h
  · split at h
    · rename_i h8
      split at h
      · cases h
      · split at h
        · cases h
        · split at h
          · rename_i hd
            cases h
            exact .inr ⟨h8, hd, rfl⟩
          · split at h
            · cases h
            · cases h; exact .inl rfl
    · split at h
      · cases h
      · split at h
        · cases h; exact .inl rfl
        · split at h
          · cases h
          · cases h; exact .inl rfl

/-! ### T4 — activations take a scalar scale only -/

theorem C14_activation_scalar_only (sshape : List Nat) :
    validateActivation sshape = .ok () ↔ sshape = [] := by
  unfold validateActivation
  constructor
  · intro h
    split at h
    · cases h
    · split at h
      · cases h
      · rename_i hl
        exact List.eq_nil_of_length_eq_zero (by omega)
  · rintro rfl
    simp [prod]

theorem C14_activation_total (sshape : List Nat) :
    validateActivation sshape = .ok () ∨ validateActivation sshape = .error .valueError := by
  unfold validateActivation
  split
  · exact .inr rfl
  · split
    · exact .inr rfl
    · exact .inl rfl

/-! ### T5 — `SymmetricQuantizer.forward` -/

theorem C14_symmetric_total (shape : List Nat) (axis : Option Int) (sshape : List Nat) :
    symValidate shape axis sshape = .error .valueError ∨
    ∃ ax, symValidate shape axis sshape = .ok ax := by
  unfold symValidate
  cases axis with
  | none =>
    simp only []
    split
    · exact .inl rfl
    · exact .inr ⟨_, rfl⟩
  | some a =>
    simp only []
    repeat' split
    all_goals first | exact .inl rfl | exact .inr ⟨_, rfl⟩

theorem C14_symmetric_per_tensor (shape : List Nat) (sshape : List Nat) (ax : Axis)
    (h : symValidate shape none sshape = .ok ax) : ax = none ∧ sshape = [] := by
  unfold symValidate at h
  simp only [] at h
  split at h
  · cases h
  · rename_i hl
    cases h
    exact ⟨rfl, List.eq_nil_of_length_eq_zero (by omega)⟩

theorem C14_symmetric_per_axis_scale_shape (shape : List Nat) (a : Int) (sshape : List Nat)
    (ax : Axis) (h : symValidate shape (some a) sshape = .ok ax) :
    ∃ af, ax = some af ∧ 2 ≤ shape.length ∧
      (scaleShapeFor shape (some af)).contains sshape = true := by
  unfold symValidate at h
  simp only [] at h
  generalize (if a = (shape.length : Int) - 1 then (-1 : Int) else a) = a' at h
  by_cases hlen1 : shape.length = 1
  · rw [if_pos hlen1] at h; cases h
  rw [if_neg hlen1] at h
  by_cases ha' : a' ≠ 0 ∧ a' ≠ -1
  · rw [if_pos ha'] at h; cases h
  rw [if_neg ha'] at h
  by_cases hdim : (if a' = 0 then shape.headD 0 else shape.getLastD 0) = 1
  · rw [if_pos hdim] at h; cases h
  rw [if_neg hdim] at h
  by_cases hrank : squeezedRank sshape > 1
  · rw [if_pos hrank] at h; cases h
  rw [if_neg hrank] at h
  by_cases hlen : sshape.length ≠ shape.length
  · rw [if_pos hlen] at h; cases h
  rw [if_neg hlen] at h
  by_cases hsd : (if a' = 0 then sshape.headD 0 else sshape.getLastD 0) ≠
      (if a' = 0 then shape.headD 0 else shape.getLastD 0) ∨
      prod sshape ≠ (if a' = 0 then shape.headD 0 else shape.getLastD 0)
  · rw [if_pos hsd] at h; cases h
  rw [if_neg hsd] at h
  cases h
  have hlen : sshape.length = shape.length := by omega
  have hrank : squeezedRank sshape ≤ 1 := by omega
  have hsd' := not_or.mp hsd
  have hsdim := Classical.not_not.mp hsd'.1
  have hprod := Classical.not_not.mp hsd'.2
  -- the empty shape is excluded by the product check
  have hlen2 : 2 ≤ shape.length := by
    cases shape with
    | nil =>
      have : sshape = [] := List.eq_nil_of_length_eq_zero (by simpa using hlen)
      subst this
      simp [prod] at hprod
    | cons x xs =>
      cases xs with
      | nil => simp at hlen1
      | cons y ys => simp
  refine ⟨_, rfl, hlen2, ?_⟩
  by_cases ha : a' = 0
  · simp only [ha, if_true] at hsdim hdim
    have := keepdim_head sshape _ hdim hsdim hrank (by omega)
    simp only [ha, decide_true, scaleShapeFor, List.contains_cons, List.contains_nil,
      Bool.or_false, beq_iff_eq]
    rw [← hlen]; exact this
  · simp only [ha, if_false] at hsdim hdim
    have := keepdim_last sshape _ hdim hsdim hrank (by omega)
    simp only [ha, decide_false, scaleShapeFor, List.contains_cons, List.contains_nil,
      Bool.or_false, beq_iff_eq]
    rw [← hlen]; exact this

/-! ### T6 — `AffineQuantizer.forward` -/

theorem C14_affine_total (shape : List Nat) (q : QType) (axis : Option Int) (gs : Option Nat) :
    validateAffine shape q axis gs = .ok () ∨
    validateAffine shape q axis gs = .error .valueError := by
  unfold validateAffine
  repeat' split
  all_goals first | exact .inl rfl | exact .inr rfl

theorem C14_affine_rejects_8bit (shape : List Nat) (q : QType) (axis : Option Int)
    (gs : Option Nat) (h8 : q.bits = 8) :
    validateAffine shape q axis gs = .error .valueError := by
  unfold validateAffine
  have : q ≠ .qint2 ∧ q ≠ .qint4 := by
    constructor <;> (intro h; subst h; simp [QType.bits] at h8)
  rw [if_pos this]

/-! ### T7 — automatic group size -/

theorem C14_autogroup_some (n g : Nat) (h : autoGroup n = some g) :
    g ∣ n ∧ g ∈ [128, 96, 64, 32] ∧ 128 < n := by
  rw [autoGroup_eq] at h
  simp only [List.mem_cons, List.not_mem_nil, or_false]
  by_cases hn : n > 128
  · rw [if_pos hn] at h
    by_cases h1 : n % 128 = 0
    · rw [if_pos h1] at h; cases h
      exact ⟨Nat.dvd_of_mod_eq_zero h1, .inl rfl, hn⟩
    rw [if_neg h1] at h
    by_cases h2 : n % 96 = 0
    · rw [if_pos h2] at h; cases h
      exact ⟨Nat.dvd_of_mod_eq_zero h2, .inr (.inl rfl), hn⟩
    rw [if_neg h2] at h
    by_cases h3 : n % 64 = 0
    · rw [if_pos h3] at h; cases h
      exact ⟨Nat.dvd_of_mod_eq_zero h3, .inr (.inr (.inl rfl)), hn⟩
    rw [if_neg h3] at h
    by_cases h4 : n % 32 = 0
    · rw [if_pos h4] at h; cases h
      exact ⟨Nat.dvd_of_mod_eq_zero h4, .inr (.inr (.inr rfl)), hn⟩
    rw [if_neg h4] at h; cases h
  · rw [if_neg hn] at h; cases h

theorem C14_autogroup_none (n : Nat) :
    autoGroup n = none ↔
      (n ≤ 128 ∨ (n % 128 ≠ 0 ∧ n % 96 ≠ 0 ∧ n % 64 ≠ 0 ∧ n % 32 ≠ 0)) := by
  rw [autoGroup_eq]
  by_cases hn : n > 128
  · by_cases h1 : n % 128 = 0 <;> by_cases h2 : n % 96 = 0 <;> by_cases h3 : n % 64 = 0 <;>
      by_cases h4 : n % 32 = 0 <;> simp [hn, h1, h2, h3, h4] <;> omega
  · simp [hn]; omega

/-- no automatic group for at most 128 input features -/
theorem C14_autogroup_small (n : Nat) (h : n ≤ 128) : autoGroup n = none :=
  (C14_autogroup_none n).mpr (.inl h)

theorem C14_autogroup_maximal (n g : Nat) (h : autoGroup n = some g) :
    ∀ g' ∈ [128, 96, 64, 32], g' ∣ n → g' ≤ g := by
  rw [autoGroup_eq] at h
  intro g' hg' hdvd
  simp only [List.mem_cons, List.not_mem_nil, or_false] at hg'
  by_cases hn : n > 128
  · rw [if_pos hn] at h
    by_cases h1 : n % 128 = 0
    · rw [if_pos h1] at h; cases h
      rcases hg' with rfl | rfl | rfl | rfl <;> omega
    rw [if_neg h1] at h
    by_cases h2 : n % 96 = 0
    · rw [if_pos h2] at h; cases h
      rcases hg' with rfl | rfl | rfl | rfl <;> omega
    rw [if_neg h2] at h
    by_cases h3 : n % 64 = 0
    · rw [if_pos h3] at h; cases h
      rcases hg' with rfl | rfl | rfl | rfl <;> omega
    rw [if_neg h3] at h
    by_cases h4 : n % 32 = 0
    · rw [if_pos h4] at h; cases h
      rcases hg' with rfl | rfl | rfl | rfl <;> omega
    rw [if_neg h4] at h; cases h
  · rw [if_neg hn] at h; cases h

theorem C14_autogroup_groupable (n g out : Nat) (h : autoGroup n = some g) (ho : 1 ≤ out) :
    ∃ s, groupShape [out, n] true g = some s := by
  obtain ⟨hdvd, hmem, hn⟩ := C14_autogroup_some n g h
  simp only [List.mem_cons, List.not_mem_nil, or_false] at hmem
  have hq : prod [out, n] / out = n := by
    simp only [prod, Nat.mul_one]
    exact Nat.mul_div_cancel_left n (by omega)
  have hmod : n % g = 0 := Nat.mod_eq_zero_of_dvd hdvd
  unfold groupShape
  simp only [if_true, List.headD_cons, hq]
  rw [if_neg (by omega), if_neg (by omega), if_neg (by omega)]
  exact ⟨_, rfl⟩

theorem C14_autogroup_groupable_conv (c kh kw g out : Nat)
    (h : autoGroup (c * kh * kw) = some g) (ho : 1 ≤ out) :
    ∃ s, groupShape [out, c, kh, kw] true g = some s := by
  obtain ⟨hdvd, hmem, hn⟩ := C14_autogroup_some _ g h
  simp only [List.mem_cons, List.not_mem_nil, or_false] at hmem
  have hq : prod [out, c, kh, kw] / out = c * kh * kw := by
    simp only [prod, Nat.mul_one]
    rw [Nat.mul_div_cancel_left _ (by omega : 0 < out), Nat.mul_assoc]
  have hmod : (c * kh * kw) % g = 0 := Nat.mod_eq_zero_of_dvd hdvd
  unfold groupShape
  simp only [if_true, List.headD_cons, hq]
  generalize c * kh * kw = m at *
  rw [if_neg (by omega), if_neg (by omega), if_neg (by omega)]
  exact ⟨_, rfl⟩

/-! ### non-vacuity -/

attribute [local instance] exceptDecEq

example : validateWeight [4, 256] .qint4 (some 0) (some 128) .default
    = .ok ⟨.qint4, some true, some 128⟩ := by decide
example : validateWeight [4, 256] .qint8 (some 0) none .default = .ok ⟨.qint8, some true, none⟩ := by
  decide
example : validateWeight [1, 256] .qint8 (some 0) none .default = .ok ⟨.qint8, none, none⟩ := by
  decide
example : validateWeight [4, 256] .qint4 (some 1) (some 128) .default = .error .valueError := by
  decide
example : validateWeight [4, 256] .qint4 none none .default = .error .valueError := by decide
example : validateWeight [4, 256] .qint4 (some 0) (some 100) .default = .error .valueError := by
  decide
example : validateWeight [4, 256] .qint8 (some 0) (some 128) .default = .error .valueError := by
  decide
example : validateWeight [4, 256] .qint8 (some 0) none .affine = .error .valueError := by decide
example : validateWeight [4, 256] .qint4 (some 0) none .symmetric = .error .valueError := by decide
example : validateActivation [] = .ok () := by decide
example : validateActivation [1] = .error .valueError := by decide
example : symValidate [4, 256] (some 0) [4, 1] = .ok (some true) := by decide
example : symValidate [4, 256] (some (-1)) [1, 256] = .ok (some false) := by decide
example : symValidate [4, 256] (some 1) [1, 256] = .ok (some false) := by decide
example : symValidate [4, 256] (some 0) [1, 4] = .error .valueError := by decide
example : symValidate [4, 256] none [] = .ok none := by decide
example : validateAffine [4, 256] .qint4 (some 0) (some 128) = .ok () := by decide
example : validateAffine [4, 256] .qint8 (some 0) none = .error .valueError := by decide
example : autoGroup 384 = some 128 := by decide
example : autoGroup 160 = some 32 := by decide
example : autoGroup 200 = none := by decide
example : autoGroup 96 = none := by decide
example : ∃ s, groupShape [8, 384] true 128 = some s :=
  C14_autogroup_groupable 384 128 8 (by decide) (by decide)

end Quanto

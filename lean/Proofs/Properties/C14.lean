import Quanto.Spec.C06
namespace Quanto

/-- placeholder until the configuration proofs land -/
theorem C14_autogroup_small (n : Nat) (h : n ≤ 128) : autoGroup n = none := by
  unfold autoGroup; simp; omega

end Quanto

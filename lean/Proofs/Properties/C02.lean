/-
Property C02 — 2/4-bit affine quantization of one group with the (repaired) `MaxOptimizer`:
range extension, step bound, zero-point range, code range, half-step error bound,
idempotence, and the defects of the original optimizer.

Setting: `F` a working format, `bits ∈ {2, 4}`, `N = 2^bits - 1`; `lo ≤ 0 ≤ hi` the extrema of
the group after the range has been extended to contain zero;
`s = maxOptScale F bits (.fin lo) (.fin hi)`, `z = maxOptZero F (.fin lo) s`.
-/
import Proofs.C02.Lemmas

namespace Quanto

/-- T1: extending the range of a finite group to contain zero (`ratMin`/`ratMax` are the
import-free `min`/`max` of `Quanto.Spec.C02`). -/
theorem C02_extend_range (a b : Rat) :
    extendRange true (.fin a) (.fin b) = (.fin (ratMin a 0), .fin (ratMax b 0)) :=
  extendRange_fin a b

/-- T1 with Mathlib's `min` / `max`. -/
theorem C02_extend_range_minmax (a b : Rat) :
    extendRange true (.fin a) (.fin b) = (.fin (min a 0), .fin (max b 0)) := by
  rw [extendRange_fin, ratMin_eq_min, ratMax_eq_max]

/-- T2: a finite step is non-negative and at most `(hi-lo)/N·(1+3u) + 2η`. -/
theorem C02_scale_bound (F : Fmt) (hF : WorkFmt F) (bits : Nat) (hb : bits = 2 ∨ bits = 4)
    (lo hi sq : Rat) (hlo : lo ≤ 0) (hhi : 0 ≤ hi)
    (hs : maxOptScale F bits (.fin lo) (.fin hi) = .fin sq) :
    0 ≤ sq ∧ sq ≤ stepBoundC02 F bits lo hi := by
  obtain ⟨h0, h1, -, -⟩ := scale_facts F hF bits hb lo hi sq hlo hhi hs
  exact ⟨h0, h1⟩

/-- T3: the scale of an all-zero group is (finite and) exactly zero. -/
theorem C02_scale_zero_group (F : Fmt) (hF : WorkFmt F) (bits : Nat) (hb : bits = 2 ∨ bits = 4) :
    maxOptScale F bits (.fin 0) (.fin 0) = .fin 0 := by
  have hN : nSteps bits ≠ 0 := by rcases nSteps_cases hb with h | h <;> rw [h] <;> norm_num
  rw [maxOptScale_eq]
  norm_num only [add_zero, neg_zero]
  rw [fl_zero F hF, div_fin F _ _ hN, zero_div, fl_zero F hF]

/-- T3 (requested form; only this direction holds, see
`C02_counterexample_scale_underflow`). -/
theorem C02_scale_zero_iff (F : Fmt) (hF : WorkFmt F) (bits : Nat) (hb : bits = 2 ∨ bits = 4)
    (lo hi sq : Rat) (hs : maxOptScale F bits (.fin lo) (.fin hi) = .fin sq)
    (hlo : lo = 0) (hhi : hi = 0) : sq = 0 := by
  subst hlo hhi
  rw [C02_scale_zero_group F hF bits hb] at hs
  exact (FV.fin.inj hs).symm

/-- T3: with a zero scale every code dequantizes to exactly 0, whatever the zero-point. -/
theorem C02_zero_group_deq (F : Fmt) (hF : WorkFmt F) :
    ∀ (c : Nat) (z : Int), affDeq F c (.fin 0) z = .fin 0 := by
  intro c z
  show F.fl (.fin (0 * _)) = _
  rw [zero_mul]; exact fl_zero F hF

/-- T4 (universal part): for a positive scale the zero-point is the rounded quotient
`round(fl(-lo/s))` itself — the int8 conversion does not wrap — and lies in `[0, 3·2^bits/2]`. -/
theorem C02_zeropoint_nowrap (F : Fmt) (hF : WorkFmt F) (bits : Nat) (hb : bits = 2 ∨ bits = 4)
    (lo hi sq : Rat) (hlo : lo ≤ 0) (hhi : 0 ≤ hi)
    (hs : maxOptScale F bits (.fin lo) (.fin hi) = .fin sq) (hpos : 0 < sq) :
    ∃ zf, F.div (.fin (-lo)) (.fin sq) = .fin zf ∧
      maxOptZero F (.fin lo) (.fin sq) = rhe zf ∧
      0 ≤ maxOptZero F (.fin lo) (.fin sq) ∧ 2 * maxOptZero F (.fin lo) (.fin sq) ≤ 3 * 2 ^ bits := by
  obtain ⟨zf, hfin, -, hz, h0, h1⟩ := zero_facts F hF bits hb lo hi sq hlo hhi hs hpos
  refine ⟨zf, by rw [div_fin F _ _ hpos.ne', hfin], hz, by rw [hz]; exact h0, ?_⟩
  rw [hz]; unfold nStepsI at h1; omega

/-- T4 (as requested, with the extra hypothesis that the scale is a normal number of `F`): the
zero-point lies in `[0, 2^bits - 1]`.  Without `hnorm` the upper bound is false, see
`C02_counterexample_zeropoint_subnormal`. -/
theorem C02_zeropoint_range_partial (F : Fmt) (hF : WorkFmt F) (bits : Nat)
    (hb : bits = 2 ∨ bits = 4) (lo hi sq : Rat) (hlo : lo ≤ 0) (hhi : 0 ≤ hi)
    (hs : maxOptScale F bits (.fin lo) (.fin hi) = .fin sq) (hnorm : pow2 F.emin ≤ sq) :
    0 ≤ maxOptZero F (.fin lo) (.fin sq) ∧ maxOptZero F (.fin lo) (.fin sq) ≤ 2 ^ bits - 1 := by
  have hpos : 0 < sq := lt_of_lt_of_le (pow2_pos _) hnorm
  obtain ⟨zf, -, -, hz, h0, -⟩ := zero_facts F hF bits hb lo hi sq hlo hhi hs hpos
  exact ⟨by rw [hz]; exact h0, zero_le_normal F hF bits hb lo hi sq hlo hhi hs hnorm⟩

/-- T5: the stored code always fits in `bits` bits (all inputs, including NaN / inf). -/
theorem C02_code_range (F : Fmt) (bits : Nat) (x s : FV) (z : Int) :
    affCode F bits x s z < 2 ^ bits :=
  toUint8_clamp_lt bits _

/-- T6: every element of the group is reproduced within half a step plus `epsC02`
(for every finite scale: positive, or zero after underflow). -/
theorem C02_bound (F : Fmt) (hF : WorkFmt F) (bits : Nat) (hb : bits = 2 ∨ bits = 4)
    (lo hi sq x yq : Rat) (hlo : lo ≤ 0) (hhi : 0 ≤ hi)
    (hs : maxOptScale F bits (.fin lo) (.fin hi) = .fin sq)
    (hx1 : lo ≤ x) (hx2 : x ≤ hi)
    (hy : affDeq F (affCode F bits (.fin x) (.fin sq) (maxOptZero F (.fin lo) (.fin sq))) (.fin sq)
      (maxOptZero F (.fin lo) (.fin sq)) = .fin yq) :
    |yq - x| ≤ sq / 2 + epsC02 F bits x sq := by
  unfold epsC02; rw [rabs_eq]
  obtain ⟨h0, -, -, -⟩ := scale_facts F hF bits hb lo hi sq hlo hhi hs
  rcases eq_or_lt_of_le h0 with h | hpos
  · subst h
    have := bound_zero_scale F hF bits hb lo hi x yq hlo hhi hs hx1 hx2 _ _ hy
    linarith
  · exact bound_main F hF bits hb lo hi sq x yq hlo hhi hs hpos hx1 hx2 hy

/-- T2 + T6: the executable element predicate of `Quanto.Spec.C02` accepts every element of a
group with a finite scale and a finite dequantized value. -/
theorem C02_spec_elem_ok (F : Fmt) (hF : WorkFmt F) (bits : Nat) (hb : bits = 2 ∨ bits = 4)
    (lo hi sq x yq : Rat) (hlo : lo ≤ 0) (hhi : 0 ≤ hi)
    (hs : maxOptScale F bits (.fin lo) (.fin hi) = .fin sq)
    (hx1 : lo ≤ x) (hx2 : x ≤ hi)
    (hy : affDeq F (affCode F bits (.fin x) (.fin sq) (maxOptZero F (.fin lo) (.fin sq))) (.fin sq)
      (maxOptZero F (.fin lo) (.fin sq)) = .fin yq) :
    specC02Elem F bits x lo hi (.fin sq)
      (affCode F bits (.fin x) (.fin sq) (maxOptZero F (.fin lo) (.fin sq)))
      (maxOptZero F (.fin lo) (.fin sq)) (.fin yq) = .ok := by
  obtain ⟨h0, h1⟩ := C02_scale_bound F hF bits hb lo hi sq hlo hhi hs
  have h2 := C02_bound F hF bits hb lo hi sq x yq hlo hhi hs hx1 hx2 hy
  unfold specC02Elem
  simp only [if_neg (not_lt.mpr h0), if_neg (not_lt.mpr h1)]
  rw [rabs_eq, if_pos h2]

/-- T7: re-quantizing a dequantized value with the group's scale and zero-point gives the code
back — in every working format (float32, float16, bfloat16), for the code of any input `x`
(finite or not), without any normality assumption on the scale. -/
theorem C02_idempotent (F : Fmt) (hF : WorkFmt F) (bits : Nat) (hb : bits = 2 ∨ bits = 4)
    (lo hi sq : Rat) (hlo : lo ≤ 0) (hhi : 0 ≤ hi)
    (hs : maxOptScale F bits (.fin lo) (.fin hi) = .fin sq) (hpos : 0 < sq) (x : FV) (yq : Rat)
    (hy : affDeq F (affCode F bits x (.fin sq) (maxOptZero F (.fin lo) (.fin sq))) (.fin sq)
      (maxOptZero F (.fin lo) (.fin sq)) = .fin yq) :
    affCode F bits (.fin yq) (.fin sq) (maxOptZero F (.fin lo) (.fin sq)) =
      affCode F bits x (.fin sq) (maxOptZero F (.fin lo) (.fin sq)) := by
  obtain ⟨zf, -, -, hz, h0, h1⟩ := zero_facts F hF bits hb lo hi sq hlo hhi hs hpos
  obtain ⟨-, -, -, hrep⟩ := scale_facts F hF bits hb lo hi sq hlo hhi hs
  have hu := (u_eta_work F hF).1
  have he := eta_le_milli F hF
  have hz24 : rhe zf ≤ 24 := by
    rcases nStepsI_cases hb with h | h <;> rw [h] at h1 <;> omega
  rw [hz] at hy ⊢
  exact idem_core F hF bits hb sq hrep hpos _ 24 h0 hz24 (by norm_num) (by norm_num)
    (by push_cast; linarith) _ (C02_code_range F bits x _ _) yq hy

/-- T7 (general form, float32 / float16): idempotence for any representable positive scale,
any zero-point in `[0, 127]` and any `bits`-bit code. -/
theorem C02_idempotent_code (F : Fmt) (hF' : F = f32 ∨ F = f16) (bits : Nat)
    (hb : bits = 2 ∨ bits = 4) (sq : Rat) (hrep : F.Rep sq) (hpos : 0 < sq) (z : Int)
    (hz0 : 0 ≤ z) (hz1 : z ≤ 127) (c : Nat) (hc : c < 2 ^ bits) (yq : Rat)
    (hy : affDeq F c (.fin sq) z = .fin yq) : affCode F bits (.fin yq) (.fin sq) z = c := by
  have hF : WorkFmt F := by rcases hF' with rfl | rfl <;> simp [WorkFmt]
  obtain ⟨hu, he⟩ := u_eta_small F hF'
  exact idem_core F hF bits hb sq hrep hpos z 127 hz0 hz1 (by norm_num) (by norm_num)
    (by push_cast; linarith) c hc yq hy

/-! ### T8: defects and boundary cases, by kernel evaluation -/

/-- T8a (defect of the original optimizer, `extendRange false`): on the float32 group
`[10, 10.03125]` with 4 bits the unwrapped zero-point is -4800, the stored int8 zero-point is
its wrap-around 64, and the element 10 dequantizes to about -0.102. -/
theorem C02_counterexample_unextended_range :
    extendRange false (.fin 10) (.fin (321 / 32)) = (.fin 10, .fin (321 / 32)) ∧
    maxOptScale f32 4 (.fin 10) (.fin (321 / 32)) = .fin (8947849 / 4294967296) ∧
    (f32.div (FV.fin (-10)) (.fin (8947849 / 4294967296))).round = .fin (-4800) ∧
    maxOptZero f32 (.fin 10) (.fin (8947849 / 4294967296)) = 64 ∧
    affDeq f32 (affCode f32 4 (.fin 10) (.fin (8947849 / 4294967296)) 64)
      (.fin (8947849 / 4294967296)) 64 = .fin (-6850697 / 67108864) := by
  decide +kernel

/-- T8b: a float16 group whose width is not representable has an infinite scale. -/
theorem C02_counterexample_range_overflow :
    maxOptScale f16 4 (.fin (-60000)) (.fin 60000) = .pinf := by
  decide +kernel

/-- T8c (defect of the original optimizer): a constant group gets a zero scale, hence (by
`C02_zero_group_deq`) dequantizes to 0 — error 3 here. -/
theorem C02_counterexample_constant_group_unextended :
    extendRange false (.fin 3) (.fin 3) = (.fin 3, .fin 3) ∧
    maxOptScale f32 4 (.fin 3) (.fin 3) = .fin 0 := by
  decide +kernel

/-- the converse of T3 fails: a non-zero group can have a zero scale (underflow). -/
theorem C02_counterexample_scale_underflow :
    maxOptScale f32 4 (.fin 0) (.fin (pow2 (-149))) = .fin 0 := by
  decide +kernel

/-- T4 without the normality hypothesis is false: with the subnormal range `[-22·2^-149, 0]`
the scale is `2^-149` and the zero-point is 22 > 15. -/
theorem C02_counterexample_zeropoint_subnormal :
    maxOptScale f32 4 (.fin (-22 * pow2 (-149))) (.fin 0) = .fin (pow2 (-149)) ∧
    maxOptZero f32 (.fin (-22 * pow2 (-149))) (.fin (pow2 (-149))) = 22 := by
  decide +kernel

/-! ### non-vacuity: concrete instances satisfy the hypotheses -/

/-- T2, T4 and T6 at float16, 4 bits, group `[-1, 2]`, `x = 1/2`:
scale 819/4096, zero-point 5, code 7, dequantized 819/2048. -/
example : (0 : Rat) ≤ 819 / 4096 ∧ (819 / 4096 : Rat) ≤ stepBoundC02 f16 4 (-1) 2 :=
  C02_scale_bound f16 (by simp [WorkFmt]) 4 (Or.inr rfl) (-1) 2 (819 / 4096) (by norm_num)
    (by norm_num) (by decide +kernel)

example : maxOptZero f16 (.fin (-1)) (.fin (819 / 4096)) = 5 := by decide +kernel

example : 0 ≤ maxOptZero f16 (.fin (-1)) (.fin (819 / 4096)) ∧
    maxOptZero f16 (.fin (-1)) (.fin (819 / 4096)) ≤ 2 ^ 4 - 1 :=
  C02_zeropoint_range_partial f16 (by simp [WorkFmt]) 4 (Or.inr rfl) (-1) 2 (819 / 4096)
    (by norm_num) (by norm_num) (by decide +kernel) (by norm_num [f16, pow2_eq])

example : |(819 / 2048 : Rat) - 1 / 2| ≤ 819 / 4096 / 2 + epsC02 f16 4 (1 / 2) (819 / 4096) :=
  C02_bound f16 (by simp [WorkFmt]) 4 (Or.inr rfl) (-1) 2 (819 / 4096) (1 / 2) (819 / 2048)
    (by norm_num) (by norm_num) (by decide +kernel) (by norm_num) (by norm_num)
    (by decide +kernel)

/-- T7 at the same instance: 819/2048 is re-quantized to the code 7 of `x = 1/2`. -/
example : affCode f16 4 (.fin (819 / 2048)) (.fin (819 / 4096))
      (maxOptZero f16 (.fin (-1)) (.fin (819 / 4096))) =
    affCode f16 4 (.fin (1 / 2)) (.fin (819 / 4096))
      (maxOptZero f16 (.fin (-1)) (.fin (819 / 4096))) :=
  C02_idempotent f16 (by simp [WorkFmt]) 4 (Or.inr rfl) (-1) 2 (819 / 4096) (by norm_num)
    (by norm_num) (by decide +kernel) (by norm_num) (.fin (1 / 2)) (819 / 2048) (by decide +kernel)

example : affCode f16 4 (.fin (1 / 2)) (.fin (819 / 4096)) 5 = 7 := by decide +kernel

/-- T6 and T7 at bfloat16, 2 bits, group `[-3, 1/2]`, `x = -3`:
scale 149/128, zero-point 3, code 0, dequantized -7/2. -/
example : |(-7 / 2 : Rat) - (-3)| ≤ 149 / 128 / 2 + epsC02 bf16 2 (-3) (149 / 128) :=
  C02_bound bf16 (by simp [WorkFmt]) 2 (Or.inl rfl) (-3) (1 / 2) (149 / 128) (-3) (-7 / 2)
    (by norm_num) (by norm_num) (by decide +kernel) (by norm_num) (by norm_num)
    (by decide +kernel)

example : affCode bf16 2 (.fin (-7 / 2)) (.fin (149 / 128))
      (maxOptZero bf16 (.fin (-3)) (.fin (149 / 128))) =
    affCode bf16 2 (.fin (-3)) (.fin (149 / 128))
      (maxOptZero bf16 (.fin (-3)) (.fin (149 / 128))) :=
  C02_idempotent bf16 (by simp [WorkFmt]) 2 (Or.inl rfl) (-3) (1 / 2) (149 / 128) (by norm_num)
    (by norm_num) (by decide +kernel) (by norm_num) (.fin (-3)) (-7 / 2) (by decide +kernel)

/-- T7 (general form) at float32: scale 1/4, zero-point 100, code 9. -/
example : affCode f32 4 (.fin (-91 / 4)) (.fin (1 / 4)) 100 = 9 :=
  C02_idempotent_code f32 (Or.inl rfl) 4 (Or.inr rfl) (1 / 4)
    ⟨1, -2, by norm_num, by norm_num [f32], by norm_num [f32]⟩ (by norm_num) 100 (by omega)
    (by omega) 9 (by norm_num) (-91 / 4) (by decide +kernel)

end Quanto

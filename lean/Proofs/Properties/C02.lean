import Quanto.Spec.C02
namespace Quanto

/-- placeholder until the affine proofs land -/
theorem C02_wrapInt8_id (n : Int) (h1 : -128 ≤ n) (h2 : n ≤ 127) : wrapInt8 n = n := by
  unfold wrapInt8; omega

end Quanto

import Quanto.Spec.C02
import Quanto.Spec.C01
namespace Quanto

/-- all-zero float8 slice with a zero scale: 0/0 is NaN (the defect repaired by clamping the scale) -/
theorem C16_counterexample_zero_scale_float8 : symCode f32 .e4m3 (.fin 0) (.fin 0) = .nan := by decide +kernel

end Quanto

/-
Property C16 — finite tensors never quantize to NaN / Inf whatever their range; a layer whose
weights are all zero outputs exactly its bias.

The theorems are corollaries of C01–C03 with every guard stated explicitly:
* the repaired (clamped) absmax optimizer returns a finite, strictly positive scale (T1);
* with a finite, strictly positive scale the stored code is finite (T2) and its dequantized
  value is finite as soon as `scale·|code|` is representable (T3) — the guard is necessary, see
  `C16_counterexample_deq_overflow_f16`;
* all-zero slices / groups give code 0 and dequantize to exactly 0 (T4, T5);
* the affine dequantizer is finite when `|scale|·|code - zeropoint|` is representable (T6);
* the linear forward of an all-zero weight row returns the bias exactly (T7).
-/
import Proofs.Properties.C01
import Proofs.Properties.C02
import Proofs.Properties.C03

namespace Quanto

/-! ## T1 — the repaired optimizer never returns a null, infinite or NaN scale -/

/-- T1: for a finite slice (absolute maximum `0 ≤ a ≤ F.maxFin`) the clamped absmax scale is a
finite, strictly positive number. -/
theorem C16_weight_scale_positive (F : Fmt) (hF : WorkFmt F) (qmax : Rat) (hq : 1 ≤ qmax)
    (a : Rat) (ha0 : 0 ≤ a) (ha : a ≤ F.maxFin) :
    ∃ sq, absmaxOf F qmax true (.fin a) = .fin sq ∧ 0 < sq := by
  obtain ⟨sq, h, hmin, -⟩ := C03_clamped_scale F hF qmax hq a ha0 ha
  exact ⟨sq, h, lt_of_lt_of_le (minPos_pos F) hmin⟩

/-- T1 at the level of a slice: the scale selected for the finite values `xs` (non-empty, all
magnitudes at most `F.maxFin`) is finite and strictly positive. -/
theorem C16_weight_scale_positive_slice (F : Fmt) (hF : WorkFmt F) (qmax : Rat) (hq : 1 ≤ qmax)
    (xs : List Rat) (hne : xs ≠ []) (hx : ∀ x ∈ xs, |x| ≤ F.maxFin) :
    ∃ sq, absmaxOf F qmax true (foldSlice FV.max (xs.map fun x => FV.abs (.fin x))) = .fin sq ∧
      0 < sq := by
  rw [C03_absmax_value xs hne]
  refine C16_weight_scale_positive F hF qmax hq _ (listAbsMax_nonneg xs) ?_
  -- the maximum of magnitudes that are all `≤ maxFin` is `≤ maxFin`
  have key : ∀ (l : List Rat) (b : Rat), b ≤ F.maxFin → (∀ x ∈ l, |x| ≤ F.maxFin) →
      l.foldl (fun a x => max a |x|) b ≤ F.maxFin := by
    intro l
    induction l with
    | nil => intro b hb _; simpa using hb
    | cons y ys ih =>
      intro b hb hl
      rw [List.foldl_cons]
      exact ih _ (max_le hb (hl y (by simp))) (fun x hx' => hl x (by simp [hx']))
  exact key xs 0 (by linarith [work_maxFin_ge F hF]) hx

/-! ## T2, T3 — finite input, positive scale: finite code, finite dequantized value -/

/-- T2: a finite input and a finite, strictly positive scale never give a NaN / Inf code. -/
theorem C16_sym_code_finite (F : Fmt) (hF : WorkFmt F) (Q : QT) (x sq : Rat) (hs : 0 < sq) :
    ∃ c, symCode F Q (.fin x) (.fin sq) = .fin c := by
  obtain ⟨c, h, -⟩ := C01_code_in_grid F hF Q x sq hs
  exact ⟨c, h⟩

/-- T3: the dequantized value of the code `c` is finite whenever the exact product `sq·|c|` does
not exceed the largest finite value of `F`. -/
theorem C16_sym_deq_finite (F : Fmt) (hF : WorkFmt F) (sq c : Rat) (hs : 0 < sq)
    (h : sq * |c| ≤ F.maxFin) : ∃ y, symDeq F (.fin c) (.fin sq) = .fin y :=
  C01_deq_finite F hF .qint8 0 sq hs c h

/-- every grid value has magnitude at most `-qmin` (128 for qint8, `qmax` for the float8 types) -/
theorem C16_grid_abs_le (Q : QT) {c : Rat} (hc : Q.InGrid c) : |c| ≤ -Q.qmin := by
  obtain ⟨h1, h2⟩ := QT.inGrid_bounds hc
  have h3 : Q.qmax ≤ -Q.qmin := by cases Q <;> norm_num [QT.qmax, QT.qmin]
  exact abs_le.mpr ⟨by linarith, by linarith⟩

/-- T3 (usable guard): if `sq·(-qmin)` is representable (`sq·128` for qint8, `sq·448` for e4m3,
`sq·57344` for e5m2) then quantize-dequantize of any finite `x` is finite.  The weaker guard
`sq·qmax ≤ F.maxFin` is not sufficient for qint8, whose grid is asymmetric
(`C16_counterexample_qmax_guard_int8`). -/
theorem C16_sym_deq_finite_of_scale (F : Fmt) (hF : WorkFmt F) (Q : QT) (sq : Rat) (hs : 0 < sq)
    (h : sq * (-Q.qmin) ≤ F.maxFin) (x : Rat) :
    ∃ c y, symCode F Q (.fin x) (.fin sq) = .fin c ∧ symDeq F (.fin c) (.fin sq) = .fin y := by
  obtain ⟨c, hc, hg⟩ := C01_code_in_grid F hF Q x sq hs
  have hb := C16_grid_abs_le Q hg
  obtain ⟨y, hy⟩ := C16_sym_deq_finite F hF sq c hs
    (le_trans (mul_le_mul_of_nonneg_left hb hs.le) h)
  exact ⟨c, y, hc, hy⟩

/-- T3 (usable guard, float8 qtypes): for e4m3 / e5m2 the guard is `sq·qmax ≤ F.maxFin`. -/
theorem C16_sym_deq_finite_of_scale_float8 (F : Fmt) (hF : WorkFmt F) (Q : QT)
    (hQ : Q.isFloat = true) (sq : Rat) (hs : 0 < sq) (h : sq * Q.qmax ≤ F.maxFin) (x : Rat) :
    ∃ c y, symCode F Q (.fin x) (.fin sq) = .fin c ∧ symDeq F (.fin c) (.fin sq) = .fin y := by
  apply C16_sym_deq_finite_of_scale F hF Q sq hs _ x
  rw [QT.qmin_float hQ, neg_neg]; exact h

/-- T3 (partial, qint8 with the `qmax` guard): under `sq·127 ≤ F.maxFin` the dequantized value
is finite for every code except the extra negative one, `-128`. -/
theorem C16_sym_deq_finite_of_scale_int8_partial (F : Fmt) (hF : WorkFmt F) (sq : Rat)
    (hs : 0 < sq) (h : sq * QT.qmax .qint8 ≤ F.maxFin) (x : Rat) :
    ∃ c, symCode F .qint8 (.fin x) (.fin sq) = .fin c ∧
      (c ≠ -128 → ∃ y, symDeq F (.fin c) (.fin sq) = .fin y) := by
  obtain ⟨c, hc, hg⟩ := C01_code_in_grid F hF .qint8 x sq hs
  refine ⟨c, hc, fun hne => ?_⟩
  obtain ⟨n, rfl, h1, h2⟩ := hg
  have hn : n ≠ -128 := by rintro rfl; exact hne (by norm_num)
  have hb : |(n : Rat)| ≤ 127 := by
    have : |n| ≤ 127 := abs_le.mpr ⟨by omega, h2⟩
    exact_mod_cast this
  exact C16_sym_deq_finite F hF sq _ hs
    (le_trans (mul_le_mul_of_nonneg_left hb hs.le) (by simpa [QT.qmax] using h))

/-! ## T4 — all-zero slices (symmetric, all three 8-bit qtypes) -/

/-- the code of `0` is `0` for every strictly positive finite scale -/
theorem C16_sym_code_zero (F : Fmt) (hF : WorkFmt F) (Q : QT) (sq : Rat) (hs : 0 < sq) :
    symCode F Q (.fin 0) (.fin sq) = .fin 0 := by
  have h0 : F.fl (.fin (0 / sq)) = .fin 0 := by rw [zero_div]; exact fl_zero F hF
  rw [symCode_of_fin F Q 0 sq 0 hs.ne' h0]
  congr 1
  have hm : clampR Q.qmin Q.qmax 0 = 0 := clampR_of_mem Q.qmin_neg.le Q.qmax_pos.le
  unfold codeOf
  split_ifs
  · rw [hm, rndFin_zero]
  · have : ((rhe 0 : Int) : Rat) = 0 := by
      have := rhe_int 0
      simp only [Int.cast_zero] at this
      rw [this]; rfl
    rw [this, hm]

/-- the code `0` dequantizes to exactly `0` with every finite scale -/
theorem C16_sym_deq_zero (F : Fmt) (hF : WorkFmt F) (sq : Rat) :
    symDeq F (.fin 0) (.fin sq) = .fin 0 := by
  rw [symDeq_eq, mul_zero]; exact fl_zero F hF

/-- T4: an all-zero row / tensor / batch (absolute maximum 0) gets the scale `F.minPos` from the
repaired optimizer, is stored as the code `0` and dequantizes to exactly `0` — for the three
8-bit qtypes and any divisor `qmax ≥ 1`. -/
theorem C16_zero_slice (F : Fmt) (hF : WorkFmt F) (Q : QT) (qmax : Rat) (hq : 1 ≤ qmax) :
    absmaxOf F qmax true (.fin 0) = .fin F.minPos ∧
    symCode F Q (.fin 0) (absmaxOf F qmax true (.fin 0)) = .fin 0 ∧
    symDeq F (.fin 0) (absmaxOf F qmax true (.fin 0)) = .fin 0 := by
  have hs : absmaxOf F qmax true (.fin 0) = .fin F.minPos := by
    have := C03_zero_slice_clamped F hF qmax hq [] (by simp [listAbsMax])
    simpa [listAbsMax] using this
  rw [hs]
  exact ⟨rfl, C16_sym_code_zero F hF Q _ (minPos_pos F), C16_sym_deq_zero F hF _⟩

/-! ## T5, T6 — affine (2/4-bit) dequantizer -/

/-- T5: in an all-zero group the selected scale is `0` and every stored code dequantizes to
exactly `0`, whatever the zero-point. -/
theorem C16_zero_group_affine (F : Fmt) (hF : WorkFmt F) (bits : Nat) (hb : bits = 2 ∨ bits = 4) :
    ∀ (c : Nat) (z : Int), affDeq F c (maxOptScale F bits (.fin 0) (.fin 0)) z = .fin 0 := by
  intro c z
  rw [C02_scale_zero_group F hF bits hb]
  exact C02_zero_group_deq F hF c z

/-- the int8 difference `code - zeropoint` (after wrap-around) has magnitude at most 128 -/
theorem C16_wrapInt8_abs_le (n : Int) : |((wrapInt8 n : Int) : Rat)| ≤ 128 := by
  have h : |wrapInt8 n| ≤ 128 := by
    unfold wrapInt8
    exact abs_le.mpr ⟨by omega, by omega⟩
  exact_mod_cast h

/-- T6 (tight guard): the affine dequantized value is finite whenever
`|scale|·|code - zeropoint|` (int8 difference) does not exceed the largest finite value of `F`.
No sign assumption on the scale is needed. -/
theorem C16_affine_deq_finite (F : Fmt) (hF : WorkFmt F) (c : Nat) (sq : Rat) (z : Int)
    (h : |sq| * |((wrapInt8 (wrapInt8 c - z) : Int) : Rat)| ≤ F.maxFin) :
    ∃ y, affDeq F c (.fin sq) z = .fin y := by
  refine ⟨F.flR (sq * ((wrapInt8 (wrapInt8 c - z) : Int) : Rat)), ?_⟩
  show F.fl (.fin (sq * _)) = _
  apply fl_fin_of_le F hF
  rwa [abs_mul]

/-- T6 (usable guard): if `|scale|·128` is representable, every code and zero-point dequantize
to a finite value. -/
theorem C16_affine_deq_finite_of_scale (F : Fmt) (hF : WorkFmt F) (sq : Rat)
    (h : |sq| * 128 ≤ F.maxFin) :
    ∀ (c : Nat) (z : Int), ∃ y, affDeq F c (.fin sq) z = .fin y := by
  intro c z
  apply C16_affine_deq_finite F hF
  exact le_trans (mul_le_mul_of_nonneg_left (C16_wrapInt8_abs_le _) (abs_nonneg sq)) h

/-! ## T7 — a layer whose weights are all zero outputs exactly its bias -/

/-- the dot product of finite inputs with an all-zero (dequantized) weight row is exactly 0 -/
theorem C16_zero_dot (F : Fmt) (hF : WorkFmt F) (xs : List Rat) :
    (xs.map fun x => F.mul (.fin x) (.fin 0)).foldl F.add (.fin 0) = .fin 0 := by
  have hmul : ∀ x : Rat, F.mul (.fin x) (.fin 0) = .fin 0 := by
    intro x
    show F.fl (.fin (x * 0)) = _
    rw [mul_zero]; exact fl_zero F hF
  have hadd : F.add (.fin 0) (.fin 0) = .fin 0 := by
    show F.fl (.fin (0 + 0)) = _
    rw [add_zero]; exact fl_zero F hF
  induction xs with
  | nil => rfl
  | cons x xs ih =>
    rw [List.map_cons, List.foldl_cons, hmul, hadd]
    exact ih

/-- T7: linear forward in the model's float arithmetic.  For finite inputs `xs`, an all-zero
weight row and a bias `b` that is a finite number of `F`, the output
`(Σ xᵢ·0) + b` is exactly `b`. -/
theorem C16_zero_layer (F : Fmt) (hF : WorkFmt F) (xs : List Rat) (b : Rat) (hb : F.Rep b)
    (hbm : |b| ≤ F.maxFin) :
    F.add ((xs.map fun x => F.mul (.fin x) (.fin 0)).foldl F.add (.fin 0)) (.fin b) = .fin b := by
  rw [C16_zero_dot F hF xs]
  show F.fl (.fin (0 + b)) = _
  rw [zero_add]
  exact fl_of_rep F hF b hb hbm

/-- T7 composed with T4: the weights of the row are the dequantized codes of an all-zero row
quantized with the scale selected by the repaired optimizer. -/
theorem C16_zero_layer_quantized (F : Fmt) (hF : WorkFmt F) (Q : QT) (qmax : Rat) (hq : 1 ≤ qmax)
    (xs : List Rat) (b : Rat) (hb : F.Rep b) (hbm : |b| ≤ F.maxFin) :
    let s := absmaxOf F qmax true (.fin 0)
    let w := symDeq F (symCode F Q (.fin 0) s) s
    F.add ((xs.map fun x => F.mul (.fin x) w).foldl F.add (.fin 0)) (.fin b) = .fin b := by
  intro s w
  obtain ⟨-, h2, h3⟩ := C16_zero_slice F hF Q qmax hq
  have hw : w = .fin 0 := by show symDeq F (symCode F Q (.fin 0) s) s = _; rw [h2]; exact h3
  rw [hw]
  exact C16_zero_layer F hF xs b hb hbm

/-! ## T8 — recorded findings (counterexamples) -/

/-- all-zero float8 slice with a zero scale: 0/0 is NaN (the defect repaired by clamping the scale) -/
theorem C16_counterexample_zero_scale_float8 : symCode f32 .e4m3 (.fin 0) (.fin 0) = .nan := by decide +kernel

/-- the original optimizer returned a null scale for an all-zero row -/
theorem C16_counterexample_unclamped_zero_row : absmaxOf f32 127 false (.fin 0) = .fin 0 := by
  decide +kernel

/-- the guard of T3 is necessary: a float16 row whose maximum is the largest float16 number gets
the scale 516, the code 127, and dequantizes to `+inf` (`516·127 = 65532 > 65504`). -/
theorem C16_counterexample_deq_overflow_f16 :
    absmaxOf f16 127 true (.fin 65504) = .fin 516 ∧
    symCode f16 .qint8 (.fin 65504) (.fin 516) = .fin 127 ∧
    symDeq f16 (.fin 127) (.fin 516) = .pinf := by
  decide +kernel

/-- for qint8 the guard `sq·qmax ≤ F.maxFin` is not sufficient: with the float16 scale 1027/2
(`513.5·127 = 65214.5 ≤ 65504`) the finite input `-65504` is stored as `-128`, which
dequantizes to `-inf`. -/
theorem C16_counterexample_qmax_guard_int8 :
    (1027 / 2 : Rat) * QT.qmax .qint8 ≤ f16.maxFin ∧
    symCode f16 .qint8 (.fin (-65504)) (.fin (1027 / 2)) = .fin (-128) ∧
    symDeq f16 (.fin (-128)) (.fin (1027 / 2)) = .ninf := by
  decide +kernel

/-- the finiteness of the inputs in T7 is necessary: `inf·0` is NaN -/
theorem C16_counterexample_zero_layer_inf_input : f32.mul .pinf (.fin 0) = .nan := by
  decide +kernel

/-! ## non-vacuity: concrete instances of T1–T4 -/

/-- T1 at float16, qmax = 127, a = 1: the hypotheses hold. -/
example : ∃ sq, absmaxOf f16 127 true (.fin 1) = .fin sq ∧ 0 < sq :=
  C16_weight_scale_positive f16 (by simp [WorkFmt]) 127 (by norm_num) 1 (by norm_num)
    (by norm_num [Fmt.maxFin, f16, pow2_eq])

/-- … and the scale it produces is 129/16384. -/
example : absmaxOf f16 127 true (.fin 1) = .fin (129 / 16384) := by decide +kernel

/-- T1 on the slice `[1/3, -2, 5/4]` in bfloat16 with the e4m3 divisor. -/
example : ∃ sq, absmaxOf bf16 448 true
    (foldSlice FV.max (([1 / 3, -2, 5 / 4] : List Rat).map fun x => FV.abs (.fin x))) = .fin sq ∧
      0 < sq :=
  C16_weight_scale_positive_slice bf16 (by simp [WorkFmt]) 448 (by norm_num) _ (by simp)
    (by
      have h : (2 : Rat) ≤ bf16.maxFin := by norm_num [Fmt.maxFin, bf16, pow2_eq]
      intro x hx
      simp only [List.mem_cons, List.not_mem_nil, or_false] at hx
      rcases hx with rfl | rfl | rfl <;> refine le_trans ?_ h <;> norm_num [abs_le])

/-- T2 at float16 / e4m3, x = 1/3, scale 1/100. -/
example : ∃ c, symCode f16 .e4m3 (.fin (1 / 3)) (.fin (1 / 100)) = .fin c :=
  C16_sym_code_finite f16 (by simp [WorkFmt]) .e4m3 (1 / 3) (1 / 100) (by norm_num)

/-- T3 at float16, scale 1/100, code 33: `33/100 ≤ 65504`. -/
example : ∃ y, symDeq f16 (.fin 33) (.fin (1 / 100)) = .fin y :=
  C16_sym_deq_finite f16 (by simp [WorkFmt]) (1 / 100) 33 (by norm_num)
    (by norm_num [Fmt.maxFin, f16, pow2_eq])

/-- T3 (usable guard) at float16 / qint8, scale 500: `500·128 = 64000 ≤ 65504`. -/
example : ∃ c y, symCode f16 .qint8 (.fin (-65504)) (.fin 500) = .fin c ∧
    symDeq f16 (.fin c) (.fin 500) = .fin y :=
  C16_sym_deq_finite_of_scale f16 (by simp [WorkFmt]) .qint8 500 (by norm_num)
    (by norm_num [Fmt.maxFin, f16, pow2_eq, QT.qmin]) (-65504)

/-- T4 at float16 / e5m2: the scale of the all-zero slice is the smallest subnormal `2^-24`. -/
example : absmaxOf f16 57344 true (.fin 0) = .fin (pow2 (-24)) ∧
    symCode f16 .e5m2 (.fin 0) (absmaxOf f16 57344 true (.fin 0)) = .fin 0 ∧
    symDeq f16 (.fin 0) (absmaxOf f16 57344 true (.fin 0)) = .fin 0 :=
  C16_zero_slice f16 (by simp [WorkFmt]) .e5m2 57344 (by norm_num)

/-- T6 at float16, 4-bit code 15, zero-point 8, scale 1/10. -/
example : ∃ y, affDeq f16 15 (.fin (1 / 10)) 8 = .fin y :=
  C16_affine_deq_finite_of_scale f16 (by simp [WorkFmt]) (1 / 10)
    (by norm_num [Fmt.maxFin, f16, pow2_eq, abs_of_pos]) 15 8

/-- T7 at float32 with inputs `[1/3, -7, 1000]` and bias `3/4`. -/
example : f32.add (([1 / 3, -7, 1000] : List Rat).map (fun x => f32.mul (.fin x) (.fin 0))
    |>.foldl f32.add (.fin 0)) (.fin (3 / 4)) = .fin (3 / 4) :=
  C16_zero_layer f32 (by simp [WorkFmt]) _ (3 / 4) ⟨3, -2, by norm_num, by norm_num [f32], by
    simp only [f32]; omega⟩ (by norm_num [Fmt.maxFin, f32, pow2_eq, abs_of_pos])

end Quanto

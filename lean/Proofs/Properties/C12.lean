/-
Property C12 — inside `Calibration(momentum = m)` the activation scale of a module is the
exponential moving average (momentum `m`, initialised by the first batch) of the per-batch absmax
scales; a module fed an already quantized tensor adopts that tensor's scale; after a single batch
no activation of that batch saturates.  The value 1 of the buffer is the "not calibrated yet"
sentinel: the average restarts whenever it is reached (`C12_counterexample_sentinel`).
Helper lemmas: `Proofs/C12/Lemmas.lean`.
-/
import Quanto.Calib
import Proofs.C12.Lemmas
import Proofs.Properties.C03
import Proofs.C12.Streamline
namespace Quanto

/-- a single batch initialises the scale -/
theorem C12_first_batch (F : Fmt) (m : Rat) (x : FV) : calibFold F m [.batch x] = x := by
  simp [calibFold, applyEvent, updatedScale]

/-! ### T1: the fold of the code is the exponential moving average of the property -/

/-- generalised form: from a buffer value `s` already produced by some event -/
theorem C12_ema_acc (F : Fmt) (m : Rat) (evs : List ScaleEvent) (s : FV)
    (h : noSentinelFrom F m s evs = true) :
    emaSpec F m evs (some s) = some (calibFold F m evs s) := by
  induction evs generalizing s with
  | nil => rfl
  | cons e evs ih =>
    cases e with
    | batch x =>
      simp only [noSentinelFrom, Bool.and_eq_true, bne_iff_ne, ne_eq] at h
      rw [calibFold_cons]
      show emaSpec F m evs (some (emaStep F m s x)) = some (calibFold F m evs (updatedScale F m s x))
      rw [updatedScale_of_ne F m h.1]
      exact ih _ h.2
    | adopt s' =>
      simp only [noSentinelFrom] at h
      rw [calibFold_cons]
      exact ih _ h

/-- T1: whenever no batch meets the sentinel value after the first event, the scale computed by
the code is the property's moving average -/
theorem C12_ema (F : Fmt) (m : Rat) (evs : List ScaleEvent) (hne : evs ≠ [])
    (h : noSentinel F m evs) : emaSpec F m evs none = some (calibFold F m evs) := by
  cases evs with
  | nil => exact absurd rfl hne
  | cons e evs =>
    rw [noSentinel_cons_iff] at h
    rw [calibFold_cons]
    cases e with
    | batch x =>
      change noSentinelFrom F m (updatedScale F m (.fin 1) x) evs = true at h
      show emaSpec F m evs (some x) = some (calibFold F m evs (updatedScale F m (.fin 1) x))
      rw [updatedScale_sentinel] at h ⊢
      exact C12_ema_acc F m evs x h
    | adopt s => exact C12_ema_acc F m evs s h

/-- the recursive (executable) and the prefix reading of "the sentinel never interferes" agree -/
theorem C12_noSentinel_iff (F : Fmt) (m : Rat) (e : ScaleEvent) (evs : List ScaleEvent) :
    noSentinel F m (e :: evs) ↔ noSentinelFrom F m (applyEvent F m (.fin 1) e) evs = true :=
  noSentinel_cons_iff F m e evs

/-! ### T2: adopted scales -/

/-- a module fed an already quantized tensor adopts that tensor's scale, whatever happened before -/
theorem C12_adopt (F : Fmt) (m : Rat) (evs : List ScaleEvent) (s : FV) (init : FV := .fin 1) :
    calibFold F m (evs ++ [.adopt s]) init = s := by
  rw [calibFold_append]; rfl

/-- after an adopt of `s ≠ 1` the following batch is averaged from `s` -/
theorem C12_adopt_then_batches (F : Fmt) (m : Rat) (evs : List ScaleEvent) (s x : FV)
    (hs : s ≠ .fin 1) (init : FV := .fin 1) :
    calibFold F m (evs ++ [.adopt s, .batch x]) init = emaStep F m s x := by
  rw [calibFold_append]
  show updatedScale F m s x = _
  exact updatedScale_of_ne F m hs x

/-- (recorded finding, adopt flavour) an adopted scale equal to 1 is forgotten by the next batch -/
theorem C12_adopt_one_then_batch (F : Fmt) (m : Rat) (evs : List ScaleEvent) (x : FV)
    (init : FV := .fin 1) :
    calibFold F m (evs ++ [.adopt (.fin 1), .batch x]) init = x := by
  rw [calibFold_append]
  show updatedScale F m (.fin 1) x = _
  exact updatedScale_sentinel F m x

/-! ### T3: momentum 0 -/

/-- with momentum 0 the scale is the last batch's range, exactly -/
theorem C12_momentum_zero (F : Fmt) (hF : WorkFmt F) (sq xq : Rat) (hx : F.Rep xq)
    (hm : |xq| ≤ F.maxFin) : emaStep F 0 (.fin sq) (.fin xq) = .fin xq := by
  rw [emaStep_fin, rndFin_zero, sub_zero, f64_rndFin_one, f32_rndFin_one, zero_mul, mul_one,
    fl_zero F hF, fl_of_rep F hF xq hx hm, add_fin_fin, zero_add, fl_of_rep F hF xq hx hm]

/-- the fold with momentum 0 returns the last batch -/
theorem C12_momentum_zero_fold (F : Fmt) (hF : WorkFmt F) (evs : List ScaleEvent) (sq xq : Rat)
    (hs : calibFold F 0 evs = .fin sq) (hx : F.Rep xq) (hm : |xq| ≤ F.maxFin) :
    calibFold F 0 (evs ++ [.batch (.fin xq)]) = .fin xq := by
  rw [calibFold_append, hs]
  show updatedScale F 0 (.fin sq) (.fin xq) = _
  unfold updatedScale
  split
  · rfl
  · exact C12_momentum_zero F hF sq xq hx hm

/-! ### T4: the sentinel defect -/

/-- (recorded finding) a first batch whose scale is exactly 1 (an int8 batch with absmax 127) is
forgotten: the next batch restarts the average instead of being averaged with it -/
theorem C12_counterexample_sentinel :
    calibFold f32 ((8106479329266893 : Rat) / 9007199254740992) [.batch (.fin 1), .batch (.fin 2)]
      = .fin 2 ∧
    emaSpec f32 ((8106479329266893 : Rat) / 9007199254740992) [.batch (.fin 1), .batch (.fin 2)] none
      ≠ some (.fin 2) := by
  decide +kernel

/-! ### T5: one step is a convex combination up to rounding -/

/-- T5: for a momentum in `[0,1]` and non-negative finite scales, a finite result of one update
lies between the smaller and the larger of the old scale and the batch scale, up to a relative
error `4u` and an absolute error `4η` (no magnitude guard is needed: a finite result forces finite
intermediate products) -/
theorem C12_ema_between (F : Fmt) (hF : WorkFmt F) (m : Rat) (hm0 : 0 ≤ m) (hm1 : m ≤ 1)
    (s x y : Rat) (hs : 0 ≤ s) (hx : 0 ≤ x) (h : emaStep F m (.fin s) (.fin x) = .fin y) :
    min s x * (1 - 4 * F.u) - 4 * F.eta ≤ y ∧ y ≤ max s x * (1 + 4 * F.u) + 4 * F.eta := by
  rw [emaStep_fin] at h
  obtain ⟨ha, hb, hab1, hab2⟩ := weights_bounds m hm0 hm1
  generalize f32.rndFin m = a at *
  generalize f32.rndFin (f64.rndFin (1 - m)) = b at *
  obtain ⟨P, Q, hP, hQ⟩ := add_fin_inv F hF _ _ y h
  rw [hP, hQ, add_fin_fin] at h
  have eP := abs_le.mp (fl_err F hF _ _ hP)
  have eQ := abs_le.mp (fl_err F hF _ _ hQ)
  have ey := abs_le.mp (fl_err F hF _ _ h)
  have has : 0 ≤ a * s := mul_nonneg ha hs
  have hxb : 0 ≤ x * b := mul_nonneg hx hb
  have hP0 : 0 ≤ P := by
    obtain ⟨rfl, -⟩ := fl_fin F hF _ _ hP
    exact le_flR_of_rep F hF (Rep_zero F) has
  have hQ0 : 0 ≤ Q := by
    obtain ⟨rfl, -⟩ := fl_fin F hF _ _ hQ
    exact le_flR_of_rep F hF (Rep_zero F) hxb
  rw [abs_of_nonneg has] at eP
  rw [abs_of_nonneg hxb] at eQ
  rw [abs_of_nonneg (add_nonneg hP0 hQ0)] at ey
  have hu0 := F.u_nonneg
  have he0 := F.eta_nonneg
  have hu := (u_eta_work F hF).1
  have hug := work_u_ge F hF
  have hk0 : (0 : Rat) ≤ pow2 (-52) := (pow2_pos _).le
  have hk1 : pow2 (-52) ≤ 1 / 100 * pow2 (-24) := by norm_num [pow2_eq]
  constructor
  · exact ema_lower_core F.u F.eta (pow2 (-24) + pow2 (-52)) a b s x P Q y hu0 hu he0
      (by linarith) ha hb hab2 hs hx (by linarith [eP.1]) (by linarith [eQ.1]) (by linarith [ey.1])
  · exact ema_upper_core F.u F.eta (pow2 (-24) + pow2 (-52)) a b s x P Q y hu0 hu he0
      (by linarith) ha hb hab1 hs (by linarith [eP.2]) (by linarith [eQ.2]) (by linarith [ey.2])

/-! ### T6: after a single batch nothing saturates -/

/-- T6: if the only batch has values `xs`, the scale after it is the (clamped) absmax scale of
`xs`, and no element of the batch exceeds the representable range `sq·qmax` by more than rounding -/
theorem C12_single_batch_no_saturation (F : Fmt) (hF : WorkFmt F) (m : Rat) (qmax : Rat)
    (hq : 1 ≤ qmax) (xs : List Rat) (sq : Rat)
    (h : calibFold F m [.batch (absmaxOf F qmax true (.fin (listAbsMax xs)))] = .fin sq) :
    ∀ x ∈ xs, |x| ≤ sq * qmax * (1 + 2 * F.u) + F.eta * qmax := by
  rw [C12_first_batch] at h
  exact C03_nonsaturating_clamped F hF qmax hq xs sq h


/-! ### which modules keep quantized activations (streamlining) -/

/-- T6: after any sequence of intercepted function calls, starting from the empty table, a module
is marked "quantized activations required" exactly when some call took its output and returned a
quantized tensor. -/
theorem C12_streamline_required_iff (cs : List FnCall) (k : Nat) :
    (recordCalls [] cs).get k = requiredBy cs k := by
  rw [get_recordCalls]; simp [QActTable.get]

/-- T6: the mark is monotone — once required, later calls (whatever they return) keep it. -/
theorem C12_streamline_monotone (t : QActTable) (cs : List FnCall) (k : Nat) (h : t.get k = true) :
    (recordCalls t cs).get k = true := by
  rw [get_recordCalls, h]; rfl

/-- T6: the children disabled at the end of the parent's forward are exactly its children that no
call required — in particular the result does not depend on the order of the calls. -/
theorem C12_streamline_disabled_iff (cs : List FnCall) (children : List Nat) (c : Nat) :
    c ∈ disabledChildren (recordCalls [] cs) children ↔ c ∈ children ∧ requiredBy cs c = false := by
  simp [disabledChildren, C12_streamline_required_iff]

theorem C12_streamline_order_independent (cs cs' : List FnCall) (hp : cs.Perm cs') (children : List Nat) :
    disabledChildren (recordCalls [] cs) children = disabledChildren (recordCalls [] cs') children := by
  unfold disabledChildren
  apply List.filter_congr
  intro c _
  rw [C12_streamline_required_iff, C12_streamline_required_iff]
  unfold requiredBy
  rw [hp.any_eq]

/-- T6, the code as it is: `qinput = QTensor in types` tests the class `QTensor` itself.  The
arguments quanto hands to torch functions are `QBytesTensor` / `QBitsTensor` instances, whose class
is not `QTensor`: such calls record nothing, so that with streamlining every child that has
quantized activations is disabled at the end of its parent's forward, whatever consumed its output. -/
theorem C12_streamline_subclass_arguments_record_nothing (cs : List FnCall)
    (h : ∀ c ∈ cs, "QTensor" ∉ c.types) (children : List Nat) :
    disabledChildren (recordCalls [] cs) children = children := by
  unfold disabledChildren
  rw [List.filter_eq_self]
  intro c _
  rw [C12_streamline_required_iff]
  unfold requiredBy
  simp only [Bool.not_eq_true', List.any_eq_false]
  intro call hc
  have : call.qinput = false := by
    unfold FnCall.qinput
    simpa using h call hc
  simp [this]

/-- non-vacuity: module 1 feeds a function that returns a quantized tensor, module 2 only functions
that return plain tensors, module 3 feeds nothing: 2 and 3 are disabled -/
example : disabledChildren (recordCalls [] [⟨[1], true, ["QTensor"]⟩, ⟨[2], false, ["QTensor"]⟩, ⟨[1, 2], false, ["QTensor"]⟩]) [1, 2, 3] = [2, 3] := by
  decide

/-- the same calls with the classes quanto's tensors really have: everything is disabled -/
example : disabledChildren (recordCalls [] [⟨[1], true, ["QBytesTensor"]⟩, ⟨[2], false, ["QBytesTensor"]⟩]) [1, 2, 3] = [1, 2, 3] :=
  C12_streamline_subclass_arguments_record_nothing _ (by decide) _

/-! ### non-vacuity -/

/-- T1 on a concrete three-batch history in float16 with momentum 0.9 (as a double): the
hypotheses hold and both sides are the float16 number 2037/4096 -/
example :
    let m : Rat := (8106479329266893 : Rat) / 9007199254740992
    let evs : List ScaleEvent := [.batch (.fin (1 / 2)), .batch (.fin (3 / 4)), .batch (.fin (1 / 4))]
    noSentinel f16 m evs ∧ emaSpec f16 m evs none = some (calibFold f16 m evs) ∧
      calibFold f16 m evs = .fin (2037 / 4096) := by
  intro m evs
  have hns : noSentinel f16 m evs := by
    rw [noSentinel_cons_iff]; decide +kernel
  exact ⟨hns, C12_ema f16 m evs (by simp [evs]) hns, by decide +kernel⟩

/-- T5 on a concrete step: 1075/2048 lies between 1/2 and 3/4 (up to rounding) -/
example : emaStep f16 ((8106479329266893 : Rat) / 9007199254740992) (.fin (1 / 2)) (.fin (3 / 4))
    = .fin (1075 / 2048) := by decide +kernel

/-- T3 on a concrete step in bfloat16 -/
example : emaStep bf16 0 (.fin 5) (.fin (3 / 4)) = .fin (3 / 4) :=
  C12_momentum_zero bf16 (by simp [WorkFmt]) 5 (3 / 4) ⟨3, -2, by norm_num, by norm_num [bf16], by decide⟩
    (by norm_num [Fmt.maxFin, bf16, pow2_eq])

end Quanto

import Quanto.Calib
namespace Quanto

/-- a single batch initialises the scale -/
theorem C12_first_batch (F : Fmt) (m : Rat) (x : FV) : calibFold F m [.batch x] = x := by
  simp [calibFold, applyEvent, updatedScale]

end Quanto

import Quanto.Module
namespace Quanto

/-- freezing twice is freezing once -/
theorem C09_freeze_idempotent (s : WState) : s.freeze.freeze = s.freeze := by
  cases s <;> rfl

end Quanto

/-
C09 — `freeze()`: the quantized weight used by `forward` is the same immediately before and after
freezing, freezing again changes nothing, along any interleaving of forward / freeze / deepcopy /
device moves; after freeze a weight is stored in `ceil(rows × bits / 8) × (numel / rows)` payload
bytes plus one scale (and zero-point) per output index or group.
Helper definitions (`forwardPositions`, `stepsBefore`) and lemmas live in `Proofs/C09/Lemmas.lean`.
-/
import Proofs.C09.Lemmas
namespace Quanto
open C09

/-! ### U1 — freeze keeps the quantized weight; freezing twice is freezing once -/

theorem C09_freeze_preserves_qweight (s : WState) : s.freeze.qweightVersion = s.qweightVersion :=
  WState.qweightVersion_freeze s

/-- freezing twice is freezing once -/
theorem C09_freeze_idempotent (s : WState) : s.freeze.freeze = s.freeze := by
  cases s <;> rfl

/-- every event except an optimizer step keeps the quantized weight -/
theorem C09_step_preserves_qweight (s : WState) (e : LifeEvent) (h : e ≠ .optimizerStep) :
    (s.step e).qweightVersion = s.qweightVersion :=
  WState.qweightVersion_step s e h

/-! ### U2 — any interleaving of forward / freeze / freeze-again / deepcopy / device moves -/

theorem C09_history (evs : List LifeEvent) (h : ∀ e ∈ evs, e ≠ .optimizerStep) (s : WState) :
    ∀ v ∈ forwardVersions s evs, v = s.qweightVersion :=
  forwardVersions_no_step evs h s

/-- same statement, as an equation on the whole list of outputs -/
theorem C09_history_eq (evs : List LifeEvent) (h : ∀ e ∈ evs, e ≠ .optimizerStep) (s : WState) :
    forwardVersions s evs = List.replicate (evs.count .forward) s.qweightVersion := by
  rw [List.eq_replicate_iff]
  exact ⟨forwardVersions_length evs s, C09_history evs h s⟩

/-- one output per `forward` -/
theorem C09_history_length (evs : List LifeEvent) (s : WState) :
    (forwardVersions s evs).length = evs.count .forward :=
  forwardVersions_length evs s

/-! ### U3 — a frozen weight ignores optimizer steps; an unfrozen one tracks them -/

theorem C09_frozen_ignores_steps (v : Nat) (evs : List LifeEvent) :
    ∀ w ∈ forwardVersions (.frozen v) evs, w = v :=
  forwardVersions_frozen v evs

/-- without a freeze, the forward at position `i` uses the initial float weight plus all the
optimizer steps before it -/
theorem C09_unfrozen_tracks_steps (v : Nat) (evs : List LifeEvent) (h : ∀ e ∈ evs, e ≠ .freeze) :
    forwardVersions (.float v) evs =
      (forwardPositions evs).map fun i => v + (evs.take i).count .optimizerStep := by
  rw [forwardVersions_float_eq]
  apply List.map_congr_left
  intro i _
  rw [stepsBefore_no_freeze evs h]

/-- with freezes: only the optimizer steps before the first freeze count (`stepsBefore`) -/
theorem C09_tracks_steps_until_freeze (v : Nat) (evs : List LifeEvent) :
    forwardVersions (.float v) evs = (forwardPositions evs).map fun i => v + stepsBefore evs i :=
  forwardVersions_float_eq evs v

/-! ### U4 — storage of a frozen weight -/

theorem C09_storage_8bit (q : QType) (rows cols : Nat) (gs : Option Nat) (h : q.bits = 8) :
    frozenPayloadBytes q rows cols gs = rows * cols ∧ frozenScaleCount q rows cols gs = rows := by
  unfold frozenPayloadBytes frozenScaleCount
  rw [h]
  exact ⟨rfl, rfl⟩

theorem C09_storage_lowbit_ungrouped (q : QType) (rows cols : Nat) (h : q.bits = 2 ∨ q.bits = 4) :
    frozenPayloadBytes q rows cols none = ceilDiv (rows * q.bits) 8 * cols ∧
      frozenScaleCount q rows cols none = rows := by
  rw [frozenPayloadBytes_low q h, frozenScaleCount_low q h]
  exact ⟨rfl, rfl⟩

/-- the payload `pack_weights` builds from a `[rows, cols]` code matrix has exactly
`frozenPayloadBytes` elements, and there is one scale per row -/
theorem C09_storage_matches_packing (q : QType) (bits rows cols : Nat) (hq : bits = q.bits)
    (hb : bits = 2 ∨ bits = 4) (t : T Nat) (ht : t.shape = [rows, cols]) :
    (packWeights bits t).shape = [ceilDiv (rows * bits) 8, cols] ∧
      prod (packWeights bits t).shape = frozenPayloadBytes q rows cols none ∧
      (packWeights bits t).data.size = frozenPayloadBytes q rows cols none ∧
      prod (keptShape t.shape true) = frozenScaleCount q rows cols none := by
  have hs : (packWeights bits t).shape = [ceilDiv (rows * bits) 8, cols] := by
    rw [C04_dense bits hb t, ht]; rfl
  have hp := (C09_storage_lowbit_ungrouped q rows cols (hq ▸ hb))
  have e : prod (packWeights bits t).shape = frozenPayloadBytes q rows cols none := by
    rw [hs, hp.1, ← hq]; simp [prod]
  refine ⟨hs, e, by rw [C04_dense_size, e], ?_⟩
  rw [hp.2, ht]; simp [keptShape, prod]

theorem C09_storage_lowbit_grouped (q : QType) (rows cols g : Nat) (h : q.bits = 2 ∨ q.bits = 4) :
    frozenPayloadBytes q rows cols (some g) = ceilDiv (rows * cols / g * q.bits) 8 * g ∧
      frozenScaleCount q rows cols (some g) = rows * cols / g := by
  rw [frozenPayloadBytes_low q h, frozenScaleCount_low q h]
  exact ⟨rfl, rfl⟩

/-- the grouped view of the weight is the `[R, g]` matrix, `R = rows * cols / g`, with as many
elements as the weight -/
theorem C09_grouped_view (rows cols g : Nat) (hr : 0 < rows) (hc : 0 < cols) (hg : 0 < g) (hd : g ∣ cols) :
    groupShape [rows, cols] true g = some [rows * cols / g, g] ∧ rows * cols / g * g = rows * cols := by
  have hs := groupShape_matrix rows cols g hr hc hg hd
  refine ⟨hs, ?_⟩
  have := C03_group_numel _ _ _ _ hs
  simpa [prod] using this

/-- grouped storage: what `pack_weights` builds from the grouped `[R, g]` code matrix has exactly
`frozenPayloadBytes` elements, and there is one scale per group row -/
theorem C09_storage_grouped_matches_packing (q : QType) (bits rows cols g : Nat) (hq : bits = q.bits)
    (hb : bits = 2 ∨ bits = 4) (hr : 0 < rows) (hc : 0 < cols) (hg : 0 < g) (hd : g ∣ cols)
    (t : T Nat) (ht : some t.shape = groupShape [rows, cols] true g) :
    (packWeights bits t).shape = [ceilDiv (rows * cols / g * bits) 8, g] ∧
      prod (packWeights bits t).shape = frozenPayloadBytes q rows cols (some g) ∧
      (packWeights bits t).data.size = frozenPayloadBytes q rows cols (some g) ∧
      prod (keptShape t.shape true) = frozenScaleCount q rows cols (some g) := by
  rw [groupShape_matrix rows cols g hr hc hg hd] at ht
  have ht := Option.some.inj ht
  have hs : (packWeights bits t).shape = [ceilDiv (rows * cols / g * bits) 8, g] := by
    rw [C04_dense bits hb t, ht]; rfl
  have hp := (C09_storage_lowbit_grouped q rows cols g (hq ▸ hb))
  have e : prod (packWeights bits t).shape = frozenPayloadBytes q rows cols (some g) := by
    rw [hs, hp.1, ← hq]; simp [prod]
  refine ⟨hs, e, by rw [C04_dense_size, e], ?_⟩
  rw [hp.2, ht]; simp [keptShape, prod]

/-- the automatic group size of a quantized module always satisfies the side conditions above -/
theorem C09_autogroup_storage (q : QType) (rows cols g : Nat) (h : q.bits = 2 ∨ q.bits = 4)
    (hr : 0 < rows) (ha : autoGroup cols = some g) :
    groupShape [rows, cols] true g = some [rows * cols / g, g] ∧
      frozenPayloadBytes q rows cols (some g) = ceilDiv (rows * cols / g * q.bits) 8 * g ∧
      frozenScaleCount q rows cols (some g) = rows * cols / g := by
  obtain ⟨hd, hm, hn⟩ := C14_autogroup_some cols g ha
  have hg : 0 < g := by
    simp only [List.mem_cons, List.not_mem_nil, or_false] at hm; omega
  exact ⟨groupShape_matrix rows cols g hr (by omega) hg hd, C09_storage_lowbit_grouped q rows cols g h⟩

/-! ### non-vacuity -/

example : forwardVersions (.float 7) [.forward, .freeze, .forward, .deepcopy, .freeze, .forward] = [7, 7, 7] := by
  decide

example : ∀ v ∈ forwardVersions (.float 7) [.forward, .freeze, .forward, .deepcopy, .freeze, .forward], v = 7 :=
  C09_history _ (by decide) (.float 7)

example : forwardVersions (.float 0) [.forward, .optimizerStep, .forward, .optimizerStep, .toDevice, .forward] =
    [0, 1, 2] := by decide

example : forwardVersions (.float 0) [.forward, .optimizerStep, .forward, .freeze, .optimizerStep, .forward] =
    [0, 1, 1] := by decide

example : (forwardPositions [.forward, .optimizerStep, .forward, .freeze, .optimizerStep, .forward]).map
    (fun i => stepsBefore [.forward, .optimizerStep, .forward, .freeze, .optimizerStep, .forward] i) = [0, 1, 1] := by
  decide

example : frozenPayloadBytes .qint4 8 256 (some 128) = 1024 ∧ frozenScaleCount .qint4 8 256 (some 128) = 16 := by
  decide

example : frozenPayloadBytes .qint4 8 256 (some 128) = ceilDiv (8 * 256 / 128 * 4) 8 * 128 ∧
    frozenScaleCount .qint4 8 256 (some 128) = 8 * 256 / 128 :=
  C09_storage_lowbit_grouped .qint4 8 256 128 (Or.inr rfl)

example : groupShape [8, 256] true 128 = some [16, 128] ∧ 8 * 256 / 128 * 128 = 8 * 256 :=
  C09_grouped_view 8 256 128 (by decide) (by decide) (by decide) (by decide)

example : frozenPayloadBytes .qint8 8 256 none = 2048 ∧ frozenScaleCount .qint8 8 256 none = 8 :=
  C09_storage_8bit .qint8 8 256 none rfl

example : frozenPayloadBytes .qint2 5 3 none = 6 ∧ frozenScaleCount .qint2 5 3 none = 5 := by decide

end Quanto

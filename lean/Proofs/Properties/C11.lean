import Quanto.Module
namespace Quanto

/-- until frozen, the forward after an optimizer step uses the quantization of the new weights -/
theorem C11_step_then_forward (v : Nat) :
    forwardVersions (.float v) [.forward, .optimizerStep, .forward] = [v, v + 1] := by
  simp [forwardVersions, WState.step, WState.qweightVersion]

end Quanto

/-
Property C11 — quantization and dequantization are identity maps for gradients, so for every
unfrozen quantized module the gradients reaching its float weight, bias and input equal those of
the float module evaluated with the dequantized weight and (de)quantized input, for any input
rank; frozen weights receive no gradient; until frozen every forward re-quantizes from the current
float weights, so an optimizer step is reflected by the next forward.

Matrices are index functions `Nat → Nat → Rat` restricted to explicit sizes `N` (flattened batch
rows), `K` (in_features), `O` (out_features).

* T3 `C11_forward_linear_in_input`, `C11_forward_linear_in_weight`, `C11_forward_differential`:
  the forward is linear in each operand; its increment is the differential used in T1 plus the
  second-order term; `C11_bias_gradient_is_sum_over_rows`, `C11_batch_flattening`,
  `C11_bias_gradient_any_rank`: the bias gradient sums over all leading dimensions;
* T1 `C11_adjoint_input`, `C11_adjoint_weight`, `C11_adjoint_bias`, `C11_adjoint`: the three
  tensors returned by `QTensorLinear.backward` are the adjoint of the differential of the float
  linear, for every `N K O`;
* T2 `C11_gradients_unique`: the adjoint identity determines the three gradients on the index
  ranges, so "equal to the float backward" is a theorem, not a definition;
* T4 `C11_ste`, `C11_module_gradients`, `C11_module_gradients_adjoint`: with straight-through
  quantizers the gradients reaching `(x, W, b)` are the float gradients at the quantized operands;
* T5 `C11_fresh_unfrozen`, `C11_fresh`, `C11_fresh_nth`, `C11_step_then_forward`: until frozen
  every forward uses the quantization of the current float version; `C11_frozen_weight_static`,
  `C11_freeze_stops_updates`: a frozen weight is never re-derived and ignores optimizer steps.
-/
import Quanto.Module
import Quanto.Grad
import Proofs.C11.Sums
import Proofs.C11.History
namespace Quanto

/-! ### T3 — linearity of the forward, bias gradient over any rank -/

/-- the forward is additive in the input (the bias is carried by one of the two summands) -/
theorem C11_forward_linear_in_input (K : Nat) (x x' w : Nat → Nat → Rat) (b : Nat → Rat) (i j : Nat) :
    linFwd K (fun i k => x i k + x' i k) w b i j
      = linFwd K x w b i j + linFwd K x' w (fun _ => 0) i j := by
  unfold linFwd
  rw [sumTo_congr (g := fun k => x i k * w j k + x' i k * w j k) (fun k _ => by ring), sumTo_add]
  ring

/-- the forward is additive in the weight -/
theorem C11_forward_linear_in_weight (K : Nat) (x w w' : Nat → Nat → Rat) (b : Nat → Rat) (i j : Nat) :
    linFwd K x (fun j k => w j k + w' j k) b i j
      = linFwd K x w b i j + linFwd K x w' (fun _ => 0) i j := by
  unfold linFwd
  rw [sumTo_congr (g := fun k => x i k * w j k + x i k * w' j k) (fun k _ => by ring), sumTo_add]
  ring

/-- the forward is homogeneous in the input and in the weight (bias-free part) -/
theorem C11_forward_smul_input (K : Nat) (c : Rat) (x w : Nat → Nat → Rat) (i j : Nat) :
    linFwd K (fun i k => c * x i k) w (fun _ => 0) i j = c * linFwd K x w (fun _ => 0) i j := by
  unfold linFwd
  rw [sumTo_congr (g := fun k => c * (x i k * w j k)) (fun k _ => by ring), sumTo_mul_left]
  ring

theorem C11_forward_smul_weight (K : Nat) (c : Rat) (x w : Nat → Nat → Rat) (i j : Nat) :
    linFwd K x (fun j k => c * w j k) (fun _ => 0) i j = c * linFwd K x w (fun _ => 0) i j := by
  unfold linFwd
  rw [sumTo_congr (g := fun k => c * (x i k * w j k)) (fun k _ => by ring), sumTo_mul_left]
  ring

/-- the increment of the forward at `(x, w, b)` along `(dX, dW, db)` is the differential paired
with `gO` in `C11_adjoint`, plus the second-order term `dX @ dWᵀ` -/
theorem C11_forward_differential (K : Nat) (x w dX dW : Nat → Nat → Rat) (b db : Nat → Rat) (i j : Nat) :
    linFwd K (fun i k => x i k + dX i k) (fun j k => w j k + dW j k) (fun j => b j + db j) i j
      = linFwd K x w b i j
        + (linFwd K dX w (fun _ => 0) i j + linFwd K x dW db i j)
        + linFwd K dX dW (fun _ => 0) i j := by
  unfold linFwd
  rw [sumTo_congr
    (g := fun k => (x i k * w j k + dX i k * w j k) + (x i k * dW j k + dX i k * dW j k))
    (fun k _ => by ring), sumTo_add, sumTo_add, sumTo_add]
  ring

/-- `bias_gO = gO.sum(all dims but the last)` over the flattened batch -/
theorem C11_bias_gradient_is_sum_over_rows (N : Nat) (gO : Nat → Nat → Rat) (j : Nat) :
    gradBias N gO j = sumTo N (fun i => gO i j) := rfl

/-- a batch of shape `[B1, B2]` flattened row-major (`i = b1 * B2 + b2`): the sum over the
flattened rows is the sum over both leading dimensions -/
theorem C11_batch_flattening (B1 B2 : Nat) (f : Nat → Rat) :
    sumTo (B1 * B2) f = sumTo B1 (fun b1 => sumTo B2 (fun b2 => f (b1 * B2 + b2))) :=
  sumTo_flatten B1 B2 f

/-- three leading dimensions `[B1, B2, B3]`, `i = (b1 * B2 + b2) * B3 + b3` -/
theorem C11_batch_flattening3 (B1 B2 B3 : Nat) (f : Nat → Rat) :
    sumTo (B1 * B2 * B3) f
      = sumTo B1 (fun b1 => sumTo B2 (fun b2 => sumTo B3 (fun b3 => f ((b1 * B2 + b2) * B3 + b3)))) := by
  rw [sumTo_flatten (B1 * B2) B3, sumTo_flatten B1 B2]

/-- the bias gradient of an input of shape `[B1, B2, in]` sums over both leading dimensions -/
theorem C11_bias_gradient_any_rank (B1 B2 : Nat) (gO : Nat → Nat → Rat) (j : Nat) :
    gradBias (B1 * B2) gO j = sumTo B1 (fun b1 => sumTo B2 (fun b2 => gO (b1 * B2 + b2) j)) := by
  unfold gradBias
  exact sumTo_flatten B1 B2 (fun i => gO i j)

/-! ### T1 — the explicit backward is the adjoint of the forward -/

/-- `⟨gO, dX @ wᵀ⟩ = ⟨gO @ w, dX⟩` -/
theorem C11_adjoint_input (N K O : Nat) (gO w dX : Nat → Nat → Rat) :
    inner2 N O gO (fun i j => linFwd K dX w (fun _ => 0) i j)
      = inner2 N K (gradInput O gO w) dX := by
  unfold inner2 linFwd gradInput
  refine sumTo_congr (fun i _ => ?_)
  have h1 : ∀ j, j < O →
      gO i j * (sumTo K (fun k => dX i k * w j k) + 0)
        = sumTo K (fun k => gO i j * w j k * dX i k) := by
    intro j _
    rw [add_zero, ← sumTo_mul_left]
    exact sumTo_congr (fun k _ => by ring)
  rw [sumTo_congr h1, sumTo_comm]
  refine sumTo_congr (fun k _ => ?_)
  rw [← sumTo_mul_right]

/-- `⟨gO, x @ dWᵀ⟩ = ⟨gOᵀ @ x, dW⟩` -/
theorem C11_adjoint_weight (N K O : Nat) (gO x dW : Nat → Nat → Rat) :
    inner2 N O gO (fun i j => linFwd K x dW (fun _ => 0) i j)
      = inner2 O K (gradWeight N gO x) dW := by
  unfold inner2 linFwd gradWeight
  have h1 : ∀ i, i < N → ∀ j, j < O →
      gO i j * (sumTo K (fun k => x i k * dW j k) + 0)
        = sumTo K (fun k => gO i j * x i k * dW j k) := by
    intro i _ j _
    rw [add_zero, ← sumTo_mul_left]
    exact sumTo_congr (fun k _ => by ring)
  rw [sumTo_congr (fun i hi => sumTo_congr (h1 i hi)), sumTo_comm]
  refine sumTo_congr (fun j _ => ?_)
  rw [sumTo_comm]
  refine sumTo_congr (fun k _ => ?_)
  rw [← sumTo_mul_right]

/-- `⟨gO, 1 ⊗ db⟩ = ⟨Σ_rows gO, db⟩` -/
theorem C11_adjoint_bias (N O : Nat) (gO : Nat → Nat → Rat) (db : Nat → Rat) :
    inner2 N O gO (fun _ j => db j) = inner1 O (gradBias N gO) db := by
  unfold inner2 inner1 gradBias
  rw [sumTo_comm]
  refine sumTo_congr (fun j _ => ?_)
  rw [← sumTo_mul_right]

/-- `⟨gO, d(forward)[dX, dW, db]⟩ = ⟨input_gO, dX⟩ + ⟨other_gO, dW⟩ + ⟨bias_gO, db⟩`: the three
tensors returned by `QTensorLinear.backward` are exactly the gradients of the float linear at
`(x, w, b)`, for every batch size `N` (any input rank after flattening) and feature sizes -/
theorem C11_adjoint (N K O : Nat) (gO x w dX dW : Nat → Nat → Rat) (db : Nat → Rat) :
    inner2 N O gO (fun i j => linFwd K dX w (fun _ => 0) i j + linFwd K x dW db i j)
      = inner2 N K (gradInput O gO w) dX + inner2 O K (gradWeight N gO x) dW
        + inner1 O (gradBias N gO) db := by
  rw [← C11_adjoint_input, ← C11_adjoint_weight, ← C11_adjoint_bias]
  unfold inner2
  rw [← sumTo_add, ← sumTo_add]
  refine sumTo_congr (fun i _ => ?_)
  rw [← sumTo_add, ← sumTo_add]
  refine sumTo_congr (fun j _ => ?_)
  unfold linFwd
  ring

/-! ### T2 — uniqueness of the adjoint -/

/-- any triple satisfying the adjoint identity for all perturbations coincides with the explicit
backward on the index ranges -/
theorem C11_gradients_unique (N K O : Nat) (gO x w gi gw : Nat → Nat → Rat) (gb : Nat → Rat)
    (h : ∀ (dX dW : Nat → Nat → Rat) (db : Nat → Rat),
      inner2 N O gO (fun i j => linFwd K dX w (fun _ => 0) i j + linFwd K x dW db i j)
        = inner2 N K gi dX + inner2 O K gw dW + inner1 O gb db) :
    (∀ i k, i < N → k < K → gi i k = gradInput O gO w i k)
    ∧ (∀ j k, j < O → k < K → gw j k = gradWeight N gO x j k)
    ∧ (∀ j, j < O → gb j = gradBias N gO j) := by
  have h' : ∀ (dX dW : Nat → Nat → Rat) (db : Nat → Rat),
      inner2 N K gi dX + inner2 O K gw dW + inner1 O gb db
        = inner2 N K (gradInput O gO w) dX + inner2 O K (gradWeight N gO x) dW
          + inner1 O (gradBias N gO) db :=
    fun dX dW db => (h dX dW db).symm.trans (C11_adjoint N K O gO x w dX dW db)
  refine ⟨?_, ?_, ?_⟩
  · intro i0 k0 hi hk
    have := h' (fun i k => if i = i0 ∧ k = k0 then 1 else 0) (fun _ _ => 0) (fun _ => 0)
    simpa [inner2_indicator hi hk, inner2_zero_right, inner1_zero_right] using this
  · intro j0 k0 hj hk
    have := h' (fun _ _ => 0) (fun j k => if j = j0 ∧ k = k0 then 1 else 0) (fun _ => 0)
    simpa [inner2_indicator hj hk, inner2_zero_right, inner1_zero_right] using this
  · intro j0 hj
    have := h' (fun _ _ => 0) (fun _ _ => 0) (fun j => if j = j0 then 1 else 0)
    simpa [inner1_indicator hj, inner2_zero_right] using this

/-! ### T4 — straight-through quantizers -/

/-- the backward of every quantizer / dequantizer returns the upstream gradient unchanged -/
theorem C11_ste (gO : Nat → Nat → Rat) : steBackward gO = gO := rfl

/-- module graph `x ↦ Q_in ↦ linear(·, Q_w(W), b) ↦ Q_out`: `xq`, `wq` stand for the
(de)quantized input and the dequantized quantized weight. The upstream gradient crosses the output
quantizer, the explicit linear backward at `(xq, wq)`, then the input / weight quantizers; what
reaches `(x, W, b)` is the float backward evaluated at the quantized operands -/
theorem C11_module_gradients (N O : Nat) (gO xq wq : Nat → Nat → Rat) :
    (let g := steBackward gO
     (steBackward (gradInput O g wq), steBackward (gradWeight N g xq), gradBias N g))
      = (gradInput O gO wq, gradWeight N gO xq, gradBias N gO) := rfl

/-- bridge between T1 and the property: the gradients that reach `(x, W, b)` through the
straight-through quantizers are the adjoint of the float linear's differential at `(xq, wq)` -/
theorem C11_module_gradients_adjoint (N K O : Nat) (gO xq wq dX dW : Nat → Nat → Rat)
    (db : Nat → Rat) :
    inner2 N O gO (fun i j => linFwd K dX wq (fun _ => 0) i j + linFwd K xq dW db i j)
      = inner2 N K (steBackward (gradInput O (steBackward gO) wq)) dX
        + inner2 O K (steBackward (gradWeight N (steBackward gO) xq)) dW
        + inner1 O (gradBias N (steBackward gO)) db :=
  C11_adjoint N K O gO xq wq dX dW db

/-! ### T5 — weight state machine -/

/-- until frozen, the forward after an optimizer step uses the quantization of the new weights -/
theorem C11_step_then_forward (v : Nat) :
    forwardVersions (.float v) [.forward, .optimizerStep, .forward] = [v, v + 1] := by
  simp [forwardVersions, WState.step, WState.qweightVersion]

/-- on a history without `freeze`, every forward uses the quantization of the current float
version (`expectedVersions`: forward ↦ emit `v`, optimizerStep ↦ `v + 1`, others ↦ unchanged) -/
theorem C11_fresh_unfrozen (v : Nat) (evs : List LifeEvent) (h : ∀ e ∈ evs, e ≠ .freeze) :
    forwardVersions (.float v) evs = expectedVersions v evs := by
  induction evs generalizing v with
  | nil => rfl
  | cons e es ih =>
    have hes : ∀ e ∈ es, e ≠ .freeze := fun e he => h e (List.mem_cons_of_mem _ he)
    have he : e ≠ .freeze := h e List.mem_cons_self
    cases e with
    | freeze => exact absurd rfl he
    | forward => simp [forwardVersions, expectedVersions, WState.qweightVersion, ih v hes]
    | optimizerStep => simp [forwardVersions, expectedVersions, WState.step, ih (v + 1) hes]
    | deepcopy => simp [forwardVersions, expectedVersions, WState.step, ih v hes]
    | toDevice => simp [forwardVersions, expectedVersions, WState.step, ih v hes]

/-- histories of optimizer steps and forwards on an unfrozen module -/
theorem C11_fresh (v : Nat) (evs : List LifeEvent)
    (h : ∀ e ∈ evs, e = .forward ∨ e = .optimizerStep) :
    forwardVersions (.float v) evs = expectedVersions v evs :=
  C11_fresh_unfrozen v evs (fun e he => by rcases h e he with h | h <;> simp [h])

/-- definition-free form: a forward that follows a freeze-free prefix `pre` uses the version
`v + (number of optimizer steps in pre)` -/
theorem C11_fresh_nth (v : Nat) (pre post : List LifeEvent) (h : ∀ e ∈ pre, e ≠ .freeze) :
    forwardVersions (.float v) (pre ++ .forward :: post)
      = forwardVersions (.float v) pre
        ++ (v + pre.count .optimizerStep)
          :: forwardVersions (.float (v + pre.count .optimizerStep)) post := by
  rw [forwardVersions_append_float v pre _ h]
  simp [forwardVersions, WState.qweightVersion]

/-- a frozen weight is never re-derived: every forward uses the version it was frozen from,
whatever happens in between (optimizer steps included) -/
theorem C11_frozen_weight_static (v : Nat) (evs : List LifeEvent) :
    forwardVersions (.frozen v) evs = List.replicate (evs.count .forward) v := by
  induction evs with
  | nil => rfl
  | cons e es ih =>
    cases e <;>
      simp [forwardVersions, step_frozen, WState.qweightVersion, ih, List.replicate_succ]

/-- an optimizer step never changes a frozen state -/
theorem C11_frozen_ignores_step (v : Nat) :
    (WState.frozen v).step .optimizerStep = .frozen v := rfl

/-- after `freeze` the module stops following the optimizer -/
theorem C11_freeze_stops_updates (v : Nat) (evs : List LifeEvent) :
    forwardVersions (.float v) (.freeze :: evs) = List.replicate (evs.count .forward) v := by
  simpa [forwardVersions, WState.step, WState.freeze] using C11_frozen_weight_static v evs

/-! ### non-vacuity -/

/-- T1 on concrete `2 × 3`, `2 × 3`, `2 × 2` matrices: both sides evaluate to the same non-zero
number -/
example :
    inner2 2 2 (fun i j => (i : Rat) + 2 * j + 1)
        (fun i j => linFwd 3 (fun i k => (i : Rat) - k) (fun j k => (j : Rat) * k + 1) (fun _ => 0) i j
          + linFwd 3 (fun i k => (i : Rat) * k + 1) (fun j k => (j : Rat) + k) (fun j => (j : Rat) + 1) i j)
      = 75
    ∧ inner2 2 3 (gradInput 2 (fun i j => (i : Rat) + 2 * j + 1) (fun j k => (j : Rat) * k + 1))
          (fun i k => (i : Rat) - k)
        + inner2 2 3 (gradWeight 2 (fun i j => (i : Rat) + 2 * j + 1) (fun i k => (i : Rat) * k + 1))
          (fun j k => (j : Rat) + k)
        + inner1 2 (gradBias 2 (fun i j => (i : Rat) + 2 * j + 1)) (fun j => (j : Rat) + 1)
      = 75 := by
  constructor <;>
    norm_num [inner2, inner1, linFwd, gradInput, gradWeight, gradBias, sumTo_succ, sumTo_zero]

example : forwardVersions (.float 3) [.forward, .optimizerStep, .optimizerStep, .forward] = [3, 5] := by
  rw [C11_fresh _ _ (by decide)]; rfl

example : expectedVersions 3 [.forward, .optimizerStep, .optimizerStep, .forward] = [3, 5] := rfl

example : forwardVersions (.float 3) [.forward, .optimizerStep, .freeze, .optimizerStep, .forward]
    = [3, 4] := by decide

example : forwardVersions (.frozen 7) [.forward, .optimizerStep, .forward] = [7, 7] :=
  C11_frozen_weight_static 7 _

end Quanto

import Quanto.Spec.C05
namespace Quanto

/-- placeholder until the op proofs land -/
theorem C05_detach_id (q : QB) : (match qbDetach q with | .qb r => r.size = q.size | _ => False) := by
  simp [qbDetach]

end Quanto
